#!/venv/bin/python
"""Mutation self-test of the checks.

    tools/selftest.py [--only ID ...] [--checks C01,C03] [--tier quick]

For every seeded change under /verif/seeded/<id>/ (patch.diff + meta.json) a scratch copy of /repo is made under
/var/tmp, the patch applied, and the checks named in meta.json["checks"] (default: the property it breaks) are run with
VERIF_REPO pointing at the copy.  A change counts as *caught* when the check of the property it breaks exits 1 with a
VIOLATION line.  The scratch copy is removed afterwards and the generated Lean files are restored from /repo.
Results: /verif/selftest/REPORT.md and selftest/results.json.  Never touches /repo.
"""
import argparse
import json
import os
import shutil
import subprocess
import sys
import time

VERIF = os.path.abspath(os.path.join(os.path.dirname(__file__), ".."))


def sh(cmd, **kw):
    p = subprocess.run(cmd, stdout=subprocess.PIPE, stderr=subprocess.STDOUT, text=True, **kw)
    return p.returncode, p.stdout


def main():
    ap = argparse.ArgumentParser()
    ap.add_argument("--only", nargs="*")
    ap.add_argument("--tier", default="quick")
    ap.add_argument("--seed", default="0")
    a = ap.parse_args()
    seeded = os.path.join(VERIF, "seeded")
    ids = sorted(d for d in os.listdir(seeded) if os.path.exists(os.path.join(seeded, d, "patch.diff")))
    if a.only:
        ids = [i for i in ids if i in a.only]
    results = []
    for mid in ids:
        meta = json.load(open(os.path.join(seeded, mid, "meta.json")))
        scratch = "/var/tmp/gsverif_selftest_%s" % mid
        shutil.rmtree(scratch, ignore_errors=True)
        sh(["git", "-C", "/repo", "worktree", "prune"])
        rc, out = sh(["git", "clone", "-q", "--no-hardlinks", "/repo", scratch])
        if rc != 0:
            print(out)
            return 2
        rc, out = sh(["git", "-C", scratch, "apply", os.path.join(seeded, mid, "patch.diff")])
        if rc != 0:
            results.append(dict(id=mid, error="patch does not apply: " + out[-300:]))
            shutil.rmtree(scratch, ignore_errors=True)
            continue
        row = dict(id=mid, breaks=meta["breaks"], checks={})
        for chk in meta.get("checks", [meta["breaks"]]):
            t = time.time()
            env = dict(os.environ, VERIF_REPO=scratch, VERIF_SEED=a.seed, VERIF_TIER=a.tier)
            rc, out = sh([os.path.join(VERIF, "check"), chk, "--tier", a.tier], env=env, cwd=VERIF)
            lines = [l for l in out.splitlines() if l.startswith("VIOLATION") or l.startswith("KNOWN-FINDING")]
            row["checks"][chk] = dict(exit=rc, wall_s=round(time.time() - t, 1), lines=[l[:160] for l in lines], tail=out.splitlines()[-1][:200] if out.splitlines() else "")
            print(mid, chk, "exit", rc, [l[:100] for l in lines], flush=True)
        row["caught"] = row["checks"].get(meta["breaks"], {}).get("exit") == 1
        row["with_failing_input"] = any("no-failing-input-found" not in l for l in row["checks"].get(meta["breaks"], {}).get("lines", []) if l.startswith("VIOLATION"))
        results.append(row)
        shutil.rmtree(scratch, ignore_errors=True)
    # restore the generated layer from the real repository
    sh(["/venv/bin/python", os.path.join(VERIF, "tools", "translate", "py2lean.py"), "--repo", "/repo", "--out", os.path.join(VERIF, "lean")])
    os.makedirs(os.path.join(VERIF, "selftest"), exist_ok=True)
    prev = {}
    rp = os.path.join(VERIF, "selftest", "results.json")
    if os.path.exists(rp):
        prev = {r["id"]: r for r in json.load(open(rp))}
    for r in results:
        prev[r["id"]] = r
    json.dump(sorted(prev.values(), key=lambda r: r["id"]), open(rp, "w"), indent=1)
    with open(os.path.join(VERIF, "selftest", "REPORT.md"), "w") as f:
        f.write("# Seeded-change self-test (tools/selftest.py)\n\n| seeded change | breaks | caught by its check | concrete failing input | other checks that also fired |\n|---|---|---|---|---|\n")
        for r in sorted(prev.values(), key=lambda r: r["id"]):
            if "error" in r:
                f.write("| %s | – | ERROR %s | | |\n" % (r["id"], r["error"]))
                continue
            others = [c for c, v in r["checks"].items() if c != r["breaks"] and v["exit"] == 1]
            f.write("| %s | %s | %s | %s | %s |\n" % (r["id"], r["breaks"], "yes" if r["caught"] else "**NO**", "yes" if r.get("with_failing_input") else "no", ", ".join(others)))
    return 0


if __name__ == "__main__":
    sys.exit(main())
