"""Layer-B correspondence for C02: Graph.calc_chi2 vs Model.graphChi2, edge χ² vs generated BaseEdge.calc_chi2."""
import math
import os
import sys

sys.path.insert(0, os.path.join(os.path.dirname(__file__), ".."))
from lib.common import Driver, Rng, f2h, h2f  # noqa: E402
from lib import graphgen as G  # noqa: E402
import numpy as np  # noqa: E402


def run(seed, n_graphs):
    drv = Driver()
    res = dict(cases=0, graphs=0, edges=0, disagreements=[], worlds={}, samples=[])
    try:
        for k in range(n_graphs):
            rng = Rng(seed, "chi2|%d" % k)
            cond = rng.choice([None, None, 1e4, 1e8])
            g, desc = G.make_graph(rng, noise=rng.choice([0.0, 0.05, 0.5]), cross=rng.random() < 0.8)
            if cond:
                for e in g._edges:
                    n = e.information.shape[0]
                    e.information = G.spd(rng, n, True, cond)
            res["worlds"][desc["world"]] = res["worlds"].get(desc["world"], 0) + 1
            chis = []
            for e in g._edges:
                err = np.asarray(e.calc_error(), dtype=np.float64).ravel()
                info = np.asarray(e.information, dtype=np.float64)
                c_impl = float(e.calc_chi2())
                c_model = drv.eval("BaseEdge.calc_chi2", [len(err)], list(err) + list(info.ravel()))[0]
                res["edges"] += 1
                res["cases"] += 1
                tol = 1e-11 * (1.0 + float(np.linalg.norm(info)) * float(err @ err))
                if not abs(c_impl - c_model) <= tol:
                    res["disagreements"].append(dict(stage="edge_chi2", graph=k, edge=type(e).__name__, impl=c_impl, model=c_model, err=err.tolist()))
                chis.append(c_impl)
            total_impl = g.calc_chi2()
            r = drv.ask("sum " + " ".join(f2h(c) for c in chis))
            total_model = h2f(r.split()[1])
            res["cases"] += 1
            res["graphs"] += 1
            same = (total_impl == total_model) or (math.isnan(total_impl) and math.isnan(total_model))
            if not same:
                res["disagreements"].append(dict(stage="graph_chi2", graph=k, impl=float(total_impl), model=total_model, edges=len(chis), desc=desc if len(res["disagreements"]) < 2 else None))
            if g._chi2 != total_impl:
                res["disagreements"].append(dict(stage="graph_chi2_cache", graph=k))
            if k < 2:
                res["samples"].append(dict(world=desc["world"], n_vertices=len(desc["vertices"]), n_edges=len(chis), graph_chi2=float(total_impl), edge_chi2=chis[:4]))
            if len(res["disagreements"]) > 5:
                break
    finally:
        drv.close()
    res["ok"] = not res["disagreements"]
    return res


if __name__ == "__main__":
    import json

    r = run(int(os.environ.get("VERIF_SEED", "0")), 30)
    print(json.dumps({k: v for k, v in r.items() if k != "samples"}, default=str)[:2000])
