"""Layer-B correspondence for C02: Graph.calc_chi2 vs Model.graphChi2, edge χ² vs generated BaseEdge.calc_chi2."""
import math
import os
import sys

sys.path.insert(0, os.path.join(os.path.dirname(__file__), ".."))
from lib.common import Driver, Rng, f2h, h2f  # noqa: E402
from lib import graphgen as G  # noqa: E402
import numpy as np  # noqa: E402


def run(seed, n_graphs):
    drv = Driver()
    res = dict(cases=0, graphs=0, edges=0, disagreements=[], worlds={}, samples=[])
    try:
        for k in range(n_graphs):
            rng = Rng(seed, "chi2|%d" % k)
            cond = rng.choice([None, None, 1e4, 1e8])
            g, desc = G.make_graph(rng, noise=rng.choice([0.0, 0.05, 0.5]), cross=rng.random() < 0.8)
            if cond:
                for e in g._edges:
                    n = e.information.shape[0]
                    e.information = G.spd(rng, n, True, cond)
            res["worlds"][desc["world"]] = res["worlds"].get(desc["world"], 0) + 1
            chis = []
            for e in g._edges:
                err = np.asarray(e.calc_error(), dtype=np.float64).ravel()
                info = np.asarray(e.information, dtype=np.float64)
                c_impl = float(e.calc_chi2())
                c_model = drv.eval("BaseEdge.calc_chi2", [len(err)], list(err) + list(info.ravel()))[0]
                res["edges"] += 1
                res["cases"] += 1
                tol = 1e-11 * (1.0 + float(np.linalg.norm(info)) * float(err @ err))
                if not abs(c_impl - c_model) <= tol:
                    res["disagreements"].append(dict(stage="edge_chi2", graph=k, edge=type(e).__name__, impl=c_impl, model=c_model, err=err.tolist()))
                chis.append(c_impl)
            total_impl = g.calc_chi2()
            r = drv.ask("sum " + " ".join(f2h(c) for c in chis))
            total_model = h2f(r.split()[1])
            res["cases"] += 1
            res["graphs"] += 1
            same = (total_impl == total_model) or (math.isnan(total_impl) and math.isnan(total_model))
            if not same:
                res["disagreements"].append(dict(stage="graph_chi2", graph=k, impl=float(total_impl), model=total_model, edges=len(chis), desc=desc if len(res["disagreements"]) < 2 else None))
            if g._chi2 != total_impl:
                res["disagreements"].append(dict(stage="graph_chi2_cache", graph=k))
            # history: the graph is edited after a chi2 evaluation (poses moved, measurements / information changed,
            # an optimize() in between); every later calc_chi2() must again be the sum over the *current* edges
            for step in range(rng.randrange(1, 4)):
                act = rng.choice(["move", "estimate", "info", "optimize"])
                if act == "move":
                    v = rng.choice(g._vertices)
                    v.pose = v.pose + np.array([rng.gauss(0, 0.3) for _ in range(v.pose.COMPACT_DIMENSIONALITY)])
                elif act == "estimate":
                    e = rng.choice(g._edges)
                    if hasattr(e.estimate, "COMPACT_DIMENSIONALITY"):
                        e.estimate = e.estimate + np.array([rng.gauss(0, 0.3) for _ in range(e.estimate.COMPACT_DIMENSIONALITY)])
                    else:
                        e.estimate = e.estimate + rng.gauss(0, 0.3)
                elif act == "info":
                    c = rng.choice([0.5, 2.0, 10.0])
                    for e in g._edges:
                        e.information = np.asarray(e.information) * c
                else:
                    import warnings

                    with warnings.catch_warnings():
                        warnings.simplefilter("ignore")
                        g.optimize(max_iter=1, verbose=False, fix_first_pose=False)
                chis2 = [float(e.calc_chi2()) for e in g._edges]
                t_impl = g.calc_chi2()
                t_model = h2f(drv.ask("sum " + " ".join(f2h(c) for c in chis2)).split()[1])
                res["cases"] += 1
                res["history_steps"] = res.get("history_steps", 0) + 1
                if not ((t_impl == t_model) or (math.isnan(t_impl) and math.isnan(t_model))):
                    res["disagreements"].append(dict(stage="graph_chi2_after_" + act, graph=k, impl=float(t_impl), model=t_model))
                    break
            if k < 2:
                res["samples"].append(dict(world=desc["world"], n_vertices=len(desc["vertices"]), n_edges=len(chis), graph_chi2=float(total_impl), edge_chi2=chis[:4]))
            if len(res["disagreements"]) > 5:
                break
    finally:
        drv.close()
    res["ok"] = not res["disagreements"]
    return res


if __name__ == "__main__":
    import json

    r = run(int(os.environ.get("VERIF_SEED", "0")), 30)
    print(json.dumps({k: v for k, v in r.items() if k != "samples"}, default=str)[:2000])
