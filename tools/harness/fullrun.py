"""End-to-end correspondence for a whole call of Graph.optimize on typed graphs (model: GraphSlam.Model.optimizeRun,
driver command `run`): the composition of the control model (Model.Ctl) and the iteration model (Model.GraphIter).

The harness sends the graph as plain data, tol, max_iter, fix_first_pose and the increments the real sparse solver returned
in each iteration (recorded by wrapping graphslam.graph.spsolve).  The model computes every chi2 itself from the states it
reaches, decides where to stop, builds the report and returns the final state.  Compared with the real call:

  converged, num_iterations, len(iteration_results), which entries are filled     exact
  initial_chi2, every iteration's chi2 and rel_diff, final_chi2                    1e-9 relative (other summation order)
  flags after the call                                                             exact
  every returned estimate                                                          1e-9 (SE(2) angle modulo 2 pi)

The model's chi2 differs from numpy's in the last bits, so a stopping decision taken within 1e-7 (relative) of the
threshold could legitimately differ: such runs are counted as `borderline` and not compared (the exact decision rule is
tied bitwise on the real chi2 sequence by tools/harness/ctl.py).
"""
import math
import os
import sys
import warnings

sys.path.insert(0, os.path.join(os.path.dirname(__file__), ".."))
from lib.common import Driver, Rng, f2h, h2f  # noqa: E402
from lib import graphgen as G  # noqa: E402
from harness.graphiter import graph_tokens, close  # noqa: E402
import numpy as np  # noqa: E402
import graphslam.graph as gg  # noqa: E402

EPS = float(np.finfo(float).eps)


def parse_report(s):
    out = {}
    for kv in s.split():
        k, v = kv.split("=", 1)
        out[k] = v
    its = []
    if out.get("iters"):
        for t in out["iters"].split(","):
            c, r, done = t.split(":")
            its.append((None if c == "none" else h2f(c), None if r == "none" else h2f(r), done == "1"))
    return dict(conv=out["conv"] == "1", n=None if out["n"] == "none" else int(out["n"]), init=None if out["init"] == "none" else h2f(out["init"]), final=None if out["final"] == "none" else h2f(out["final"]), iters=its)


def one_run(drv, g, desc, res, tag, tol, max_iter, ffp):
    bad = lambda stage, **kw: res["disagreements"].append(dict(stage=stage, graph=tag, tol=tol, max_iter=max_iter, fix_first_pose=ffp, desc=(desc if len(res["disagreements"]) < 2 else None), **kw))
    flags = [bool(v.fixed) for v in g._vertices]
    head = graph_tokens(g, ffp, flags)[2:]  # without "iter <ffp>"
    before = [(type(v.pose).__name__, np.array(v.pose)) for v in g._vertices]
    dxs = []
    orig = gg.spsolve

    def wrapped(A, rhs):
        dx = orig(A, rhs)
        dxs.append(np.array(dx, dtype=np.float64))
        return dx

    gg.spsolve = wrapped
    try:
        with warnings.catch_warnings():
            warnings.simplefilter("ignore")
            r = g.optimize(tol=tol, max_iter=max_iter, fix_first_pose=ffp, verbose=False)
    except Exception as ex:  # noqa: BLE001
        bad("optimize-raised", error="%s: %s" % (type(ex).__name__, ex))
        return
    finally:
        gg.spsolve = orig
    toks = ["run", f2h(float(tol)), str(max_iter), "1" if ffp else "0"] + head + [str(len(dxs))]
    for dx in dxs:
        toks += [str(len(dx))] + [f2h(float(x)) for x in dx]
    reply = drv.ask(" ".join(toks))
    res["cases"] += 1
    if not reply.startswith("ok "):
        bad("driver", reply=reply[:200])
        return
    parts = reply[3:].split("|")
    m = parse_report(parts[0].strip())
    chis = [float(r.initial_chi2)] + [float(it.chi2) for it in r.iteration_results if it.chi2 is not None]
    if not all(math.isfinite(c) for c in chis):
        res["nonfinite"] += 1
    # borderline stopping decisions are not compared
    for i in range(1, len(chis)):
        prev, cur = chis[i - 1], chis[i]
        if math.isfinite(prev) and math.isfinite(cur):
            rel = (prev - cur) / (prev + EPS)
            # with tol > 0: a relative decrease within 1e-7 of tol, or a plateau (chi2 equal up to rounding, where
            # `chi2 <= chi2_prev` is decided by the last bits); with tol == 0 the test `rel < 0` never fires on either side
            # ... or both values at the rounding floor of the chi2 arithmetic ((eps * scale)^2, e.g. 1e-29 after a noise-free graph
            # has converged): their order is decided by rounding, in numpy and in the model alike (seen in the thorough tier on the
            # unchanged tree: impl 1.21e-29 -> 1.52e-29 "increase", model a decrease)
            floor = 1e-24 * (1.0 + max((abs(c) for c in chis if math.isfinite(c)), default=0.0))
            if tol > 0 and (abs(rel - tol) <= 1e-7 * max(abs(rel), tol) or abs(cur - prev) <= 1e-9 * abs(prev) or max(abs(prev), abs(cur)) <= floor):
                res["borderline"] += 1
                return
    if m["conv"] != bool(r.converged) or m["n"] != r.num_iterations or len(m["iters"]) != len(r.iteration_results):
        bad("report-discrete", impl=dict(conv=bool(r.converged), n=r.num_iterations, len=len(r.iteration_results)), model=dict(conv=m["conv"], n=m["n"], len=len(m["iters"])), chi2_sequence=chis)
        return
    if not close(float(r.initial_chi2), m["init"], 1e-9) or not close(float(r.final_chi2), m["final"], 1e-9):
        bad("report-chi2", impl=[float(r.initial_chi2), float(r.final_chi2)], model=[m["init"], m["final"]])
        return
    for j, (it, (mc, mr, done)) in enumerate(zip(r.iteration_results, m["iters"])):
        res["cases"] += 1
        if (it.chi2 is None) != (mc is None) or (it.chi2 is not None and not close(float(it.chi2), mc, 1e-9)):
            bad("iteration-chi2", iteration=j, impl=None if it.chi2 is None else float(it.chi2), model=mc)
            return
        if (it.solve_duration_s is not None) != done if hasattr(it, "solve_duration_s") else False:
            bad("iteration-complete", iteration=j)
            return
    if [x == "1" for x in parts[1].split()] != [bool(v.fixed) for v in g._vertices]:
        bad("flags", impl=[bool(v.fixed) for v in g._vertices], model=parts[1])
        return
    pw = parts[2].split()
    if pw == ["illtyped"]:
        bad("illtyped")
        return
    k = 0
    for (cname, p0), v in zip(before, g._vertices):
        d = len(p0)
        exp = np.array([h2f(w) for w in pw[k : k + d]])
        k += d
        p1 = np.array(v.pose)
        res["cases"] += 1
        if v.fixed:
            if p1.tobytes() != p0.tobytes() or exp.tobytes() != p0.tobytes():
                bad("fixed-moved", vertex=v.id)
                return
            continue
        if not (np.all(np.isfinite(exp)) and np.all(np.isfinite(p1))):
            if not np.array_equal(np.isfinite(exp), np.isfinite(p1)):
                bad("final-nonfinite", vertex=v.id, after=p1.tolist(), model=exp.tolist())
                return
            continue
        ok = close(p1, exp, 1e-9)
        if cname == "PoseSE2" and not ok:
            ok = close(p1[:2], exp[:2], 1e-9) and abs(math.remainder(p1[2] - exp[2], 2 * math.pi)) < 1e-8
        if not ok:
            bad("final-state", vertex=v.id, after=p1.tolist(), model=exp.tolist(), iterations=r.num_iterations)
            return
    res["runs"] += 1
    res["iterations"][str(r.num_iterations)] = res["iterations"].get(str(r.num_iterations), 0) + 1
    res["outcomes"]["converged" if r.converged else "max_iter"] = res["outcomes"].get("converged" if r.converged else "max_iter", 0) + 1


def run(seed, n_graphs):
    drv = Driver()
    res = dict(cases=0, runs=0, disagreements=[], worlds={}, iterations={}, outcomes={}, borderline=0, nonfinite=0, samples=[])
    try:
        for k in range(n_graphs):
            rng = Rng(seed, "fullrun|%d" % k)
            fix = rng.choice(["first", "random", "random", "none"])
            ffp = fix == "first" or rng.random() < 0.4
            g, desc = G.make_graph(rng, fix=fix, custom=False, noise=rng.choice([0.02, 0.1, 0.5]), ids=rng.choice(["shuffled", "huge", "plain"]), well_posed=rng.random() < 0.85)
            tol = rng.choice([0.0, 1e-10, 1e-6, 1e-4, 1e-2, 0.3])
            mi = rng.randrange(1, 9)
            if desc["world"] in ("r2", "r3") and rng.random() < 0.7:
                # linear graphs sit on a plateau from the second iteration on: keep most of them decidable
                tol, mi = rng.choice([(0.0, mi), (tol, rng.randrange(1, 3))])
            res["worlds"][desc["world"]] = res["worlds"].get(desc["world"], 0) + 1
            one_run(drv, g, desc, res, k, tol, mi, ffp)
            # a second call on the same object continues from the returned state
            if rng.random() < 0.4 and not res["disagreements"] and all(np.all(np.isfinite(np.asarray(v.pose))) for v in g._vertices):
                one_run(drv, g, desc, res, "%d/second-call" % k, rng.choice([0.0, 1e-6, 1e-2]), rng.randrange(1, 5), rng.random() < 0.3)
            if k < 2:
                res["samples"].append(dict(world=desc["world"], n_vertices=len(desc["vertices"]), n_edges=len(desc["edges"]), tol=tol, max_iter=mi))
            if len(res["disagreements"]) > 3:
                break
    finally:
        drv.close()
    res["ok"] = not res["disagreements"]
    return res


if __name__ == "__main__":
    import json

    r = run(int(os.environ.get("VERIF_SEED", "0")), int(sys.argv[1]) if len(sys.argv) > 1 else 40)
    print(json.dumps(r, default=str)[:3500])
