"""Layer-B correspondence for C12: the report of Graph.optimize vs Model.optimizeCtl on the χ² sequence the real run saw."""
import math
import os
import sys
import warnings

sys.path.insert(0, os.path.join(os.path.dirname(__file__), ".."))
from lib.common import Driver, Rng, f2h, h2f  # noqa: E402
from lib import graphgen as G  # noqa: E402
import numpy as np  # noqa: E402
from scipy.sparse import identity as sp_identity  # noqa: E402

EPS = float(np.finfo(float).eps)


def run_real(g, tol, max_iter, fix_first_pose, verbose, synthetic=None):
    """runs the real optimize(); returns (report dict | exception name, χ² sequence consumed)"""
    seq = []
    orig_cgh = g._calc_chi2_gradient_hessian
    orig_chi2 = g.calc_chi2
    if synthetic is None:

        def cgh():
            orig_cgh()
            seq.append(float(g._chi2))

        def cc():
            r = orig_chi2()
            seq.append(float(r))
            return r

    else:
        it = iter(synthetic)
        n = g._len_gradient

        def cgh():
            g._chi2 = next(it)
            g._gradient = np.zeros(n)
            g._hessian = sp_identity(n, format="lil")
            seq.append(float(g._chi2))

        def cc():
            g._chi2 = next(it)
            seq.append(float(g._chi2))
            return g._chi2

    g._calc_chi2_gradient_hessian = cgh
    g.calc_chi2 = cc
    try:
        with warnings.catch_warnings():
            warnings.simplefilter("ignore")
            if verbose:
                import contextlib
                import io

                with contextlib.redirect_stdout(io.StringIO()):
                    r = g.optimize(tol=tol, max_iter=max_iter, fix_first_pose=fix_first_pose, verbose=True)
            else:
                r = g.optimize(tol=tol, max_iter=max_iter, fix_first_pose=fix_first_pose, verbose=False)
    except Exception as e:  # noqa
        return type(e).__name__, seq
    finally:
        del g._calc_chi2_gradient_hessian
        del g.calc_chi2
    rep = dict(
        conv=bool(r.converged),
        n=r.num_iterations,
        init=None if r.initial_chi2 is None else float(r.initial_chi2),
        final=None if r.final_chi2 is None else float(r.final_chi2),
        iters=[(None if it.chi2 is None else float(it.chi2), None if it.rel_diff is None else float(it.rel_diff), it.is_complete_iteration()) for it in r.iteration_results],
    )
    return rep, seq


def fh(x):
    return "none" if x is None else f2h(x)


def canon_real(rep):
    if isinstance(rep, str):
        return "err " + rep
    its = ",".join("%s:%s:%d" % (fh(c), fh(r), 1 if k else 0) for c, r, k in rep["iters"])
    return "ok conv=%d n=%s init=%s final=%s iters=%s" % (1 if rep["conv"] else 0, "none" if rep["n"] is None else rep["n"], fh(rep["init"]), fh(rep["final"]), its)


def canon_nan(s):
    """all NaN bit patterns are one value"""
    import re

    def f(m):
        v = h2f(m.group(0))
        return "nan" if math.isnan(v) else m.group(0)

    return re.sub(r"\b[0-9a-f]{16}\b", f, s)


def synthetic_sequences(rng, n):
    kind = rng.choice(["decay", "plateau", "increase", "nan", "zero", "negative", "mixed", "equal", "epszero"])
    if kind == "decay":
        c, out = rng.logu(1, 1e6), []
        for _ in range(n):
            out.append(c)
            c *= rng.uniform(0.0, 1.0) ** rng.choice([0.1, 1, 5])
        return kind, out
    if kind == "plateau":
        c = rng.logu(1e-3, 1e3)
        return kind, [c * (1 + (rng.uniform(-1, 1) * 10 ** rng.uniform(-17, -3) if rng.random() < 0.7 else 0.0)) for _ in range(n)]
    if kind == "increase":
        c, out = rng.logu(1e-3, 1e3), []
        for _ in range(n):
            out.append(c)
            c *= rng.uniform(0.5, 3.0)
        return kind, out
    if kind == "nan":
        out = [rng.logu(1e-3, 1e3) for _ in range(n)]
        for k in range(rng.randrange(1, n)):
            out[rng.randrange(n)] = rng.choice([float("nan"), float("inf")])
        return kind, out
    if kind == "zero":
        return kind, [0.0 if rng.random() < 0.6 else rng.logu(1e-20, 1e-3) for _ in range(n)]
    if kind == "negative":
        return kind, [rng.uniform(-2, 2) for _ in range(n)]
    if kind == "equal":
        c = rng.logu(1e-3, 1e3)
        return kind, [c] * n
    if kind == "epszero":
        # chi2_prev + eps == 0 (division by zero path)
        out = [rng.uniform(-1, 1) for _ in range(n)]
        out[rng.randrange(n)] = -EPS
        return kind, out
    return kind, [rng.choice([0.0, 1.0, 1.0 + 1e-9, 0.5, 2.0, 1e-300, 1e300]) for _ in range(n)]


def run(seed, n_real, n_syn):
    drv = Driver()
    res = dict(cases=0, disagreements=[], kinds={}, outcomes={}, samples=[], boundary_cases=0)
    small = None

    def one(tag, g, tol, max_iter, ffp, verbose, synthetic=None):
        rep, seq = run_real(g, tol, max_iter, ffp, verbose, synthetic)
        line = "ctl %s %s %d %s" % (f2h(tol), f2h(EPS), max_iter, " ".join(f2h(c) for c in seq))
        model = canon_nan(drv.ask(line))
        real = canon_nan(canon_real(rep))
        res["cases"] += 1
        res["kinds"][tag] = res["kinds"].get(tag, 0) + 1
        oc = "error" if isinstance(rep, str) else ("early-stop" if rep["conv"] and rep["n"] < max_iter else "converged-at-limit" if rep["conv"] else "limit")
        res["outcomes"][oc] = res["outcomes"].get(oc, 0) + 1
        if model != real:
            res["disagreements"].append(dict(kind=tag, tol=tol, max_iter=max_iter, seq=seq, real=real, model=model))
        if len(res["samples"]) < 3 and not isinstance(rep, str) and rep["n"]:
            res["samples"].append(dict(kind=tag, tol=tol, max_iter=max_iter, chi2_sequence=seq[:6], report=dict(conv=rep["conv"], n=rep["n"], final=rep["final"], len_iters=len(rep["iters"]))))
        return rep, seq

    try:
        for k in range(n_real):
            rng = Rng(seed, "ctl-real|%d" % k)
            g, desc = G.make_graph(rng, noise=rng.choice([0.02, 0.2, 1.5]), well_posed=rng.random() < 0.8, fix=rng.choice(["first", "random"]))
            tol = rng.choice([0.0, 1e-12, 1e-8, 1e-4, 1e-2, 1e-1, 0.5])
            mi = rng.randrange(0, 12)
            ffp = rng.random() < 0.6
            rep, seq = one("real:" + desc["world"], g, tol, mi, ffp, rng.random() < 0.2)
            # boundary: feed each observed relative difference back as tol (and its float neighbours): hits < vs <=
            if not isinstance(rep, str) and len(seq) >= 2 and k % 3 == 0:
                for i in range(1, min(len(seq), 4)):
                    prev, cur = seq[i - 1], seq[i]
                    if not (math.isfinite(prev) and math.isfinite(cur)) or prev + EPS == 0:
                        continue
                    rd = (prev - cur) / (prev + EPS)
                    for t in (rd, math.nextafter(rd, math.inf), math.nextafter(rd, -math.inf)):
                        if math.isfinite(t):
                            one("boundary", None or G.rebuild(desc), t, mi, ffp, False, synthetic=seq + [seq[-1]] * (mi + 2))
                            res["boundary_cases"] += 1
        g0, _ = G.make_graph(Rng(seed, "ctl-syn-graph"), world="r2", nv=3, custom=False)
        for k in range(n_syn):
            rng = Rng(seed, "ctl-syn|%d" % k)
            mi = rng.randrange(0, 9)
            kind, seq = synthetic_sequences(rng, mi + 2)
            tol = rng.choice([0.0, 1e-12, 1e-4, 1e-1, 1.0, -1.0, float("inf"), float("nan")])
            one("syn:" + kind, g0, tol, mi, rng.random() < 0.5, False, synthetic=seq)
            if len(res["disagreements"]) > 5:
                break
    finally:
        drv.close()
    res["ok"] = not res["disagreements"]
    return res


if __name__ == "__main__":
    import json

    r = run(int(os.environ.get("VERIF_SEED", "0")), 60, 300)
    print(json.dumps(r, default=str)[:3000])
