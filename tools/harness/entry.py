"""Entry points called by tools/check.py: every function takes (seed, tier, **kw) and returns a dict with at least
ok (bool), cases (int), samples (list)."""
import os
import sys

sys.path.insert(0, os.path.join(os.path.dirname(__file__), ".."))


def _pick(tier, quick, thorough):
    """budget per tier; `escalated` (the source of the property's cone differs from the modelled baseline, tools/lib/fingerprint.py)
    is six times the quick budget, capped by the thorough one"""
    if tier == "quick":
        return quick
    if tier == "escalated":
        if isinstance(quick, tuple):
            return tuple(min(t, 6 * q) for q, t in zip(quick, thorough))
        return min(thorough, 6 * quick)
    return thorough


def layer_a(seed, tier, only=None, quick=25, thorough=400):
    from harness import layer_a as L

    r = L.run(seed, _pick(tier, quick, thorough), only)
    nontriv = sum(v["cases"] for k, v in r["per_def"].items() if v["cases"] > 1)
    return dict(ok=r["ok"], cases=r["cases"], distinct_nontrivial=nontriv, defs=r["defs"], strata=r["strata"], samples=r["samples"], disagreements=r["disagreements"], errors=r["errors"])


def graph_chi2(seed, tier, quick=60, thorough=2000):
    from harness import chi2 as C

    r = C.run(seed, _pick(tier, quick, thorough))
    return dict(ok=r["ok"], cases=r["cases"], distinct_nontrivial=r["edges"], graphs=r["graphs"], worlds=r["worlds"], samples=r["samples"], disagreements=r["disagreements"][:3])


def assembly(seed, tier, quick=80, thorough=3000):
    from harness import assembly as A

    r = A.run(seed, _pick(tier, quick, thorough))
    return dict(ok=r["ok"], cases=r["cases"], distinct_nontrivial=r["graphs"], graphs=r["graphs"], worlds=r["worlds"], features=r["features"], solve_checked=r["solve_checked"], solve_nonfinite=r["solve_nonfinite"], fixed_vertices=r["fixed_vertices"], samples=r["samples"], disagreements=r["disagreements"][:3])


def graphiter(seed, tier, quick=60, thorough=2500):
    from harness import graphiter as GI

    r = GI.run(seed, _pick(tier, quick, thorough))
    return dict(ok=r["ok"], cases=r["cases"], distinct_nontrivial=r["graphs"], graphs=r["graphs"], worlds=r["worlds"], features=r["features"], fixed_vertices=r["fixed_vertices"], samples=r["samples"], disagreements=r["disagreements"][:3])


def fullrun(seed, tier, quick=60, thorough=2500):
    from harness import fullrun as FR

    r = FR.run(seed, _pick(tier, quick, thorough))
    return dict(ok=r["ok"], cases=r["cases"], distinct_nontrivial=r["runs"], runs=r["runs"], worlds=r["worlds"], iterations=r["iterations"], outcomes=r["outcomes"], borderline_not_compared=r["borderline"], nonfinite=r["nonfinite"], samples=r["samples"], disagreements=r["disagreements"][:3])


def ctl(seed, tier, quick=(60, 400), thorough=(1500, 20000)):
    from harness import ctl as C

    a, b = _pick(tier, quick, thorough)
    r = C.run(seed, a, b)
    return dict(ok=r["ok"], cases=r["cases"], distinct_nontrivial=r["cases"], kinds=r["kinds"], outcomes=r["outcomes"], boundary_cases=r["boundary_cases"], samples=r["samples"], disagreements=r["disagreements"][:3])


def numjac(seed, tier, quick=40, thorough=1500):
    from harness import numjac as N

    r = N.run(seed, _pick(tier, quick, thorough))
    return dict(ok=r["ok"], cases=r["cases"], distinct_nontrivial=r["edges"], kinds=r["kinds"], arities=r["arities"], samples=r["samples"], disagreements=r["disagreements"][:3])


def numiter(seed, tier, quick=30, thorough=800):
    """C16: the typed numerical-Jacobian graph model (Props/C16/NumModel.lean numSystem / numStep, driver commands `numiterm` /
    `numiter`) vs the real optimize(max_iter=1) on graphs whose built-in edges are forced onto BaseEdge.calc_jacobians"""
    from harness import numiter as NI

    r = NI.run(seed, _pick(tier, quick, thorough))
    keys = ("graphs", "edges", "worlds", "features", "fixed_vertices", "nonfinite_updates", "literal_checked", "self_loop_edges", "worst_b", "worst_H", "worst_update", "analytic_compared", "analytic_distinguishable", "analytic_distinguishable_at_1e-9", "eps", "tolerances")
    return dict(ok=r["ok"], cases=r["cases"], distinct_nontrivial=r["graphs"], samples=r["samples"], disagreements=r["disagreements"][:3], **{k: r[k] for k in keys})


def purity(seed, tier, quick=(60, 40), thorough=(3000, 50)):
    from harness import purity as P

    a, b = _pick(tier, quick, thorough)
    r = P.run(seed, a, b)
    return dict(ok=r["ok"], cases=r["cases"], distinct_nontrivial=r["cases"], traces=r["traces"], ops=r["ops"], alias_probes=r["alias_probes"], samples=r["samples"], disagreements=r["disagreements"][:3])


def g2o(seed, tier, quick=(1500, 800), thorough=(10000, 5000)):
    """C13 / C14: the .g2o model (driver gsdriver_g2o) vs Graph.to_g2o / Graph.from_g2o / load.py on real temporary files"""
    from harness import g2o as G

    n_graphs, n_files = _pick(tier, quick, thorough)
    r = G.run(seed, n_graphs, n_files)
    keys = ("export_cases", "import_cases", "char_cases", "export_outcomes", "import_outcomes", "loaders", "line_kinds", "element_kinds", "cycles", "defects", "spellings",
            "max_lines", "warnings_seen", "nan_atoms_outside_assumption", "idempotence", "not_modelled")
    return dict(ok=r["ok"], cases=r["cases"], distinct_nontrivial=r["distinct_nontrivial"], samples=r["samples"], disagreements=r["disagreements"][:4], errors=r["assumption_failures"], **{k: r[k] for k in keys})


def heap(seed, tier, quick=(60, 30), thorough=(1200, 30)):
    """C15: the object-identity model (Model/Heap.lean, driver command `heap`) vs the real objects on aliased worlds and histories"""
    from harness import heap as HP

    a, b = _pick(tier, quick, thorough)
    r = HP.run(seed, a, b)
    keep = {k: v for k, v in r.items() if k not in ("samples", "disagreements", "ok", "cases") and isinstance(v, (int, float, str, dict, list))}
    return dict(ok=r["ok"], cases=r["cases"], distinct_nontrivial=r.get("traces", r["cases"]), samples=r.get("samples", [])[:3], disagreements=r["disagreements"][:3], **{k: keep[k] for k in list(keep)[:14]})
