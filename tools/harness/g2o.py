"""Layer-B correspondence for C13 / C14: the Lean model of the .g2o writer and reader (lean/GraphSlam/Model/G2O*)
against Graph.to_g2o / Graph.from_g2o / load.py of the real library, on real temporary files.

(i)  export: the model's text must be string-equal to the file Graph.to_g2o wrote, or both refuse with the same
     exception class (and leave the same partial file);
(ii) import: the model's parse must equal the real objects bitwise (every float by bit pattern, ids, classes, order,
     offset ids, parameter dictionary, log records as a multiset), or both raise the same exception class;
(iii) characters: readlines / strip / rstrip / split of every line, and str.isspace of every code point.

Numbers are atoms for the model: the harness supplies per request the finite tables float()/int()/str()/neg_pi_to_pi/
normalize() computed with the real functions, and re-checks the trusted assumption float(str(x)) == x (bitwise),
str(x) non-empty and whitespace-free, on every value it generates."""
import logging
import math
import os
import shutil
import struct
import sys
import warnings

sys.path.insert(0, os.path.join(os.path.dirname(__file__), ".."))
from lib.common import Driver, Rng, use_repo  # noqa: E402

use_repo()
import numpy as np  # noqa: E402
from graphslam.edge.base_edge import BaseEdge  # noqa: E402
from graphslam.edge.edge_landmark import EdgeLandmark  # noqa: E402
from graphslam.edge.edge_odometry import EdgeOdometry  # noqa: E402
from graphslam.g2o_parameters import G2OParameterSE2Offset, G2OParameterSE3Offset  # noqa: E402
from graphslam.graph import Graph  # noqa: E402
from graphslam import load as LOAD  # noqa: E402
from graphslam.pose.base_pose import BasePose  # noqa: E402
from graphslam.pose.r2 import PoseR2  # noqa: E402
from graphslam.pose.r3 import PoseR3  # noqa: E402
from graphslam.pose.se2 import PoseSE2  # noqa: E402
from graphslam.pose.se3 import PoseSE3  # noqa: E402
from graphslam.util import neg_pi_to_pi, upper_triangular_matrix_to_full_matrix  # noqa: E402
from graphslam.vertex import Vertex  # noqa: E402

TMP_ROOT = "/var/tmp/g2o_harness"
KIND = {PoseR2: "r2", PoseR3: "r3", PoseSE2: "se2", PoseSE3: "se3"}
ZERO = "0000000000000000"
LOADERS = dict(g2o=LOAD.load_g2o, r2=LOAD.load_g2o_r2, r3=LOAD.load_g2o_r3, se2=LOAD.load_g2o_se2, se3=LOAD.load_g2o_se3)
ERR_ENUM = ("ValueError", "IndexError", "KeyError", "AssertionError", "NotImplementedError")


class PoseOther(BasePose):
    """a pose class the .g2o vocabulary does not know"""

    COMPACT_DIMENSIONALITY = 2

    def __new__(cls, position):
        return np.asarray(position, dtype=np.float64).view(cls)


# ----------------------------------------------------------------------------- atoms and strings


def bits(x):
    return "%016x" % struct.unpack("<Q", struct.pack("<d", float(x)))[0]


def unbits(s):
    return struct.unpack("<d", struct.pack("<Q", int(s, 16)))[0]


def enc(s):
    return ".".join("%x" % ord(c) for c in s) if s else "-"


def dec(s):
    return "" if s == "-" else "".join(chr(int(w, 16)) for w in s.split("."))


def arr_bits(a):
    return [bits(x) for x in np.asarray(a, dtype=np.float64).ravel()]


# ----------------------------------------------------------------------------- custom edge types (shape of tests/edge_types.py)


class CustomBase(BaseEdge):
    SPEC = None  # (tag, n_ids, est_dim, info_dim, has_to, has_from)
    CLS_INDEX = 0

    def is_valid(self):
        return self._is_valid()

    def calc_error(self):
        return np.zeros(self.SPEC[3])


def make_custom(index, tag, n_ids, est_dim, info_dim, has_to, has_from):
    ns = dict(SPEC=(tag, n_ids, est_dim, info_dim, has_to, has_from), CLS_INDEX=index)
    if has_to:

        def to_g2o(self):
            fields = ["{}".format(i) for i in self.vertex_ids] + ["{}".format(x) for x in self.estimate]
            return tag + " " + " ".join(fields) + " " + " ".join([str(x) for x in self.information[np.triu_indices(info_dim, 0)]]) + "\n"

        ns["to_g2o"] = to_g2o
    if has_from:

        def from_g2o(cls, line, g2o_params_or_none=None):
            if line.startswith(tag + " "):
                numbers = line[len(tag + " "):].split()  # fmt: skip
                arr = np.array([float(number) for number in numbers[n_ids:]], dtype=np.float64)
                vertex_ids = [int(numbers[i]) for i in range(n_ids)]
                estimate = arr[:est_dim]
                information = upper_triangular_matrix_to_full_matrix(arr[est_dim:], info_dim)
                return cls(vertex_ids, information, estimate)
            return None

        ns["from_g2o"] = classmethod(from_g2o)
    return type("Custom%d" % index, (CustomBase,), ns)


def spec_token(cls):
    tag, n_ids, est_dim, info_dim, _, has_from = cls.SPEC
    return "%s,%d,%d,%d,%d" % (enc(tag), n_ids, est_dim, info_dim, 1 if has_from else 0)


# ----------------------------------------------------------------------------- serialisation of real objects


class NotModelled(Exception):
    pass


def pose_item(p):
    return "%s:%s" % (KIND.get(type(p), "other"), ",".join(arr_bits(p)))


def info_item(m):
    m = np.asarray(m)
    if m.ndim != 2 or m.dtype != np.float64:
        raise NotModelled("information must be a 2-D float64 array")
    return ";".join(",".join(bits(x) for x in row) for row in m)


def the_int(i):
    if type(i) is not int:
        raise NotModelled("id of type %s" % type(i).__name__)
    return i


def graph_items(g, customs=()):
    """the model's view of a constructed Graph (order preserved); float atoms by bit pattern"""
    items = []
    for key, p in (g._g2o_params or {}).items():
        if key != p.key:
            raise NotModelled("parameter stored under a key different from its own")
        kind = {G2OParameterSE2Offset: "se2", G2OParameterSE3Offset: "se3"}[type(p)]
        if key[0] != {"se2": "PARAMS_SE2OFFSET", "se3": "PARAMS_SE3OFFSET"}[kind]:
            raise NotModelled("parameter tag")
        items.append("p:%s:%d:%s" % (kind, the_int(key[1]), pose_item(p.value)))
    for v in g._vertices:
        items.append("v:%d:%s" % (the_int(v.id), pose_item(v.pose)))
    for e in g._edges:
        ids = ",".join(str(the_int(i)) for i in e.vertex_ids)
        if type(e) is EdgeOdometry:
            items.append("e:odo:%s:%s:%s" % (ids, info_item(e.information), pose_item(e.estimate)))
        elif type(e) is EdgeLandmark:
            oid = "None" if e.offset_id is None else str(the_int(e.offset_id))
            items.append("e:lm:%s:%s:%s:%s:%s" % (ids, info_item(e.information), pose_item(e.estimate), pose_item(e.offset), oid))
        elif isinstance(e, CustomBase):
            out = e.to_g2o()
            items.append("e:cu:%s:%s:%d:%s:%s" % (ids, info_item(e.information), e.CLS_INDEX, ",".join(arr_bits(e.estimate)), "None" if out is None else enc(out)))
        else:
            raise NotModelled("edge class %s" % type(e).__name__)
    return items


def import_items(g):
    """as graph_items, but a custom edge's to_g2o() output is not part of what the reader produced"""
    out = []
    for it in graph_items(g):
        if it.startswith("e:cu:"):
            it = it.rsplit(":", 1)[0] + ":None"
        out.append(it)
    return out


def item_atoms(items):
    """(float atoms, ids) occurring in a list of graph items"""
    fl, ids = set(), set()
    for it in items:
        f = it.split(":")
        if f[0] == "p":
            ids.add(f[2])
            fl.update(x for x in f[4].split(",") if x)
        elif f[0] == "v":
            ids.add(f[1])
            fl.update(x for x in f[3].split(",") if x)
        else:
            ids.update(x for x in f[2].split(",") if x)
            for row in f[3].split(";"):
                fl.update(x for x in row.split(",") if x)
            if f[1] == "odo":
                fl.update(x for x in f[5].split(",") if x)
            elif f[1] == "lm":
                fl.update(x for x in f[5].split(",") if x)
                fl.update(x for x in f[7].split(",") if x)
                if f[8] != "None":
                    ids.add(f[8])
            else:
                fl.update(x for x in f[5].split(",") if x)
    return fl, ids


# ----------------------------------------------------------------------------- tables (the numeric environment)


IDEM = dict(wrap_checked=0, wrap_not_idempotent=0, norm_checked=0, norm_not_idempotent=0)


def wrap_bits(b):
    with np.errstate(all="ignore"):
        w = neg_pi_to_pi(np.float64(unbits(b)))
        r = bits(w)
        IDEM["wrap_checked"] += 1
        w2 = neg_pi_to_pi(w)
        if bits(w2) != r and not (math.isnan(w) and math.isnan(w2)):
            IDEM["wrap_not_idempotent"] += 1  # hypothesis WrapIdem of C13.canon_idempotent
        return r


def normq_bits(q4):
    with np.errstate(all="ignore"):
        p = PoseSE3([0.0, 0.0, 0.0], [unbits(b) for b in q4])
        p.normalize()
        r = arr_bits(p[3:])
        p.normalize()
        IDEM["norm_checked"] += 1
        if arr_bits(p[3:]) != r:
            IDEM["norm_not_idempotent"] += 1  # NormIdem holds in exact arithmetic only: measured, not assumed by `roundtrip`
        return r


CANONICAL_NAN = "7ff8000000000000"


def fmt_float(b, problems):
    x = np.float64(unbits(b))
    s = "{}".format(x)
    if math.isnan(x) and b != CANONICAL_NAN:
        # a NaN with a sign / payload is printed as "nan": outside the hypothesis GoodF of the round-trip theorem (the
        # export and import ties are still checked exactly); counted, not a failure
        problems.append(dict(exempt="nan-payload", value=b))
        return s
    if s != str(x):
        problems.append(dict(assumption="format == str", value=b))
    ok = bool(s) and not any(c.isspace() for c in s)
    if ok:
        try:
            ok = bits(float(s)) == b
        except ValueError:
            ok = False
    if not ok:
        problems.append(dict(assumption="float(str(x)) == x bitwise, str(x) non-empty and whitespace-free", value=b, text=s))
    return s


def fmt_int(i, problems):
    s = "{}".format(int(i))
    try:
        ok = bool(s) and not any(c.isspace() for c in s) and int(s) == int(i)
    except ValueError:
        ok = False
    if not ok:
        problems.append(dict(assumption="int(str(i)) == i", value=str(i)))
    return s


# ----------------------------------------------------------------------------- the checker


class LogCapture(logging.Handler):
    def __init__(self):
        super().__init__(level=logging.WARNING)
        self.records = []

    def emit(self, record):
        self.records.append((record.name, record.getMessage()))


class Checker:
    def __init__(self, tag="h"):
        self.drv = Driver("gsdriver_g2o")
        self.dir = os.path.join(TMP_ROOT, "%s_%d" % (tag, os.getpid()))
        os.makedirs(self.dir, exist_ok=True)
        self.n = 0
        self.res = dict(cases=0, export_cases=0, import_cases=0, char_cases=0, distinct_nontrivial=0, disagreements=[], samples=[], assumption_failures=[], not_modelled=0, nan_atoms_outside_assumption=0,
                        export_outcomes={}, import_outcomes={}, loaders={}, line_kinds={}, element_kinds={}, cycles={}, defects={}, spellings={}, max_lines=0, warnings_seen=0)
        self.seen = set()
        self.cap = LogCapture()
        lg = logging.getLogger("graphslam")
        lg.addHandler(self.cap)
        self._old_prop = lg.propagate
        lg.propagate = False  # keep the warnings out of stderr

    def close(self):
        lg = logging.getLogger("graphslam")
        lg.removeHandler(self.cap)
        lg.propagate = self._old_prop
        self.drv.close()
        shutil.rmtree(self.dir, ignore_errors=True)
        try:
            os.rmdir(TMP_ROOT)
        except OSError:
            pass

    def bump(self, key, k):
        d = self.res[key]
        d[k] = d.get(k, 0) + 1

    def disagree(self, **kw):
        if len(self.res["disagreements"]) < 12:
            self.res["disagreements"].append({k: (v if not isinstance(v, str) or len(v) < 1500 else v[:1500] + "...") for k, v in kw.items()})
        else:
            self.res["disagreements"].append(dict(stage=kw.get("stage")))

    def path(self):
        self.n += 1
        return os.path.join(self.dir, "f%d.g2o" % self.n)

    # -- characters

    def check_whitespace_table(self):
        r = self.drv.ask("ws")
        model = set(int(w, 16) for w in r.split()[1:])
        real = set(c for c in range(0x110000) if not 0xD800 <= c <= 0xDFFF and chr(c).isspace())
        self.res["cases"] += 1
        self.res["char_cases"] += 1
        if model != real:
            self.disagree(stage="isspace", only_model=sorted(model - real)[:10], only_python=sorted(real - model)[:10])

    # -- export

    def check_export(self, g, note=""):
        """returns the text of the file (None if the writer refused)"""
        try:
            items = graph_items(g)
        except NotModelled:
            self.res["not_modelled"] += 1
            return None
        fl, ids = item_atoms(items)
        problems = []
        tF = ["%s:%s" % (b, enc(fmt_float(b, problems))) for b in sorted(fl)]
        tI = ["%s:%s" % (i, enc(fmt_int(i, problems))) for i in sorted(ids)]
        for pr in problems:
            if "exempt" in pr:
                self.res["nan_atoms_outside_assumption"] += 1
            elif len(self.res["assumption_failures"]) < 5:
                self.res["assumption_failures"].append(pr)
        path = self.path()
        err = None
        try:
            g.to_g2o(path)
        except Exception as e:  # noqa: BLE001
            err = type(e).__name__
        text = None
        if os.path.exists(path):
            with open(path, "rb") as f:
                text = f.read().decode("utf-8")
            os.remove(path)
        req = "export @G " + " ".join(items) + " @F " + " ".join(tF) + " @I " + " ".join(tI) + " @W %s:%s" % (ZERO, wrap_bits(ZERO))
        r = self.drv.ask(req).split()
        self.res["cases"] += 1
        self.res["export_cases"] += 1
        self.bump("export_outcomes", err or "written")
        for it in items:
            f = it.split(":")
            self.bump("element_kinds", f[0] + (":" + f[1] if f[0] in ("p", "e") else ":" + f[2]))
        if r[0] == "ok":
            m_err, m_text = None, dec(r[1])
        elif r[0] == "err" and len(r) == 3:
            m_err, m_text = r[1], (None if r[2] == "none" else dec(r[2]))
        else:
            self.disagree(stage="export", reply=" ".join(r)[:300], note=note)
            return text if err is None else None
        if (err, text) != (m_err, m_text):
            self.disagree(stage="export", impl_error=err, model_error=m_err, impl_text=text, model_text=m_text, note=note, items=items if len(items) < 12 else items[:12])
        key = ("x", err, len(items), hash(text))
        if key not in self.seen:
            self.seen.add(key)
            self.res["distinct_nontrivial"] += 1
        if len([s for s in self.res["samples"] if s.get("stage") == "export"]) < 2 and text and err is None:
            self.res["samples"].append(dict(stage="export", elements=len(items), first_lines=text.splitlines()[:3], identical_to_model=(text == m_text)))
        return text if err is None else None

    # -- import

    def real_import(self, path, loader, customs):
        del self.cap.records[:]
        err, g = None, None
        try:
            with warnings.catch_warnings():
                warnings.simplefilter("ignore")
                with np.errstate(all="ignore"):
                    if loader == "from":
                        g = Graph.from_g2o(path, list(customs)) if customs else Graph.from_g2o(path)
                    else:
                        g = LOADERS[loader](path)
        except Exception as e:  # noqa: BLE001
            err = type(e).__name__
        recs = ["%s:%s" % (name.split(".")[-1], enc(msg)) for name, msg in self.cap.records]
        return g, err, recs

    def check_import(self, text, loader="from", customs=(), note=""):
        """returns the real Graph (None if the reader raised)"""
        path = self.path()
        with open(path, "wb") as f:
            f.write(text.encode("utf-8"))
        g, err, recs = self.real_import(path, loader, customs)
        with open(path, newline=None) as f:
            py_lines = f.readlines()
        os.remove(path)
        self.res["cases"] += 1
        self.res["import_cases"] += 1
        self.res["max_lines"] = max(self.res["max_lines"], len(py_lines))
        self.bump("loaders", loader)
        self.bump("import_outcomes", err or "loaded")
        self.res["warnings_seen"] += len(recs)
        # characters: the model's own splitter on the same text
        r = self.drv.ask("lines " + enc(text)).split(" ")
        m_lines = [w.split("/") for w in r[1:] if w] if r[0] == "ok" else None
        py_view = [[enc(l), "0" if l.strip() else "1", enc(l.rstrip()), ",".join(enc(t) for t in l.split())] for l in py_lines]
        self.res["char_cases"] += 1
        if m_lines != py_view:
            self.disagree(stage="characters", text=text, model=m_lines if m_lines is None else m_lines[:5], python=py_view[:5], note=note)
            return g
        tokens = set()
        qkeys = set()
        for ln in m_lines:
            toks = ln[3].split(",") if ln[3] else []
            tokens.update(toks)
            if toks:
                self.bump("line_kinds", dec(toks[0]) if dec(toks[0]).isascii() and len(toks[0]) < 60 else "<other>")
            else:
                self.bump("line_kinds", "<blank>")
        tF, tI, vals = [], [], set([ZERO])
        fcache = {}
        for t in sorted(tokens):
            s = dec(t)
            try:
                b = bits(float(s))
                vals.add(b)
            except ValueError:
                b = "!"
            fcache[t] = b
            tF.append("%s:%s" % (t, b))
            try:
                tI.append("%s:%d" % (t, int(s)))
            except ValueError:
                tI.append("%s:!" % t)
        for ln in m_lines:
            toks = ln[3].split(",") if ln[3] else []
            if len(toks) >= 10 and all(fcache[t] != "!" for t in toks[6:10]):
                qkeys.add(tuple(fcache[t] for t in toks[6:10]))
        tW = ["%s:%s" % (b, wrap_bits(b)) for b in sorted(vals)]
        tQ = ["%s:%s" % (",".join(q), ",".join(normq_bits(q))) for q in sorted(qkeys)]
        req = "import %s @C %s @T %s @F %s @I %s @W %s @Q %s" % (loader, " ".join(spec_token(c) for c in customs), enc(text), " ".join(tF), " ".join(tI), " ".join(tW), " ".join(tQ))
        r = self.drv.ask(req).split()
        if r[0] != "ok":
            self.disagree(stage="import", reply=" ".join(r)[:400], text=text, note=note)
            return g
        m_recs = [w[2:] for w in r[1:] if w.startswith("w:")]
        m_err = [w[4:] for w in r[1:] if w.startswith("err:")][0]
        m_items = [w for w in r[1:] if w[:2] in ("p:", "v:", "e:")]
        try:
            items = import_items(g) if g is not None else []
        except NotModelled as e:
            self.disagree(stage="import", problem="real objects outside the model: %s" % e, text=text, note=note)
            return g
        if (err or "-") != m_err or sorted(recs) != sorted(m_recs) or items != m_items:
            first = next((i for i, (a, b) in enumerate(zip(items, m_items)) if a != b), min(len(items), len(m_items)))
            self.disagree(stage="import", loader=loader, impl_error=err, model_error=m_err, impl_log=sorted(recs)[:4], model_log=sorted(m_recs)[:4], first_differing_item=first,
                          impl_item=items[first] if first < len(items) else None, model_item=m_items[first] if first < len(m_items) else None, text=text, note=note)
        key = ("i", err, len(items), hash(text))
        if key not in self.seen:
            self.seen.add(key)
            if len(m_lines) > 0:
                self.res["distinct_nontrivial"] += 1
        if len([s for s in self.res["samples"] if s.get("stage") == "import"]) < 3 and (g is not None) and len(items) > 2:
            self.res["samples"].append(dict(stage="import", loader=loader, lines=len(py_lines), objects=len(items), log_records=len(recs), first_lines=[l.rstrip("\n") for l in py_lines[:3]], first_item=items[0], bitwise_equal_to_model=(items == m_items)))
        return g


# ----------------------------------------------------------------------------- generators: values


def gen_value(rng, tame=False):
    r = rng.random()
    if tame or r < 0.45:
        return rng.uniform(-10.0, 10.0)
    if r < 0.6:
        return rng.sign() * rng.logu(1e-300, 1e300)
    if r < 0.68:
        return rng.sign() * 5e-324 * rng.randrange(1, 1 << rng.randrange(1, 52))  # denormal
    if r < 0.76:
        return rng.choice([0.0, -0.0])
    if r < 0.86:
        return float(rng.randrange(-1000, 1000))
    if r < 0.92:
        return rng.choice([1 / 3, 0.1, 1e16, 1e-5, 123456789.123456789, 2.0**53, 1e22, 1e23, 5e-324, 1.7976931348623157e308, 2.2250738585072014e-308, 1e15, 1e-4, 9.999999999999999e22])
    if r < 0.96:
        return rng.choice([float("inf"), float("-inf"), float("nan")])
    return rng.uniform(-1e6, 1e6)


def gen_id(rng, small=True):
    r = rng.random()
    if small or r < 0.7:
        return rng.randrange(0, 60)
    if r < 0.8:
        return -rng.randrange(1, 1000)
    if r < 0.9:
        return rng.choice([1, -1]) * ((1 << 63) + rng.randrange(-3, 4))
    if r < 0.95:
        return rng.choice([1, -1]) * (1 << rng.randrange(64, 200)) + rng.randrange(-5, 5)
    return rng.randrange(0, 1 << 31)


def gen_quat(rng):
    r = rng.random()
    q = rng.unit_quat()
    if r < 0.35 and q[3] > 0:
        q = [-x for x in q]  # w < 0
    elif r < 0.45:
        s = rng.logu(0.1, 10.0)
        q = [x * s for x in q]  # not unit
    elif r < 0.5:
        q = [gen_value(rng) for _ in range(4)]
    elif r < 0.56:
        v = [rng.gauss(0, 1) for _ in range(3)]
        nv = math.sqrt(sum(x * x for x in v)) or 1.0
        q = [x / nv for x in v] + [-0.0]  # a half-turn with w = -0.0
    return q


def gen_info(rng, n, symmetric=True):
    r = rng.random()
    if r < 0.25:
        m = np.eye(n) * rng.logu(1e-3, 1e3)
    elif r < 0.8:
        a = np.array([[rng.gauss(0, 1) for _ in range(n)] for _ in range(n)])
        m = a @ a.T + np.eye(n) * rng.logu(1e-6, 1.0)
    else:
        m = np.array([[gen_value(rng) for _ in range(n)] for _ in range(n)])
    m = np.array(m, dtype=np.float64)
    if symmetric:
        m = np.triu(m) + np.triu(m, 1).T
    return m


def gen_pose(rng, kind, tame=False):
    v = lambda: gen_value(rng, tame)  # noqa: E731
    with np.errstate(all="ignore"):
        if kind == "r2":
            return PoseR2([v(), v()])
        if kind == "r3":
            return PoseR3([v(), v(), v()])
        if kind == "se2":
            return PoseSE2([v(), v()], rng.angle() if rng.random() < 0.8 else v())
        if kind == "se3":
            return PoseSE3([v(), v(), v()], gen_quat(rng))
        return PoseOther([v(), v()])


# ----------------------------------------------------------------------------- generators: graphs (export side)


def gen_graph(rng, defect=None, customs=(), tame=False, big_ids=True):
    """a constructed Graph; `defect` names one inexpressible element to include (None = everything expressible)"""
    world = rng.choice(["2d", "3d", "mixed"])
    pose_kinds = {"2d": ["se2"], "3d": ["se3"], "mixed": ["se2", "se3"]}[world]
    npose = rng.randrange(1, 6)
    nland = rng.randrange(0, 4)
    used = set()

    def fresh():
        while True:
            i = gen_id(rng, small=not big_ids or rng.random() < 0.7)
            if i not in used:
                used.add(i)
                return i

    vs = []
    for _ in range(npose):
        vs.append(Vertex(fresh(), gen_pose(rng, rng.choice(pose_kinds), tame)))
    for _ in range(nland):
        pk = rng.choice(pose_kinds)
        vs.append(Vertex(fresh(), gen_pose(rng, "r2" if pk == "se2" else "r3", tame)))
    if defect in ("odometry-r2", "landmark-r2-r2"):
        vs += [Vertex(fresh(), gen_pose(rng, "r2", tame)), Vertex(fresh(), gen_pose(rng, "r2", tame))]
    if defect == "odometry-r3":
        vs += [Vertex(fresh(), gen_pose(rng, "r3", tame)), Vertex(fresh(), gen_pose(rng, "r3", tame))]
    if defect == "vertex-other":
        vs.append(Vertex(fresh(), gen_pose(rng, "other", tame)))
    if rng.random() < 0.1 and vs:  # duplicate vertex id: the last one is bound
        v = rng.choice(vs)
        vs.append(Vertex(v.id, gen_pose(rng, KIND.get(type(v.pose), "r2"), tame)))
    rng.shuffle(vs)
    bound = {}
    for v in vs:
        bound[v.id] = v
    by_kind = {}
    for v in bound.values():
        by_kind.setdefault(KIND.get(type(v.pose), "other"), []).append(v)

    params = {}
    for _ in range(rng.randrange(0, 4)):
        if "se3" in pose_kinds or rng.random() < 0.2:
            key = ("PARAMS_SE3OFFSET", gen_id(rng, small=rng.random() < 0.8))
            params[key] = G2OParameterSE3Offset(key, gen_pose(rng, "se3", tame))
        if "se2" in pose_kinds and rng.random() < 0.5:
            key = ("PARAMS_SE2OFFSET", gen_id(rng, small=rng.random() < 0.8))
            params[key] = G2OParameterSE2Offset(key, gen_pose(rng, "se2", tame))
    se3_keys = [k for k in params if k[0] == "PARAMS_SE3OFFSET"]

    es = []

    def two(kind_a, kind_b):
        if not by_kind.get(kind_a) or not by_kind.get(kind_b):
            return None
        return rng.choice(by_kind[kind_a]), rng.choice(by_kind[kind_b])

    for _ in range(rng.randrange(0, 7)):
        pk = rng.choice(pose_kinds)
        if rng.random() < 0.5:
            pr = two(pk, pk)
            if pr:
                n = 3 if pk == "se2" else 6
                es.append(EdgeOdometry([pr[0].id, pr[1].id], gen_info(rng, n), gen_pose(rng, pk, tame)))
        else:
            lk = "r2" if pk == "se2" else "r3"
            pr = two(pk, lk)
            if not pr:
                continue
            if pk == "se2":
                off = PoseSE2.identity() if rng.random() < 0.7 else PoseSE2([rng.choice([0.0, -0.0]), rng.choice([0.0, -0.0])], rng.choice([0.0, -0.0]))
                es.append(EdgeLandmark([pr[0].id, pr[1].id], gen_info(rng, 2), gen_pose(rng, "r2", tame), offset=off, offset_id=rng.choice([None, 0, 3])))
            else:
                if not se3_keys:
                    key = ("PARAMS_SE3OFFSET", gen_id(rng))
                    params[key] = G2OParameterSE3Offset(key, gen_pose(rng, "se3", tame))
                    se3_keys.append(key)
                key = rng.choice(se3_keys)
                val = params[key].value
                off = val if rng.random() < 0.5 else PoseSE3(np.array(val[:3]) + 0.0, val[3:])  # an equal copy (-0.0 becomes +0.0 in the position)
                es.append(EdgeLandmark([pr[0].id, pr[1].id], gen_info(rng, 3), gen_pose(rng, "r3", tame), offset=off, offset_id=key[1]))
    # one inexpressible element
    if defect == "odometry-r2":
        a, b = by_kind["r2"][0], by_kind["r2"][-1]
        es.append(EdgeOdometry([a.id, b.id], gen_info(rng, 2), gen_pose(rng, "r2", tame)))
    elif defect == "odometry-r3":
        a, b = by_kind["r3"][0], by_kind["r3"][-1]
        es.append(EdgeOdometry([a.id, b.id], gen_info(rng, 3), gen_pose(rng, "r3", tame)))
    elif defect == "landmark-r2-r2":
        a, b = by_kind["r2"][0], by_kind["r2"][-1]
        es.append(EdgeLandmark([a.id, b.id], gen_info(rng, 2), gen_pose(rng, "r2", tame), offset=gen_pose(rng, "r2", tame), offset_id=0))
    elif defect == "landmark-se2-offset":
        pr = two("se2", "r2")
        if pr:
            off = PoseSE2([gen_value(rng, True), gen_value(rng, True)], rng.uniform(-3, 3))
            es.append(EdgeLandmark([pr[0].id, pr[1].id], gen_info(rng, 2), gen_pose(rng, "r2", tame), offset=off, offset_id=rng.choice([None, 0, 1])))
    elif defect in ("landmark-se3-unregistered", "landmark-se3-stale", "landmark-se3-noid"):
        pr = two("se3", "r3")
        if pr:
            if defect == "landmark-se3-unregistered" or not se3_keys:
                oid = max([k[1] for k in se3_keys] + [0]) + 1
                off = gen_pose(rng, "se3", tame)
            elif defect == "landmark-se3-stale":
                oid = rng.choice(se3_keys)[1]
                off = gen_pose(rng, "se3", True)
            else:
                oid = None
                off = params[rng.choice(se3_keys)].value
            es.append(EdgeLandmark([pr[0].id, pr[1].id], gen_info(rng, 3), gen_pose(rng, "r3", tame), offset=off, offset_id=oid))
    elif defect == "landmark-to-pose":
        pk = rng.choice(pose_kinds)
        pr = two(pk, pk)
        if pr:
            if pk == "se2":
                es.append(EdgeLandmark([pr[0].id, pr[1].id], gen_info(rng, 3), gen_pose(rng, "se2", tame), offset=PoseSE2.identity(), offset_id=0))
            else:
                if not se3_keys:
                    key = ("PARAMS_SE3OFFSET", 0)
                    params[key] = G2OParameterSE3Offset(key, gen_pose(rng, "se3", tame))
                    se3_keys.append(key)
                key = rng.choice(se3_keys)
                es.append(EdgeLandmark([pr[0].id, pr[1].id], gen_info(rng, 6), gen_pose(rng, "se3", tame), offset=params[key].value, offset_id=key[1]))
    elif defect == "asymmetric-info":
        pk = rng.choice(pose_kinds)
        pr = two(pk, pk)
        if pr:
            es.append(EdgeOdometry([pr[0].id, pr[1].id], gen_info(rng, 3 if pk == "se2" else 6, symmetric=False), gen_pose(rng, pk, tame)))
    # custom edges
    for c in customs:
        if rng.random() < 0.7 and bound:
            tag, n_ids, est_dim, info_dim, _, _ = c.SPEC
            ids = [rng.choice(list(bound.values())).id for _ in range(n_ids)]
            es.append(c(ids, gen_info(rng, info_dim), np.array([gen_value(rng, tame) for _ in range(est_dim)], dtype=np.float64)))
    rng.shuffle(es)
    with np.errstate(all="ignore"):
        g = Graph(es, vs)
    if params or rng.random() < 0.3:
        g._g2o_params = params
    return g


DEFECTS = ["odometry-r2", "odometry-r3", "landmark-r2-r2", "landmark-se2-offset", "landmark-se3-unregistered", "landmark-se3-stale", "landmark-se3-noid", "vertex-other", "landmark-to-pose", "asymmetric-info"]


def gen_customs(rng):
    """registered custom edge types: with / without to_g2o / from_g2o, some shadowing a standard tag"""
    out = []
    for i in range(rng.choice([0, 0, 1, 2, 3])):
        tag = rng.choice(["TestEdge", "EDGE_DIST", "EDGE_SE2", "EDGE_SE3_TRACKXYZ", "VERTEX_SE2", "MY:EDGE", "PARAMS_SE2OFFSET"])
        n_ids = rng.choice([1, 2, 2, 3])
        est_dim = rng.choice([1, 2, 3])
        info_dim = rng.choice([1, 2, 3])
        if tag == "EDGE_SE2" and rng.random() < 0.7:
            n_ids, est_dim, info_dim = 2, 3, 3  # exactly the shape of the built-in line: the registered type must win
        out.append(make_custom(i, tag, n_ids, est_dim, info_dim, rng.random() < 0.6, rng.random() < 0.7))
    return out


# ----------------------------------------------------------------------------- generators: files (import side)

SEPS = [" ", " ", " ", " ", "  ", "\t", " \t ", "   ", " ", "\xa0", "\x1f", " \x0b"]
JUNK = ["# a comment", "FIX 0", "VERTEX_SE2\t1 2 3 4", " VERTEX_XY 1 2 3", "vertex_se2 1 2 3 4", "VERTEX_SE2", "VERTEX_SE2X 1 2 3 4", "EDGE_SE2_XYZ 1 2 3", "EDGE_SE3 1 2", "VERTEX_SE3 1 0 0 0 0 0 0 1",
        "VERTEX_XY\xa01 2 3", "PARAMS_CAMERAPARAMETERS 0 1 2 3", "EDGE_SE3:QUAT\t1 2", "﻿VERTEX_XY 1 2 3", "éè 中文 ?", "TAG 'quoted' \"text\"  ", "VERTEX_TRACKXY 1 2 3", "EDGE_SE2_XY", "%s %d", "--", "VERTEX_XY:1 2 3"]
BLANK = ["", " ", "\t", "   \t ", "\x0c", "\x1c\x1d", " \xa0", "\x0b "]


def spell_float(rng, x, stats):
    """a token Python's float() accepts for exactly this value (re-checked), in one of several spellings"""
    r = rng.random()
    s = repr(float(x))
    k = "repr"
    if math.isfinite(x):
        if r < 0.5:
            pass
        elif r < 0.58:
            s, k = "%.17e" % x, "%.17e"
        elif r < 0.64:
            s, k = ("%.17E" % x), "%.17E"
        elif r < 0.7 and x == int(x) and abs(x) < 1e15:
            s, k = str(int(x)), "integer"
        elif r < 0.76 and x >= 0:
            s, k = "+" + s, "+sign"
        elif r < 0.82:
            s, k = (("-00" + s[1:]) if s.startswith("-") else ("00" + s)), "leading zeros"
        elif r < 0.84 and s.startswith("0."):
            s, k = s[1:], ".5"
        elif r < 0.86 and s.startswith("0."):
            s, k = "+" + s[1:], "+.5"
        elif r < 0.9 and s.endswith(".0"):
            s, k = s[:-1], "5."
        elif r < 0.94 and "e" not in s and len(s.split(".")[0].lstrip("-")) > 1:
            s, k = s[: s.index(".") - 1] + "_" + s[s.index(".") - 1 :], "1_0"
        elif r < 0.97:
            if "e" not in s and "-" not in s:
                s, k = s.translate({ord(c): 0x0660 + i for i, c in enumerate("0123456789")}), "arabic digits"
        elif r < 0.985:
            s, k = ("%g" % x).replace("e+0", "e").replace("e-0", "e-").replace("e+", "e"), "1e5"
        else:
            s, k = ("%G" % x).replace("E+0", "E").replace("E-0", "E-").replace("E+", "E"), "1E-3"
        if x == 0.0 and math.copysign(1.0, x) < 0 and rng.random() < 0.5:
            s, k = "-0", "-0"
    else:
        s, k = rng.choice({True: ["nan", "NaN", "+nan"], False: ["inf", "Infinity", "INF", "1e999"] if x > 0 else ["-inf", "-Infinity", "-1e999"]}[math.isnan(x)]), "nan/inf"
    try:
        ok = bits(float(s)) == bits(x) or (math.isnan(x) and math.isnan(float(s)))
    except ValueError:
        ok = False
    if not ok:
        s, k = repr(float(x)), "repr"
    stats[k] = stats.get(k, 0) + 1
    return s


def spell_int(rng, i, stats):
    r = rng.random()
    s, k = str(i), "int"
    if r < 0.7:
        pass
    elif r < 0.78 and i >= 0:
        s, k = "+" + s, "int +sign"
    elif r < 0.86:
        s, k = (("-00" + s[1:]) if s.startswith("-") else ("00" + s)), "int leading zeros"
    elif r < 0.9 and abs(i) >= 1000:
        s, k = s[:-3] + "_" + s[-3:], "int 1_000"
    elif r < 0.93 and i == 0:
        s, k = "-0", "int -0"
    try:
        ok = int(s) == i
    except ValueError:
        ok = False
    if not ok:
        s, k = str(i), "int"
    stats[k] = stats.get(k, 0) + 1
    return s


def gen_file(rng, malformed, customs=(), stats=None, dstats=None):
    """(text, description) — lines of the whole vocabulary with spelling / separator / line-end variety, junk and blank
    lines; `malformed` injects one defect (wrong field count, non-numeric token, dangling reference, ...)"""
    stats = stats if stats is not None else {}
    world = rng.choice(["2d", "3d", "mixed"])
    pose_kinds = {"2d": ["se2"], "3d": ["se3"], "mixed": ["se2", "se3"]}[world]
    F = lambda x: spell_float(rng, x, stats)  # noqa: E731
    I = lambda i: spell_int(rng, i, stats)  # noqa: E731
    val = lambda: gen_value(rng, tame=rng.random() < 0.5)  # noqa: E731
    lines = []  # (section, [tag, fields...])
    ids = {"se2": [], "se3": [], "r2": [], "r3": []}
    used = set()

    def fresh():
        while True:
            i = gen_id(rng, small=rng.random() < 0.8)
            if i not in used:
                used.add(i)
                return i

    params3 = []
    for _ in range(rng.randrange(0, 4)):
        if "se3" in pose_kinds:
            pid = gen_id(rng, small=True) if rng.random() < 0.9 else gen_id(rng, small=False)
            params3.append(pid)
            lines.append((0, ["PARAMS_SE3OFFSET", I(pid)] + [F(val()) for _ in range(3)] + [F(x) for x in gen_quat(rng)]))
        elif rng.random() < 0.7:
            lines.append((0, ["PARAMS_SE2OFFSET", I(gen_id(rng)), F(val()), F(val()), F(rng.angle())]))
    for _ in range(rng.randrange(1, 7)):
        k = rng.choice(pose_kinds)
        i = fresh()
        ids[k].append(i)
        if k == "se2":
            lines.append((1, ["VERTEX_SE2", I(i), F(val()), F(val()), F(rng.angle() if rng.random() < 0.8 else val())]))
        else:
            lines.append((1, ["VERTEX_SE3:QUAT", I(i)] + [F(val()) for _ in range(3)] + [F(x) for x in gen_quat(rng)]))
    for _ in range(rng.randrange(0, 4)):
        k = "r2" if rng.choice(pose_kinds) == "se2" else "r3"
        i = fresh()
        ids[k].append(i)
        lines.append((1, ["VERTEX_XY" if k == "r2" else "VERTEX_TRACKXYZ", I(i)] + [F(val()) for _ in range(2 if k == "r2" else 3)]))
    if rng.random() < 0.1 and used:  # duplicate vertex id of the same kind (the last one is bound)
        k = rng.choice([k for k in ids if ids[k]])
        n = {"se2": 3, "se3": 7, "r2": 2, "r3": 3}[k]
        tag = {"se2": "VERTEX_SE2", "se3": "VERTEX_SE3:QUAT", "r2": "VERTEX_XY", "r3": "VERTEX_TRACKXYZ"}[k]
        lines.append((1, [tag, I(rng.choice(ids[k]))] + [F(val()) for _ in range(n)]))

    def triu(n):
        m = gen_info(rng, n)
        return [F(m[i][j]) for i in range(n) for j in range(i, n)]

    for _ in range(rng.randrange(0, 8)):
        k = rng.choice(pose_kinds)
        r = rng.random()
        if r < 0.5 and ids[k]:
            a, b = rng.choice(ids[k]), rng.choice(ids[k])
            if k == "se2":
                lines.append((2, ["EDGE_SE2", I(a), I(b), F(val()), F(val()), F(rng.angle())] + triu(3)))
            else:
                lines.append((2, ["EDGE_SE3:QUAT", I(a), I(b)] + [F(val()) for _ in range(3)] + [F(x) for x in gen_quat(rng)] + triu(6)))
        elif k == "se2" and ids["se2"] and ids["r2"]:
            lines.append((2, ["EDGE_SE2_XY", I(rng.choice(ids["se2"])), I(rng.choice(ids["r2"])), F(val()), F(val())] + triu(2)))
        elif k == "se3" and ids["se3"] and ids["r3"] and params3:
            lines.append((2, ["EDGE_SE3_TRACKXYZ", I(rng.choice(ids["se3"])), I(rng.choice(ids["r3"])), I(rng.choice(params3))] + [F(val()) for _ in range(3)] + triu(3)))
    for c in customs:
        tag, n_ids, est_dim, info_dim, _, _ = c.SPEC
        if rng.random() < 0.7 and used:
            m = gen_info(rng, info_dim)
            lines.append((2, [tag] + [I(rng.choice(sorted(used))) for _ in range(n_ids)] + [F(val()) for _ in range(est_dim)] + [F(m[i][j]) for i in range(info_dim) for j in range(i, info_dim)]))
    if rng.random() < 0.15 and params3:  # duplicate parameter id: the later line overwrites for the edges after it
        lines.insert(rng.randrange(0, len(lines) + 1), (0, ["PARAMS_SE3OFFSET", I(rng.choice(params3))] + [F(val()) for _ in range(3)] + [F(x) for x in gen_quat(rng)]))
    order = rng.random()
    if order < 0.5:
        lines.sort(key=lambda t: t[0])  # writer order
    elif order < 0.8:
        ps = [l for l in lines if l[0] == 0]
        rest = [l for l in lines if l[0] != 0]
        rng.shuffle(rest)
        lines = ps + rest  # parameters first, the rest interleaved (edges may precede their vertices)
    else:
        rng.shuffle(lines)  # anything (a parameter after its first use: KeyError)
    toks = [l[1] for l in lines]
    defect = None
    if malformed and toks:
        defect = rng.choice(["drop-field", "drop-field", "add-field", "bad-number", "bad-number", "bad-id", "dangling-id", "wrong-type", "info-one", "info-short", "unknown-param", "only-tag", "float-id", "truncate", "hex-number"])
        j = rng.randrange(len(toks))
        t = list(toks[j])
        if defect == "drop-field" and len(t) > 1:
            del t[rng.randrange(1, len(t))]
        elif defect == "add-field":
            t.insert(rng.randrange(1, len(t) + 1), F(val()))
        elif defect == "bad-number" and len(t) > 1:
            t[rng.randrange(1, len(t))] = rng.choice(["abc", "1.2.3", "--1", "1e", "0x10", "1,5", "1_", "_1", "1__0", "e5", "nan1", "½", "1d5", "++1", "."])
        elif defect == "bad-id" and len(t) > 1:
            t[1] = rng.choice(["1.0", "1e3", "x", "0x1", "1_", "", "²"]) or "1.5"
        elif defect == "float-id" and len(t) > 2:
            t[rng.choice([1, 2])] = "2.0"
        elif defect == "dangling-id":
            edges = [k for k, u in enumerate(toks) if u[0].startswith("EDGE")]
            if edges:
                j = rng.choice(edges)
                t = list(toks[j])
                t[rng.choice([1, 2])] = str(max([abs(u) for u in used] + [0]) + 7)
        elif defect == "wrong-type":
            edges = [k for k, u in enumerate(toks) if u[0].startswith("EDGE")]
            if edges and len(used) > 1:
                j = rng.choice(edges)
                t = list(toks[j])
                t[rng.choice([1, 2])] = str(rng.choice(sorted(used)))
        elif defect in ("info-one", "info-short"):
            edges = [k for k, u in enumerate(toks) if u[0] in ("EDGE_SE2", "EDGE_SE3:QUAT", "EDGE_SE2_XY", "EDGE_SE3_TRACKXYZ")]
            if edges:
                j = rng.choice(edges)
                t = list(toks[j])
                n_info = {"EDGE_SE2": 6, "EDGE_SE3:QUAT": 21, "EDGE_SE2_XY": 3, "EDGE_SE3_TRACKXYZ": 6}[t[0]]
                t = t[: len(t) - n_info] + (t[-1:] if defect == "info-one" else t[len(t) - n_info : len(t) - rng.randrange(1, n_info)])
        elif defect == "unknown-param":
            edges = [k for k, u in enumerate(toks) if u[0] == "EDGE_SE3_TRACKXYZ"]
            if edges:
                j = rng.choice(edges)
                t = list(toks[j])
                t[3] = str(max(params3 + [0]) + 1)
        elif defect == "only-tag":
            t = t[:1] + [""]  # "TAG " with nothing after the space
        elif defect == "truncate":
            t = t[: rng.randrange(1, len(t) + 1)]
        elif defect == "hex-number" and len(t) > 2:
            t[rng.randrange(2, len(t))] = rng.choice(["0x1p3", "1f", "1L", "infinit", "na"])
        toks[j] = t
        if dstats is not None:
            dstats[defect] = dstats.get(defect, 0) + 1
    # render
    out = []
    n_junk = 0
    for t in toks:
        while rng.random() < 0.18:
            out.append(rng.choice(JUNK) if rng.random() < 0.6 else rng.choice(BLANK))
            n_junk += 1
        line = t[0] + " "
        if rng.random() < 0.15:
            line += rng.choice(SEPS)
        line += "".join(f + (rng.choice(SEPS) if k < len(t) - 2 else "") for k, f in enumerate(t[1:]))
        if rng.random() < 0.2:
            line += rng.choice([" ", "  ", "\t", "\xa0"])
        if rng.random() < 0.07 and len(t) > 2:
            # a commented-out / renamed copy of a supported line (other numbers): the tag is inside the line, not at its start
            t2 = list(t)
            t2[-1] = "7.5"
            pre = rng.choice(["# ", "#", "//", "// ", "DISABLED_", "x", "; ", "%"])
            out.insert(len(out) if rng.random() < 0.5 else max(0, len(out) - 1), pre + t2[0] + " " + " ".join(t2[1:]))
            n_junk += 1
            out.append(line)
            if rng.random() < 0.5:
                out.append(pre + t2[0] + " " + " ".join(t2[1:]))
                n_junk += 1
            continue
        out.append(line)
    while rng.random() < 0.3:
        out.append(rng.choice(JUNK) if rng.random() < 0.6 else rng.choice(BLANK))
        n_junk += 1
    eol_mode = rng.choice(["\n", "\n", "\n", "\r\n", "mixed"])
    text = ""
    for k, l in enumerate(out):
        eol = eol_mode if eol_mode != "mixed" else rng.choice(["\n", "\r\n", "\r", "\n\n"])
        if k == len(out) - 1 and rng.random() < 0.3:
            eol = ""
        text += l + eol
    return text, dict(world=world, lines=len(out), junk=n_junk, defect=defect, eol=eol_mode)


# ----------------------------------------------------------------------------- the run


def run(seed, n_graphs, n_files):
    ck = Checker()
    res = ck.res
    for k in IDEM:
        IDEM[k] = 0
    try:
        ck.check_whitespace_table()
        # fixed corpus: small hand-written files that pin the documented corner cases
        corpus = [
            "", "\n", "VERTEX_XY 1 2 3", "VERTEX_XY 1 2 3\n", "VERTEX_XY \n", "VERTEX_XY 1\n", "VERTEX_XY 1 2 3 4 5\n", "VERTEX_SE2 1 2 3\n", "VERTEX_SE2 1 2 3 4 5\n",
            "VERTEX_SE2 0 0 0 0\nVERTEX_SE2 1 1 0 7\nEDGE_SE2 0 1 1 0 0 5\n", "VERTEX_SE2 0 0 0 0\nVERTEX_XY 1 1 1\nEDGE_SE2_XY 0 1 1 1 9\n",
            "VERTEX_SE2 0 0 0 0\nVERTEX_XY 1 1 1\nEDGE_SE2_XY 0 1 1 2 3\n", "EDGE_SE3_TRACKXYZ 0 1 0 1 2 3 1 0 0 1 0 1\n", "PARAMS_SE3OFFSET x 0 0 0 0 0 0\n", "PARAMS_SE3OFFSET 1 0 0 0\n",
            "PARAMS_SE2OFFSET x\n", "VERTEX_SE2 x\n", "VERTEX_SE2 1 2 3 4\r\n# c\rVERTEX_SE2 2 2 3 4", "VERTEX_SE2 0 0 0 0\nVERTEX_SE2 0 1 1 1\nVERTEX_SE2 1 1 0 7\nEDGE_SE2 0 1 1 0 0 1 0 0 1 0 1\n",
            "VERTEX_SE3:QUAT 0 0 0 0 0 0 0 -2\nVERTEX_SE3:QUAT 1 0 0 0 0 0 0 1\nEDGE_SE3:QUAT 0 1 1 2 3 0 0 0 -2 " + " ".join(["1"] * 21) + "\n",
        ]
        for k, text in enumerate(corpus):
            ck.check_import(text, rng_loader(Rng(seed, "corpus|%d" % k)), note="corpus %d" % k)
        # (i) export, then 1-5 export/import cycles
        for k in range(n_graphs):
            rng = Rng(seed, "g2o-graph|%d" % k)
            customs = gen_customs(rng) if rng.random() < 0.25 else []
            defect = rng.choice(DEFECTS) if rng.random() < 0.3 else None
            g = gen_graph(rng, defect, customs, tame=rng.random() < 0.3)
            ck.bump("defects", defect or "none")
            cycles = rng.randrange(1, 6)
            done = 0
            for c in range(cycles):
                text = ck.check_export(g, note="graph %d cycle %d defect %s" % (k, c, defect))
                if text is None:
                    break
                loader = "from" if customs else rng_loader(rng)
                g = ck.check_import(text, loader, customs, note="graph %d cycle %d" % (k, c))
                if g is None:
                    break
                done += 1
            ck.bump("cycles", done)
            if len(res["disagreements"]) > 8:
                break
        # (ii) generated files
        for k in range(n_files):
            rng = Rng(seed, "g2o-file|%d" % k)
            customs = gen_customs(rng) if rng.random() < 0.25 else []
            text, desc = gen_file(rng, malformed=rng.random() < 0.35, customs=customs, stats=res["spellings"], dstats=res["defects"])
            g = ck.check_import(text, "from" if customs else rng_loader(rng), customs, note="file %d %s" % (k, desc))
            if g is not None and rng.random() < 0.3:
                ck.check_export(g, note="re-export of file %d" % k)
            if len(res["disagreements"]) > 8:
                break
    finally:
        ck.close()
    res["idempotence"] = dict(IDEM)
    if IDEM["wrap_not_idempotent"]:
        res["assumption_failures"].append(dict(assumption="neg_pi_to_pi idempotent (WrapIdem)", count=IDEM["wrap_not_idempotent"]))
    res["ok"] = not res["disagreements"] and not res["assumption_failures"]
    return res


def rng_loader(rng):
    return rng.choice(["from", "from", "from", "g2o", "r2", "r3", "se2", "se3"])


if __name__ == "__main__":
    import json
    import time

    t0 = time.time()
    r = run(int(os.environ.get("VERIF_SEED", "0")), int(sys.argv[1]) if len(sys.argv) > 1 else 60, int(sys.argv[2]) if len(sys.argv) > 2 else 150)
    r["wall_s"] = round(time.time() - t0, 1)
    print(json.dumps({k: v for k, v in r.items() if k != "samples"}, default=str, indent=1)[:6000])
