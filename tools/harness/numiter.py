"""End-to-end correspondence for the typed numerical-Jacobian graph model of C16 (GraphSlam.Props.C16.numSystem / numStep,
driver command `numiter`): one whole iteration of Graph.optimize on graphs whose built-in edges have *lost their analytic
Jacobians*.

The graphs are the typed graphs of lib/graphgen.py (`custom=False`: EdgeOdometry / EdgeLandmark over R2 / R3 / SE2 / SE3).
Before optimising, every edge instance is re-classed to a two-line subclass

    class NumOdometry(EdgeOdometry): calc_jacobians = BaseEdge.calc_jacobians
    class NumLandmark(EdgeLandmark): calc_jacobians = BaseEdge.calc_jacobians

so that `calc_chi2_gradient_hessian` (base_edge.py:115-140) reaches the inherited numerical `calc_jacobians` /
`_calc_jacobian` (base_edge.py:142-193) and nothing of the class's analytic formulas.  The harness sends the graph as plain
data (the input of `iter`) plus the recorded increment `dx` of the real sparse solver; the model computes everything else,
*including the forward differences* (generated `calc_error` through the generated box-plus, restore with the generated
`copy`, step 1e-6).  Compared with the real `optimize(max_iter=1)`:

  differentiation step                                               bitwise (library constant vs the driver's)
  flags after fix_first_pose, fixed index set, gradient indices      exact
  chi2                                                               1e-9 relative
  gradient b, Hessian H (as handed to the solver)                    1e-6 relative (see below)
  zero pattern of H above rounding level                             exact
  every vertex estimate after the update (given the recorded dx)     1e-9 (SE(2) angle modulo 2 pi)
(a restore that is skipped leaves a vertex displaced by eps = 1e-6 >> 1e-9: seen by the update comparison, and earlier by
chi2 / b / H of the edges differentiated after it)

Scope: every edge joins two *different* vertices (lib/graphgen.py never generates an edge from a vertex to itself; the
harness counts them, `self_loop_edges`, and refuses them).  For an edge whose two ends are the same Vertex object the
implementation's perturbation of "vertex 0" is seen through both positions, while `numLineariseAt` differentiates the store
`[p0, p1]` position by position: model and code differ there (H, 3e-2 relative on a probe) — a limit of the model, recorded in
tools/dev/notes_P13_numiter.md; the analytic path (`iter`) is not affected.

Driver commands: `numiterm` (numSystemMemo: numSystem with every Jacobian tabulated once; `numSystemMemo_eq` in
Driver/NumIter.lean proves it equal to numSystem) for every graph, and for every `literal_every`-th graph also `numiter`
(numSystem evaluated literally, seconds per SE(3) graph) whose reply must be the identical string.

Tolerance of b / H: both sides are forward differences with the same step, so they do not differ by the truncation error
(~1e-6 relative) but only by rounding: an error difference of a few ulp is divided by eps = 1e-6, i.e. ~1e-10 * |err| per
Jacobian entry.  The worst deviation seen is reported (`worst_b`, `worst_H`, relative to 1 + max |entry|) so that the margin
to the 1e-6 tolerance is visible.  `analytic_distinguishable` counts graphs whose numerical H (implementation) differs from
the *analytic* H of the same graph by more than the 1e-6 allowed here (few: the truncation error is of that order), and
`analytic_distinguishable_at_1e-9` the same at 1e-9, which is still above the worst deviation between model and implementation
actually seen (typically 1e-15, worst 5e-11 in 3 x 150 graphs): at that level nearly every graph with a non-affine edge tells
the two systems apart.
"""
import math
import os
import sys
import warnings

sys.path.insert(0, os.path.join(os.path.dirname(__file__), ".."))
from lib.common import Driver, Rng, f2h, h2f  # noqa: E402
from lib import graphgen as G  # noqa: E402
import numpy as np  # noqa: E402
import graphslam.graph as gg  # noqa: E402
from graphslam.edge.base_edge import BaseEdge  # noqa: E402
from graphslam.edge.edge_odometry import EdgeOdometry  # noqa: E402
from graphslam.edge.edge_landmark import EdgeLandmark  # noqa: E402
from harness.graphiter import KIND, pose_tokens, close  # noqa: E402


class NumOdometry(EdgeOdometry):
    """EdgeOdometry without its analytic Jacobians"""

    calc_jacobians = BaseEdge.calc_jacobians


class NumLandmark(EdgeLandmark):
    """EdgeLandmark without its analytic Jacobians"""

    calc_jacobians = BaseEdge.calc_jacobians


TOL_CHI2 = 1e-9
TOL_SYS = 1e-6
TOL_UPD = 1e-9


def force_numerical(g):
    """re-class every built-in edge instance onto the inherited numerical path; returns the number of edges re-classed"""
    n = 0
    for e in g._edges:
        if len(e.vertex_ids) == 2 and e.vertex_ids[0] == e.vertex_ids[1]:
            raise RuntimeError("edge from a vertex to itself: outside the scope of numLineariseAt (see the module docstring)")
        if type(e) is EdgeOdometry:
            e.__class__ = NumOdometry
        elif type(e) is EdgeLandmark:
            e.__class__ = NumLandmark
        elif type(e) not in (NumOdometry, NumLandmark):
            raise RuntimeError("not a built-in edge: %s" % type(e).__name__)
        assert type(e).calc_jacobians is BaseEdge.calc_jacobians
        n += 1
    return n


def graph_tokens(g, ffp, flags):
    toks = ["numiterm", "1" if ffp else "0", str(len(g._vertices))]
    for v, fl in zip(g._vertices, flags):
        toks += [str(v.id), KIND[type(v.pose).__name__], "1" if fl else "0"] + [f2h(float(x)) for x in np.asarray(v.pose, dtype=np.float64)]
    toks.append(str(len(g._edges)))
    for e in g._edges:
        info = np.asarray(e.information, dtype=np.float64)
        if isinstance(e, EdgeOdometry):
            toks += ["odo", str(e.vertex_ids[0]), str(e.vertex_ids[1])] + pose_tokens(e.estimate)
        else:
            toks += ["lm", str(e.vertex_ids[0]), str(e.vertex_ids[1])] + pose_tokens(e.estimate) + pose_tokens(e.offset)
        toks += [str(info.shape[0])] + [f2h(float(x)) for x in info.ravel()]
    return toks


def dev(a, b):
    """largest |a - b| relative to 1 + max |a| over the finite entries (the measure `close` bounds)"""
    a, b = np.asarray(a, dtype=np.float64), np.asarray(b, dtype=np.float64)
    fin = np.isfinite(a) & np.isfinite(b)
    if a.shape != b.shape or not fin.any():
        return 0.0
    return float(np.max(np.abs(a[fin] - b[fin])) / (1.0 + np.max(np.abs(a[fin]))))


def one_graph(drv, g, desc, res, tag, ffp, literal=False):
    bad = lambda stage, **kw: res["disagreements"].append(dict(stage=stage, graph=tag, fix_first_pose=ffp, desc=(desc if len(res["disagreements"]) < 2 else None), **kw))
    flags = [bool(v.fixed) for v in g._vertices]
    head = graph_tokens(g, ffp, flags)
    before = [(type(v.pose).__name__, np.array(v.pose)) for v in g._vertices]
    rec = {}
    orig = gg.spsolve

    def wrapped(A, rhs):
        dx = orig(A, rhs)
        rec["dx"] = np.array(dx, dtype=np.float64)
        rec["A"] = A.toarray() if hasattr(A, "toarray") else np.array(A)
        rec["rhs"] = np.array(rhs, dtype=np.float64)
        return dx

    gg.spsolve = wrapped
    try:
        with warnings.catch_warnings():
            warnings.simplefilter("ignore")
            r = g.optimize(tol=0.0, max_iter=1, fix_first_pose=ffp, verbose=False)
    except Exception as ex:  # noqa: BLE001
        bad("optimize-raised", error="%s: %s" % (type(ex).__name__, ex))
        return
    finally:
        gg.spsolve = orig
    if "dx" not in rec:
        bad("solve-not-called")
        return
    dx = rec["dx"]
    reply = drv.ask(" ".join(head + [str(len(dx))] + [f2h(float(x)) for x in dx]))
    res["cases"] += 1
    if literal:
        # the same request to the command that evaluates numSystem literally (no tabulated Jacobians): bit-identical reply
        reply_lit = drv.ask(" ".join(["numiter"] + head[1:] + [str(len(dx))] + [f2h(float(x)) for x in dx]))
        res["literal_checked"] += 1
        if reply_lit != reply:
            bad("numiterm-vs-numiter", memo=reply[:200], literal=reply_lit[:200])
            return
    if not reply.startswith("ok "):
        bad("driver", reply=reply[:200])
        return
    parts = reply[3:].split("|")
    if len(parts) != 6 or parts[5].split() != [f2h(BaseEdge._NUMERICAL_DIFFERENTIATION_EPSILON)]:
        bad("epsilon", impl=f2h(BaseEdge._NUMERICAL_DIFFERENTIATION_EPSILON), model=parts[-1].split())
        return
    mflags = [x == "1" for x in parts[0].split()]
    mfixed = sorted(int(x) for x in parts[1].split())
    mgidx = [int(x) for x in parts[2].split()]
    if mflags != [bool(v.fixed) for v in g._vertices]:
        bad("flags", impl=[bool(v.fixed) for v in g._vertices], model=mflags)
        return
    if mfixed != sorted(g._fixed_gradient_indices) or mgidx != [v.gradient_index for v in g._vertices]:
        bad("indices", impl_fixed=sorted(g._fixed_gradient_indices), model_fixed=mfixed, impl_gidx=[v.gradient_index for v in g._vertices], model_gidx=mgidx)
        return
    sysw = parts[3].split()
    chi2 = h2f(sysw[0])
    n = int(sysw[1])
    b = np.array([h2f(w) for w in sysw[2 : 2 + n]])
    H = np.array([h2f(w) for w in sysw[2 + n : 2 + n + n * n]]).reshape(n, n)
    res["cases"] += 3
    if n != g._len_gradient:
        bad("len-gradient", impl=g._len_gradient, model=n)
        return
    if not close(float(r.initial_chi2), chi2, TOL_CHI2):
        bad("chi2", impl=float(r.initial_chi2), model=chi2)
        return
    db, dH = dev(-rec["rhs"], b), dev(rec["A"], H)
    if db > res["worst_b"]:
        res["worst_b"], res["worst_b_graph"] = db, tag
    if dH > res["worst_H"]:
        res["worst_H"], res["worst_H_graph"] = dH, tag
    if not close(rec["rhs"], -b, TOL_SYS):
        bad("gradient", deviation=db, impl=(-rec["rhs"]).tolist(), model=b.tolist())
        return
    # zero pattern above rounding level, as in graphiter.py; here "rounding level" is that of a forward difference: an entry
    # of J that is structurally 0 is (err' - err)/eps with err' - err a few ulp of |err|, i.e. up to ~1e-10 * |err| instead
    # of 0 on either side, so entries are counted as present when above 1e-7 relative to the largest entry
    nz = lambda M_: np.abs(M_) > 1e-7 * (1.0 + (np.nanmax(np.abs(M_)) if np.size(M_) else 0.0))
    if not close(rec["A"], H, TOL_SYS):
        i, j = np.unravel_index(np.nanargmax(np.abs(rec["A"] - H)), H.shape) if H.size else (0, 0)
        bad("hessian", deviation=dH, fixed=mfixed, at=[int(i), int(j)], impl_entry=float(rec["A"][i, j]) if H.size else None, model_entry=float(H[i, j]) if H.size else None)
        return
    if np.all(np.isfinite(H)) and np.all(np.isfinite(rec["A"])):
        # an entry clearly present on one side (> 1e-7 relative) must not be at rounding level (< 1e-9 relative) on the other
        lo = lambda M_: np.abs(M_) < 1e-9 * (1.0 + (np.nanmax(np.abs(M_)) if np.size(M_) else 0.0))
        if np.any(nz(rec["A"]) & lo(H)) or np.any(nz(H) & lo(rec["A"])):
            bad("hessian-pattern", fixed=mfixed, impl_pattern=nz(rec["A"]).astype(int).tolist(), model_pattern=nz(H).astype(int).tolist())
            return
        # identity rows / columns of fixed vertices are exact on both sides
        for v in g._vertices:
            if v.fixed:
                c = v.pose.COMPACT_DIMENSIONALITY
                sl = slice(v.gradient_index, v.gradient_index + c)
                ident = np.zeros((c, n))
                ident[:, sl] = np.eye(c)
                for side, M_ in (("impl", rec["A"]), ("model", H)):
                    if not np.array_equal(M_[sl, :], ident) or not np.array_equal(M_[:, sl], ident.T):
                        bad("hessian-fixed-rows", vertex=v.id, side=side)
                        return
    pw = parts[4].split()
    k = 0
    for (cname, p0), v in zip(before, g._vertices):
        d = len(p0)
        exp = np.array([h2f(w) for w in pw[k : k + d]])
        k += d
        p1 = np.array(v.pose)
        res["cases"] += 1
        if type(v.pose).__name__ != cname:
            bad("update-class", vertex=v.id)
            return
        if v.fixed:
            res["fixed_vertices"] += 1
            if p1.tobytes() != p0.tobytes() or exp.tobytes() != p0.tobytes():
                bad("update-fixed-moved", vertex=v.id, before=p0.tolist(), after=p1.tolist(), model=exp.tolist())
                return
            continue
        if not np.all(np.isfinite(exp)) or not np.all(np.isfinite(p1)):
            if not np.array_equal(np.isfinite(exp), np.isfinite(p1)):
                bad("update-nonfinite", vertex=v.id, after=p1.tolist(), model=exp.tolist())
                return
            res["nonfinite_updates"] += 1
            continue
        ok = close(p1, exp, TOL_UPD)
        if cname == "PoseSE2" and not ok:
            ok = close(p1[:2], exp[:2], TOL_UPD) and abs(math.remainder(p1[2] - exp[2], 2 * math.pi)) < TOL_UPD
        du = dev(p1, exp)
        if ok and du > res["worst_update"] and not (cname == "PoseSE2" and du > TOL_UPD):
            res["worst_update"] = du
        if not ok:
            bad("update", vertex=v.id, deviation=du, before=p0.tolist(), after=p1.tolist(), model=exp.tolist())
            return
    res["graphs"] += 1
    res["edges"] += len(g._edges)
    return rec


def analytic_hessian(desc, ffp, flags, poses):
    """the analytic H of the same graph (for the `analytic_distinguishable` count only)"""
    g = G.rebuild(desc)
    for v, fl, p in zip(g._vertices, flags, poses):
        v.fixed = fl
        v.pose = G.mk_pose(p[0], p[1])
    rec = {}
    orig = gg.spsolve

    def wrapped(A, rhs):
        rec["A"] = A.toarray() if hasattr(A, "toarray") else np.array(A)
        return orig(A, rhs)

    gg.spsolve = wrapped
    try:
        with warnings.catch_warnings():
            warnings.simplefilter("ignore")
            g.optimize(tol=0.0, max_iter=1, fix_first_pose=ffp, verbose=False)
    except Exception:  # noqa: BLE001
        return None
    finally:
        gg.spsolve = orig
    return rec.get("A")


def run(seed, n_graphs, literal_every=8):
    """`literal_every`: every so many graphs the request is also sent to the (slow) command `numiter`, which evaluates
    `numSystem` literally, and the two replies must be identical strings (0: never; 1: always)"""
    drv = Driver()
    res = dict(literal_checked=0, self_loop_edges=0, cases=0, graphs=0, edges=0, disagreements=[], worlds={}, features={}, fixed_vertices=0, nonfinite_updates=0, samples=[],
               worst_b=0.0, worst_H=0.0, worst_update=0.0, worst_b_graph=None, worst_H_graph=None, analytic_distinguishable=0, analytic_compared=0, **{"analytic_distinguishable_at_1e-9": 0},
               eps=BaseEdge._NUMERICAL_DIFFERENTIATION_EPSILON, tolerances=dict(chi2=TOL_CHI2, b_H=TOL_SYS, update=TOL_UPD))
    try:
        for k in range(n_graphs):
            rng = Rng(seed, "numiter|%d" % k)
            fix = rng.choice(["first", "random", "random", "none"])
            ffp = fix == "first" or rng.random() < 0.4
            g, desc = G.make_graph(rng, fix=fix, custom=False, noise=rng.choice([0.0, 0.05, 0.5]), ids=rng.choice(["shuffled", "huge", "plain"]), well_posed=rng.random() < 0.7)
            extra = []
            if rng.random() < 0.2:
                cname = desc["vertices"][0]["cls"]
                desc["vertices"].insert(rng.randrange(len(desc["vertices"]) + 1), dict(id=10**6 + k, cls=cname, vals=G.rand_pose_vals(rng, cname), fixed=rng.random() < 0.7, truth=None))
                g = G.rebuild(desc)
                extra.append("isolated-vertex")
            if rng.random() < 0.1:
                for v in desc["vertices"]:
                    v["fixed"] = True
                g = G.rebuild(desc)
                extra.append("all-fixed")
            if rng.random() < 0.25 and len(desc["edges"]) > 1:
                e0 = rng.choice([e for e in desc["edges"] if e["kind"] == "odometry"] or [None])
                if e0 is not None and e0["vids"][0] != e0["vids"][1]:
                    inv = G.mk_pose(e0["est_cls"], e0["est"]).inverse
                    desc["edges"].append(dict(e0, vids=e0["vids"][::-1], est=np.asarray(inv).tolist()))
                    g = G.rebuild(desc)
                    extra.append("anti-parallel-edge")
            res["self_loop_edges"] += sum(1 for e in desc["edges"] if e["vids"][0] == e["vids"][1])
            force_numerical(g)
            w = desc["world"]
            res["worlds"][w] = res["worlds"].get(w, 0) + 1
            kinds = set(e["kind"] for e in desc["edges"])
            for f in list(kinds) + extra + (["fix_first_pose"] if ffp else []):
                res["features"][f] = res["features"].get(f, 0) + 1
            flags0 = [bool(v.fixed) for v in g._vertices]
            poses0 = [(type(v.pose).__name__, np.asarray(v.pose).tolist()) for v in g._vertices]
            rec = one_graph(drv, g, desc, res, k, ffp, literal=bool(literal_every) and k % literal_every == 0)
            if rec is not None and np.all(np.isfinite(rec["A"])):
                A_an = analytic_hessian(desc, ffp, flags0, poses0)
                if A_an is not None and A_an.shape == rec["A"].shape and np.all(np.isfinite(A_an)):
                    res["analytic_compared"] += 1
                    if not close(A_an, rec["A"], TOL_SYS):
                        res["analytic_distinguishable"] += 1
                    if not close(A_an, rec["A"], 1e-9):
                        res["analytic_distinguishable_at_1e-9"] += 1
            # a second call on the same object after the caller changed flags (no state survives between calls; the edges stay
            # re-classed and the vertices hold the poses the first call left, which went through the perturb / restore loop)
            if rng.random() < 0.5 and not res["disagreements"]:
                for v in g._vertices:
                    if rng.random() < 0.3:
                        v.fixed = not v.fixed
                if all(np.all(np.isfinite(np.asarray(v.pose))) for v in g._vertices):
                    res["features"]["second-call"] = res["features"].get("second-call", 0) + 1
                    one_graph(drv, g, desc, res, "%d/second-call" % k, rng.random() < 0.3)
            if k < 2:
                res["samples"].append(dict(world=w, n_vertices=len(desc["vertices"]), n_edges=len(desc["edges"]), edge_kinds=sorted(kinds), edge_classes=sorted(set(type(e).__name__ for e in g._edges))))
            if len(res["disagreements"]) > 3:
                break
    finally:
        drv.close()
    res["ok"] = not res["disagreements"]
    return res


if __name__ == "__main__":
    import json

    r = run(int(os.environ.get("VERIF_SEED", "0")), int(sys.argv[1]) if len(sys.argv) > 1 else 30, int(sys.argv[2]) if len(sys.argv) > 2 else 8)
    print(json.dumps(r, default=str)[:4000])
