"""Translator validation (Layer A tie, second half).

Every definition in lean/generated_manifest.json is executed at `Float` by the Lean driver and the Python
original is executed in-process on the same stratified inputs; outputs are compared entry by entry.
The translator itself is the first half of the tie (the theorems are about what it emits); this harness is what
keeps the translator honest.
"""
import json
import math
import os
import sys

sys.path.insert(0, os.path.join(os.path.dirname(__file__), ".."))
from lib.common import LEAN_DIR, Driver, Rng, use_repo  # noqa: E402

use_repo()
import numpy as np  # noqa: E402
from graphslam.edge.base_edge import BaseEdge  # noqa: E402
from graphslam.edge.edge_landmark import EdgeLandmark  # noqa: E402
from graphslam.edge.edge_odometry import EdgeOdometry  # noqa: E402
from graphslam.pose.r2 import PoseR2  # noqa: E402
from graphslam.pose.r3 import PoseR3  # noqa: E402
from graphslam.pose.se2 import PoseSE2  # noqa: E402
from graphslam.pose.se3 import PoseSE3  # noqa: E402
from graphslam.vertex import Vertex  # noqa: E402
import graphslam.util as gutil  # noqa: E402

CLS = {"PoseR2": PoseR2, "PoseR3": PoseR3, "PoseSE2": PoseSE2, "PoseSE3": PoseSE3}


def gen_pose(rng, cname, strat):
    """returns the real pose object; strat counts which stratum was drawn"""
    if cname == "PoseR2":
        return PoseR2([rng.scalar(), rng.scalar()])
    if cname == "PoseR3":
        return PoseR3([rng.scalar(), rng.scalar(), rng.scalar()])
    if cname == "PoseSE2":
        a = rng.angle()
        strat["se2_angle_near_pi" if abs(abs(a) - math.pi) < 1e-2 else "se2_angle_big" if abs(a) > math.pi else "se2_angle_in_range"] += 1
        return PoseSE2([rng.scalar(), rng.scalar()], a)
    q = rng.unit_quat()
    if rng.random() < 0.1:  # non-unit quaternion: the formulas are polynomial identities, valid off the sphere too
        s = rng.logu(0.2, 5)
        q = [x * s for x in q]
        strat["se3_nonunit"] += 1
    strat["se3_w_neg" if q[3] < 0 else "se3_w_zero" if q[3] == 0 else "se3_w_pos"] += 1
    return PoseSE3([rng.scalar(), rng.scalar(), rng.scalar()], q)


def gen_delta(rng, n, strat):
    r = rng.random()
    if r < 0.4:
        s = rng.logu(1e-9, 1e-1)
    elif r < 0.8:
        s = rng.uniform(0.1, 0.9)
    else:
        s = rng.uniform(1.0, 3.0)
    v = np.array([rng.gauss(0, 1) * s for _ in range(n)])
    if n == 6:
        strat["boxplus_qnorm_gt1" if np.linalg.norm(v[3:]) > 1 else "boxplus_qnorm_le1"] += 1
    return v


def gen_se2_matrix(rng, strat):
    """3x3 input of PoseSE2.from_matrix, stratified by how the matrix was made (to_matrix() of a pose, products, inverses,
    scaled rotation blocks, arbitrary arrays) and by where its heading falls (four quadrants, on / next to the axes, the
    branch cut at +-pi)"""

    def heading():
        r = rng.random()
        if r < 0.4:  # strictly inside one of the four quadrants
            return -math.pi + (rng.randrange(4) + rng.uniform(0.02, 0.98)) * math.pi / 2
        if r < 0.8:  # on or next to an axis: 0, +-pi/2, +-pi
            base = rng.choice([0.0, math.pi / 2, -math.pi / 2, math.pi, -math.pi])
            return base + (0.0 if rng.random() < 0.3 else rng.sign() * rng.logu(1e-15, 1e-3))
        return rng.angle()

    def mat():
        return np.asarray(PoseSE2([rng.scalar(), rng.scalar()], heading()).to_matrix(), dtype=np.float64)

    r = rng.random()
    if r < 0.35:
        M, how = mat(), "to_matrix"
    elif r < 0.55:
        M, how = np.dot(mat(), mat()), "product"
    elif r < 0.7:
        M, how = np.linalg.inv(mat()), "inverse"
    elif r < 0.8:
        M, how = np.dot(np.linalg.inv(mat()), mat()), "inverse_times"
    elif r < 0.9:  # from_matrix reads three entries whatever the rest is: a scaled rotation block has the same heading
        M, how = mat(), "scaled"
        M[:2, :2] *= rng.logu(1e-3, 1e3)
    else:
        M, how = np.array([[rng.scalar() for _ in range(3)] for _ in range(3)]), "arbitrary"
        if rng.random() < 0.3:
            M[1, 0] = rng.choice([0.0, -0.0])  # on the real axis, either side of the cut (signed zero)
        if rng.random() < 0.15:
            M[0, 0] = rng.choice([0.0, -0.0])
    strat["from_matrix_" + how] += 1
    y, x = float(M[1, 0]), float(M[0, 0])
    th = math.atan2(y, x)
    if abs(abs(th) - math.pi) < 1e-2:
        strat["from_matrix_heading_near_pi"] += 1
    elif min(abs(th), abs(abs(th) - math.pi / 2)) < 1e-2:
        strat["from_matrix_heading_near_axis"] += 1
    else:
        strat["from_matrix_heading_q%d" % (1 if (x > 0 and y > 0) else 2 if y > 0 else 3 if x < 0 else 4)] += 1
    return M, how


def sym_info(rng, n):
    a = np.array([[rng.gauss(0, 1) for _ in range(n)] for _ in range(n)])
    return a @ a.T + np.eye(n) * rng.logu(1e-3, 1e2)


class _GenericEdge(BaseEdge):
    def __init__(self, err, information, jacobians, vertices):
        super().__init__([v.id for v in vertices], information, None, vertices)
        self._err, self._jac = err, jacobians

    def is_valid(self):
        return True

    def calc_error(self):
        return self._err

    def calc_jacobians(self):
        return self._jac


def flat(x):
    return [float(v) for v in np.asarray(x, dtype=np.float64).ravel()]


def one_case(d, rng, strat):
    """returns (dims, lean_inputs, python_output_flat, description)"""
    py = d["py"]
    kind = py["kind"]
    if kind == "function":
        a = rng.angle() if rng.random() < 0.8 else rng.sign() * rng.logu(1e2, 1e6)
        return [], [a], [float(gutil.neg_pi_to_pi(a))], dict(angle=a)
    if kind == "ctor":
        cls = CLS[py["cls"]]
        args, fl = [], []
        for a in py["args"]:
            if a[0] == "vec":
                v = [rng.scalar() for _ in range(a[1])]
                if py["cls"] == "PoseSE3" and a[1] == 4:
                    v = rng.unit_quat()
                args.append(v)
                fl += v
            else:
                s = rng.angle()
                args.append(s)
                fl.append(s)
        return [], fl, flat(cls(*args)), dict(args=args)
    if kind == "static":
        return [], [], flat(getattr(CLS[py["cls"]], py["name"])()), {}
    if kind == "from_matrix":
        # classmethod: matrix -> pose (only PoseSE2 has one)
        assert py["cls"] == "PoseSE2" and py["args"] == [["mat", 3, 3]], "from_matrix of an unexpected class / shape"
        M, how = gen_se2_matrix(rng, strat)
        out = getattr(CLS[py["cls"]], py["name"])(M)
        assert type(out).__name__ == py["cls"], "from_matrix did not return a %s" % py["cls"]
        return [], flat(M), flat(out), dict(how=how, matrix=flat(M))
    if kind == "iadd":
        obj = gen_pose(rng, py["cls"], strat)
        a = py["args"][0]
        o = gen_pose(rng, a[1], strat) if a[0] == "pose" else gen_delta(rng, a[1], strat)
        fl = flat(obj) + flat(o)
        before = flat(obj)
        p = obj
        pid = id(p)
        p += o
        assert id(p) != pid and flat(obj) == before, "+= mutated its operand"
        return [], fl, flat(p), dict(self=before)
    if kind in ("method", "property", "mutator"):
        obj = gen_pose(rng, py["cls"], strat)
        fl = flat(obj)
        args = []
        for a in py.get("args", []):
            if a[0] == "pose":
                o = gen_pose(rng, a[1], strat)
            else:
                o = gen_delta(rng, a[1], strat)
            args.append(o)
            fl += flat(o)
        before = flat(obj)
        if kind == "property":
            out = getattr(obj, py["name"])
        elif kind == "mutator":
            getattr(obj, py["name"])()
            out = obj
        else:
            out = getattr(obj, py["name"])(*args)
        return [], fl, flat(out), dict(self=before, args=[flat(a) for a in args])
    if kind == "edge":
        types = py["types"]
        if py["cls"] == "EdgeOdometry":
            z, p0, p1 = [gen_pose(rng, t, strat) for t in types]
            n = p0.COMPACT_DIMENSIONALITY
            e = EdgeOdometry([0, 1], sym_info(rng, n), z, [Vertex(0, p0), Vertex(1, p1)])
            fl = flat(z) + flat(p0) + flat(p1)
        else:
            z, off, p0, p1 = [gen_pose(rng, t, strat) for t in types]
            if rng.random() < 0.2:
                off = CLS[types[1]].identity()
                strat["landmark_identity_offset"] += 1
            n = p1.COMPACT_DIMENSIONALITY
            e = EdgeLandmark([0, 1], sym_info(rng, n), z, offset=off, vertices=[Vertex(0, p0), Vertex(1, p1)])
            fl = flat(z) + flat(off) + flat(p0) + flat(p1)
        assert e.is_valid()
        if py["name"] == "calc_error":
            out = e.calc_error()
        else:
            out = e.calc_jacobians()[py["index"]]
        return [], fl, flat(out), dict(inputs=fl)
    if kind == "generic":
        m = rng.randrange(1, 7)
        err = np.array([rng.scalar() for _ in range(m)])
        info = sym_info(rng, m)
        if rng.random() < 0.3:
            info = np.array([[rng.gauss(0, 1) for _ in range(m)] for _ in range(m)])  # non-symmetric: formulas hold as written
            strat["generic_nonsymmetric_info"] += 1
        if py["name"] == "calc_chi2":
            e = _GenericEdge(err, info, [], [])
            return [m], flat(err) + flat(info), [float(e.calc_chi2())], dict(m=m)
        # contributions: 1..3 vertices of random compact dimension; compare one entry of the real lists
        nv = rng.randrange(1, 4)
        dims = [rng.choice([2, 3, 6]) for _ in range(nv)]
        jac = [np.array([[rng.scalar() for _ in range(c)] for _ in range(m)]) for c in dims]
        vs = []
        gi = 0
        for k, c in enumerate(dims):
            pose = {2: PoseR2([0, 0]), 3: PoseR3([0, 0, 0]), 6: PoseSE3([0, 0, 0], [0, 0, 0, 1])}[c]
            v = Vertex(k, pose)
            v.gradient_index = gi
            gi += c
            vs.append(v)
        e = _GenericEdge(err, info, jac, vs)
        chi2, g, h = e.calc_chi2_gradient_hessian()
        strat["contrib_nv_%d" % nv] += 1
        if py["name"] == "gradient_contrib":
            assert len(g) == nv and [x[0] for x in g] == [v.gradient_index for v in vs]
            k = rng.randrange(nv)
            return [dims[k], m], flat(err) + flat(info) + flat(jac[k]), flat(g[k][1]), dict(m=m, dims=dims, k=k)
        pairs = [(i, j) for i in range(nv) for j in range(i, nv)]
        assert [x[0] for x in h] == [(vs[i].gradient_index, vs[j].gradient_index) for i, j in pairs], "Hessian contribution keys are not the (i<=j) pairs"
        t = rng.randrange(len(pairs))
        i, j = pairs[t]
        return [dims[i], dims[j], m], flat(jac[i]) + flat(info) + flat(jac[j]), flat(h[t][1]), dict(m=m, dims=dims, pair=[i, j])
    raise AssertionError(kind)


def angle_slots(d):
    """indices of the flat output that are SE(2) angles (compared modulo 2*pi)"""
    lean = d["lean"]
    r = d["ret"]
    if lean == "Util.neg_pi_to_pi" or lean == "PoseSE2.orientation":
        return [0]
    if r[0] == "vec" and r[1] == 3 and (lean.startswith("PoseSE2.") and (r[2] == "PoseSE2" or lean in ("PoseSE2.to_array", "PoseSE2.to_compact"))):
        return [2]
    if lean == "EdgeOdometry.calc_error_SE2":
        return [2]
    return []


def compare(d, a, b, scale_in):
    if len(a) != len(b):
        return "length %d vs %d" % (len(a), len(b)), float("inf")
    ang = set(angle_slots(d))
    scale = 1.0 + max([abs(x) for x in a if math.isfinite(x)] + [0.0])
    worst = 0.0
    for i, (x, y) in enumerate(zip(a, b)):
        if math.isnan(x) and math.isnan(y):
            continue
        if math.isinf(x) or math.isinf(y):
            if x == y:
                continue
            return "inf mismatch at %d" % i, float("inf")
        diff = abs(x - y)
        if i in ang:
            diff = abs(math.remainder(x - y, 2 * math.pi))
            tol = 1e-9 * (1 + scale_in)
        else:
            tol = 1e-10 * scale * (1 + scale_in)
        if not diff <= tol:
            return "entry %d: python %r lean %r (tol %g)" % (i, x, y, tol), diff
        worst = max(worst, diff / tol)
    return None, worst


def run(seed, per_def, only=None, max_report=5):
    man = json.load(open(os.path.join(LEAN_DIR, "generated_manifest.json")))
    drv = Driver()
    from collections import Counter

    strat = Counter()
    res = dict(cases=0, defs=0, disagreements=[], per_def={}, errors=[])
    samples = []
    try:
        for d in man["defs"]:
            if only and not any(d["lean"].startswith(o) for o in only):
                continue
            rng = Rng(seed, "layerA|" + d["lean"])
            n = per_def if d["params"] else 1
            bad = 0
            for k in range(n):
                try:
                    dims, fl, out, desc = one_case(d, rng, strat)
                except AssertionError as e:
                    res["errors"].append(dict(lean=d["lean"], error="harness assertion: %s" % e))
                    bad += 1
                    break
                if not all(math.isfinite(x) for x in fl):
                    continue
                lo = drv.eval(d["lean"], dims, fl)
                scale_in = max([abs(x) for x in fl] + [0.0])
                # products of up to three inputs appear in the Jacobians
                msg, worst = compare(d, out, lo, min(scale_in, 1e4) ** 2 if scale_in > 1 else 0.0)
                res["cases"] += 1
                if msg:
                    bad += 1
                    if len(res["disagreements"]) < max_report:
                        res["disagreements"].append(dict(lean=d["lean"], file=d["file"], line=d["line"], dims=dims, inputs=fl, python=out, lean_out=lo, why=msg, desc=desc))
                if k == 0 and len(samples) < 6 and d["params"]:
                    samples.append(dict(lean=d["lean"], inputs=fl[:14], python=out[:8], lean_out=lo[:8]))
            res["per_def"][d["lean"]] = dict(cases=n, bad=bad)
            res["defs"] += 1
    finally:
        drv.close()
    res["strata"] = dict(strat)
    res["samples"] = samples
    res["ok"] = not res["disagreements"] and not res["errors"] and all(v["bad"] == 0 for v in res["per_def"].values())
    return res


if __name__ == "__main__":
    seed = int(os.environ.get("VERIF_SEED", "0"))
    n = int(sys.argv[1]) if len(sys.argv) > 1 else 20
    only = sys.argv[2:] or None
    r = run(seed, n, only)
    print(json.dumps({k: v for k, v in r.items() if k != "per_def"}, indent=1)[:6000])
    bad = {k: v for k, v in r["per_def"].items() if v["bad"]}
    print("bad defs:", bad)
    sys.exit(0 if r["ok"] else 1)
