"""Correspondence harness for the object-identity (heap) model of C15 (GraphSlam.Model.Objects; driver command `heap`,
Driver/Heap.lean).

A trace = a real graph with deliberately created aliasing + a random history of calls.  The history is applied to the real
objects in-process; after every call the harness records a canonical, identity-aware observation.  The same world (objects,
alias groups) and history (with the increments `dx` the real sparse solver returned) go to the compiled Lean model, which
prints its own observation after every call.  Compared after every call:

  canonical name of the object bound to every vertex pose / edge estimate / information / offset,
  of every returned object, and of every object a spy inside the call saw                          exact
  which objects that existed before the call changed bitwise                                        exact (*)
  fixed flags                                                                                        exact
  class and entries of every vertex pose, of every returned array, of in-place targets             1e-11 (SE(2) angle mod 2pi)

(*) the operand of `normalize()` is exempt (numpy's norm and the model's round differently in the last bit).

"Object" = numpy buffer: the canonical name of an array is the position, in order of first observation, of the root of its
`.base` chain.  For every object in a world without shared buffers this coincides with `id()` numbering (checked on every
observation: `id_pattern_checked`); PoseR2/PoseR3 objects deliberately created on one buffer (their constructors use
np.asarray) are two Python objects and ONE model object, and are compared through the buffer only.

Everything random derives from one seeded PRNG (lib.common.Rng)."""
import math
import os
import sys
import warnings

WORK = "/var/tmp/gsverif_heap_%d" % os.getpid()  # scratch (self-test only)
sys.path.insert(0, os.path.join(os.path.dirname(os.path.abspath(__file__)), ".."))
from lib.common import Driver, Rng, f2h, h2f  # noqa: E402
from lib import graphgen as G  # noqa: E402
import numpy as np  # noqa: E402
import graphslam.graph as gg  # noqa: E402
from graphslam.pose.base_pose import BasePose  # noqa: E402
from graphslam.edge.base_edge import BaseEdge  # noqa: E402

KIND = {"PoseR2": "r2", "PoseR3": "r3", "PoseSE2": "se2", "PoseSE3": "se3"}
CDIM = {"PoseR2": 2, "PoseR3": 3, "PoseSE2": 3, "PoseSE3": 6}
POINT = {"PoseSE2": "PoseR2", "PoseSE3": "PoseR3"}
TOL = 1e-11
MAG_LIMIT = 1e4


def root(x):
    r = x
    while isinstance(r, np.ndarray) and r.base is not None:
        r = r.base
    return r


def cls(x):
    return type(x).__name__


# HEAP_OLD_MODEL=1 sends DistanceEdge (numerical Jacobians) to the model as an edge with analytic Jacobians: the model then is
# Model/Heap.lean `optimizeObj` as first written (assembling = a read-only method).  Used to reproduce the model gap (NOTES_P10).
OLD_MODEL = os.environ.get("HEAP_OLD_MODEL") == "1"


def ekind(e):
    k = {"EdgeOdometry": "odo", "EdgeLandmark": "lm", "DistanceEdge": "dist", "DistanceEdgeAnalytic": "dista"}[cls(e)]
    return "dista" if (OLD_MODEL and k == "dist") else k


def is_numeric(e):
    return cls(e) == "DistanceEdge"


def obj_desc(x):
    """(tag, shape..., values) of an object, in the driver's vocabulary"""
    if isinstance(x, BasePose):
        return ("p", KIND[cls(x)], np.array(x, dtype=np.float64).ravel().copy())
    a = np.asarray(x, dtype=np.float64)
    if a.ndim == 0:
        return ("s", 1, a.reshape(1).copy())
    if a.ndim == 1:
        return ("s", a.shape[0], a.copy())
    return ("b", a.shape[0], a.shape[1], a.ravel().copy())


def desc_tokens(d):
    return [str(t) for t in d[:-1]] + [f2h(float(v)) for v in d[-1]]


def parse_dump(s):
    w = s.split()
    if not w or w[0] == "none":
        return None
    if w[0] == "p":
        return ("p", w[1], np.array([h2f(t) for t in w[2:]]))
    if w[0] == "s":
        return ("s", int(w[1]), np.array([h2f(t) for t in w[2:]]))
    return ("b", int(w[1]), int(w[2]), np.array([h2f(t) for t in w[3:]]))


def close(a, b, tol):
    a, b = np.asarray(a, dtype=np.float64), np.asarray(b, dtype=np.float64)
    if a.shape != b.shape:
        return False
    if a.size == 0:
        return True
    fa, fb = np.isfinite(a), np.isfinite(b)
    if not np.array_equal(fa, fb):
        return False
    if not fa.any():
        return True
    scale = 1.0 + float(np.max(np.abs(a[fa])))
    return bool(np.all(np.abs(a[fa] - b[fa]) <= tol * scale))


def desc_close(m, i, tol, mag=1.0):
    """model dump vs implementation description; `tol` is relative to `mag`, the magnitude of the quantities the value was
    computed from (entries of every observed object, the solver's increments)"""
    if m is None or i is None:
        return m is None and i is None
    if m[:-1] != i[:-1]:
        return False
    a, b = m[-1], i[-1]
    if a.shape != b.shape:
        return False
    fa, fb = np.isfinite(a), np.isfinite(b)
    if not np.array_equal(fa, fb):
        return False
    d = np.abs(np.where(fa, a, 0.0) - np.where(fb, b, 0.0))
    okk = d <= tol * mag
    if okk.all():
        return True
    if (m[0] == "p" and m[1] == "se2") or (m[0] == "s" and m[1] == 3):
        # an SE(2) angle (or the compact error of an SE(2) edge): compare modulo 2 pi
        return bool(okk[:2].all()) and bool(fa[2]) and abs(math.remainder(a[2] - b[2], 2 * math.pi)) <= max(1e-9, 100 * tol * mag)
    return False


class Tracker:
    """objects observed so far, in order of first observation; keeps them alive (no id reuse)"""

    def __init__(self):
        self.objs = []  # first Python object seen for each buffer
        self.by_root = {}
        self.snaps = []
        self.id_objs = []
        self.by_id = {}

    def name(self, x):
        k = id(root(x))
        if k not in self.by_root:
            self.by_root[k] = len(self.objs)
            self.objs.append(x)
            self.snaps.append(self.snap(x))
        if id(x) not in self.by_id:
            self.by_id[id(x)] = len(self.id_objs)
            self.id_objs.append(x)
        return self.by_root[k]

    def name_id(self, x):
        return self.by_id[id(x)]

    @staticmethod
    def snap(x):
        return np.asarray(x, dtype=np.float64).tobytes()


def slots(g):
    out = [v.pose for v in g._vertices]
    for e in g._edges:
        out += [e.estimate, e.information]
        if hasattr(e, "offset"):
            out.append(e.offset)
    return out


def fd_scale(e):
    """magnitude of the quantities whose rounding error the finite difference divides by EPS"""
    xs = [np.asarray(e.calc_error(), dtype=np.float64).ravel(), np.asarray(e.estimate, dtype=np.float64).ravel()] + [np.asarray(v.pose, dtype=np.float64).ravel() for v in e.vertices]
    if hasattr(e, "offset"):
        xs.append(np.asarray(e.offset, dtype=np.float64).ravel())
    a = np.concatenate(xs)
    a = a[np.isfinite(a)]
    return 1.0 + (float(np.max(np.abs(a))) if a.size else 0.0)


def observe(g, T, status, results, inner, target=None, scale=None):
    """canonical observation of the real world after a call (same order of naming as Driver/Heap.lean `observe`)"""
    old_n = len(T.objs)
    seq = list(inner) + list(results) + slots(g)
    names = [T.name(x) for x in seq]
    id_names = [T.name_id(x) for x in seq]
    ni, nr, nv = len(inner), len(results), len(g._vertices)
    e_names = []
    k = ni + nr + nv
    for e in g._edges:
        if hasattr(e, "offset"):
            e_names.append((names[k], names[k + 1], names[k + 2]))
            k += 3
        else:
            e_names.append((names[k], names[k + 1], None))
            k += 2
    changed = []
    for i in range(old_n):
        s = T.snap(T.objs[i])
        if s != T.snaps[i]:
            changed.append(i)
            T.snaps[i] = s
    # magnitude of the pose objects (chi2 values, Jacobians and information matrices are results, not inputs of later updates)
    mags = [np.abs(a[np.isfinite(a)]).max() for a in (np.asarray(x, dtype=np.float64).ravel() for x in T.objs if isinstance(x, BasePose)) if a.size and np.isfinite(a).any()]
    if scale is None:
        scale = 1.0
    return dict(mag=1.0 + (float(max(mags)) if mags else 0.0), status=status, n=len(T.objs), v=names[ni + nr : ni + nr + nv], e=e_names, r=names[ni : ni + nr], inner=names[:ni], changed=changed,
                flags=[bool(v.fixed) for v in g._vertices], poses=[obj_desc(v.pose) for v in g._vertices], resvals=[obj_desc(x) for x in results],
                target=(obj_desc(T.objs[target]) if target is not None else None),
                id_same=(len(T.id_objs) == len(T.objs) and names == id_names), scale=scale)


def parse_step(s):
    f = s.split(";")
    if f[0].strip() in ("raise", "badref"):
        return dict(status=f[0].strip())
    ints = lambda t: [int(x) for x in t.split()]
    ew = f[3].split()
    return dict(status=f[0].strip(), n=int(f[1]), v=ints(f[2]), e=[(int(ew[i]), int(ew[i + 1]), None if ew[i + 2] == "-" else int(ew[i + 2])) for i in range(0, len(ew), 3)],
                r=ints(f[4]), inner=ints(f[5]), changed=ints(f[6]), flags=[x == "1" for x in f[7].split()],
                poses=[parse_dump(x) for x in f[8].split(",")] if f[8].strip() else [], resvals=[parse_dump(x) for x in f[9].split(",")] if f[9].strip() else [],
                target=parse_dump(f[10]) if len(f) > 10 and f[10].strip() else None)


# --------------------------------------------------------------------------------------------------------------------
# worlds with aliasing


def build_world(rng, res):
    fix = rng.choice(["first", "random"])
    g, desc = G.make_graph(rng, fix=fix, custom=rng.random() < 0.6, noise=rng.choice([0.02, 0.1, 0.3]), well_posed=True, ids=rng.choice(["shuffled", "plain"]), nv=rng.randrange(2, 7))
    shapes = []
    shared_buffer = False
    vs, es = g._vertices, g._edges
    n_alias = rng.choice([0, 1, 1, 2, 2, 3])
    for _ in range(n_alias):
        kind = rng.choice(["vv", "v=est", "v=est", "v=off", "info", "est", "buffer", "vvv"])
        if kind in ("vv", "vvv"):
            a = rng.choice(vs)
            same = [v for v in vs if v is not a and cls(v.pose) == cls(a.pose)]
            if not same:
                continue
            for b in rng.sample(same, min(len(same), 1 if kind == "vv" else 2)):
                b.pose = a.pose
            shapes.append(kind)
        elif kind == "v=est":
            e = rng.choice(es)
            cand = [v for v in vs if cls(v.pose) == cls(e.estimate)]
            if not cand:
                continue
            v = rng.choice(cand) if rng.random() < 0.5 else e.vertices[1]
            if cls(v.pose) != cls(e.estimate):
                continue
            v.pose = e.estimate
            shapes.append("v=est(%s)" % ("lm" if hasattr(e, "offset") else "odo"))
        elif kind == "v=off":
            cand = [e for e in es if hasattr(e, "offset")]
            if not cand:
                continue
            e = rng.choice(cand)
            vc = [v for v in vs if cls(v.pose) == cls(e.offset)]
            if not vc:
                continue
            rng.choice(vc).pose = e.offset
            shapes.append("v=off")
        elif kind == "info":
            a = rng.choice(es)
            same = [e for e in es if e is not a and np.shape(e.information) == np.shape(a.information)]
            if not same:
                continue
            rng.choice(same).information = a.information
            shapes.append("info=info")
        elif kind == "est":
            a = rng.choice(es)
            same = [e for e in es if e is not a and cls(e.estimate) == cls(a.estimate)]
            if not same:
                continue
            rng.choice(same).estimate = a.estimate
            shapes.append("est=est")
        elif kind == "buffer":
            # two pose OBJECTS on one numpy buffer (PoseR2 / PoseR3 constructors use np.asarray): one model object
            cand = [v for v in vs if cls(v.pose) in ("PoseR2", "PoseR3")]
            if not cand:
                continue
            a = rng.choice(cand)
            buf = np.array(np.asarray(a.pose), dtype=np.float64)
            a.pose = type(a.pose)(buf)
            others = [("v", v) for v in vs if v is not a and cls(v.pose) == cls(a.pose)] + [("e", e) for e in es if cls(e.estimate) == cls(a.pose)]
            if not others:
                continue
            t, o = rng.choice(others)
            if t == "v":
                o.pose = type(a.pose)(buf)
            else:
                o.estimate = type(a.pose)(buf)
            shared_buffer = True
            shapes.append("shared-buffer(%s)" % t)
    if not shapes:
        shapes.append("no-aliasing")
    for s in shapes:
        res["aliasing"][s] = res["aliasing"].get(s, 0) + 1
    return g, desc, shared_buffer, shapes, fix


def rand_pose(rng, cname, wild=False):
    vals = G.rand_pose_vals(rng, cname, spread=2.0)
    p = G.mk_pose(cname, vals)
    if wild:
        # contents only an in-place write can produce: out-of-range SE(2) angle, non-unit quaternion
        a = np.array(p, dtype=np.float64)
        if cname == "PoseSE2":
            a[2] = rng.uniform(-9.0, 9.0)
        elif cname == "PoseSE3":
            a[3:] *= rng.uniform(0.5, 2.0) * rng.choice([1.0, 1.0, -1.0])
        return a
    return p


# --------------------------------------------------------------------------------------------------------------------
# one trace

EPS = BaseEdge._NUMERICAL_DIFFERENTIATION_EPSILON
# operand classes on which BOTH the code and the model refuse (the other ill-typed combinations are duck-typed by the code: NOTES_P10)
ILL = {"add": [("PoseR2", "PoseR3"), ("PoseR2", "PoseSE2"), ("PoseR2", "PoseSE3"), ("PoseR3", "PoseR2"), ("PoseR3", "PoseSE3"), ("PoseSE2", "PoseSE3"), ("PoseSE3", "PoseR2")],
       "sub": [("PoseR2", "PoseR3"), ("PoseR2", "PoseSE2"), ("PoseR2", "PoseSE3"), ("PoseR3", "PoseR2"), ("PoseR3", "PoseSE3"), ("PoseSE2", "PoseR2"), ("PoseSE3", "PoseR2"), ("PoseSE3", "PoseR3"), ("PoseSE3", "PoseSE2")]}
OPS = [("illtyped", 0.12), ("numjacs", 0.8), ("copy", 1.0), ("add", 1.5), ("sub", 1.0), ("inv", 0.7), ("compact", 0.5), ("norm", 0.8), ("iadd", 2.0), ("cerr", 1.0), ("chi2", 0.5), ("jac", 0.7),
       ("gchi2", 0.3), ("numjac", 2.0), ("opt", 2.0), ("scrib", 1.2), ("bind", 1.5), ("setfixed", 0.5)]


def pick_op(rng):
    tot = sum(w for _, w in OPS)
    x = rng.uniform(0, tot)
    for name, w in OPS:
        x -= w
        if x <= 0:
            return name
    return OPS[-1][0]


def run_trace(drv, seed, k, length, res):
    rng = Rng(seed, "heap|%d" % k)
    g, desc, shared_buffer, shapes, fix = build_world(rng, res)
    vs, es = g._vertices, g._edges
    T = Tracker()
    for x in slots(g):
        T.name(x)
    # objects only the caller holds: poses of every class in the graph, increments of every compact dimension
    classes = sorted(set(cls(v.pose) for v in vs) | set(cls(e.estimate) for e in es if cls(e.estimate) in KIND))
    for c in classes:
        for _ in range(2):
            T.name(rand_pose(rng, c))
        T.name(np.array([rng.gauss(0, rng.choice([1e-3, 0.1, 0.4])) for _ in range(CDIM[c])]))
    nobj = len(T.objs)
    pos_of = {id(v): i for i, v in enumerate(vs)}
    head = ["heap", str(nobj)]
    for x in T.objs:
        head += desc_tokens(obj_desc(x))
    head.append(str(len(vs)))
    for v in vs:
        head += [str(v.id), str(T.name(v.pose)), "1" if v.fixed else "0", str(v.gradient_index)]
    head.append(str(len(es)))
    for e in es:
        head += [ekind(e), str(len(e.vertices))] + [str(pos_of[id(v)]) for v in e.vertices]
        head += [str(T.name(e.estimate)), str(T.name(e.information)), str(T.name(e.offset)) if hasattr(e, "offset") else "-"]
    impl = [observe(g, T, "ok", [], [])]
    ops = []  # (name, tokens)
    harness_fixed = set()

    def poses_of(cname):
        return [i for i, x in enumerate(T.objs) if isinstance(x, BasePose) and cls(x) == cname]

    def segs_of(n):
        return [i for i, x in enumerate(T.objs) if not isinstance(x, BasePose) and isinstance(x, np.ndarray) and x.ndim == 1 and x.shape[0] == n]

    def all_poses():
        return [i for i, x in enumerate(T.objs) if isinstance(x, BasePose)]

    def prefer_bound(cand):
        """half of the time restrict the choice to objects currently bound in the graph (that is where aliasing matters)"""
        if rng.random() < 0.5:
            bound = set(T.name(x) for x in slots(g))
            b = [i for i in cand if i in bound]
            if b:
                return rng.choice(b)
        return rng.choice(cand)

    def note(key):
        res["alias_at_op"][key] = res["alias_at_op"].get(key, 0) + 1

    def sharing(x):
        """how the object is bound at this moment: (#vertices, #edge attributes) holding its buffer"""
        k = id(root(x))
        return sum(1 for v in vs if id(root(v.pose)) == k), sum(1 for y in slots(g)[len(vs):] if id(root(y)) == k)

    def note_sharing(opname, x):
        nv_, ne_ = sharing(x)
        if nv_ >= 2:
            note(opname + ": object bound to >=2 vertices")
        if nv_ >= 1 and ne_ >= 1:
            note(opname + ": object bound to a vertex and an edge attribute")
        if nv_ + ne_ == 0:
            note(opname + ": object held by the caller only")

    truncated = None
    for step in range(length):
        name = pick_op(rng)
        toks = None
        results, inner, target, scale = [], [], None, None
        raised = None
        try:
            with warnings.catch_warnings():
                warnings.simplefilter("ignore")
                if name in ("copy", "inv", "compact"):
                    t = prefer_bound(all_poses())
                    toks = [name, str(t)]
                    x = T.objs[t]
                    results = [x.copy() if name == "copy" else (x.inverse if name == "inv" else x.to_compact())]
                elif name == "norm":
                    c = poses_of("PoseSE3")
                    if not c:
                        continue
                    t = prefer_bound(c)
                    toks = ["norm", str(t)]
                    target = t
                    note_sharing("norm", T.objs[t])
                    T.objs[t].normalize()
                elif name in ("add", "sub"):
                    t = prefer_bound(all_poses())
                    a = T.objs[t]
                    cand = poses_of(cls(a))
                    if name == "add":
                        cand = cand + segs_of(CDIM[cls(a)]) + (poses_of(POINT[cls(a)]) if cls(a) in POINT else [])
                    q = rng.choice(cand)
                    toks = [name, str(t), str(q)]
                    results = [a + T.objs[q] if name == "add" else a - T.objs[q]]
                elif name == "illtyped":
                    which = rng.choice(["add", "sub"])
                    pairs = [(t, q) for (ca, cb) in ILL[which] for t in poses_of(ca) for q in poses_of(cb)]
                    if not pairs:
                        continue
                    t, q = rng.choice(pairs)
                    toks = [which, str(t), str(q)]
                    results = [T.objs[t] + T.objs[q] if which == "add" else T.objs[t] - T.objs[q]]
                elif name == "iadd":
                    kk = rng.randrange(len(vs))
                    c = cls(vs[kk].pose)
                    q = rng.choice(poses_of(c) + segs_of(CDIM[c]) + ([T.name(vs[kk].pose)] if rng.random() < 0.3 else []))
                    toks = ["iadd", str(kk), str(q)]
                    note_sharing("iadd", vs[kk].pose)
                    if T.name(vs[kk].pose) == q:
                        note("iadd: operand is the vertex's own pose object")
                    vs[kk].pose += T.objs[q]
                elif name in ("cerr", "chi2", "jac", "numjacs"):
                    cand = [i for i, e in enumerate(es) if name != "jac" or ekind(e) in ("odo", "lm")]
                    if not cand:
                        continue
                    ei = rng.choice(cand)
                    toks = [name, str(ei)]
                    e = es[ei]
                    if name == "cerr":
                        results = [e.calc_error()]
                    elif name == "chi2":
                        results = [e.calc_chi2()]
                    elif name == "jac":
                        results = list(e.calc_jacobians())
                    else:
                        toks.append(f2h(e._NUMERICAL_DIFFERENTIATION_EPSILON))
                        scale = fd_scale(e)
                        results = list(BaseEdge.calc_jacobians(e))  # numerical differentiation w.r.t. every vertex of the edge
                    res["edge_kinds"][name + ":" + ekind(e)] = res["edge_kinds"].get(name + ":" + ekind(e), 0) + 1
                elif name == "gchi2":
                    toks = ["gchi2"]
                    results = [g.calc_chi2()]
                elif name == "numjac":
                    ei = rng.randrange(len(es))
                    e = es[ei]
                    vi = rng.randrange(len(e.vertices))
                    dim = e.vertices[vi].pose.COMPACT_DIMENSIONALITY
                    eps = e._NUMERICAL_DIFFERENTIATION_EPSILON
                    toks = ["numjac", str(ei), str(vi), str(dim), f2h(eps)]
                    res["edge_kinds"]["numjac:" + ekind(e)] = res["edge_kinds"].get("numjac:" + ekind(e), 0) + 1
                    note_sharing("numjac", e.vertices[vi].pose)
                    scale = fd_scale(e)
                    err = e.calc_error()
                    seen = []
                    orig = e.calc_error

                    def spy(e=e, vi=vi, seen=seen, orig=orig):
                        seen.append(e.vertices[vi].pose)  # the perturbed pose object this inner call reads
                        return orig()

                    e.calc_error = spy
                    try:
                        results = [e._calc_jacobian(err, dim, vi)]
                    finally:
                        del e.calc_error
                    inner = seen
                elif name == "opt":
                    any_fixed = any(v.fixed for v in vs)
                    ffp = True if (fix == "first" or not any_fixed) else rng.random() < 0.4
                    tol = rng.choice([0.0, 1e-4])
                    max_iter = rng.randrange(1, 4)
                    free = [v for j, v in enumerate(vs) if not (v.fixed or (ffp and j == 0))]
                    fk = [id(root(v.pose)) for v in free]
                    if len(set(fk)) < len(fk):
                        note("opt: two free vertices share one pose object")
                    if any(sharing(v.pose)[1] for v in free):
                        note("opt: a free vertex's pose is an edge attribute")
                    if any(id(root(v.pose)) in fk for j, v in enumerate(vs) if (v.fixed or (ffp and j == 0))):
                        note("opt: a fixed and a free vertex share one pose object")
                    dxs = []
                    seen = []
                    orig = gg.spsolve

                    def wrapped(A, rhs, dxs=dxs, seen=seen, orig=orig):
                        seen.extend(v.pose for v in vs)  # what every vertex is bound to when the solver is called
                        dx = orig(A, rhs)
                        dxs.append(np.array(dx, dtype=np.float64))
                        return dx

                    n_asm = [0]
                    orig_asm = g._calc_chi2_gradient_hessian

                    def asm(n_asm=n_asm, orig_asm=orig_asm):
                        n_asm[0] += 1
                        return orig_asm()

                    gg.spsolve = wrapped
                    g._calc_chi2_gradient_hessian = asm
                    try:
                        g.optimize(tol=tol, max_iter=max_iter, fix_first_pose=ffp, verbose=False)
                    except Exception as ex:  # noqa: BLE001  the state after an exception inside optimize is not modelled
                        truncated = "optimize raised %s" % type(ex).__name__
                        break
                    finally:
                        gg.spsolve = orig
                        del g._calc_chi2_gradient_hessian
                    inner = seen
                    extra = n_asm[0] - len(dxs)  # 1: the call returned from the iteration that detected convergence (assembled, not solved)
                    assert extra in (0, 1)
                    scale = 1.0 + max([float(np.max(np.abs(dx[np.isfinite(dx)]))) for dx in dxs if dx.size and np.isfinite(dx).any()] or [0.0])
                    toks = ["opt", "1" if ffp else "0", str(extra), f2h(EPS), str(len(dxs))]
                    for dx in dxs:
                        toks += [str(len(dx))] + [f2h(float(x)) for x in dx]
                    key = "numeric-edges" if any(is_numeric(e) for e in es) else "analytic-only"
                    res["opt_kinds"][key] = res["opt_kinds"].get(key, 0) + 1
                    res["opt_iters"][len(dxs)] = res["opt_iters"].get(len(dxs), 0) + 1
                elif name == "scrib":
                    cand = [i for i, x in enumerate(T.objs) if isinstance(x, np.ndarray) and x.ndim >= 1 and x.flags.writeable]
                    t = prefer_bound(cand)
                    x = T.objs[t]
                    if isinstance(x, BasePose):
                        new = np.asarray(rand_pose(rng, cls(x), wild=rng.random() < 0.5), dtype=np.float64)
                    elif x.ndim == 2 and x.shape[0] == x.shape[1] and x.shape[0] > 0:
                        new = G.spd(rng, x.shape[0])
                    else:
                        new = np.array([rng.gauss(0, 0.3) for _ in range(x.size)]).reshape(x.shape)
                    target = t
                    note_sharing("scrib", x)
                    np.asarray(x)[...] = new  # the caller writes into an array it holds
                    toks = ["scrib", str(t)] + desc_tokens(obj_desc(x))
                elif name == "bind":
                    kk = rng.randrange(len(vs))
                    q = rng.choice(poses_of(cls(vs[kk].pose)))
                    toks = ["bind", str(kk), str(q)]
                    if sharing(T.objs[q])[0] + sharing(T.objs[q])[1] >= 1:
                        note("bind: creates a new alias of a bound object")
                    vs[kk].pose = T.objs[q]
                elif name == "setfixed":
                    kk = rng.randrange(len(vs))
                    if kk in harness_fixed and rng.random() < 0.6:
                        b = False
                        harness_fixed.discard(kk)
                    else:
                        b = True
                        if not vs[kk].fixed:
                            harness_fixed.add(kk)
                    toks = ["setfixed", str(kk), "1" if b else "0"]
                    vs[kk].fixed = b
        except Exception as ex:  # noqa: BLE001
            raised = "%s: %s" % (type(ex).__name__, ex)
        if toks is None:
            if raised:
                truncated = "harness could not build the call: " + raised
                break
            continue
        ops.append((name, toks))
        res["ops"][name] = res["ops"].get(name, 0) + 1
        if raised:
            impl.append(dict(status="raise", error=raised))
            break
        impl.append(observe(g, T, "ok", results, inner, target, scale))
    if truncated:
        res["truncated"][truncated] = res["truncated"].get(truncated, 0) + 1
    line = " ".join(head + [str(len(ops))] + [t for _, toks in ops for t in toks])
    reply = drv.ask(line)
    bad = lambda what, **kw: res["disagreements"].append(dict(what=what, trace=k, aliasing=shapes, world=desc["world"], **kw))
    if not reply.startswith("ok "):
        bad("driver", reply=reply[:200])
        return
    model = [parse_step(s) for s in reply[3:].split(" | ")]
    for j, (m, i) in enumerate(zip(model, impl)):
        op = ops[j - 1] if j > 0 else ("initial world", [])
        res["cases"] += 1
        ctx = dict(step=j, op=op[0], args=[t for t in op[1][1:4]], tail=[n for n, _ in ops[max(0, j - 5) : j]])
        if m["status"] != i["status"]:
            bad("raise / return", model=m["status"], impl=i["status"], error=i.get("error"), **ctx)
            return
        if m["status"] == "badref":
            bad("the model's list of observed objects is shorter than the implementation's (an operand name does not exist)", **ctx)
            return
        if m["status"] == "raise":
            res["both_raise"] += 1
            continue
        if not shared_buffer:
            res["id_pattern_checked"] += 1
            if not i["id_same"]:
                bad("id() numbering differs from buffer numbering in a world without shared buffers (a result shares memory with an older object)", **ctx)
                return
        for key, what in (("v", "identity of vertex poses"), ("e", "identity of edge attributes"), ("r", "identity of returned objects"), ("inner", "identity of objects seen inside the call"),
                          ("n", "number of objects observed"), ("flags", "fixed flags")):
            if m[key] != i[key]:
                bad(what, model=m[key], impl=i[key], **ctx)
                return
        mc, ic = set(m["changed"]), set(i["changed"])
        if op[0] == "norm":
            t = int(op[1][1])
            mc.discard(t)
            ic.discard(t)
        if mc != ic:
            bad("which pre-existing objects changed", model=sorted(mc), impl=sorted(ic), **ctx)
            return
        mag = max(i["mag"], impl[j - 1]["mag"] if j > 0 else 1.0, i["scale"] if op[0] == "opt" else 1.0)
        res["max_magnitude"] = max(res["max_magnitude"], mag)
        if mag > MAG_LIMIT:
            # an ill-conditioned solve produced huge increments: the model's `%` (a - b*floor(a/b)) and C's fmod differ by an ulp of
            # the huge angle, which the next update multiplies by the huge translation.  Identities / flags / changed sets were compared.
            res["values_not_compared"] += 1
            continue
        for vi, (pm, pi) in enumerate(zip(m["poses"], i["poses"])):
            if not desc_close(pm, pi, TOL, mag):
                bad("pose value", vertex=vi, model=None if pm is None else (pm[1], pm[-1].tolist()), impl=(pi[1], pi[-1].tolist()), **ctx)
                return
        if (m["target"] is not None or i["target"] is not None) and not desc_close(m["target"], i["target"], TOL, mag):
            bad("content of the in-place target", model=None if m["target"] is None else [str(t) for t in m["target"][:-1]] + m["target"][-1].tolist(),
                impl=None if i["target"] is None else [str(t) for t in i["target"][:-1]] + i["target"][-1].tolist(), **ctx)
            return
        if len(m["resvals"]) != len(i["resvals"]):
            bad("number of results", model=len(m["resvals"]), impl=len(i["resvals"]), **ctx)
            return
        for ri, (pm, pi) in enumerate(zip(m["resvals"], i["resvals"])):
            if op[0] in ("numjac", "numjacs"):
                # finite differences: the rounding error of the error vector (different summation orders, libm) is divided by EPS
                okv = pm is not None and pm[:-1] == pi[:-1] and np.array_equal(np.isfinite(pm[-1]), np.isfinite(pi[-1])) and bool(
                    np.all(np.abs(np.nan_to_num(pm[-1] - pi[-1], nan=0.0, posinf=0.0, neginf=0.0)) <= 1e-6 * (1 + np.abs(np.nan_to_num(pi[-1], nan=0.0, posinf=0.0, neginf=0.0))) + 64 * 2.3e-16 * i["scale"] / EPS))
            else:
                okv = desc_close(pm, pi, 1e-9, mag)
            if not okv:
                bad("returned value", result=ri, model=None if pm is None else [str(t) for t in pm[:-1]] + pm[-1].tolist(), impl=[str(t) for t in pi[:-1]] + pi[-1].tolist(), **ctx)
                return
    if len(model) != len(impl):
        bad("number of steps", model=len(model), impl=len(impl), ops=[n for n, _ in ops])
        return
    res["traces"] += 1
    res["steps"] += len(ops)
    if k < 2:
        res["samples"].append(dict(world=desc["world"], aliasing=shapes, n_vertices=len(vs), n_edges=len(es), ops=[n for n, _ in ops][:15]))


def run(seed, n_traces, length):
    drv = Driver()
    res = dict(cases=0, traces=0, steps=0, disagreements=[], ops={}, edge_kinds={}, opt_kinds={}, aliasing={}, alias_at_op={}, opt_iters={}, truncated={}, both_raise=0, id_pattern_checked=0, max_magnitude=1.0, values_not_compared=0, samples=[])
    try:
        for k in range(n_traces):
            run_trace(drv, seed, k, length, res)
            if len(res["disagreements"]) > 3:
                break
    finally:
        drv.close()
    res["ok"] = not res["disagreements"]
    return res


# --------------------------------------------------------------------------------------------------------------------
# self-test: the harness must DETECT changes of the object-level behaviour (each applied to a scratch copy of the repository)

MUTANTS = [
    ("i   BasePose.__iadd__ in place", "pose/base_pose.py", "        return self + other\n", "        self[:] = self + other\n        return self\n"),
    ("ii  Graph.optimize writes v.pose[:]", "graph.py", "                v.pose += dx[v.gradient_index: v.gradient_index + v.pose.COMPACT_DIMENSIONALITY]\n",
     "                v.pose[:] = v.pose + dx[v.gradient_index: v.gradient_index + v.pose.COMPACT_DIMENSIONALITY]\n"),
    ("iii _calc_jacobian restores with pose[:] = p0", "edge/base_edge.py", "            self.vertices[vertex_index].pose = p0.copy()\n", "            self.vertices[vertex_index].pose[:] = p0\n"),
    ("iv  PoseSE2.copy returns self", "pose/se2.py", "        return PoseSE2(self[:2], self[2])\n", "        return self\n"),
    ("v   PoseR3.to_compact returns a view of the pose", "pose/r3.py", "    def to_compact(self):@        return np.array(self)\n", "        return np.asarray(self).view(np.ndarray)\n"),
    ("vi  PoseSE3.normalize re-binds nothing but works on a copy (no in-place write)", "pose/se3.py", "        self[3:] /= sgn * np.linalg.norm(self[3:])\n",
     "        q = np.array(self[3:]) / (sgn * np.linalg.norm(self[3:]))\n"),
]


def selftest(seed=1, n_traces=60, length=30):
    """apply each change to a scratch copy of the repository and run the harness on it in a subprocess"""
    import json
    import shutil
    import subprocess

    src = os.environ.get("VERIF_REPO", "/repo")
    out = []
    for name, rel, old, new in MUTANTS + [("old model: assembling of numerically differentiated edges treated as read-only (Model/Heap.lean optimizeObj)", None, None, None)]:
        env = dict(os.environ, VERIF_SEED=str(seed))
        if rel is not None:
            d = os.path.join(WORK, "scratch", "selftest_" + name.split()[0])
            shutil.rmtree(d, ignore_errors=True)
            os.makedirs(d)
            shutil.copytree(os.path.join(src, "graphslam"), os.path.join(d, "graphslam"), ignore=shutil.ignore_patterns("__pycache__"))
            p = os.path.join(d, "graphslam", rel)
            s = open(p).read()
            anchor, _, old = old.rpartition("@")  # "anchor@old": replace the first `old` after `anchor`
            k = s.index(anchor) if anchor else 0
            assert s[k:].count(old) >= 1, (name, "pattern not found")
            open(p, "w").write(s[:k] + s[k:].replace(old, new, 1))
            env["VERIF_REPO"] = d
        else:
            env["HEAP_OLD_MODEL"] = "1"
        r = subprocess.run([sys.executable, os.path.abspath(__file__), str(n_traces), str(length), "--json"], env=env, capture_output=True, text=True)
        try:
            res = json.loads(r.stdout)
        except Exception:  # noqa: BLE001
            out.append(dict(change=name, detected=None, error=(r.stderr or r.stdout)[-400:]))
            continue
        d0 = res["disagreements"][0] if res["disagreements"] else None
        out.append(dict(change=name, detected=not res["ok"], first=(None if d0 is None else {k: d0[k] for k in ("what", "trace", "step", "op", "model", "impl", "aliasing") if k in d0})))
    return out


if __name__ == "__main__":
    import json
    import time

    if len(sys.argv) > 1 and sys.argv[1] == "selftest":
        for row in selftest():
            print(json.dumps(row, default=str)[:900])
        sys.exit(0)
    t0 = time.time()
    r = run(int(os.environ.get("VERIF_SEED", "0")), int(sys.argv[1]) if len(sys.argv) > 1 else 40, int(sys.argv[2]) if len(sys.argv) > 2 else 30)
    r["seconds"] = round(time.time() - t0, 1)
    if "--json" in sys.argv:
        print(json.dumps(r, default=str))
    else:
        print(json.dumps(r, default=str)[:6000])
