"""Layer-B correspondence for C18: `Graph(edges, vertices)` (binding by id, the validity assert, gradient indices) and
`is_valid()` of the edge classes vs lean/GraphSlam/Model/Validity.lean.

Compared exactly: accepted / exception class; for accepted graphs the identity (`is`) of every `edge.vertices[k]` with the
vertex-list element at the index the model reports, every `gradient_index`, `_len_gradient`.

Streams
* table: edge class × vertex count 1..3 × pose class of every endpoint × estimate class (4 poses, ndarray, None, float) ×
  offset class (landmark) × information shape (r,c) in {1..7}^2 × {all ids present, one id absent}; the vertex list is a
  rotating permutation of the endpoints plus a distractor.  thorough: every row; quick: every boundary row (at most one
  requirement violated) plus a seeded 5 % sample of the rest.
* shapes that are not 2-D, seeded random multi-edge graphs with duplicate ids / unknown ids / several invalid edges
  (KeyError-before-AssertionError, last-duplicate-wins), and `is_valid()` called directly on unbound or hand-bound edges
  (the `_is_valid` stages the constructor cannot reach)."""
import itertools
import os
import sys
import time
import warnings

sys.path.insert(0, os.path.join(os.path.dirname(__file__), ".."))
from lib.common import Driver, Rng  # noqa: E402
from harness import cmpobj as C  # noqa: E402
import numpy as np  # noqa: E402

OBJ_KINDS = ["r2", "r3", "se2", "se3", "A", "N", "S"]
BASE = {"r2": [1.0, 2.0], "r3": [1.0, 2.0, 3.0], "se2": [1.0, 2.0, 0.5], "se3": [1.0, 2.0, 3.0, 0.0, 0.0, 0.0, 1.0]}
TABLE_CLASSES = ["odo", "lm", "c2", "c3", "c0", "c1"]


def mk_obj(kind):
    if kind in C.KINDS:
        return C.raw_pose(kind, BASE[kind])
    if kind == "A":
        return np.zeros(3)
    if kind == "N":
        return None
    return 1.5


def obj_kind(o):
    if isinstance(o, C.BasePose):
        return C.KIND_OF[type(o)]
    if o is None:
        return "N"
    if isinstance(o, np.ndarray):
        return "A"
    return "S"


def edesc_tokens(e):
    ids = list(e.vertex_ids)
    sh = np.shape(e.information)
    return "%s %d %s %s %s %d %s" % (C.TAG_OF[type(e)], len(ids), " ".join(str(int(i)) for i in ids), obj_kind(e.estimate), obj_kind(getattr(e, "offset", None)), len(sh), " ".join(str(d) for d in sh))


def vdesc_tokens(v):
    return "%d %s" % (v.id, C.KIND_OF[type(v.pose)])


def make_edge(cls, ids, info, est, off):
    if cls == "lm":
        return C.EdgeLandmark(ids, info, est, off)
    return C.EDGE_CLS[cls](ids, info, est)


def real_construct(edges, vlist):
    """-> ('exc', class name) | ('ok', gradient indices, len_gradient, [[index of bound vertex]])"""
    try:
        g = C.Graph(edges, vlist)
    except Exception as ex:  # noqa: BLE001
        return ("exc", type(ex).__name__)
    pos = {}
    for i, v in enumerate(vlist):
        pos.setdefault(id(v), i)
    bound = []
    for e in edges:
        bound.append([pos.get(id(v), -1) for v in e.vertices])
    return ("ok", [v.gradient_index for v in vlist], g._len_gradient, bound)


def fmt_real(r):
    if r[0] == "exc":
        return "exc " + r[1]
    return "ok g=%s len=%d b=%s" % (",".join(str(x) for x in r[1]), r[2], ";".join(",".join(str(i) for i in b) for b in r[3]))


def violations(cls, kinds, est, off, r, c, absent):
    """harness-side row classification only (selects the quick-tier boundary rows; not used for comparing)"""
    n = 0
    if absent:
        n += 1
    if cls in ("odo", "lm"):
        n += len(kinds) != 2
        k0 = kinds[0]
        k1 = kinds[1] if len(kinds) > 1 else kinds[0]
        if cls == "odo":
            n += (k1 != k0) + (est != k0) + ((r, c) != (C.CDIM[k0],) * 2)
        else:
            n += (off != k0) + (est != k1) + ((r, c) != (C.CDIM[k1],) * 2)
    elif cls == "c3":
        n += len(kinds) != 1
        n += (r, c) != (C.CDIM[kinds[0]],) * 2
    return n


class Runner:
    def __init__(self):
        self.drv = Driver("gsdriver_cmp")
        self.lines, self.meta = [], []
        self.res = dict(cases=0, distinct_nontrivial=0, disagreements=[], samples=[], outcomes={}, by_stream={}, accepted=0, accepted_by_cls={}, identity_checks=0)

    def add(self, stream, line, real, note):
        self.lines.append(line)
        self.meta.append((stream, real, note))
        if len(self.lines) >= 20000:
            self.flush()

    def flush(self):
        if not self.lines:
            return
        reps = self.drv.ask_many(self.lines)
        r = self.res
        for line, rep, (stream, real, note) in zip(self.lines, reps, self.meta):
            r["cases"] += 1
            r["by_stream"][stream] = r["by_stream"].get(stream, 0) + 1
            key = real.split(" g=")[0]
            r["outcomes"][key] = r["outcomes"].get(key, 0) + 1
            if real.startswith("ok g="):
                r["accepted"] += 1
                ck = note.get("cls", stream)
                r["accepted_by_cls"][ck] = r["accepted_by_cls"].get(ck, 0) + 1
                r["identity_checks"] += real.split(" b=")[1].count(",") + real.split(" b=")[1].count(";") + 1
            if note.get("nontrivial", True):
                r["distinct_nontrivial"] += 1
            if rep != real:
                if len(r["disagreements"]) < 10:
                    r["disagreements"].append(dict(stream=stream, impl=real, model=rep, note=note, request=line[:600]))
                else:
                    r["disagreements"].append(dict(stream=stream))
            elif len(r["samples"]) < 6 and (r["cases"] % 7919 == 1 or (real.startswith("ok g=") and r["accepted"] % 97 == 1 and len(r["samples"]) < 3)):
                r["samples"].append(dict(stream=stream, outcome=real, note=note))
        self.lines, self.meta = [], []

    def close(self):
        self.flush()
        self.drv.close()


def stream_table(R, rng, tier):
    # reusable vertex objects: slot s, kind k -> Vertex(id 10+s)
    V = {(s, k): C.Vertex(10 + s, C.raw_pose(k, BASE[k])) for s in range(3) for k in C.KINDS}
    distractor = C.Vertex(50, C.raw_pose("se2", BASE["se2"]))
    objs = {k: mk_obj(k) for k in OBJ_KINDS}
    infos = {(r, c): np.zeros((r, c)) for r in range(1, 8) for c in range(1, 8)}
    row = 0
    selected = 0
    for cls in TABLE_CLASSES:
        ests = OBJ_KINDS if cls in ("odo", "lm", "c2", "c3") else ["se2"]
        offs = OBJ_KINDS if cls == "lm" else ["N"]
        for n in (1, 2, 3):
            for kinds in itertools.product(C.KINDS, repeat=n):
                perms = list(itertools.permutations(range(n + 1)))
                for est in ests:
                    for off in offs:
                        for (r, c) in infos:
                            for absent in (False, True):
                                row += 1
                                if tier != "thorough":
                                    if violations(cls, kinds, est, off, r, c, absent) > 1 and rng.random() >= 0.05:
                                        continue
                                selected += 1
                                ids = [10 + s for s in range(n)]
                                if absent:
                                    ids[row % n] = 99
                                e = make_edge(cls, ids, infos[(r, c)], objs[est], objs[off])
                                members = [V[(s, kinds[s])] for s in range(n)] + [distractor]
                                perm = perms[row % len(perms)]
                                vlist = [members[i] for i in perm]
                                real = fmt_real(real_construct([e], vlist))
                                line = "construct %d %s 1 %s" % (len(vlist), " ".join(vdesc_tokens(v) for v in vlist), edesc_tokens(e))
                                R.add("table", line, real, dict(cls=cls, kinds=list(kinds), est=est, off=off, shape=[r, c], absent=absent, nontrivial=cls in ("odo", "lm", "c2", "c3")))
    R.res["table_rows_total"] = row
    R.res["table_rows_run"] = selected


def stream_shapes(R):
    """information arrays that are not 2-D"""
    V0, V1 = C.Vertex(1, C.raw_pose("se2", BASE["se2"])), C.Vertex(2, C.raw_pose("se2", BASE["se2"]))
    P = C.Vertex(3, C.raw_pose("r2", BASE["r2"]))
    for shape in [(), (3,), (9,), (3, 3, 1), (1, 3, 3), (0, 0), (3, 0), (2,), (2, 2, 2)]:
        info = np.zeros(shape)
        for cls, ids, est, off, vl in (("odo", [1, 2], "se2", "N", [V0, V1]), ("lm", [1, 3], "r2", "se2", [V0, P]), ("c3", [1], "S", "N", [V0]), ("c2", [1, 2], "S", "N", [V1, V0])):
            e = make_edge(cls, ids, info, mk_obj(est), mk_obj(off))
            real = fmt_real(real_construct([e], vl))
            R.add("shapes", "construct %d %s 1 %s" % (len(vl), " ".join(vdesc_tokens(v) for v in vl), edesc_tokens(e)), real, dict(shape=list(shape), cls=cls))


def random_edge(rng, idpool):
    cls = rng.choice(["odo", "odo", "lm", "lm", "c0", "c1", "c2", "c3"])
    n = rng.choice([2, 2, 2, 1, 3, 0]) if cls not in ("c3",) else rng.choice([1, 1, 2, 0])
    ids = [rng.choice(idpool) for _ in range(n)]
    d = rng.choice([2, 3, 3, 6, 1, 4])
    shape = (d, d) if rng.random() < 0.8 else (d, rng.choice([2, 3, 6]))
    est = rng.choice(OBJ_KINDS[:4] + ["r2", "se2", "A", "N", "S"])
    off = rng.choice(OBJ_KINDS[:4] + ["se2", "N", "A"])
    return cls, ids, shape, est, off


def consistent_edge(rng, verts):
    """an edge that fits two (or one) randomly chosen existing vertices"""
    cls = rng.choice(["odo", "lm", "c3", "c2"])
    if cls == "c3":
        v = rng.choice(verts)
        k = C.KIND_OF[type(v.pose)]
        return cls, [v.id], (C.CDIM[k],) * 2, "S", "N"
    a, b = rng.choice(verts), rng.choice(verts)
    ka, kb = C.KIND_OF[type(a.pose)], C.KIND_OF[type(b.pose)]
    if cls == "odo":
        return cls, [a.id, b.id], (C.CDIM[ka],) * 2, ka, "N"
    if cls == "lm":
        return cls, [a.id, b.id], (C.CDIM[kb],) * 2, kb, ka
    return cls, [a.id, b.id], (2, 2), "A", "N"


def stream_random(R, rng, n_graphs):
    for it in range(n_graphs):
        nv = rng.choice([0, 1, 2, 3, 4, 5, 6, 8])
        dup = rng.random() < 0.4
        pool = list(range(1, (max(1, nv // 2) if dup else nv + 3) + 1))
        if dup:
            vids = [rng.choice(pool) for _ in range(nv)]
        else:
            vids = rng.sample(range(1, nv + 4), nv)
        same_kind = rng.random() < 0.5
        k0 = rng.choice(C.KINDS)
        verts = []
        for i in vids:
            k = k0 if same_kind else rng.choice(C.KINDS)
            verts.append(C.Vertex(i, C.raw_pose(k, BASE[k])))
        ne = rng.choice([0, 1, 1, 2, 3, 4])
        mode = rng.random()
        unknown_pool = (vids or [1]) + ([97, 98] if mode < 0.35 else [])
        edges = []
        for _ in range(ne):
            if verts and rng.random() < 0.7:
                cls, ids, shape, est, off = consistent_edge(rng, verts)
                if mode < 0.35 and rng.random() < 0.3 and ids:
                    ids[rng.randrange(len(ids))] = rng.choice([97, 98])
                if rng.random() < 0.15:
                    shape = (shape[0] + 1, shape[1])
            else:
                cls, ids, shape, est, off = random_edge(rng, unknown_pool)
            edges.append(make_edge(cls, ids, np.zeros(shape), mk_obj(est), mk_obj(off)))
        real = fmt_real(real_construct(edges, verts))
        line = "construct %d %s %d %s" % (len(verts), " ".join(vdesc_tokens(v) for v in verts), len(edges), " ".join(edesc_tokens(e) for e in edges))
        R.add("random", line, real, dict(nv=nv, ne=ne, duplicate_ids=dup and len(set(vids)) < len(vids)))
        # history: the SAME edge objects (possibly bound by the construction above) are used for a second Graph over
        # different Vertex objects — other order, other pose kinds, possibly a missing id.  The constructor must bind
        # (and validate) against the vertices it is given now, never against a previous binding.
        if verts and edges and rng.random() < 0.5:
            verts2 = []
            order = list(range(len(verts)))
            rng.shuffle(order)
            drop = rng.random() < 0.25
            for j, i in enumerate(order):
                if drop and j == 0:
                    continue
                v = verts[i]
                k = obj_kind(v.pose)
                if rng.random() < 0.3:
                    k = rng.choice(C.KINDS)
                verts2.append(C.Vertex(v.id, C.raw_pose(k, BASE[k])))
            real2 = fmt_real(real_construct(edges, verts2))
            line2 = "construct %d %s %d %s" % (len(verts2), " ".join(vdesc_tokens(v) for v in verts2), len(edges), " ".join(edesc_tokens(e) for e in edges))
            R.add("rebind", line2, real2, dict(nv=len(verts2), ne=ne, reused_edges=True, dropped_vertex=drop))


def stream_is_valid(R, rng, n):
    """is_valid() called directly: unbound edges, hand-bound edges whose vertices do not match vertex_ids"""
    for it in range(n):
        cls = rng.choice(["odo", "lm", "c2", "c3", "c0", "c1"])
        nids = rng.choice([0, 1, 2, 2, 2, 3])
        ids = [rng.randrange(1, 5) for _ in range(nids)]
        d = rng.choice([2, 3, 6])
        shape = (d, d) if rng.random() < 0.8 else (d, d + 1)
        est, off = rng.choice(OBJ_KINDS), rng.choice(OBJ_KINDS)
        e = make_edge(cls, ids, np.zeros(shape), mk_obj(est), mk_obj(off))
        r = rng.random()
        if r < 0.15:
            bound = None
        else:
            m = nids if r < 0.75 else rng.choice([0, 1, 2, 3])
            kinds = [rng.choice(C.KINDS)] * m if rng.random() < 0.5 else [rng.choice(C.KINDS) for _ in range(m)]
            bound = []
            for j in range(m):
                vid = ids[j] if (j < nids and rng.random() < 0.85) else rng.randrange(1, 5)
                bound.append(C.Vertex(vid, C.raw_pose(kinds[j], BASE[kinds[j]])))
        e.vertices = bound
        o = C.outcome(e.is_valid)
        real = ("ok " + o) if o in ("True", "False") else ("exc " + o)
        vl = bound or []
        line = "valid %d %d %s %s" % (0 if bound is None else 1, len(vl), " ".join(vdesc_tokens(v) for v in vl), edesc_tokens(e))
        R.add("is_valid", line, real, dict(cls=cls, unbound=bound is None))


def run(seed, tier):
    t0 = time.time()
    warnings.filterwarnings("ignore")
    rng = Rng(seed, "validity")
    R = Runner()
    try:
        stream_shapes(R)
        stream_random(R, rng, 20000 if tier == "thorough" else 3000)
        stream_is_valid(R, rng, 20000 if tier == "thorough" else 3000)
        stream_table(R, rng, tier)
    finally:
        R.close()
    r = R.res
    r["ok"] = not r["disagreements"] and r["cases"] > 0
    r["disagreements"] = r["disagreements"][:10]
    r["wall_s"] = round(time.time() - t0, 1)
    r["python_optimize_flag"] = sys.flags.optimize
    return r


def entry(seed, tier, **_kw):
    """entry point for tools/check.py (props.py: corr=[("harness.validity", "entry", {})])"""
    r = run(seed, tier)
    keep = ("ok", "cases", "distinct_nontrivial", "samples", "outcomes", "by_stream", "accepted", "accepted_by_cls", "identity_checks", "table_rows_total", "table_rows_run", "python_optimize_flag", "wall_s")
    out = {k: r[k] for k in keep}
    out["disagreements"] = r["disagreements"][:3]
    return out


if __name__ == "__main__":
    import json

    out = run(int(os.environ.get("VERIF_SEED", "0")), os.environ.get("VERIF_TIER", "quick"))
    out["disagreements"] = out["disagreements"][:4]
    print(json.dumps({k: v for k, v in out.items() if k != "samples"}, default=str, indent=1))
