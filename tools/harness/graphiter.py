"""End-to-end correspondence for one whole iteration of Graph.optimize on *typed* graphs (model: GraphSlam.Model.step,
driver command `iter`).

The harness sends the graph as plain data — vertex ids, classes, fixed flags, estimates; edges by class, vertex *ids*,
measurement, offset, information — plus the increment `dx` the real sparse solver returned (recorded by wrapping
graphslam.graph.spsolve; the solver is a parameter of the model).  Everything else is computed by the model from the
generated definitions: id -> vertex binding, gradient indices, fix_first_pose, the fixed index set, per-edge error / chi2 /
Jacobians, contributions, accumulation, dense gradient and Hessian, the update of the free vertices.  Compared with the real
`optimize(max_iter=1)`:

  flags after fix_first_pose, fixed index set, gradient indices      exact
  chi2, gradient b, Hessian H (as handed to the solver)              1e-9 relative (numpy's BLAS sums in another order)
  zero pattern of H, identity rows of fixed vertices                 exact
  every vertex estimate after the update                             1e-11 (SE(2) angle modulo 2 pi)
"""
import math
import os
import sys
import warnings

sys.path.insert(0, os.path.join(os.path.dirname(__file__), ".."))
from lib.common import Driver, Rng, f2h, h2f  # noqa: E402
from lib import graphgen as G  # noqa: E402
import numpy as np  # noqa: E402
import graphslam.graph as gg  # noqa: E402

KIND = {"PoseR2": "r2", "PoseR3": "r3", "PoseSE2": "se2", "PoseSE3": "se3"}


def pose_tokens(p):
    return [KIND[type(p).__name__]] + [f2h(float(x)) for x in np.asarray(p, dtype=np.float64)]


def graph_tokens(g, ffp, flags):
    toks = ["iter", "1" if ffp else "0", str(len(g._vertices))]
    for v, fl in zip(g._vertices, flags):
        toks += [str(v.id), KIND[type(v.pose).__name__], "1" if fl else "0"] + [f2h(float(x)) for x in np.asarray(v.pose, dtype=np.float64)]
    toks.append(str(len(g._edges)))
    for e in g._edges:
        info = np.asarray(e.information, dtype=np.float64)
        if type(e).__name__ == "EdgeOdometry":
            toks += ["odo", str(e.vertex_ids[0]), str(e.vertex_ids[1])] + pose_tokens(e.estimate)
        else:
            toks += ["lm", str(e.vertex_ids[0]), str(e.vertex_ids[1])] + pose_tokens(e.estimate) + pose_tokens(e.offset)
        toks += [str(info.shape[0])] + [f2h(float(x)) for x in info.ravel()]
    return toks


def close(a, b, rel):
    a, b = np.asarray(a, dtype=np.float64), np.asarray(b, dtype=np.float64)
    if a.shape != b.shape:
        return False
    if a.size == 0:
        return True
    if not np.array_equal(np.isnan(a), np.isnan(b)):
        return False
    fin = np.isfinite(a) & np.isfinite(b)
    scale = 1.0 + (np.max(np.abs(a[fin])) if fin.any() else 0.0)
    return bool(np.all(np.abs(a[fin] - b[fin]) <= rel * scale)) and bool(np.all(a[~fin & ~np.isnan(a)] == b[~fin & ~np.isnan(a)]))


def one_graph(drv, g, desc, res, tag, ffp):
    bad = lambda stage, **kw: res["disagreements"].append(dict(stage=stage, graph=tag, fix_first_pose=ffp, desc=(desc if len(res["disagreements"]) < 2 else None), **kw))
    flags = [bool(v.fixed) for v in g._vertices]
    head = graph_tokens(g, ffp, flags)
    before = [(type(v.pose).__name__, np.array(v.pose)) for v in g._vertices]
    rec = {}
    orig = gg.spsolve

    def wrapped(A, rhs):
        dx = orig(A, rhs)
        rec["dx"] = np.array(dx, dtype=np.float64)
        rec["A"] = A.toarray() if hasattr(A, "toarray") else np.array(A)
        rec["rhs"] = np.array(rhs, dtype=np.float64)
        return dx

    gg.spsolve = wrapped
    try:
        with warnings.catch_warnings():
            warnings.simplefilter("ignore")
            r = g.optimize(tol=0.0, max_iter=1, fix_first_pose=ffp, verbose=False)
    except Exception as ex:  # noqa: BLE001
        bad("optimize-raised", error="%s: %s" % (type(ex).__name__, ex))
        return
    finally:
        gg.spsolve = orig
    if "dx" not in rec:
        bad("solve-not-called")
        return
    dx = rec["dx"]
    reply = drv.ask(" ".join(head + [str(len(dx))] + [f2h(float(x)) for x in dx]))
    res["cases"] += 1
    if not reply.startswith("ok "):
        bad("driver", reply=reply[:200])
        return
    parts = reply[3:].split("|")
    mflags = [x == "1" for x in parts[0].split()]
    mfixed = sorted(int(x) for x in parts[1].split())
    mgidx = [int(x) for x in parts[2].split()]
    if mflags != [bool(v.fixed) for v in g._vertices]:
        bad("flags", impl=[bool(v.fixed) for v in g._vertices], model=mflags)
        return
    if mfixed != sorted(g._fixed_gradient_indices) or mgidx != [v.gradient_index for v in g._vertices]:
        bad("indices", impl_fixed=sorted(g._fixed_gradient_indices), model_fixed=mfixed, impl_gidx=[v.gradient_index for v in g._vertices], model_gidx=mgidx)
        return
    sysw = parts[3].split()
    chi2 = h2f(sysw[0])
    n = int(sysw[1])
    b = np.array([h2f(w) for w in sysw[2 : 2 + n]])
    H = np.array([h2f(w) for w in sysw[2 + n : 2 + n + n * n]]).reshape(n, n)
    res["cases"] += 3
    if n != g._len_gradient:
        bad("len-gradient", impl=g._len_gradient, model=n)
        return
    if not close(float(r.initial_chi2), chi2, 1e-9):
        bad("chi2", impl=float(r.initial_chi2), model=chi2)
        return
    if not close(rec["rhs"], -b, 1e-9):
        bad("gradient", impl=(-rec["rhs"]).tolist(), model=b.tolist())
        return
    # zero pattern: an entry counts as present when it is above rounding level relative to the largest entry (with diagonal
    # information matrices a structurally cancelling entry such as c*s*w - s*c*w is exactly 0 in one evaluation order and 1e-17 in
    # another: seen in the thorough tier on the unchanged tree after diagonal information was added to the generator)
    nz = lambda M_: np.abs(M_) > 1e-12 * (1.0 + (np.nanmax(np.abs(M_)) if np.size(M_) else 0.0))
    if not close(rec["A"], H, 1e-9) or (np.all(np.isfinite(H)) and not np.array_equal(nz(rec["A"]), nz(H))):
        bad("hessian", fixed=mfixed, impl_pattern=nz(rec["A"]).astype(int).tolist(), model_pattern=nz(H).astype(int).tolist())
        return
    pw = parts[4].split()
    k = 0
    for (cname, p0), v in zip(before, g._vertices):
        d = len(p0)
        exp = np.array([h2f(w) for w in pw[k : k + d]])
        k += d
        p1 = np.array(v.pose)
        res["cases"] += 1
        if type(v.pose).__name__ != cname:
            bad("update-class", vertex=v.id)
            return
        if v.fixed:
            res["fixed_vertices"] += 1
            if p1.tobytes() != p0.tobytes() or exp.tobytes() != p0.tobytes():
                bad("update-fixed-moved", vertex=v.id, before=p0.tolist(), after=p1.tolist(), model=exp.tolist())
                return
            continue
        if not np.all(np.isfinite(exp)) or not np.all(np.isfinite(p1)):
            if not np.array_equal(np.isfinite(exp), np.isfinite(p1)):
                bad("update-nonfinite", vertex=v.id, after=p1.tolist(), model=exp.tolist())
                return
            continue
        ok = close(p1, exp, 1e-11)
        if cname == "PoseSE2" and not ok:
            ok = close(p1[:2], exp[:2], 1e-11) and abs(math.remainder(p1[2] - exp[2], 2 * math.pi)) < 1e-9
        if not ok:
            bad("update", vertex=v.id, before=p0.tolist(), after=p1.tolist(), model=exp.tolist())
            return
    res["graphs"] += 1


def run(seed, n_graphs):
    drv = Driver()
    res = dict(cases=0, graphs=0, disagreements=[], worlds={}, features={}, fixed_vertices=0, samples=[])
    try:
        for k in range(n_graphs):
            rng = Rng(seed, "graphiter|%d" % k)
            fix = rng.choice(["first", "random", "random", "none"])
            ffp = fix == "first" or rng.random() < 0.4
            g, desc = G.make_graph(rng, fix=fix, custom=False, noise=rng.choice([0.0, 0.05, 0.5]), ids=rng.choice(["shuffled", "huge", "plain"]), well_posed=rng.random() < 0.7)
            extra = []
            if rng.random() < 0.2:
                cname = desc["vertices"][0]["cls"]
                desc["vertices"].insert(rng.randrange(len(desc["vertices"]) + 1), dict(id=10**6 + k, cls=cname, vals=G.rand_pose_vals(rng, cname), fixed=rng.random() < 0.7, truth=None))
                g = G.rebuild(desc)
                extra.append("isolated-vertex")
            if rng.random() < 0.1:
                for v in desc["vertices"]:
                    v["fixed"] = True
                g = G.rebuild(desc)
                extra.append("all-fixed")
            if rng.random() < 0.25 and len(desc["edges"]) > 1:
                # anti-parallel duplicate: the same pair of vertices joined again with the ids in the opposite order
                e0 = rng.choice([e for e in desc["edges"] if e["kind"] == "odometry"] or [None])
                if e0 is not None and e0["vids"][0] != e0["vids"][1]:
                    inv = G.mk_pose(e0["est_cls"], e0["est"]).inverse
                    desc["edges"].append(dict(e0, vids=e0["vids"][::-1], est=np.asarray(inv).tolist()))
                    g = G.rebuild(desc)
                    extra.append("anti-parallel-edge")
            w = desc["world"]
            res["worlds"][w] = res["worlds"].get(w, 0) + 1
            kinds = set(e["kind"] for e in desc["edges"])
            for f in list(kinds) + extra + (["fix_first_pose"] if ffp else []):
                res["features"][f] = res["features"].get(f, 0) + 1
            one_graph(drv, g, desc, res, k, ffp)
            # a second call on the same object after the caller changed flags (no state survives between calls)
            if rng.random() < 0.5 and not res["disagreements"]:
                for v in g._vertices:
                    if rng.random() < 0.3:
                        v.fixed = not v.fixed
                if all(np.all(np.isfinite(np.asarray(v.pose))) for v in g._vertices):
                    res["features"]["second-call"] = res["features"].get("second-call", 0) + 1
                    one_graph(drv, g, desc, res, "%d/second-call" % k, rng.random() < 0.3)
            if k < 2:
                res["samples"].append(dict(world=w, n_vertices=len(desc["vertices"]), n_edges=len(desc["edges"]), edge_kinds=sorted(kinds)))
            if len(res["disagreements"]) > 3:
                break
    finally:
        drv.close()
    res["ok"] = not res["disagreements"]
    return res


if __name__ == "__main__":
    import json

    r = run(int(os.environ.get("VERIF_SEED", "0")), int(sys.argv[1]) if len(sys.argv) > 1 else 40)
    print(json.dumps(r, default=str)[:3500])
