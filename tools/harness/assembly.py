"""Layer-B correspondence for the optimiser core (C03, C06, C04/C05 tie): stage by stage, the real code and the Lean
model (driver command `asm`, generated box-plus via `eval`) are run on the same graph snapshot, each stage fed with the
*implementation's* upstream values:

  contribs    BaseEdge.calc_chi2_gradient_hessian()         vs Model.contribs
  accumulate  reduce(_Chi2GradientHessian.update, ...)       vs Model.accumulate        (keys exact, blocks 1e-9)
  fill        g._gradient, g._hessian.toarray()              vs Model.fillGradient/fillHessian (zero pattern exact)
  solve       spsolve's dx (recorded by wrapping graphslam.graph.spsolve): residual ||H dx + b|| checked
  update      poses after optimize(max_iter=1)               vs Model.applyDx (fixed skipped; generated box-plus)
"""
import math
import os
import sys
import warnings
from functools import reduce

sys.path.insert(0, os.path.join(os.path.dirname(__file__), ".."))
from lib.common import Driver, Rng, f2h, h2f  # noqa: E402
from lib import graphgen as G  # noqa: E402
import numpy as np  # noqa: E402
import graphslam.graph as gg  # noqa: E402

BOX = {"PoseR2": "PoseR2.boxplus", "PoseR3": "PoseR3.boxplus", "PoseSE2": "PoseSE2.boxplus", "PoseSE3": "PoseSE3.boxplus"}


def edge_tokens(e):
    err = np.asarray(e.calc_error(), dtype=np.float64).ravel()
    m = len(err)
    jac = [np.asarray(j, dtype=np.float64) for j in e.calc_jacobians()]
    info = np.asarray(e.information, dtype=np.float64)
    chi2 = float(e.calc_chi2())
    toks = [str(m), f2h(chi2), str(len(e.vertices))]
    for v, j in zip(e.vertices, jac):
        toks += [str(v.gradient_index), str(j.shape[1])]
    toks += [f2h(x) for x in err]
    toks += [f2h(x) for x in info.ravel()]
    for j in jac:
        assert j.shape[0] == m
        toks += [f2h(x) for x in j.ravel()]
    return toks


class Tok:
    def __init__(self, s):
        self.t = s.split()
        self.i = 0

    def nxt(self):
        v = self.t[self.i]
        self.i += 1
        return v

    def nat(self):
        return int(self.nxt())

    def flt(self):
        return h2f(self.nxt())

    def flts(self, n):
        return np.array([self.flt() for _ in range(n)])


def read_dicts(tk):
    chi2 = tk.flt()
    g = []
    for _ in range(tk.nat()):
        idx, ln = tk.nat(), tk.nat()
        g.append((idx, tk.flts(ln)))
    h = []
    for _ in range(tk.nat()):
        a, b, r, c = tk.nat(), tk.nat(), tk.nat(), tk.nat()
        h.append(((a, b), tk.flts(r * c).reshape(r, c)))
    return chi2, g, h


def close(a, b, rel=1e-9):
    a, b = np.asarray(a, dtype=np.float64), np.asarray(b, dtype=np.float64)
    if a.shape != b.shape:
        return False
    if a.size == 0:
        return True
    fin = np.isfinite(a) & np.isfinite(b)
    if not np.array_equal(np.isnan(a), np.isnan(b)):
        return False
    scale = 1.0 + (np.max(np.abs(a[fin])) if fin.any() else 0.0)
    return bool(np.all(np.abs(a[fin] - b[fin]) <= rel * scale)) and bool(np.all(a[~fin & ~np.isnan(a)] == b[~fin & ~np.isnan(a)]))


def one_graph(drv, g, desc, res, tag, fix_first_pose):
    # mirror the head of optimize(): fixed flags and the fixed index set
    if fix_first_pose:
        g._vertices[0].fixed = True
    g._fixed_gradient_indices = {v.gradient_index for v in g._vertices if v.fixed}
    fixed = sorted(g._fixed_gradient_indices)
    N = g._len_gradient
    verts = [(v.gradient_index, v.pose.COMPACT_DIMENSIONALITY) for v in g._vertices]
    toks = ["asm", str(N), str(len(fixed))] + [str(x) for x in fixed] + [str(len(verts))]
    for gi, d in verts:
        toks += [str(gi), str(d)]
    toks.append(str(len(g._edges)))
    real_contribs = []
    for e in g._edges:
        toks += edge_tokens(e)
        real_contribs.append(e.calc_chi2_gradient_hessian())
    reply = drv.ask(" ".join(toks))
    if not reply.startswith("ok"):
        res["disagreements"].append(dict(stage="driver", graph=tag, reply=reply[:200]))
        return
    tk = Tok(reply[3:])
    bad = lambda stage, **kw: res["disagreements"].append(dict(stage=stage, graph=tag, desc=(desc if len(res["disagreements"]) < 2 else None), **kw))
    # --- stage 1: per-edge contributions
    for ei, (chi2, gl, hl) in enumerate(real_contribs):
        assert tk.nxt() == "C"
        mc, mg, mh = read_dicts(tk)
        res["cases"] += 1
        if [k for k, _ in mg] != [k for k, _ in gl] or [k for k, _ in mh] != [tuple(k) for k, _ in hl]:
            bad("contribs-keys", edge=ei, impl=[[k for k, _ in gl], [list(k) for k, _ in hl]], model=[[k for k, _ in mg], [list(k) for k, _ in mh]])
            return
        if not (close(chi2, mc) and all(close(a[1], b[1]) for a, b in zip(gl, mg)) and all(close(a[1], b[1]) for a, b in zip(hl, mh))):
            bad("contribs-values", edge=ei)
            return
    # --- stage 2: accumulation (fed with the implementation's own contributions)
    acc = reduce(gg._Chi2GradientHessian.update, (e.calc_chi2_gradient_hessian() for e in g._edges), gg._Chi2GradientHessian())
    assert tk.nxt() == "A"
    mc, mg, mh = read_dicts(tk)
    res["cases"] += 1
    ig = sorted(((k, np.asarray(v)) for k, v in acc.gradient.items()), key=lambda p: p[0])
    ih = sorted(((tuple(k), np.asarray(v)) for k, v in acc.hessian.items()), key=lambda p: p[0])
    mg, mh = sorted(mg, key=lambda p: p[0]), sorted(mh, key=lambda p: p[0])
    if [k for k, _ in ig] != [k for k, _ in mg] or [k for k, _ in ih] != [k for k, _ in mh]:
        bad("accumulate-keys", impl=[[k for k, _ in ig], [list(k) for k, _ in ih]], model=[[k for k, _ in mg], [list(k) for k, _ in mh]])
        return
    if not (close(acc.chi2, mc) and all(close(a[1], b[1]) for a, b in zip(ig, mg)) and all(close(a[1], b[1]) for a, b in zip(ih, mh))):
        bad("accumulate-values")
        return
    # --- stage 3: fill
    g._calc_chi2_gradient_hessian()
    b_impl = np.array(g._gradient)
    H_impl = g._hessian.toarray()
    assert tk.nxt() == "F"
    n = tk.nat()
    b_model = tk.flts(n)
    H_model = tk.flts(n * n).reshape(n, n)
    res["cases"] += 1
    # (entries at rounding level relative to the largest entry count as zero on both sides: see harness/graphiter.py)
    with np.errstate(invalid="ignore"):
        nz = lambda M_: np.abs(M_) > 1e-12 * (1.0 + (np.nanmax(np.abs(M_)) if np.size(M_) and not np.all(np.isnan(M_)) else 0.0))
        pat_differs = not np.array_equal(nz(H_impl), nz(H_model))
    if pat_differs and not np.array_equal(np.isnan(H_impl), np.isnan(H_model)):
        bad("fill-pattern", impl=nz(H_impl).astype(int).tolist(), model=nz(H_model).astype(int).tolist(), fixed=fixed)
        return
    if not (close(b_impl, b_model) and close(H_impl, H_model)):
        bad("fill-values", b_impl=b_impl.tolist(), b_model=b_model.tolist(), fixed=fixed)
        return
    # exactness of the fixed rows (identity / zero) is part of the contract
    for v in g._vertices:
        if v.fixed:
            lo, hi = v.gradient_index, v.gradient_index + v.pose.COMPACT_DIMENSIONALITY
            blk = H_impl[lo:hi, :]
            exp = np.zeros_like(blk)
            exp[:, lo:hi] = np.eye(hi - lo)
            if not (np.array_equal(blk, exp) and np.array_equal(H_impl[:, lo:hi], exp.T) and np.all(b_impl[lo:hi] == 0)):
                bad("fill-fixed-rows", vertex=v.id)
                return
    # --- stage 4+5: solve (recorded) and update
    before = [(type(v.pose).__name__, np.array(v.pose), v.fixed, v.gradient_index, v.pose.COMPACT_DIMENSIONALITY) for v in g._vertices]
    rec = {}
    orig = gg.spsolve

    def wrapped(A, rhs):
        dx = orig(A, rhs)
        rec["dx"] = np.array(dx)
        rec["A"] = A.toarray() if hasattr(A, "toarray") else np.array(A)
        rec["rhs"] = np.array(rhs)
        return dx

    gg.spsolve = wrapped
    try:
        with warnings.catch_warnings():
            warnings.simplefilter("ignore")
            g.optimize(tol=0.0, max_iter=1, fix_first_pose=False, verbose=False)
    finally:
        gg.spsolve = orig
    dx = rec.get("dx")
    if dx is None:
        bad("solve-not-called")
        return
    res["cases"] += 1
    if not (close(rec["A"], H_impl) and close(rec["rhs"], -b_impl)):
        bad("solve-inputs")
        return
    if np.all(np.isfinite(dx)):
        resid = np.linalg.norm(rec["A"] @ dx - rec["rhs"])
        cond = np.linalg.cond(rec["A"])
        res["solve_checked"] += 1
        if cond < 1e10 and not resid <= 1e-8 * (1 + np.linalg.norm(rec["rhs"])) * max(1.0, cond * 1e-6):
            bad("solve-residual", residual=float(resid), cond=float(cond))
            return
    else:
        res["solve_nonfinite"] += 1
    for (cname, p0, fx, gi, c), v in zip(before, g._vertices):
        p1 = np.array(v.pose)
        res["cases"] += 1
        if fx:
            res["fixed_vertices"] += 1
            if p1.tobytes() != p0.tobytes() or type(v.pose).__name__ != cname:
                bad("update-fixed-moved", vertex=v.id, before=p0.tolist(), after=p1.tolist())
                return
        else:
            d = dx[gi : gi + c]
            if not np.all(np.isfinite(d)):
                if not np.all(np.isnan(p1[np.isnan(p1)])):
                    pass
                continue
            exp = np.array(drv.eval(BOX[cname], [], list(p0) + list(d)))
            ok = close(p1, exp, 1e-11)
            if cname == "PoseSE2" and not ok:
                ok = close(p1[:2], exp[:2], 1e-11) and abs(math.remainder(p1[2] - exp[2], 2 * math.pi)) < 1e-9
            if not ok or type(v.pose).__name__ != cname:
                bad("update-boxplus", vertex=v.id, before=p0.tolist(), dx=d.tolist(), after=p1.tolist(), model=exp.tolist())
                return
    # --- stage 6: a second call after the caller changed the flags: the fixed set is rebuilt from the flags (no stale state)
    import random as _r

    rr = _r.Random(tag)
    newflags = [rr.random() < 0.4 for _ in g._vertices]
    ffp2 = rr.random() < 0.5
    for v, f in zip(g._vertices, newflags):
        v.fixed = f
    try:
        with warnings.catch_warnings():
            warnings.simplefilter("ignore")
            g.optimize(tol=0.0, max_iter=1, fix_first_pose=ffp2, verbose=False)
    except Exception as ex:  # noqa
        bad("second-call-raised", error="%s: %s" % (type(ex).__name__, ex))
        return
    r = drv.ask("fixedidx %d %d %s %s" % (1 if ffp2 else 0, len(newflags), " ".join("1" if f else "0" for f in newflags), " ".join(str(v.gradient_index) for v in g._vertices)))
    mflags, mfixed = r[3:].split("|")
    res["cases"] += 1
    if [x == "1" for x in mflags.split()] != [bool(v.fixed) for v in g._vertices] or sorted(int(x) for x in mfixed.split()) != sorted(g._fixed_gradient_indices):
        bad("second-call-fixed-set", impl_flags=[bool(v.fixed) for v in g._vertices], impl_fixed=sorted(g._fixed_gradient_indices), model=r)
        return
    res["graphs"] += 1


def run(seed, n_graphs):
    drv = Driver()
    res = dict(cases=0, graphs=0, disagreements=[], worlds={}, samples=[], solve_checked=0, solve_nonfinite=0, fixed_vertices=0, features={})
    try:
        for k in range(n_graphs):
            rng = Rng(seed, "asm|%d" % k)
            fix = rng.choice(["first", "random", "random"])
            ffp = fix == "first" or rng.random() < 0.3
            g, desc = G.make_graph(rng, fix=fix, noise=rng.choice([0.0, 0.05, 0.5]), ids=rng.choice(["shuffled", "huge", "plain"]), well_posed=rng.random() < 0.7)
            extra = []
            if rng.random() < 0.2:  # a fixed vertex with no incident edge
                from graphslam.vertex import Vertex

                cname = desc["vertices"][0]["cls"]
                vnew = dict(id=10**6 + k, cls=cname, vals=G.rand_pose_vals(rng, cname), fixed=True, truth=None)
                desc["vertices"].insert(rng.randrange(len(desc["vertices"]) + 1), vnew)
                g = G.rebuild(desc)
                extra.append("isolated-fixed")
            if rng.random() < 0.15:
                for v in desc["vertices"]:
                    v["fixed"] = True
                g = G.rebuild(desc)
                extra.append("all-fixed")
            w = desc["world"]
            res["worlds"][w] = res["worlds"].get(w, 0) + 1
            kinds = set(e["kind"] for e in desc["edges"])
            multi = len(set(tuple(sorted(e["vids"])) for e in desc["edges"])) < len(desc["edges"])
            for f in list(kinds) + extra + (["multi-edge"] if multi else []) + (["fix_first_pose"] if ffp else []):
                res["features"][f] = res["features"].get(f, 0) + 1
            one_graph(drv, g, desc, res, k, ffp)
            if k < 2:
                res["samples"].append(dict(world=w, n_vertices=len(desc["vertices"]), n_edges=len(desc["edges"]), fixed=[v["id"] for v in desc["vertices"] if v["fixed"]], edge_kinds=sorted(kinds)))
            if len(res["disagreements"]) > 3:
                break
    finally:
        drv.close()
    res["ok"] = not res["disagreements"]
    return res


if __name__ == "__main__":
    import json

    r = run(int(os.environ.get("VERIF_SEED", "0")), int(sys.argv[1]) if len(sys.argv) > 1 else 40)
    print(json.dumps(r, default=str)[:3500])
