"""Shared by the C17/C18 harnesses: builders for real graphslam objects and the *abstraction functions* that read a real
object back into the descriptor tokens of lean/Driver/CmpMain.lean (so the model always sees what the object holds,
e.g. the wrapped SE(2) angle, not what the harness intended to put there)."""
import os
import sys

sys.path.insert(0, os.path.join(os.path.dirname(__file__), ".."))
from lib.common import f2h, use_repo  # noqa: E402

use_repo()
import numpy as np  # noqa: E402
from graphslam.edge.base_edge import BaseEdge  # noqa: E402
from graphslam.edge.edge_landmark import EdgeLandmark  # noqa: E402
from graphslam.edge.edge_odometry import EdgeOdometry  # noqa: E402
from graphslam.graph import Graph  # noqa: E402,F401
from graphslam.pose.base_pose import BasePose  # noqa: E402
from graphslam.pose.r2 import PoseR2  # noqa: E402
from graphslam.pose.r3 import PoseR3  # noqa: E402
from graphslam.pose.se2 import PoseSE2  # noqa: E402
from graphslam.pose.se3 import PoseSE3  # noqa: E402
from graphslam.vertex import Vertex  # noqa: E402,F401

KINDS = ["r2", "r3", "se2", "se3"]
DIM = {"r2": 2, "r3": 3, "se2": 3, "se3": 7}
CDIM = {"r2": 2, "r3": 3, "se2": 3, "se3": 6}
POSE_CLS = {"r2": PoseR2, "r3": PoseR3, "se2": PoseSE2, "se3": PoseSE3}
KIND_OF = {PoseR2: "r2", PoseR3: "r3", PoseSE2: "se2", PoseSE3: "se3"}


def raw_pose(kind, vals):
    """a pose object of class `kind` holding exactly `vals` (any length: bypasses the constructors' normalisation)"""
    return np.array([float(v) for v in vals], dtype=np.float64).view(POSE_CLS[kind])


# ---- custom edge classes (direct subclasses of BaseEdge; the model's `custom k`) -------------------------------------


class CustomTrue(BaseEdge):  # custom 0
    def is_valid(self):
        return True

    def calc_error(self):
        return np.zeros(1)


class CustomFalse(BaseEdge):  # custom 1
    def is_valid(self):
        return False

    def calc_error(self):
        return np.zeros(1)


class CustomBase(BaseEdge):  # custom 2
    def is_valid(self):
        return self._is_valid()

    def calc_error(self):
        return np.zeros(1)


class CustomPrior(BaseEdge):  # custom 3: unary prior
    def is_valid(self):
        if not self._is_valid() or len(self.vertices) != 1:
            return False
        n = self.vertices[0].pose.COMPACT_DIMENSIONALITY
        return self.information.shape == (n, n)

    def calc_error(self):
        return np.zeros(1)


CUSTOM = [CustomTrue, CustomFalse, CustomBase, CustomPrior]
EDGE_CLS = {"odo": EdgeOdometry, "lm": EdgeLandmark, "c0": CustomTrue, "c1": CustomFalse, "c2": CustomBase, "c3": CustomPrior}
TAG_OF = {v: k for k, v in EDGE_CLS.items()}

# ---- abstraction: real object -> driver tokens -----------------------------------------------------------------------


def pose_tokens(p):
    a = np.asarray(p, dtype=np.float64).ravel()
    return "%s %d %s" % (KIND_OF[type(p)], len(a), " ".join(f2h(x) for x in a))


def vertex_tokens(v):
    return "%d %s" % (v.id, pose_tokens(v.pose))


def array_tokens(a):
    a = np.asarray(a, dtype=np.float64)
    return "%d %s %d %s" % (a.ndim, " ".join(str(d) for d in a.shape), a.size, " ".join(f2h(x) for x in a.ravel()))


def estimate_tokens(est):
    if isinstance(est, BasePose):
        return "P " + pose_tokens(est)
    if est is None:
        return "N"
    if isinstance(est, np.ndarray):
        return "A " + array_tokens(est)
    return "S " + f2h(float(est))


def offset_tokens(off):
    if off is None:
        return "N"
    if isinstance(off, BasePose):
        return "P " + pose_tokens(off)
    return "O"


def edge_tokens(e):
    ids = list(e.vertex_ids)
    oid = getattr(e, "offset_id", None)
    return "%s %d %s %s %s %s %s" % (
        TAG_OF[type(e)],
        len(ids),
        " ".join(str(int(i)) for i in ids),
        array_tokens(e.information),
        estimate_tokens(e.estimate),
        offset_tokens(getattr(e, "offset", None)),
        "-" if oid is None else str(int(oid)),
    )


def graph_tokens(g):
    return "%d %s %d %s" % (len(g._edges), " ".join(edge_tokens(e) for e in g._edges), len(g._vertices), " ".join(vertex_tokens(v) for v in g._vertices))


def outcome(f):
    """truth value of what the real call returns, or the class name of what it raises"""
    try:
        r = f()
    except Exception as e:  # noqa: BLE001
        return type(e).__name__
    return "True" if bool(r) else "False"


def model_outcome(reply):
    w = reply.split()
    if len(w) >= 2 and w[0] in ("ok", "exc"):
        return w[1]
    return "driver:" + reply
