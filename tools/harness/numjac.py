"""Layer-B correspondence for C16 (and the numerical-differentiation clause of C15): BaseEdge._calc_jacobian vs
Model.numJacobian: perturbed poses vs generated box-plus, each column vs Model.fdColumn (bitwise), store restored."""
import os
import sys

sys.path.insert(0, os.path.join(os.path.dirname(__file__), ".."))
from lib.common import Driver, Rng, f2h, h2f  # noqa: E402
from lib import graphgen as G  # noqa: E402
import numpy as np  # noqa: E402
from graphslam.edge.base_edge import BaseEdge  # noqa: E402

BOX = {"PoseR2": "PoseR2.boxplus", "PoseR3": "PoseR3.boxplus", "PoseSE2": "PoseSE2.boxplus", "PoseSE3": "PoseSE3.boxplus"}
COPY = {"PoseR2": "PoseR2.copy", "PoseR3": "PoseR3.copy", "PoseSE2": "PoseSE2.copy", "PoseSE3": "PoseSE3.copy"}


def run(seed, n_graphs):
    drv = Driver()
    eps = BaseEdge._NUMERICAL_DIFFERENTIATION_EPSILON
    res = dict(cases=0, edges=0, disagreements=[], kinds={}, arities={}, samples=[], eps=eps)
    try:
        for k in range(n_graphs):
            rng = Rng(seed, "numjac|%d" % k)
            g, desc = G.make_graph(rng, noise=rng.choice([0.0, 0.1]), custom=True)
            aliased = False
            if rng.random() < 0.3:
                # two vertices that hold the *same* pose object (legal: Vertex stores the caller's object and the library
                # never writes into a pose): differentiation must still perturb one vertex only
                cands = [e for e in g._edges if type(e).__name__ == "EdgeOdometry"]
                if cands:
                    e0 = rng.choice(cands)
                    e0.vertices[1].pose = e0.vertices[0].pose
                    aliased = True
                    res["aliased_graphs"] = res.get("aliased_graphs", 0) + 1
            for ei, e in enumerate(g._edges):
                if aliased and type(e).__name__.startswith("Distance"):
                    continue  # zero distance between aliased vertices: the custom error itself is singular there
                snap0 = [np.array(v.pose).tobytes() for v in e.vertices]
                types0 = [type(v.pose) for v in e.vertices]
                ids0 = [id(v) for v in e.vertices]
                J = BaseEdge.calc_jacobians(e)  # the numerical path, whatever the edge class overrides
                res["edges"] += 1
                kind = type(e).__name__
                res["kinds"][kind] = res["kinds"].get(kind, 0) + 1
                res["arities"][len(e.vertices)] = res["arities"].get(len(e.vertices), 0) + 1
                bad = lambda what, **kw: res["disagreements"].append(dict(what=what, graph=k, edge=ei, kind=kind, **kw))
                if [np.array(v.pose).tobytes() for v in e.vertices] != snap0 or [type(v.pose) for v in e.vertices] != types0 or [id(v) for v in e.vertices] != ids0:
                    bad("store not restored")
                    continue
                err0 = np.asarray(e.calc_error(), dtype=np.float64).ravel()
                if len(J) != len(e.vertices):
                    bad("number of Jacobians")
                    continue
                for vi, v in enumerate(e.vertices):
                    p = v.pose
                    cname = type(p).__name__
                    dim = p.COMPACT_DIMENSIONALITY
                    Jv = np.asarray(J[vi])
                    res["cases"] += 1
                    if Jv.shape != err0.shape + (dim,):
                        bad("shape", got=list(Jv.shape), expected=list(err0.shape + (dim,)))
                        break
                    # copy(copy p) == p bitwise (the model's restore value)
                    cc = drv.eval(COPY[cname], [], list(drv.eval(COPY[cname], [], list(np.asarray(p)))))
                    if np.array(cc).tobytes() != np.array(p).tobytes():
                        bad("copy(copy p) != p", pose=np.asarray(p).tolist(), model=cc)
                        break
                    for d in range(dim):
                        delta = np.zeros(dim)
                        delta[d] = eps
                        pert = p + delta
                        mod = np.array(drv.eval(BOX[cname], [], list(np.asarray(p)) + list(delta)))
                        if not np.allclose(np.asarray(pert), mod, rtol=0, atol=1e-12 * (1 + np.max(np.abs(mod)))):
                            bad("perturbed pose != generated box-plus", d=d)
                            break
                        v.pose = pert
                        try:
                            errd = np.asarray(e.calc_error(), dtype=np.float64).ravel()
                        finally:
                            v.pose = p
                        r = drv.ask("fd %s %d %s" % (f2h(eps), len(err0), " ".join(f2h(x) for x in list(err0) + list(errd))))
                        col = np.array([h2f(w) for w in r.split()[1:]])
                        if col.tobytes() != np.ascontiguousarray(Jv[:, d]).tobytes():
                            if not (np.isnan(col) == np.isnan(Jv[:, d])).all() or not np.array_equal(col[~np.isnan(col)], Jv[:, d][~np.isnan(col)]):
                                bad("column", d=d, impl=Jv[:, d].tolist(), model=col.tolist())
                                break
                if len(res["samples"]) < 3 and kind.startswith("Distance"):
                    res["samples"].append(dict(kind=kind, vertices=[type(v.pose).__name__ for v in e.vertices], err=err0.tolist(), jacobian_0=np.asarray(J[0]).tolist()))
            if len(res["disagreements"]) > 3:
                break
    finally:
        drv.close()
    res["ok"] = not res["disagreements"]
    return res


if __name__ == "__main__":
    import json

    print(json.dumps(run(int(os.environ.get("VERIF_SEED", "0")), 30), default=str)[:2500])
