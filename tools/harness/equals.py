"""Layer-B correspondence for C17: the five real `equals` methods vs lean/GraphSlam/Model/Equals.lean run at Float.

Every pair of real objects is abstracted to descriptor tokens (harness/cmpobj.py), sent to `gsdriver_cmp`, and the model's
outcome (`True` / `False` / exception class) is compared *exactly* with the real call, in both directions, with the default
tolerance (argument omitted) and an explicit one.  Pairs in which some numeric block has
‖a−b‖ / (tol·max(‖self‖,tol)) in [0.5, 2] are skipped (float rounding of the norm may decide either way there).

Streams: poses (kind × kind × base × component × magnitude tol·scale·10^k, k=-12..3), vertices, edges (every base edge ×
every one-factor deviation; two-factor deviations exhaustive in thorough / sampled in quick), graphs (structured:
lengths, order, element perturbation, raising element before/after a False element; plus seeded random), malformed
(None/ndarray offsets, None estimates, pose arrays of the wrong length)."""
import itertools
import math
import os
import sys
import time
import warnings

sys.path.insert(0, os.path.join(os.path.dirname(__file__), ".."))
from lib.common import Driver, Rng  # noqa: E402
from harness import cmpobj as C  # noqa: E402
import numpy as np  # noqa: E402

KS = list(range(-12, 4))  # perturbation magnitudes tol*scale*10^k
KS_OUT = [k for k in KS if not (0.5 <= 10.0**k <= 2.0)]
KS_SMALL = [-9, -1, 1, 3]

KS_FINE = [math.log10(f) for f in (0.3, 0.45, 2.2, 3.5)]  # just outside the skipped band
DEFAULT_TOL = 1e-6
TOLS = [None, 1e-3]  # None = call without the argument (the default 1e-6)


def nrm(a):
    a = np.asarray(a, dtype=np.float64).ravel()
    return float(np.sqrt(np.sum(a * a)))


def in_band(blocks, tol):
    """blocks: [(self_array, other_array)] of equal shape"""
    for a, b in blocks:
        a = np.asarray(a, dtype=np.float64)
        b = np.asarray(b, dtype=np.float64)
        if a.shape != b.shape or not (np.all(np.isfinite(a)) and np.all(np.isfinite(b))):
            continue
        r = nrm(a - b) / (tol * max(nrm(a), tol))
        if 0.5 <= r <= 2.0:
            return True
    return False


# ---------------------------------------------------------------------------------------------------------------------
# base values


def base_vals(kind, magn):
    n = C.DIM[kind]
    if magn == "zero":
        return [0.0] * n
    v = {"r2": [1.25, -2.5], "r3": [0.75, 2.0, -1.5], "se2": [1.0, 2.0, 0.5], "se3": [0.5, -1.0, 2.0, 0.1, -0.2, 0.3, 0.927]}[kind]
    if magn == "big":
        return [x * 1e3 for x in v]
    return list(v)


def perturbed(arr, idx, k, tol, sign=1.0):
    """copy of arr with entry idx moved by sign * 10^k * tol * max(‖arr‖, tol); idx None: every entry moved, with
    alternating signs, so that the difference has that Euclidean norm"""
    b = np.array(arr, dtype=np.float64, copy=True)
    flat = b.reshape(-1)
    if flat.size == 0:
        return b
    d = sign * (10.0**k) * tol * max(nrm(arr), tol)
    if idx is None:
        for j in range(flat.size):
            flat[j] += (d if j % 2 == 0 else -d) / math.sqrt(flat.size)
    else:
        flat[idx % flat.size] += d
    return b


# ---------------------------------------------------------------------------------------------------------------------
# edge specs

EST_KINDS = ["r2", "r3", "se2", "se3", "a2", "a3", "a13", "a31", "a22", "a0d", "a0", "scalar", "int", "none"]
EST_SHAPE = {"a2": (2,), "a3": (3,), "a13": (1, 3), "a31": (3, 1), "a22": (2, 2), "a0d": (), "a0": (0,)}
OFF_KINDS = ["r2", "r3", "se2", "se3", "none", "arr"]
IDS = {"same": [1, 2], "id1": [1, 3], "id0": [3, 2], "swap": [2, 1], "short": [1], "long": [1, 2, 3], "empty": []}
INFO_SHAPES = ["nn", "n1n1", "flat", "1nn"]
CLASSES = ["odo", "lm", "c0", "c1"]


def est_values(kind, magn):
    if kind in C.KINDS:
        return base_vals(kind, magn)
    if kind in EST_SHAPE:
        size = int(np.prod(EST_SHAPE[kind])) if EST_SHAPE[kind] else 1
        v = [0.5 + 0.75 * i for i in range(size)]
    elif kind == "scalar":
        v = [1.75]
    elif kind == "int":
        v = [3.0]
    else:
        return []
    if magn == "zero":
        return [0.0] * len(v)
    if magn == "big":
        return [x * 1e3 for x in v]
    return v


def make_edge(spec, tol):
    """spec: dict(cls, ids, info_shape, info_pert, est, est_pert, off, off_pert, off_id, magn)"""
    magn = spec["magn"]
    n = 3
    shape = {"nn": (n, n), "n1n1": (n + 1, n + 1), "flat": (n * n,), "1nn": (1, n, n)}[spec["info_shape"]]
    size = int(np.prod(shape))
    info = np.array([(2.0 if i % (n + 1) == 0 else 0.25) * (0.0 if magn == "zero" else 1e3 if magn == "big" else 1.0) for i in range(size)], dtype=np.float64).reshape(shape)
    if spec["info_pert"] is not None:
        info = perturbed(info, spec["info_pert"][0], spec["info_pert"][1], tol)
    ek = spec["est"]
    ev = np.array(est_values(ek, magn), dtype=np.float64)
    if spec["est_pert"] is not None and ev.size:
        ev = perturbed(ev, spec["est_pert"][0], spec["est_pert"][1], tol)
    if ek in C.KINDS:
        est = C.raw_pose(ek, ev)
    elif ek in EST_SHAPE:
        est = ev.reshape(EST_SHAPE[ek])
    elif ek == "scalar":
        est = float(ev[0])
    elif ek == "int":
        est = int(round(ev[0])) if spec["est_pert"] is None else float(ev[0])
    else:
        est = None
    cls = C.EDGE_CLS[spec["cls"]]
    ids = list(IDS[spec["ids"]])
    if spec["cls"] == "lm":
        ok = spec["off"]
        if ok in C.KINDS:
            ov = np.array(base_vals(ok, magn), dtype=np.float64)
            if spec["off_pert"] is not None:
                ov = perturbed(ov, spec["off_pert"][0], spec["off_pert"][1], tol)
            off = C.raw_pose(ok, ov)
        elif ok == "none":
            off = None
        else:
            off = np.ones(2)
        return cls(ids, info, est, off, offset_id=spec["off_id"])
    return cls(ids, info, est)


def edge_blocks(a, b):
    out = []
    if np.shape(a.information) == np.shape(b.information):
        out.append((a.information, b.information))
    ea, eb = a.estimate, b.estimate
    if ea is not None and eb is not None:
        if isinstance(ea, C.BasePose) == isinstance(eb, C.BasePose) and np.shape(ea) == np.shape(eb):
            out.append((np.asarray(ea, dtype=np.float64), np.asarray(eb, dtype=np.float64)))
    oa, ob = getattr(a, "offset", None), getattr(b, "offset", None)
    if isinstance(oa, C.BasePose) and isinstance(ob, C.BasePose) and np.shape(oa) == np.shape(ob):
        out.append((np.asarray(oa), np.asarray(ob)))
    return out


FIELDS = ["cls", "ids", "info_shape", "info_pert", "est", "est_pert", "off", "off_pert", "off_id"]


def alternatives(base, full, both_ends=True):
    """field -> list of alternative values (full: every k, last / first / all entries; else the reduced set)"""
    ks = KS_OUT if full else KS_SMALL
    idxs = [0, -1] if (full and both_ends) else [-1]
    perts = [(i, k) for i in idxs for k in ks]
    if full:
        perts += [(None, k) for k in KS_OUT + KS_FINE] + [(-1, k) for k in KS_FINE]
    alt = {
        "cls": [c for c in CLASSES if c != base["cls"]],
        "ids": [i for i in IDS if i != base["ids"]],
        "info_shape": [s for s in INFO_SHAPES if s != base["info_shape"]],
        "info_pert": perts,
        "est": [e for e in EST_KINDS if e != base["est"]],
        "est_pert": perts if base["est"] != "none" else [],
    }
    if base["cls"] == "lm":
        alt["off"] = [o for o in OFF_KINDS if o != base["off"]]
        alt["off_pert"] = perts if base["off"] in C.KINDS else []
        alt["off_id"] = [o for o in (None, 0, 1) if o != base["off_id"]]
    return alt


def base_specs(magns):
    for magn in magns:
        for cls in CLASSES:
            for est in EST_KINDS:
                offs = [(o, i) for o in OFF_KINDS for i in (None, 0, 1)] if cls == "lm" else [(None, None)]
                for off, oid in offs:
                    yield dict(cls=cls, ids="same", info_shape="nn", info_pert=None, est=est, est_pert=None, off=off, off_pert=None, off_id=oid, magn=magn)


# ---------------------------------------------------------------------------------------------------------------------


class Runner:
    def __init__(self):
        self.drv = Driver("gsdriver_cmp")
        self.pending = []  # (level, tol_arg, a, b, blocks_fn, note)
        self.res = dict(cases=0, distinct_nontrivial=0, skipped_band=0, disagreements=[], samples=[], by_level={}, outcomes={}, pairs=0)
        self.lines = []
        self.meta = []

    def add(self, level, a, b, blocks, tokens_a, tokens_b, note, tols=TOLS):
        """one pair -> both directions x both tolerances"""
        self.res["pairs"] += 1
        for tol_arg in tols:
            tol = DEFAULT_TOL if tol_arg is None else tol_arg
            for (x, y, tx, ty, bl) in ((a, b, tokens_a, tokens_b, blocks), (b, a, tokens_b, tokens_a, [(q, p) for p, q in blocks])):
                if in_band(bl, tol):
                    self.res["skipped_band"] += 1
                    continue
                if tol_arg is None:
                    real = C.outcome(lambda: x.equals(y))
                else:
                    real = C.outcome(lambda: x.equals(y, tol_arg))
                self.lines.append("eq %s %s %s %s" % (level, C.f2h(tol), tx, ty))
                self.meta.append((level, real, note, tol))
        if len(self.lines) >= 20000:
            self.flush()

    def flush(self):
        if not self.lines:
            return
        replies = self.drv.ask_many(self.lines)
        r = self.res
        for line, rep, (level, real, note, tol) in zip(self.lines, replies, self.meta):
            model = C.model_outcome(rep)
            r["cases"] += 1
            r["by_level"][level] = r["by_level"].get(level, 0) + 1
            key = level + ":" + real
            r["outcomes"][key] = r["outcomes"].get(key, 0) + 1
            if note.get("nontrivial", True):
                r["distinct_nontrivial"] += 1
            if model != real:
                if len(r["disagreements"]) < 8:
                    r["disagreements"].append(dict(level=level, impl=real, model=model, tol=tol, note=note, request=line[:1500]))
                else:
                    r["disagreements"].append(dict(level=level, impl=real, model=model))
            elif len(r["samples"]) < 6 and r["cases"] % 9973 == 1:
                r["samples"].append(dict(level=level, outcome=real, tol=tol, note=note))
        self.lines, self.meta = [], []

    def close(self):
        self.flush()
        self.drv.close()


# ---------------------------------------------------------------------------------------------------------------------
# streams


def stream_poses(R, tol_for_pert=DEFAULT_TOL):
    for ka, kb in itertools.product(C.KINDS, C.KINDS):
        for magn in ("gen", "zero", "big"):
            a = C.raw_pose(ka, base_vals(ka, magn))
            if ka != kb:
                b = C.raw_pose(kb, base_vals(kb, magn))
                R.add("pose", a, b, [], C.pose_tokens(a), C.pose_tokens(b), dict(kinds=[ka, kb], magn=magn))
                # same numbers where the lengths agree (the former R3-vs-SE2 defect)
                if C.DIM[ka] == C.DIM[kb]:
                    b2 = C.raw_pose(kb, base_vals(ka, magn))
                    R.add("pose", a, b2, [], C.pose_tokens(a), C.pose_tokens(b2), dict(kinds=[ka, kb], magn=magn, same_numbers=True))
                continue
            ac = a.copy()  # the class's own copy() (SE(2): re-wraps the angle)
            R.add("pose", a, ac, [(np.asarray(a), np.asarray(ac))], C.pose_tokens(a), C.pose_tokens(ac), dict(kinds=[ka, kb], magn=magn, copy=True))
            for tp in (DEFAULT_TOL, 1e-3):
                for i in list(range(C.DIM[ka])) + [None]:
                    for k in KS + KS_FINE:
                        for sign in (1.0, -1.0):
                            b = C.raw_pose(kb, perturbed(a, i, k, tp, sign))
                            R.add("pose", a, b, [(np.asarray(a), np.asarray(b))], C.pose_tokens(a), C.pose_tokens(b), dict(kinds=[ka, kb], magn=magn, comp=i, k=k, pert_tol=tp))
    # which operand's norm is the scale: with a (silly but legal) tolerance of 3 a large pose accepts the zero pose while
    # the zero pose rejects the large one, both far outside the skipped band
    for ka in C.KINDS:
        a = C.raw_pose(ka, [100.0 * x for x in base_vals(ka, "gen")])
        b = C.raw_pose(ka, base_vals(ka, "zero"))
        R.add("pose", a, b, [(np.asarray(a), np.asarray(b))], C.pose_tokens(a), C.pose_tokens(b), dict(kinds=[ka, ka], asymmetry=True), tols=[3.0])
        va, vb = C.Vertex(4, a), C.Vertex(4, b)
        R.add("vertex", va, vb, [(np.asarray(a), np.asarray(b))], C.vertex_tokens(va), C.vertex_tokens(vb), dict(kinds=[ka, ka], asymmetry=True), tols=[3.0])
        ea, eb = C.EdgeOdometry([1, 2], 100.0 * np.eye(3), a), C.EdgeOdometry([1, 2], np.zeros((3, 3)), a)
        R.add("edge", ea, eb, edge_blocks(ea, eb), C.edge_tokens(ea), C.edge_tokens(eb), dict(asymmetry="information"), tols=[3.0])
        ea, eb = C.CustomTrue([1], np.eye(1), np.asarray(a).copy()), C.CustomTrue([1], np.eye(1), np.asarray(b).copy())
        R.add("edge", ea, eb, edge_blocks(ea, eb), C.edge_tokens(ea), C.edge_tokens(eb), dict(asymmetry="estimate"), tols=[3.0])
        ea, eb = C.EdgeLandmark([1, 2], np.eye(2), C.raw_pose("r2", [1.0, 2.0]), a, 0), C.EdgeLandmark([1, 2], np.eye(2), C.raw_pose("r2", [1.0, 2.0]), b, 0)
        R.add("edge", ea, eb, edge_blocks(ea, eb), C.edge_tokens(ea), C.edge_tokens(eb), dict(asymmetry="offset"), tols=[3.0])
    # constructed through the public constructors (angle wrap, quaternion as given)
    from graphslam.pose.se2 import PoseSE2
    from graphslam.pose.se3 import PoseSE3

    a = PoseSE2([1.0, 2.0], 3.5)
    b = PoseSE2([1.0, 2.0], 3.5 - 2 * np.pi)
    R.add("pose", a, b, [(np.asarray(a), np.asarray(b))], C.pose_tokens(a), C.pose_tokens(b), dict(ctor="se2-wrap"))
    a = PoseSE3([1.0, 2.0, 3.0], [0.0, 0.0, 0.0, 1.0])
    b = PoseSE3([1.0, 2.0, 3.0], [0.0, 0.0, 0.0, -1.0])
    R.add("pose", a, b, [(np.asarray(a), np.asarray(b))], C.pose_tokens(a), C.pose_tokens(b), dict(ctor="se3-antipodal"))


def stream_vertices(R):
    for ka, kb in itertools.product(C.KINDS, C.KINDS):
        for ida, idb in ((1, 1), (1, 2), (-5, -5), (0, 7)):
            a = C.Vertex(ida, C.raw_pose(ka, base_vals(ka, "gen")))
            if ka != kb:
                b = C.Vertex(idb, C.raw_pose(kb, base_vals(kb, "gen")))
                R.add("vertex", a, b, [], C.vertex_tokens(a), C.vertex_tokens(b), dict(kinds=[ka, kb], ids=[ida, idb]))
                continue
            for i in (0, C.DIM[ka] - 1):
                for k in KS:
                    b = C.Vertex(idb, C.raw_pose(kb, perturbed(a.pose, i, k, DEFAULT_TOL)))
                    R.add("vertex", a, b, [(np.asarray(a.pose), np.asarray(b.pose))], C.vertex_tokens(a), C.vertex_tokens(b), dict(kinds=[ka, kb], ids=[ida, idb], comp=i, k=k))
            # fixed flag is not compared
            b = C.Vertex(idb, C.raw_pose(kb, base_vals(kb, "gen")), fixed=True)
            R.add("vertex", a, b, [(np.asarray(a.pose), np.asarray(b.pose))], C.vertex_tokens(a), C.vertex_tokens(b), dict(kinds=[ka, kb], ids=[ida, idb], fixed=True))


def nontrivial_edge(base, other):
    return base["cls"] == other["cls"]


def stream_edges(R, rng, tier):
    full_two = tier == "thorough"
    magns1 = ("gen", "zero", "big") if full_two else ("gen", "zero")
    magns2 = ("gen", "zero") if full_two else ("gen",)
    sample2 = 1.0 if full_two else 0.02
    cache = {}

    def build(spec):
        if spec["cls"] == "lm" and spec["off"] is None:
            spec = dict(spec, off="se2")
        key = tuple(spec[f] for f in FIELDS) + (spec["magn"],)
        hit = cache.get(key)
        if hit is None:
            e = make_edge(spec, DEFAULT_TOL)
            hit = (e, C.edge_tokens(e))
            if len(cache) < 200000:
                cache[key] = hit
        return hit

    def emit(base, other, note):
        ea, ta = build(base)
        eb, tb = build(other)
        note["nontrivial"] = nontrivial_edge(base, other)
        R.add("edge", ea, eb, edge_blocks(ea, eb), ta, tb, note)

    # one-factor deviations, every base, every alternative (plus the exact copy)
    for base in base_specs(magns1):
        emit(base, dict(base), dict(base={f: base[f] for f in FIELDS}, magn=base["magn"], change="copy"))
        alt = alternatives(base, True, both_ends=full_two)
        for f, vals in alt.items():
            for v in vals:
                other = dict(base)
                other[f] = v
                emit(base, other, dict(base={x: base[x] for x in ("cls", "est", "off", "off_id")}, magn=base["magn"], change={f: v}))
    # two-factor deviations
    for base in base_specs(magns2):
        alt = alternatives(base, False)
        fs = list(alt)
        for i in range(len(fs)):
            for j in range(i + 1, len(fs)):
                for v in alt[fs[i]]:
                    for w in alt[fs[j]]:
                        if sample2 < 1.0 and rng.random() >= sample2:
                            continue
                        other = dict(base)
                        other[fs[i]] = v
                        other[fs[j]] = w
                        # a changed class needs the landmark-only fields to exist
                        if other["cls"] == "lm" and other["off"] is None:
                            other["off"] = "se2"
                        emit(base, other, dict(base={x: base[x] for x in ("cls", "est", "off", "off_id")}, magn=base["magn"], change={fs[i]: v, fs[j]: w}))
        cache.clear()
    # both sides deviate from the base (pairs of non-base objects), seeded sample
    n_rand = 40000 if full_two else 3000
    bases = list(base_specs(("gen", "zero")))
    for _ in range(n_rand):
        base = rng.choice(bases)
        alt = alternatives(base, False)
        sides = []
        for _side in range(2):
            o = dict(base)
            for f in rng.sample(list(alt), rng.choice([0, 1, 2, 3])):
                if alt[f]:
                    o[f] = rng.choice(alt[f])
            if o["cls"] == "lm" and o["off"] is None:
                o["off"] = rng.choice(OFF_KINDS)
                o["off_id"] = rng.choice([None, 0, 1])
            sides.append(o)
        emit(sides[0], sides[1], dict(random=True, a={f: sides[0][f] for f in FIELDS}, b={f: sides[1][f] for f in FIELDS}))


def stream_graphs(R, rng, tier):
    def spec(cls, est, off=None, oid=None, **kw):
        d = dict(cls=cls, ids="same", info_shape="nn", info_pert=None, est=est, est_pert=None, off=off, off_pert=None, off_id=oid, magn="gen")
        d.update(kw)
        return d

    def graph(edges, vertices):
        g = object.__new__(C.Graph)  # equals() reads only _edges/_vertices; avoids the constructor's validity assert
        g._edges = edges
        g._vertices = vertices
        return g

    def edges_from(specs):
        return [make_edge(s, DEFAULT_TOL) for s in specs]

    def verts_from(vs):
        return [C.Vertex(i, C.raw_pose(k, vals)) for i, k, vals in vs]

    E0 = [spec("odo", "se2"), spec("lm", "r2", "se2", 0), spec("c0", "scalar"), spec("odo", "se3", ids="swap")]
    V0 = [(1, "se2", base_vals("se2", "gen")), (2, "se2", [0.0, 1.0, -0.5]), (3, "r2", base_vals("r2", "gen")), (4, "se3", base_vals("se3", "gen"))]
    e_false = spec("odo", "se2", est_pert=(0, 3))  # differs far above tolerance from E0[0]
    e_small = spec("odo", "se2", est_pert=(0, -9))
    e_raise = spec("lm", "r2", "none", 0)  # None offset: AttributeError against itself
    e_raise_t = spec("c0", "none")  # None estimate: TypeError against a scalar/None
    v_false = (1, "se2", [9.0, 9.0, 0.5])
    v_otherid = (9, "se2", base_vals("se2", "gen"))
    v_otherkind = (1, "r3", base_vals("se2", "gen"))

    variants = []
    variants.append(("copy", E0, V0, E0, V0))
    variants.append(("drop-edge", E0, V0, E0[:-1], V0))
    variants.append(("drop-vertex", E0, V0, E0, V0[:-1]))
    variants.append(("empty-vs-empty", [], [], [], []))
    variants.append(("empty-edges", [], V0, [], V0))
    variants.append(("swap-edges", E0, V0, [E0[1], E0[0]] + E0[2:], V0))
    variants.append(("swap-vertices", E0, V0, E0, [V0[1], V0[0]] + V0[2:]))
    variants.append(("rotate-edges", E0, V0, E0[1:] + E0[:1], V0))
    for pos in range(len(E0)):
        small = list(E0)
        small[pos] = dict(E0[pos], info_pert=(0, -9))
        variants.append(("edge-small@%d" % pos, E0, V0, small, V0))
        big = list(E0)
        big[pos] = dict(E0[pos], info_pert=(-1, 2))
        variants.append(("edge-big@%d" % pos, E0, V0, big, V0))
    for pos in range(len(V0)):
        vs = list(V0)
        i, k, vals = V0[pos]
        vs[pos] = (i, k, list(perturbed(np.array(vals), 0, -8, DEFAULT_TOL)))
        variants.append(("vertex-small@%d" % pos, E0, V0, E0, vs))
        vs = list(V0)
        vs[pos] = (i, k, list(perturbed(np.array(vals), 0, 2, DEFAULT_TOL)))
        variants.append(("vertex-big@%d" % pos, E0, V0, E0, vs))
        vs = list(V0)
        vs[pos] = (i + 100, k, vals)
        variants.append(("vertex-id@%d" % pos, E0, V0, E0, vs))
    variants.append(("vertex-kind", E0, V0, E0, [v_otherkind] + V0[1:]))
    # short-circuiting and exception order: raising element before / after a False element; edges before vertices
    A = [E0[0], e_raise]
    variants.append(("false-then-raise", A, V0, [e_false, e_raise], V0))
    variants.append(("raise-then-false", [e_raise, E0[0]], V0, [e_raise, e_false], V0))
    variants.append(("true-then-raise", A, V0, [e_small, e_raise], V0))
    variants.append(("raise-only", [e_raise], V0, [e_raise], V0))
    variants.append(("typeerror", [e_raise_t], V0, [spec("c0", "scalar")], V0))
    variants.append(("typeerror-both-none", [e_raise_t], V0, [e_raise_t], V0))
    variants.append(("edge-raise-vs-vertex-false", [e_raise], V0, [e_raise], [v_false] + V0[1:]))
    variants.append(("edge-false-vs-vertex-raise", [E0[0]], [(1, "r2", [1.0, 2.0, 3.0])], [e_false], [(1, "r2", [1.0, 2.0])]))
    variants.append(("edges-true-vertex-valueerror", [E0[0]], [(1, "r2", [1.0, 2.0, 3.0])], [E0[0]], [(1, "r2", [1.0, 2.0])]))
    variants.append(("length-differs-before-raise", [e_raise, E0[0]], V0, [e_raise], V0))
    variants.append(("vertex-false-then-valueerror", [], [v_otherid, (2, "r2", [1.0, 2.0, 3.0])], [], [V0[0], (2, "r2", [1.0, 2.0])]))
    for name, ea, va, eb, vb in variants:
        ga = graph(edges_from(ea), verts_from(va))
        gb = graph(edges_from(eb), verts_from(vb))
        blocks = []
        for x, y in zip(ga._edges, gb._edges):
            blocks += edge_blocks(x, y)
        for x, y in zip(ga._vertices, gb._vertices):
            if type(x.pose) is type(y.pose) and np.shape(x.pose) == np.shape(y.pose):
                blocks.append((np.asarray(x.pose), np.asarray(y.pose)))
        R.add("graph", ga, gb, blocks, C.graph_tokens(ga), C.graph_tokens(gb), dict(variant=name))
    # seeded random graphs: random lengths 0..5, each element the base or a random deviation
    n = 3000 if tier == "thorough" else (1500 if tier == "escalated" else 300)
    bases = list(base_specs(("gen",)))
    for it in range(n):
        ne, nv = rng.randrange(0, 5), rng.randrange(0, 5)
        ea = [rng.choice(bases) for _ in range(ne)]
        eb = []
        for s in ea:
            o = dict(s)
            if rng.random() < 0.35:
                alt = alternatives(s, False)
                f = rng.choice(list(alt))
                if alt[f]:
                    o[f] = rng.choice(alt[f])
                if o["cls"] == "lm" and o["off"] is None:
                    o["off"] = "se2"
            eb.append(o)
        va = [(rng.randrange(0, 4), rng.choice(C.KINDS)) for _ in range(nv)]
        vb = []
        for i, k in va:
            r = rng.random()
            vals = base_vals(k, "gen")
            if r < 0.1:
                vb.append((i + 1, k, vals))
            elif r < 0.2:
                k2 = rng.choice(C.KINDS)
                vb.append((i, k2, base_vals(k2, "gen")))
            elif r < 0.4:
                vb.append((i, k, list(perturbed(np.array(vals), rng.randrange(len(vals)), rng.choice(KS_OUT), DEFAULT_TOL))))
            else:
                vb.append((i, k, vals))
        va = [(i, k, base_vals(k, "gen")) for i, k in va]
        if rng.random() < 0.15 and eb:
            eb = eb[:-1]
        if rng.random() < 0.1 and vb:
            vb = vb[:-1]
        ga = graph(edges_from(ea), verts_from(va))
        gb = graph(edges_from(eb), verts_from(vb))
        blocks = []
        for x, y in zip(ga._edges, gb._edges):
            blocks += edge_blocks(x, y)
        for x, y in zip(ga._vertices, gb._vertices):
            if type(x.pose) is type(y.pose) and np.shape(x.pose) == np.shape(y.pose):
                blocks.append((np.asarray(x.pose), np.asarray(y.pose)))
        R.add("graph", ga, gb, blocks, C.graph_tokens(ga), C.graph_tokens(gb), dict(random=it, ne=[len(ea), len(eb)], nv=[len(va), len(vb)]))
    # a real, constructed graph against its own copy through the public constructor
    from graphslam.pose.se2 import PoseSE2

    def real_graph(dx):
        vs = [C.Vertex(0, PoseSE2([0.0, 0.0], 0.0)), C.Vertex(1, PoseSE2([1.0 + dx, 0.0], 0.1))]
        es = [C.EdgeOdometry([0, 1], np.eye(3), PoseSE2([1.0, 0.0], 0.1))]
        return C.Graph(es, vs)

    for dx in (0.0, 1e-9, 1e-3):
        ga, gb = real_graph(0.0), real_graph(dx)
        blocks = [(np.asarray(x.pose), np.asarray(y.pose)) for x, y in zip(ga._vertices, gb._vertices)]
        R.add("graph", ga, gb, blocks, C.graph_tokens(ga), C.graph_tokens(gb), dict(constructed=True, dx=dx))


def stream_malformed(R):
    """objects outside the well-formedness domain: the model mirrors the exception class as well"""
    for ka in C.KINDS:
        for la, lb in ((1, C.DIM[ka]), (C.DIM[ka], 1), (C.DIM[ka] + 1, C.DIM[ka]), (0, C.DIM[ka]), (0, 0), (0, 1), (1, 1), (C.DIM[ka], C.DIM[ka] + 2)):
            a = C.raw_pose(ka, [0.5 * (i + 1) for i in range(la)])
            b = C.raw_pose(ka, [0.5 * (i + 1) for i in range(lb)])
            bl = [(np.asarray(a), np.asarray(b))] if la == lb else []
            R.add("pose", a, b, bl, C.pose_tokens(a), C.pose_tokens(b), dict(malformed="pose-length", kind=ka, lens=[la, lb]))
            va, vb = C.Vertex(1, a), C.Vertex(1, b)
            R.add("vertex", va, vb, bl, C.vertex_tokens(va), C.vertex_tokens(vb), dict(malformed="pose-length", kind=ka, lens=[la, lb]))


def run(seed, tier):
    t0 = time.time()
    warnings.filterwarnings("ignore")
    np.seterr(all="ignore")
    rng = Rng(seed, "equals")
    R = Runner()
    try:
        stream_poses(R)
        stream_vertices(R)
        stream_malformed(R)
        stream_graphs(R, rng, tier)
        stream_edges(R, rng, tier)
    finally:
        R.close()
    r = R.res
    r["ok"] = not r["disagreements"] and r["cases"] > 0
    r["disagreements"] = r["disagreements"][:12]
    r["wall_s"] = round(time.time() - t0, 1)
    r["magnitudes"] = "tol*max(norm,tol)*10^k, k=%d..%d, band [0.5,2] skipped" % (KS[0], KS[-1])
    return r


def entry(seed, tier, **_kw):
    """entry point for tools/check.py (props.py: corr=[("harness.equals", "entry", {})])"""
    r = run(seed, tier)
    keep = ("ok", "cases", "distinct_nontrivial", "samples", "pairs", "skipped_band", "by_level", "outcomes", "magnitudes", "wall_s")
    out = {k: r[k] for k in keep}
    out["disagreements"] = [{k: (v[:400] if isinstance(v, str) else v) for k, v in d.items()} for d in r["disagreements"][:3]]
    return out


if __name__ == "__main__":
    import json

    out = run(int(os.environ.get("VERIF_SEED", "0")), os.environ.get("VERIF_TIER", "quick"))
    out["disagreements"] = [{k: (v[:300] if isinstance(v, str) else v) for k, v in d.items()} for d in out["disagreements"][:4]]
    print(json.dumps({k: v for k, v in out.items() if k != "samples"}, default=str, indent=1))
