"""Trace check for C15: random interleavings of queries (and optimize) on real graphs; after every operation a bitwise
snapshot of every pose / estimate / information / offset array, fixed flags, ids and object identities is compared
with the model's prediction: queries leave the store unchanged and return identical values on repetition; pose
operators return fresh objects; optimize changes only poses of non-fixed vertices (and the first fixed flag when asked).
Results of queries are also *mutated* by the harness to detect aliasing of returned arrays into stored state."""
import os
import sys
import warnings

sys.path.insert(0, os.path.join(os.path.dirname(__file__), ".."))
from lib.common import Rng  # noqa: E402
from lib import graphgen as G  # noqa: E402
import numpy as np  # noqa: E402
from graphslam.edge.base_edge import BaseEdge  # noqa: E402

TMP = "/var/tmp/gsverif_purity_%d.g2o" % os.getpid()


def bits(x):
    if isinstance(x, (list, tuple)):
        return tuple(bits(y) for y in x)
    if x is None or isinstance(x, (bool, int, str)):
        return x
    return np.asarray(x, dtype=np.float64).tobytes()


def scribble(x):
    """overwrite a returned value in place (aliasing probe)"""
    if isinstance(x, (list, tuple)):
        for y in x:
            scribble(y)
    elif isinstance(x, np.ndarray) and x.size and x.flags.writeable:
        a = x.view(np.ndarray)
        a += 12345.678


OPS = ["pose.boxplus", "edge.calc_error", "edge.calc_chi2", "edge.calc_jacobians", "edge.num_jacobians", "edge.chi2_grad_hess", "edge.is_valid", "graph.calc_chi2", "graph.cgh", "graph.equals", "graph.to_g2o", "edge.to_g2o", "vertex.to_g2o", "pose.copy", "pose.add", "pose.sub", "pose.iadd", "pose.inverse", "pose.views", "pose.jacobians", "pose.equals", "optimize"]


def run(seed, n_traces, length):
    res = dict(cases=0, traces=0, disagreements=[], ops={}, samples=[], alias_probes=0)
    for k in range(n_traces):
        rng = Rng(seed, "purity|%d" % k)
        g, desc = G.make_graph(rng, noise=rng.choice([0.05, 0.5]), well_posed=True, fix=rng.choice(["first", "random"]))
        g_ref = G.rebuild(desc)
        # information matrices as users build them (np.linalg.inv(cov), R @ D @ R.T): symmetric only up to rounding
        if rng.random() < 0.5:
            res["ops"]["info-symmetric-up-to-rounding"] = res["ops"].get("info-symmetric-up-to-rounding", 0) + 1
            for ei in range(len(g._edges)):
                m = np.asarray(g._edges[ei].information)
                if m.ndim == 2 and m.shape[0] > 1 and rng.random() < 0.7:
                    i, j = rng.sample(range(m.shape[0]), 2)
                    up = np.inf if rng.random() < 0.5 else -np.inf
                    for gg in (g, g_ref):
                        mm = gg._edges[ei].information
                        mm[i, j] = np.nextafter(mm[i, j], up)
        # aliasing the caller may create (Vertex and the edges keep the caller's objects): a non-fixed vertex whose initial
        # pose IS an edge's measurement object (dead-reckoning initialisation), or is a second pose object on the same
        # buffer (PoseR2/PoseR3 constructors use np.asarray).  optimize() must still change nothing but vertex poses.
        if rng.random() < 0.4:
            cand = [e for e in g._edges if type(e).__name__ == "EdgeOdometry" and not e.vertices[1].fixed and type(e.estimate) is type(e.vertices[1].pose)]
            if cand:
                e0 = rng.choice(cand)
                if type(e0.estimate).__name__ in ("PoseR2", "PoseR3") and rng.random() < 0.5:
                    buf = np.array(np.asarray(e0.estimate), dtype=np.float64)
                    e0.estimate = type(e0.estimate)(buf)
                    e0.vertices[1].pose = type(e0.estimate)(buf)
                    res["ops"]["alias:shared-buffer"] = res["ops"].get("alias:shared-buffer", 0) + 1
                else:
                    e0.vertices[1].pose = e0.estimate
                    res["ops"]["alias:same-object"] = res["ops"].get("alias:same-object", 0) + 1
        trace = []
        for step in range(length):
            op = rng.choice(OPS)
            if op == "optimize" and rng.random() < 0.6:
                op = "graph.calc_chi2"
            snap = G.snapshot(g)
            e = rng.choice(g._edges)
            v = rng.choice(g._vertices)
            w = rng.choice([x for x in g._vertices if type(x.pose) is type(v.pose)])
            trace.append(op)
            res["ops"][op] = res["ops"].get(op, 0) + 1
            res["cases"] += 1
            bad = lambda what, **kw: res["disagreements"].append(dict(what=what, trace=k, step=step, op=op, tail=trace[-6:], desc=(desc if len(res["disagreements"]) < 1 else None), **kw))
            try:
                with warnings.catch_warnings():
                    warnings.simplefilter("ignore")
                    rep = None
                    if op == "optimize":
                        ffp = rng.random() < 0.5
                        flags0 = [x.fixed for x in g._vertices]
                        before = [np.array(x.pose).tobytes() for x in g._vertices]
                        if rng.random() < 0.3:
                            for x in e.vertices:
                                x.fixed = True  # an edge whose endpoints are all fixed
                            flags0 = [x.fixed for x in g._vertices]
                            snap = G.snapshot(g)
                            g.optimize(tol=1e-2, max_iter=40, fix_first_pose=ffp, verbose=False)  # ends through the early return
                        else:
                            g.optimize(tol=rng.choice([0.0, 1e-4]), max_iter=rng.randrange(1, 4), fix_first_pose=ffp, verbose=False)
                        s1 = G.snapshot(g)
                        exp_flags = list(flags0)
                        if ffp:
                            exp_flags[0] = True
                        if [x.fixed for x in g._vertices] != exp_flags:
                            bad("optimize changed fixed flags")
                        for i, x in enumerate(g._vertices):
                            if x.fixed and np.array(x.pose).tobytes() != before[i]:
                                bad("optimize moved a fixed vertex", vertex=x.id)
                        # everything except vertex poses / first flag identical
                        edge_part0 = [t for t in snap if t[0] == "e"]
                        edge_part1 = [t for t in s1 if t[0] == "e"]
                        if edge_part0 != edge_part1:
                            bad("optimize changed an edge (estimate / information / offset / binding)")
                        v0 = [(t[1], t[2], t[5]) for t in snap if t[0] == "v"]
                        v1 = [(t[1], t[2], t[5]) for t in s1 if t[0] == "v"]
                        if v0 != v1:
                            bad("optimize changed ids / pose types / gradient indices")
                        continue
                    f = None
                    if op == "edge.calc_error":
                        f = e.calc_error
                    elif op == "edge.calc_chi2":
                        f = e.calc_chi2
                    elif op == "edge.calc_jacobians":
                        f = e.calc_jacobians
                    elif op == "edge.num_jacobians":
                        f = lambda: BaseEdge.calc_jacobians(e)
                    elif op == "edge.chi2_grad_hess":
                        f = e.calc_chi2_gradient_hessian
                    elif op == "edge.is_valid":
                        f = e.is_valid
                    elif op == "graph.calc_chi2":
                        f = g.calc_chi2
                    elif op == "graph.cgh":
                        def f():
                            g._calc_chi2_gradient_hessian()
                            return [g._chi2, np.array(g._gradient), g._hessian.toarray()]
                    elif op == "graph.equals":
                        f = lambda: [g.equals(g_ref), g_ref.equals(g)]
                    elif op in ("graph.to_g2o", "edge.to_g2o", "vertex.to_g2o"):
                        def f():
                            try:
                                if op == "graph.to_g2o":
                                    g.to_g2o(TMP)
                                    return open(TMP).read()
                                return e.to_g2o() if op == "edge.to_g2o" else v.to_g2o()
                            except (NotImplementedError, ValueError) as ex:
                                return "raises " + type(ex).__name__
                    elif op == "pose.copy":
                        f = v.pose.copy
                    elif op == "pose.add":
                        f = lambda: v.pose + w.pose
                    elif op == "pose.boxplus":
                        # `pose + ndarray` (box-plus / point action): the increment array is an operand and must not be written
                        c = v.pose.COMPACT_DIMENSIONALITY
                        inc = np.array([rng.gauss(0, rng.choice([1e-3, 0.3, 2.0])) for _ in range(c)])
                        inc_bits = inc.tobytes()

                        def f():
                            out = v.pose + inc
                            return [np.array(out), inc.tobytes() == inc_bits]
                    elif op == "pose.sub":
                        f = lambda: v.pose - w.pose
                    elif op == "pose.inverse":
                        f = lambda: v.pose.inverse
                    elif op == "pose.views":
                        f = lambda: [v.pose.to_array(), v.pose.to_compact(), v.pose.position, v.pose.orientation]
                    elif op == "pose.jacobians":
                        f = lambda: [v.pose.jacobian_self_oplus_other_wrt_self(w.pose), v.pose.jacobian_self_ominus_other_wrt_other(w.pose), v.pose.jacobian_boxplus(), v.pose.jacobian_inverse()]
                    elif op == "pose.equals":
                        f = lambda: v.pose.equals(w.pose)
                    elif op == "pose.iadd":
                        # `p += q` on a local name rebinds it; the vertex keeps its own object
                        def f():
                            p = v.pose
                            pid = id(p)
                            p += w.pose
                            return [np.array(p), id(p) != pid]
                    r1 = f()
                    r1b = bits(r1)
                    if G.snapshot(g) != snap:
                        bad("query changed the store")
                        continue
                    r2 = f()
                    if bits(r2) != r1b and not (np.any(np.isnan(np.frombuffer(b"".join(x for x in [r1b] if isinstance(x, bytes)) or b"", dtype=np.float64)))):
                        bad("repeated call returned a different value")
                        continue
                    if op == "pose.iadd" and not r1[1]:
                        bad("+= mutated the operand in place")
                    if op == "pose.boxplus" and not (r1[1] and inc.tobytes() == inc_bits):
                        bad("pose + ndarray wrote to its right operand", increment=np.frombuffer(inc_bits).tolist())
                    # aliasing probe: scribbling over the returned arrays must not reach stored state
                    scribble(r2)
                    res["alias_probes"] += 1
                    if G.snapshot(g) != snap:
                        bad("a returned array aliases stored state")
                        # restore by rebuilding
                        g = G.rebuild(desc)
                        continue
                    r3 = f()
                    if bits(r3) != r1b:
                        bad("a returned array aliases state that later calls read")
            except Exception as ex:  # noqa
                bad("raised %s: %s" % (type(ex).__name__, ex))
            if len(res["disagreements"]) > 3:
                break
        res["traces"] += 1
        if k < 2:
            res["samples"].append(dict(world=desc["world"], ops=trace[:12]))
        if len(res["disagreements"]) > 3:
            break
    if os.path.exists(TMP):
        os.remove(TMP)
    res["ok"] = not res["disagreements"]
    return res


if __name__ == "__main__":
    import json

    r = run(int(os.environ.get("VERIF_SEED", "0")), 40, 40)
    print(json.dumps(r, default=str)[:3000])
