"""Implementation-level oracles for C13 (.g2o export -> import is lossless) and C14 (import is faithful to the file).
Independent of the Lean model: only the real library, numpy and a ~60-line reference parser written from the property text.

C13: export -> import on the real code; every number compared bitwise modulo the allowed canonicalisation (SE(2) angles
congruent mod 2pi within 4 ulp; SE(3) odometry measurement quaternion equal to +-q/|q| within 4 ulp with w >= 0; landmark
offsets numerically equal), ids / classes / order exact, chi^2 at relative 1e-12; content the vocabulary cannot express must
be refused with an exception and must not produce a file that reads back differently.
C14: Graph.from_g2o and the five load.py wrappers against the reference parser on generated files."""
import math
import os
import shutil
import sys
import warnings

sys.path.insert(0, os.path.join(os.path.dirname(__file__), ".."))
from lib.common import Rng, use_repo  # noqa: E402

use_repo()
import logging  # noqa: E402

import numpy as np  # noqa: E402
from graphslam.edge.edge_landmark import EdgeLandmark  # noqa: E402
from graphslam.edge.edge_odometry import EdgeOdometry  # noqa: E402
from graphslam.g2o_parameters import G2OParameterSE2Offset, G2OParameterSE3Offset  # noqa: E402
from graphslam.graph import Graph  # noqa: E402
from graphslam import load as LOAD  # noqa: E402
from graphslam.pose.r2 import PoseR2  # noqa: E402
from graphslam.pose.r3 import PoseR3  # noqa: E402
from graphslam.pose.se2 import PoseSE2  # noqa: E402
from graphslam.pose.se3 import PoseSE3  # noqa: E402
from graphslam.vertex import Vertex  # noqa: E402
from harness import g2o as H  # generators and (de)serialisation of real graphs only — not the model  # noqa: E402

TMP = "/var/tmp/g2o_search"
POSE = {"r2": PoseR2, "r3": PoseR3, "se2": PoseSE2, "se3": PoseSE3}
TWO_PI = 2 * math.pi


def _tmpfile(name):
    d = os.path.join(TMP, str(os.getpid()))
    os.makedirs(d, exist_ok=True)
    return os.path.join(d, name)


def _cleanup():
    shutil.rmtree(os.path.join(TMP, str(os.getpid())), ignore_errors=True)
    try:
        os.rmdir(TMP)
    except OSError:
        pass


class _Quiet:
    """silence the library's loggers while probing"""

    def __enter__(self):
        self.lg = logging.getLogger("graphslam")
        self.h = H.LogCapture()
        self.lg.addHandler(self.h)
        self.prop = self.lg.propagate
        self.lg.propagate = False
        return self.h

    def __exit__(self, *a):
        self.lg.removeHandler(self.h)
        self.lg.propagate = self.prop


# ----------------------------------------------------------------------------- rebuilding a graph from its description


def mk_pose(kind, bits_list):
    v = np.array([H.unbits(b) for b in bits_list], dtype=np.float64)
    if kind == "other":
        return H.PoseOther(v)
    return v.view(POSE[kind]).copy()  # exact entries (no re-wrapping)


def rebuild(items):
    """the real Graph described by harness-style items (no custom edges)"""
    vs, es, params = [], [], {}
    for it in items:
        f = it.split(":")
        if f[0] == "p":
            tag, cls = {"se2": ("PARAMS_SE2OFFSET", G2OParameterSE2Offset), "se3": ("PARAMS_SE3OFFSET", G2OParameterSE3Offset)}[f[1]]
            params[(tag, int(f[2]))] = cls((tag, int(f[2])), mk_pose(f[3], f[4].split(",")))
        elif f[0] == "v":
            vs.append(Vertex(int(f[1]), mk_pose(f[2], f[3].split(",") if f[3] else [])))
        elif f[1] in ("odo", "lm"):
            ids = [int(x) for x in f[2].split(",")]
            info = np.array([[H.unbits(x) for x in row.split(",")] for row in f[3].split(";")], dtype=np.float64)
            est = mk_pose(f[4], f[5].split(","))
            if f[1] == "odo":
                es.append(EdgeOdometry(ids, info, est))
            else:
                es.append(EdgeLandmark(ids, info, est, offset=mk_pose(f[6], f[7].split(",")), offset_id=None if f[8] == "None" else int(f[8])))
    g = Graph(es, vs)
    if params:
        g._g2o_params = params
    return g


# ----------------------------------------------------------------------------- C13 oracle


def ulp_close(a, b, n=4):
    a, b = float(a), float(b)
    if a == b or (math.isnan(a) and math.isnan(b)):
        return True
    if math.isinf(a) or math.isinf(b):
        return False
    return abs(a - b) <= n * max(math.ulp(a), math.ulp(b))


def same_bits(a, b):
    a = np.asarray(a, dtype=np.float64).ravel()
    b = np.asarray(b, dtype=np.float64).ravel()
    return a.shape == b.shape and all(H.bits(x) == H.bits(y) or (math.isnan(x) and math.isnan(y)) for x, y in zip(a, b))


def angle_ok(a, b):
    a, b = float(a), float(b)
    if H.bits(a) == H.bits(b) or (math.isnan(a) and math.isnan(b)):
        return True
    if not (math.isfinite(a) and math.isfinite(b)):
        return False
    d = math.remainder(a - b, TWO_PI)
    return abs(d) <= 8 * math.ulp(max(1.0, abs(a), abs(b)))


def pose_ok(p, q):
    """q is p after a cycle: identical, SE(2) angle only congruent"""
    if type(p) is not type(q) or len(p) != len(q):
        return False
    if isinstance(p, PoseSE2):
        return same_bits(p[:2], q[:2]) and angle_ok(p[2], q[2])
    return same_bits(p, q)


def quat_ok(p, q):
    """SE(3) odometry measurement: position identical; quaternion renormalised with w >= 0"""
    if not same_bits(p[:3], q[:3]):
        return False
    v = np.asarray(p[3:], dtype=np.float64)
    with np.errstate(all="ignore"):
        n = float(np.linalg.norm(v))
    if not math.isfinite(n) or n == 0.0:
        return True  # the property speaks about unit quaternions
    ref = v / n
    got = np.asarray(q[3:], dtype=np.float64)
    if not got[3] >= 0:  # w >= 0 after the import (-0.0 counts as zero)
        return False
    close = lambda r: all(ulp_close(x, y, 4) or abs(x - y) <= 4e-16 for x, y in zip(r, got))  # noqa: E731
    # a scalar part of +0.0 or -0.0 is "not negative" (IEEE: -0.0 >= 0.0): the line's own numbers are kept, not their negation
    # (decided on the scalar part as written on the line: a negative denormal underflows to -0.0 in `ref` but is still negative)
    return close(ref) if v[3] >= 0 else close(-ref)


def expressible(g):
    """the property's own domain, decided from the objects: None if expressible, else the class of the first offender"""
    for v in g._vertices:
        if type(v.pose) not in H.KIND or len(v.pose) != {"r2": 2, "r3": 3, "se2": 3, "se3": 7}[H.KIND[type(v.pose)]]:
            return "vertex-unknown-pose"
    for e in g._edges:
        k0 = H.KIND.get(type(e.vertices[0].pose))
        k1 = H.KIND.get(type(e.vertices[1].pose)) if len(e.vertices) > 1 else None
        if type(e) is EdgeOdometry:
            if k0 not in ("se2", "se3"):
                return "odometry-not-se"
        elif type(e) is EdgeLandmark:
            if (k0, k1) not in (("se2", "r2"), ("se3", "r3")):
                return "landmark-not-pose-to-point" if k0 not in ("se2", "se3") else "landmark-to-pose"
            if k0 == "se2" and not np.array_equal(e.offset, [0.0, 0.0, 0.0]):
                return "landmark-se2-offset"
            if k0 == "se3":
                p = (g._g2o_params or {}).get(("PARAMS_SE3OFFSET", e.offset_id))
                if p is None or not np.array_equal(p.value, e.offset):
                    return "landmark-se3-offset-unregistered"
        else:
            return "custom-edge"
        info = np.asarray(e.information)
        if info.dtype != np.float64:
            return "information-not-float64"
        if not np.array_equal(info, info.T):
            return "information-asymmetric"
    return None


def chi2_of(g):
    with np.errstate(all="ignore"):
        try:
            return float(g.calc_chi2())
        except Exception:  # noqa: BLE001
            return float("nan")


def has_cross_terms_and_negative_w(g):
    for e in g._edges:
        if type(e) is EdgeOdometry and isinstance(e.estimate, PoseSE3) and e.estimate[6] < 0:
            m = np.asarray(e.information)
            if np.any(m[:3, 3:] != 0) or np.any(m[3:, :3] != 0):
                return True
    return False


def check_cycle(g, label=""):
    """one export/import cycle on the real code. Returns (witness or None, re-read graph or None)"""
    inexpr = expressible(g)
    path = _tmpfile("c13.g2o")
    if os.path.exists(path):
        os.remove(path)
    try:
        items = H.graph_items(g)
    except H.NotModelled:
        items = None
    err = None
    with _Quiet() as log, warnings.catch_warnings(), np.errstate(all="ignore"):
        warnings.simplefilter("ignore")
        try:
            g.to_g2o(path)
        except Exception as e:  # noqa: BLE001
            err = type(e).__name__
        if inexpr in ("information-asymmetric", "custom-edge"):
            return None, None  # outside the property's domain (stated hypothesis), not judged
        if err is not None:
            if inexpr is None:
                return dict(match="g2o-refused-expressible", kind="export refused an expressible graph", error=err, items=items, label=label), None
            return None, None  # refused, as the property demands
        text = open(path, newline="").read()
        err2, g2 = None, None
        try:
            g2 = Graph.from_g2o(path)
            # history: the user of an earlier load edited its arrays in place (down-weighting edges, moving a vertex); what a
            # LATER load of the same file returns is about the file, not about that working copy
            for e_ in g2._edges:
                a_ = np.asarray(e_.information)
                if a_.ndim == 2 and a_.flags.writeable:
                    a_ *= 0.5
                est_ = np.asarray(e_.estimate)
                if est_.ndim == 1 and est_.flags.writeable and est_.dtype == np.float64:
                    est_ += 0.25
            for v_ in g2._vertices:
                p_ = np.asarray(v_.pose)
                if p_.flags.writeable:
                    p_[: min(2, p_.size)] += 1.5
            g2 = Graph.from_g2o(path)
        except Exception as e:  # noqa: BLE001
            err2 = type(e).__name__
        os.remove(path)
        if inexpr is not None:
            # written although the vocabulary cannot express it: a violation unless it reads back as the same graph
            cls = {"landmark-to-pose": "g2o-landmark-to-pose", "information-not-float64": "g2o-information-not-float64", "landmark-se2-offset": "g2o-inexpressible-offset",
                   "landmark-se3-offset-unregistered": "g2o-inexpressible-offset"}.get(inexpr, "g2o-written-differently:" + inexpr)
            if inexpr == "information-not-float64" and g2 is not None and abs(chi2_of(g2) - chi2_of(g)) <= 1e-12 * abs(chi2_of(g)):
                return None, g2
            return dict(match=cls, kind="inexpressible content was written, not refused", offender=inexpr, import_error=err2, file=text[:600], items=items, label=label), None
        if err2 is not None:
            return dict(match="g2o-reimport-raises", kind="import of the exported file raises", error=err2, file=text[:600], items=items, label=label), None
        if log.records:
            return dict(match="g2o-reimport-warns", kind="import of the exported file logs", records=[m for _, m in log.records][:3], items=items, label=label), None

    def bad(what, **kw):
        return dict(match="g2o-roundtrip:" + what, kind="export/import changed " + what, items=items, label=label, file=text[:400], **kw), None

    if [v.id for v in g2._vertices] != [v.id for v in g._vertices] or [type(v.id) for v in g2._vertices] != [type(v.id) for v in g._vertices]:
        return bad("vertex ids / order")
    for a, b in zip(g._vertices, g2._vertices):
        if not pose_ok(a.pose, b.pose):
            return bad("vertex pose", vertex=a.id, before=H.arr_bits(a.pose), after=H.arr_bits(b.pose))
    if len(g2._edges) != len(g._edges):
        return bad("number of edges")
    for k, (a, b) in enumerate(zip(g._edges, g2._edges)):
        if type(a) is not type(b) or list(a.vertex_ids) != list(b.vertex_ids):
            return bad("edge class / ids / order", edge=k)
        if not same_bits(a.information, b.information) or np.asarray(b.information).shape != np.asarray(a.information).shape:
            return bad("information", edge=k)
        if type(a) is EdgeOdometry:
            ok = quat_ok(a.estimate, b.estimate) if isinstance(a.estimate, PoseSE3) else pose_ok(a.estimate, b.estimate)
            if type(a.estimate) is not type(b.estimate) or not ok:
                return bad("odometry measurement", edge=k, before=H.arr_bits(a.estimate), after=H.arr_bits(b.estimate))
        else:
            if type(a.estimate) is not type(b.estimate) or not same_bits(a.estimate, b.estimate):
                return bad("landmark measurement", edge=k)
            if type(a.offset) is not type(b.offset) or not np.array_equal(np.asarray(a.offset), np.asarray(b.offset)):
                return bad("landmark offset", edge=k, before=H.arr_bits(a.offset), after=H.arr_bits(b.offset))
            if isinstance(a.offset, PoseSE3) and a.offset_id != b.offset_id:
                return bad("offset id", edge=k)
    pa, pb = g._g2o_params or {}, g2._g2o_params or {}
    if list(pa.keys()) != list(pb.keys()):
        return bad("parameter keys / order", before=[str(k) for k in pa], after=[str(k) for k in pb])
    for k in pa:
        if type(pa[k]) is not type(pb[k]) or not pose_ok(pa[k].value, pb[k].value):
            return bad("parameter value", key=str(k))
    c1, c2 = chi2_of(g), chi2_of(g2)
    if math.isfinite(c1) and math.isfinite(c2) and abs(c1 - c2) > 1e-12 * max(abs(c1), 1e-300):
        if has_cross_terms_and_negative_w(g):
            return dict(match="quat-sign:odometry:cross-terms", kind="chi2 changed by the round trip (measurement quaternion with w<0 negated on import, information with translation-rotation cross terms)",
                        chi2_before=c1, chi2_after=c2, items=items, label=label), g2
        with np.errstate(all="ignore"):
            unit = all(abs(float(np.linalg.norm(e.estimate[3:])) - 1) < 1e-12 for e in g._edges if type(e) is EdgeOdometry and isinstance(e.estimate, PoseSE3))
        if unit and abs(c1 - c2) > 1e-9 * max(abs(c1), 1e-300):
            return dict(match="g2o-roundtrip:chi2", kind="chi2 changed by the round trip", chi2_before=c1, chi2_after=c2, items=items, label=label), g2
    return None, g2


def fixed_probes():
    """hand-made graphs for the known / suspected classes (deterministic part of the search)"""
    out = []
    # SE(3) odometry, w < 0, cross terms in the information matrix
    q = np.array([0.1, -0.2, 0.3, -0.9])
    q = q / np.linalg.norm(q)
    info = np.eye(6)
    info[0, 4] = info[4, 0] = 0.5
    info[1, 3] = info[3, 1] = -0.3
    vs = [Vertex(0, PoseSE3([0, 0, 0], [0, 0, 0, 1])), Vertex(1, PoseSE3([1, 0.5, -0.2], [0.1, 0.2, -0.1, 0.97]))]
    vs[1].pose.normalize()
    out.append(("quat-sign", lambda: Graph([EdgeOdometry([0, 1], info, PoseSE3([1.1, 0.4, -0.1], q))], vs)))
    # landmark edge from an SE(2) pose to an SE(2) pose
    vs2 = [Vertex(0, PoseSE2([0, 0], 0.3)), Vertex(1, PoseSE2([2, 1], 0.1))]
    out.append(("landmark-to-pose-se2", lambda: Graph([EdgeLandmark([0, 1], np.eye(3), PoseSE2([1.5, 0.2], 0.3), offset=PoseSE2.identity(), offset_id=0)], vs2)))

    def lm33():
        vs3 = [Vertex(0, PoseSE3([0, 0, 0], [0, 0, 0, 1])), Vertex(1, PoseSE3([1, 0, 0], [0, 0, 0, 1]))]
        key = ("PARAMS_SE3OFFSET", 0)
        off = PoseSE3([0.1, 0, 0], [0, 0, 0, 1])
        g = Graph([EdgeLandmark([0, 1], np.eye(6), PoseSE3([1, 0, 0], [0, 0, 0, 1]), offset=off, offset_id=0)], vs3)
        g._g2o_params = {key: G2OParameterSE3Offset(key, off)}
        return g

    out.append(("landmark-to-pose-se3", lm33))
    # the repaired class must stay repaired
    out.append(("landmark-se2-offset", lambda: Graph([EdgeLandmark([0, 1], np.eye(2), PoseR2([1.5, 0.2]), offset=PoseSE2([0.5, -0.2], 0.7), offset_id=0)], [Vertex(0, PoseSE2([0, 0], 0.3)), Vertex(1, PoseR2([2, 1]))])))
    for tiny in (1e-13, 1e-100, 5e-324):
        out.append(("landmark-se2-offset-tiny-%g" % tiny, lambda tiny=tiny: Graph([EdgeLandmark([0, 1], np.eye(2) * 1e20, PoseR2([1.5e-13, 0.2e-13]), offset=PoseSE2([tiny, -tiny], 0.0), offset_id=0)], [Vertex(0, PoseSE2([0, 0], 0.3)), Vertex(1, PoseR2([2e-13, 1e-13]))])))
    out.append(("landmark-se2-offset-tiny-angle", lambda: Graph([EdgeLandmark([0, 1], np.eye(2), PoseR2([1.5, 0.2]), offset=PoseSE2([0.0, 0.0], 1e-14), offset_id=0)], [Vertex(0, PoseSE2([0, 0], 0.3)), Vertex(1, PoseR2([2, 1]))])))
    out.append(("landmark-se3-unregistered", lambda: Graph([EdgeLandmark([0, 1], np.eye(3), PoseR3([1.5, 0.2, 0]), offset=PoseSE3([0.5, -0.2, 0], [0, 0, 0, 1]), offset_id=3)], [Vertex(0, PoseSE3([0, 0, 0], [0, 0, 0, 1])), Vertex(1, PoseR3([2, 1, 0]))])))
    return out


def dtype_probe():
    vs = [Vertex(0, PoseSE2([0, 0], 0.3)), Vertex(1, PoseSE2([2, 1], 0.1))]
    return Graph([EdgeOdometry([0, 1], (np.eye(3) * 0.1).astype(np.float32), PoseSE2([1.5, 0.2], 0.3))], vs)


def search_c13(seed, n, include_dtype_probe=False):
    found, ev, seen = [], 0, set()
    stats = dict(cycles=0, refused=0, second_cycle_bit_identical=0, second_cycle_quaternion_ulps=0)

    def report(w):
        if w and w["match"] not in seen:
            seen.add(w["match"])
            found.append(w)

    try:
        for name, mk in fixed_probes():
            w, _ = check_cycle(mk(), "probe:" + name)
            ev += 1
            report(w)
        if include_dtype_probe:
            w, _ = check_cycle(dtype_probe(), "probe:float32-information")
            ev += 1
            report(w)
        for k in range(n):
            rng = Rng(seed, "c13search|%d" % k)
            defect = rng.choice(H.DEFECTS) if rng.random() < 0.3 else None
            if defect == "asymmetric-info":
                defect = None
            g = H.gen_graph(rng, defect, (), tame=rng.random() < 0.6)
            for c in range(rng.randrange(1, 4)):
                w, g2 = check_cycle(g, "random %d cycle %d defect %s" % (k, c, defect))
                ev += 1
                stats["cycles"] += 1
                report(w)
                if g2 is None:
                    stats["refused"] += w is None
                    break
                if c >= 1:
                    try:
                        same = H.graph_items(g) == H.graph_items(g2)
                    except H.NotModelled:
                        same = False
                    stats["second_cycle_bit_identical" if same else "second_cycle_quaternion_ulps"] += 1
                g = g2
            if len(found) >= 4:
                break
    finally:
        _cleanup()
    return dict(found=found, evaluations=ev, **stats)


# ----------------------------------------------------------------------------- C14 oracle: an independent reference parser

SPEC = {  # tag -> (n ids, n values, information dimension, kind)
    "VERTEX_XY": (1, 2, 0, "r2"), "VERTEX_TRACKXYZ": (1, 3, 0, "r3"), "VERTEX_SE2": (1, 3, 0, "se2"), "VERTEX_SE3:QUAT": (1, 7, 0, "se3"),
    "EDGE_SE2": (2, 3, 3, "se2"), "EDGE_SE3:QUAT": (2, 7, 6, "se3"), "EDGE_SE2_XY": (2, 2, 2, "r2"), "EDGE_SE3_TRACKXYZ": (3, 3, 3, "r3"),
    "PARAMS_SE2OFFSET": (1, 3, 0, "se2"), "PARAMS_SE3OFFSET": (1, 7, 0, "se3"),
}


class Unjudged(Exception):
    """the file is not a well-formed file of the vocabulary: the property makes no statement"""


def ref_parse(text):
    """(params, vertices, edges, warnings) from the property's sentence; raises Unjudged for files it does not cover"""
    params, vertices, edges, warns = {}, [], [], []
    for raw in text.replace("\r\n", "\n").replace("\r", "\n").split("\n"):
        fields = raw.split()
        if not fields:
            continue
        tag = fields[0]
        if tag not in SPEC or not raw.startswith(tag + " "):
            if any(raw.startswith(t + " ") for t in SPEC):
                raise Unjudged("tag followed by odd whitespace")
            warns.append("Line not supported -- '%s'" % raw.rstrip())
            continue
        n_id, n_val, dim, kind = SPEC[tag]
        n_info = dim * (dim + 1) // 2
        if len(fields) != 1 + n_id + n_val + n_info:
            raise Unjudged("field count")
        try:
            ids = [int(t) for t in fields[1 : 1 + n_id]]
            vals = [float(t) for t in fields[1 + n_id :]]
        except ValueError:
            raise Unjudged("number")
        body, tri = vals[:n_val], vals[n_val:]
        if kind == "se2" and tag != "EDGE_SE2_XY" and not abs(body[2]) <= 1e6:
            raise Unjudged("angle outside +-1e6 (float wrapping of such angles is C11's subject)")
        info = [[tri[min(i, j) * dim - min(i, j) * (min(i, j) - 1) // 2 + (max(i, j) - min(i, j))] for j in range(dim)] for i in range(dim)]
        if tag.startswith("VERTEX"):
            vertices.append((ids[0], kind, body))
        elif tag.startswith("PARAMS"):
            params[(tag, ids[0])] = (kind, body)
        elif tag == "EDGE_SE2_XY":
            edges.append(("lm", ids, kind, body, info, ("se2", [0.0, 0.0, 0.0]), 0))
        elif tag == "EDGE_SE3_TRACKXYZ":
            if ("PARAMS_SE3OFFSET", ids[2]) not in params:
                raise Unjudged("parameter not defined before use")
            edges.append(("lm", ids[:2], kind, body, info, params[("PARAMS_SE3OFFSET", ids[2])], ids[2]))
        else:
            edges.append(("odo", ids, kind, body, info, None, None))
    kinds = {}
    for i, k, _ in vertices:
        kinds[i] = k
    for e in edges:
        if any(i not in kinds for i in e[1]):
            raise Unjudged("dangling vertex id")
        want = {"odo": (e[2], e[2]), "lm": ("se2" if e[2] == "r2" else "se3", e[2])}[e[0]]
        if (kinds[e[1][0]], kinds[e[1][1]]) != want:
            raise Unjudged("edge between vertices of other classes")
    return params, vertices, edges, warns


def body_ok(kind, obj, body):
    """the object's entries are the file's numbers bitwise; an SE(2) angle may be wrapped (congruent, inside [-pi, pi])"""
    if kind == "se2":
        return len(obj) == 3 and same_bits(obj[:2], body[:2]) and angle_ok(obj[2], body[2]) and (not math.isfinite(obj[2]) or abs(obj[2]) <= math.pi)
    return same_bits(obj, body)


def compare_with_reference(g, recs, ref):
    """None if the real objects carry exactly the reference's numbers (bitwise), else a description"""
    params, vertices, edges, warns = ref
    if sorted(recs) != sorted(warns):
        return "log records"
    if [(v.id, H.KIND.get(type(v.pose))) for v in g._vertices] != [(i, k) for i, k, _ in vertices]:
        return "vertex ids / classes / order"
    for v, (_, kind, body) in zip(g._vertices, vertices):
        if not body_ok(kind, v.pose, body):
            return "vertex numbers"
    if len(g._edges) != len(edges):
        return "number of edges"
    for e, r in zip(g._edges, edges):
        if (type(e) is EdgeOdometry) != (r[0] == "odo") or list(e.vertex_ids) != list(r[1]) or H.KIND.get(type(e.estimate)) != r[2]:
            return "edge class / ids"
        if not same_bits(e.information, r[4]) or np.asarray(e.information).shape != (len(r[4]), len(r[4])):
            return "information matrix"
        if r[0] == "odo" and r[2] == "se3":
            if not quat_ok(np.array(r[3]), e.estimate):
                return "SE(3) measurement"
        elif not body_ok(r[2] if r[0] == "odo" else "point", e.estimate, r[3]):
            return "measurement"
        if r[0] == "lm":
            if H.KIND.get(type(e.offset)) != r[5][0] or not body_ok("point", e.offset, r[5][1]) or e.offset_id != r[6]:
                return "landmark offset"
    got = {k: (H.KIND.get(type(p.value)), list(np.asarray(p.value))) for k, p in (g._g2o_params or {}).items()}
    if list(got.keys()) != list(params.keys()) or any(got[k][0] != params[k][0] or not body_ok(got[k][0], got[k][1], params[k][1]) for k in got):
        return "parameters"
    return None


def run_loader(loader, path):
    with _Quiet() as log, warnings.catch_warnings(), np.errstate(all="ignore"):
        warnings.simplefilter("ignore")
        err, g = None, None
        try:
            g = Graph.from_g2o(path) if loader == "from" else H.LOADERS[loader](path)
        except Exception as e:  # noqa: BLE001
            err = type(e).__name__
        recs = [(n.split(".")[-1], m) for n, m in log.records]
    return g, err, recs


def check_file(text, label=""):
    path = _tmpfile("c14.g2o")
    with open(path, "wb") as f:
        f.write(text.encode("utf-8"))
    g, err, recs = run_loader("from", path)
    # all loader entry points behave identically (plus exactly one deprecation warning)
    for ld in H.LOADERS:
        g2, err2, recs2 = run_loader(ld, path)
        dep = [r for r in recs2 if r[0] == "load"]
        same = err2 == err and [r for r in recs2 if r[0] != "load"] == recs and len(dep) == 1 and "deprecated" in dep[0][1]
        if same and g is not None:
            same = H.import_items(g2) == H.import_items(g)
        if not same:
            return dict(match="g2o-loaders-differ:" + ld, kind="load.py wrapper differs from Graph.from_g2o", loader=ld, file=text[:800], label=label), True
    os.remove(path)
    try:
        ref = ref_parse(text)
    except Unjudged:
        return None, False
    if err is not None:
        return dict(match="g2o-import-raises", kind="a well-formed file is rejected", error=err, file=text[:800], label=label), True
    what = compare_with_reference(g, [m for _, m in recs], ref)
    if what:
        return dict(match="g2o-import-unfaithful:" + what, kind="imported objects differ from the numbers in the file: " + what, file=text[:800], label=label), True
    return None, True


CUSTOM_TAGS = [("EDGE_DIST", 2, 1, 1), ("EDGE_PRIOR_XY", 1, 2, 2), ("EDGE_TRIPLE", 3, 1, 1), ("MY:EDGE", 2, 3, 3), ("EDGE_SE2", 2, 3, 3)]  # the last one takes over a built-in tag


def check_custom_file(rng, label=""):
    """files that mix standard lines with lines of several *registered* custom edge types (distinct tags): every line of a
    registered type yields exactly one edge of that type carrying the line's numbers, in file order; lines of an
    unregistered type are skipped with one warning each.  Independent of the Lean model."""
    types = [H.make_custom(i, t, n, e, d, True, True) for i, (t, n, e, d) in enumerate(CUSTOM_TAGS)]
    rng.shuffle(types)
    registered = types[: rng.randrange(1, len(types) + 1)]
    nv = rng.randrange(2, 6)
    lines, expect, warns = [], [], []
    vids = list(range(nv))
    for i in vids:
        lines.append("VERTEX_SE2 %d %r %r %r" % (i, rng.uniform(-5, 5), rng.uniform(-5, 5), rng.uniform(-3, 3)))
    body = []
    for _ in range(rng.randrange(2, 9)):
        if rng.random() < 0.3:
            a, b = rng.choice(vids), rng.choice(vids)
            nums = [rng.uniform(-2, 2), rng.uniform(-2, 2), rng.uniform(-3, 3)] + [2.0, 0.0, 0.0, 3.0, 0.0, 4.0]
            body.append(("std", "EDGE_SE2 %d %d " % (a, b) + " ".join(repr(x) for x in nums), None, [a, b], nums))
        else:
            c = rng.choice(types)
            tag, n_ids, est_dim, info_dim = c.SPEC[:4]
            ids = [rng.choice(vids) for _ in range(n_ids)]
            nums = [rng.uniform(-9, 9) for _ in range(est_dim)] + [rng.uniform(0.5, 5) for _ in range(info_dim * (info_dim + 1) // 2)]
            body.append(("custom", tag + " " + " ".join(str(i) for i in ids) + " " + " ".join(repr(x) for x in nums), c, ids, nums))
    if rng.random() < 0.5:
        body_lines = [b[1] for b in body]
        pos = sorted(rng.randrange(0, len(body_lines) + 1) for _ in lines)
        # vertices may be interleaved with edges
        merged, vi = [], 0
        for k, bl in enumerate(body_lines):
            while vi < len(lines) and pos[vi] <= k:
                merged.append(lines[vi])
                vi += 1
            merged.append(bl)
        merged += lines[vi:]
        text = "\n".join(merged) + "\n"
    else:
        text = "\n".join(lines + [b[1] for b in body]) + "\n"
    shadow = next((c_ for c_ in registered if c_.SPEC[0] == "EDGE_SE2"), None)
    for kind, line, c, ids, nums in body:
        if kind == "std" or (c is not None and c.SPEC[0] == "EDGE_SE2"):
            # registered custom types are tried first: a registered type that accepts the EDGE_SE2 tag gets these lines,
            # otherwise the built-in odometry reader does
            expect.append((shadow if shadow is not None else EdgeOdometry, ids, nums))
        elif c in registered:
            expect.append((c, ids, nums))
        else:
            warns.append("Line not supported -- '%s'" % line)
    path = _tmpfile("c14c.g2o")
    with open(path, "w") as f:
        f.write(text)
    with _Quiet() as log, warnings.catch_warnings(), np.errstate(all="ignore"):
        warnings.simplefilter("ignore")
        try:
            g = Graph.from_g2o(path, list(registered))
        except Exception as e:  # noqa: BLE001
            return dict(match="g2o-custom-raises", kind="a file with registered custom edge types is rejected", error=repr(e)[:200], file=text, registered=[c.SPEC[0] for c in registered], label=label)
        recs = [m for _, m in log.records]
    os.remove(path)
    w = lambda what: dict(match="g2o-custom:" + what, kind="custom edge types: " + what, file=text, registered=[c.SPEC[0] for c in registered], label=label, edges=[type(e).__name__ for e in g._edges], log=recs)
    if sorted(recs) != sorted(warns):
        return w("warnings differ from the unregistered lines")
    if len(g._edges) != len(expect):
        return w("number of edges")
    for e, (c, ids, nums) in zip(g._edges, expect):
        if type(e) is not c or list(e.vertex_ids) != ids:
            return w("edge class / ids / order")
        if c is EdgeOdometry:
            # the SE(2) angle may be wrapped (congruent, inside [-pi, pi]); everything else bitwise
            if not body_ok("se2", list(np.asarray(e.estimate)), nums[:3]):
                return w("numbers")
            got = nums[:3] + list(np.asarray(e.information)[np.triu_indices(3)])
        else:
            d = c.SPEC[3]
            got = list(np.asarray(e.estimate)) + list(np.asarray(e.information)[np.triu_indices(d)])
            if not np.array_equal(np.asarray(e.information), np.asarray(e.information).T):
                return w("information not symmetric")
        if not same_bits(got, nums):
            return w("numbers")
    if [v.id for v in g._vertices] != vids:
        return w("vertices")
    return None


def search_c14(seed, n):
    found, ev, judged, seen = [], 0, 0, set()
    try:
        for k in range(n):
            rng = Rng(seed, "c14search|%d" % k)
            if k % 3 == 2:
                w, j = check_custom_file(rng, "custom-type file %d" % k), True
            else:
                text, desc = H.gen_file(rng, malformed=rng.random() < 0.2)
                w, j = check_file(text, "file %d %s" % (k, desc))
            ev += 1
            judged += bool(j)
            if w and w["match"] not in seen:
                seen.add(w["match"])
                found.append(w)
            if len(found) >= 4:
                break
    finally:
        _cleanup()
    return dict(found=found, evaluations=ev, judged_by_reference=judged)


# ----------------------------------------------------------------------------- replay


def replay(rep):
    """re-run a recorded witness on the current /repo; 1 if it reproduces"""
    import json

    w = rep.get("witness")
    if not w:
        print("replay file names a broken theorem/correspondence, not an input:", json.dumps(rep.get("no_longer_checks"))[:1500])
        return 1
    try:
        if w["match"].startswith(("g2o-import", "g2o-loaders")) or w.get("items") is None:
            w2, _ = check_file(w["file"], "replay")
        else:
            w2, _ = check_cycle(rebuild(w["items"]), "replay")
    finally:
        _cleanup()
    if w2 and w2["match"] == w["match"]:
        print("REPRODUCED:", w2["match"], "-", w2["kind"])
        print(json.dumps({k: v for k, v in w2.items() if k not in ("items",)}, indent=1, default=str)[:2000])
        return 1
    print("not reproduced on the current tree", "(now: %s)" % w2["match"] if w2 else "")
    return 0


if __name__ == "__main__":
    import json
    import time

    t0 = time.time()
    which = sys.argv[1] if len(sys.argv) > 1 else "c13"
    n = int(sys.argv[2]) if len(sys.argv) > 2 else 100
    r = search_c13(int(os.environ.get("VERIF_SEED", "0")), n, include_dtype_probe="--dtype" in sys.argv) if which == "c13" else search_c14(int(os.environ.get("VERIF_SEED", "0")), n)
    r["wall_s"] = round(time.time() - t0, 1)
    for w in r["found"]:
        w.pop("items", None)
    print(json.dumps(r, indent=1, default=str)[:5000])
