"""Metamorphic oracles on the real code for C07 (world-frame invariance) and C08 (representation independence)."""
import math
import os
import sys

sys.path.insert(0, os.path.join(os.path.dirname(__file__), ".."))
from lib.common import Rng, use_repo  # noqa: E402
from lib import graphgen as G  # noqa: E402
from search.optimizer import quiet_optimize  # noqa: E402

use_repo()
import numpy as np  # noqa: E402


def pose_diff(cls, a, b):
    d = np.asarray(a, dtype=np.float64) - np.asarray(b, dtype=np.float64)
    if cls == "PoseSE2":
        d[2] = math.remainder(d[2], 2 * math.pi)
    if cls == "PoseSE3":
        # q and -q are the same rotation
        d2 = np.asarray(a, dtype=np.float64).copy()
        d2[3:] = -d2[3:]
        d2 = d2 - np.asarray(b, dtype=np.float64)
        if np.max(np.abs(d2)) < np.max(np.abs(d)):
            d = d2
    return float(np.max(np.abs(d))) if d.size else 0.0


def well_posed_graph(rng, world=None, **kw):
    """random-walk graph whose first vertex is a pose (so fix_first_pose anchors the gauge)"""
    world = world or rng.choice(["2d", "3d", "r2", "r3"])
    g, desc = G.make_graph(rng, world=world, custom=False, fix="first", ids="plain", walk=True, **kw)
    i0 = next(i for i, v in enumerate(desc["vertices"]) if v["cls"] in ("PoseSE2", "PoseSE3") or world in ("r2", "r3"))
    desc["vertices"][0], desc["vertices"][i0] = desc["vertices"][i0], desc["vertices"][0]
    return G.rebuild(desc), desc


def transform_desc(desc, T):
    """left-compose every vertex with T (pose of the world's pose type); landmark points by the action"""
    out = dict(desc, vertices=[dict(v) for v in desc["vertices"]])
    for v in out["vertices"]:
        p = G.mk_pose(v["cls"], v["vals"])
        v["vals"] = np.asarray(T + p).tolist()
    return out


def search_frame(seed, n):
    ev = 0
    worst = 0.0
    for k in range(n):
        rng = Rng(seed, "c07search|%d" % k)
        g, desc = well_posed_graph(rng, noise=rng.choice([0.02, 0.05]), nv=rng.randrange(3, 10))
        world = desc["world"]
        # "far" scenario: one landmark measurement is kilometres long while the landmark starts near the robot, so that a
        # single Gauss-Newton step is large in world axes (one iteration only: one linear solve, no chaotic amplification)
        far = False
        if rng.random() < 0.3:
            les = [e for e in desc["edges"] if e["kind"] == "landmark"]
            if les:
                e = rng.choice(les)
                sc = rng.logu(1e3, 3e4)
                e["est"] = [x * sc for x in e["est"]]
                g = G.rebuild(desc)
                far = True
        if rng.random() < 0.25:
            cand = [v for v in desc["vertices"][1:] if not v["fixed"]]
            if cand:
                v0 = rng.choice(cand)
                ident = np.asarray({"PoseSE2": G.mk_pose("PoseSE2", [0, 0, 0]), "PoseSE3": G.mk_pose("PoseSE3", [0, 0, 0, 0, 0, 0, 1]), "PoseR2": G.mk_pose("PoseR2", [0, 0]), "PoseR3": G.mk_pose("PoseR3", [0, 0, 0])}[v0["cls"]]).tolist()
                v0["vals"] = ident  # exactly the origin / identity (an uninitialised-looking but legal estimate)
                desc["vertex_at_origin"] = v0["id"]
                g = G.rebuild(desc)
                far = True  # a far initial guess: one iteration only (one linear solve, no chaotic amplification)
        pose_t = {"2d": "PoseSE2", "3d": "PoseSE3", "r2": "PoseR2", "r3": "PoseR3"}[world]
        tscale = rng.choice([1.0, 100.0, 1e4, 1e6, 1e7])
        if pose_t == "PoseSE3":
            q = rng.unit_quat()
            if rng.random() < 0.3:  # near 180 degrees
                q = [q[0], q[1], q[2], rng.sign() * 1e-7]
                nq = math.sqrt(sum(x * x for x in q))
                q = [x / nq for x in q]
            Tv = [rng.gauss(0, tscale) for _ in range(3)] + q
        elif pose_t == "PoseSE2":
            Tv = [rng.gauss(0, tscale), rng.gauss(0, tscale), rng.uniform(-math.pi, math.pi)]
        else:
            Tv = [rng.gauss(0, tscale) for _ in range(len(desc["vertices"][0]["vals"]))]
        T = G.mk_pose(pose_t, Tv)
        d2 = transform_desc(desc, T)
        g2 = G.rebuild(d2)
        ev += 1
        w = lambda what, **kw: dict(kind="frame", what=what, match="frame:" + what, T=Tv, desc=desc, **kw)
        c1, c2 = float(g.calc_chi2()), float(g2.calc_chi2())
        tol_c = (1e-9 + 1e-12 * tscale) * (1 + abs(c1))
        if not abs(c1 - c2) <= tol_c:
            return w("chi2 changed", chi2=c1, chi2_transformed=c2), ev, worst
        for e1, e2 in zip(g._edges, g2._edges):
            d = np.asarray(e1.calc_error()) - np.asarray(e2.calc_error())
            if len(d) == 3 and pose_t == "PoseSE2" and type(e1).__name__ == "EdgeOdometry":
                d[2] = math.remainder(d[2], 2 * math.pi)
            if not np.max(np.abs(d)) <= 1e-9 * (1 + tscale):
                return w("edge error changed", error=np.asarray(e1.calc_error()).tolist(), error_transformed=np.asarray(e2.calc_error()).tolist()), ev, worst
        kiter = 1 if far else rng.randrange(1, 6)
        if rng.random() < 0.3:
            # history: the transformed graph is not built afresh - a live copy of the original is evaluated (or stepped with
            # max_iter=0-like queries) and then every vertex array is overwritten in place with T (+) pose
            g2 = G.rebuild(desc)
            g2.calc_chi2()
            for e_ in g2._edges:
                e_.calc_error(), e_.calc_jacobians()
            for v_ in g2._vertices:
                v_.pose[:] = np.asarray(T + v_.pose)
            c2b = float(g2.calc_chi2())
            if not abs(c1 - c2b) <= tol_c:
                return w("chi2 changed after the vertices of a live graph were moved in place", chi2=c1, chi2_transformed=c2b), ev, worst
        quiet_optimize(g, tol=0.0, max_iter=kiter, fix_first_pose=True)
        quiet_optimize(g2, tol=0.0, max_iter=kiter, fix_first_pose=True)
        if not all(np.all(np.isfinite(np.asarray(v.pose))) for v in g._vertices):
            continue
        # tolerances calibrated on the unchanged code (5000 graphs, translations up to 1e7): rounding of coordinates of
        # size s costs ~1e-15*s in positions (1e-10*s in the far scenario) and ~1e-15*s relative in chi2; >= 100x margin
        mp = max(float(np.max(np.abs(np.asarray(v.pose)))) for v in g._vertices)
        if not far:
            c1, c2 = float(g.calc_chi2()), float(g2.calc_chi2())
            if not abs(c1 - c2) <= (1e-9 + 1e-12 * tscale) * (1 + abs(c1)):
                return w("chi2 after %d iteration(s) differs between the frames" % kiter, iterations=kiter, chi2=c1, chi2_transformed=c2), ev, worst
        for v1, v2 in zip(g._vertices, g2._vertices):
            exp = T + v1.pose
            dev = pose_diff(type(v1.pose).__name__, v2.pose, exp)
            tol = (1e-7 if far else 1e-11) * (1 + tscale + mp)
            worst = max(worst, dev / tol)
            if not dev <= tol:
                return w("trajectory does not commute with the transform", iterations=kiter, vertex=v1.id, expected=np.asarray(exp).tolist(), got=np.asarray(v2.pose).tolist()), ev, worst
    return None, ev, worst


# ----------------------------------------------------------------------------- C08


def compare_graphs(gA, gB, mapB, what, desc, ev, iters, extra=None, chi_scale=1.0, ffp=False):
    """chi2 equal (up to chi_scale) and, after `iters` iterations with tol=0, the same poses; mapB: vertex id in A -> vertex in B"""
    cA, cB = float(gA.calc_chi2()), float(gB.calc_chi2())
    w = lambda msg, **kw: dict(kind="representation", what=what + ": " + msg, match=(extra or {}).get("match", "repr:" + what), desc=desc, **kw)
    if not abs(cA * chi_scale - cB) <= 1e-9 * (1 + abs(cB)):
        return w("chi2 changed", chi2=cA, chi2_variant=cB, expected_ratio=chi_scale)
    if iters:
        quiet_optimize(gA, tol=0.0, max_iter=iters, fix_first_pose=ffp)
        quiet_optimize(gB, tol=0.0, max_iter=iters, fix_first_pose=ffp)
        if not all(np.all(np.isfinite(np.asarray(v.pose))) for v in gA._vertices):
            return None
        for v in gA._vertices:
            vb = mapB[v.id]
            dev = pose_diff(type(v.pose).__name__, v.pose, vb.pose)
            if not dev <= 1e-6 * (1 + float(np.max(np.abs(np.asarray(v.pose))))):
                return w("optimisation result changed", vertex=v.id, pose=np.asarray(v.pose).tolist(), pose_variant=np.asarray(vb.pose).tolist(), iterations=iters)
    return None


def search_representation(seed, n):
    """returns (list of witnesses, one per distinct `match`), evaluations, variant counts"""
    ev = 0
    counts = {}
    found = {}
    for k in range(n):
        rng = Rng(seed, "c08search|%d" % k)
        variant = rng.choice(["perm_vertices", "perm_edges", "relabel", "two_pi", "neg_quat_vertex", "neg_quat_measurement", "neg_quat_offset", "scale_info", "split_edge"])
        wsel = "2d" if variant == "two_pi" else "3d" if variant.startswith("neg_quat") else None
        g, desc = well_posed_graph(rng, world=wsel, noise=rng.choice([0.02, 0.05]), nv=rng.randrange(3, 9), cross=rng.random() < 0.6)
        # explicit fixed flags (fix_first_pose is not used, so permuting the vertex list keeps the same vertices fixed)
        desc["vertices"][0]["fixed"] = True
        world = desc["world"]
        counts[variant] = counts.get(variant, 0) + 1
        d2 = dict(desc, vertices=[dict(v) for v in desc["vertices"]], edges=[dict(e) for e in desc["edges"]])
        idmap = {v["id"]: v["id"] for v in desc["vertices"]}
        chi_scale = 1.0
        extra = {}
        iters = rng.randrange(1, 4)
        if variant == "perm_vertices":
            rng.shuffle(d2["vertices"])
        elif variant == "perm_edges":
            rng.shuffle(d2["edges"])
        elif variant == "relabel":
            new = rng.sample(range(-(2**40), 2**40), len(d2["vertices"]))
            if rng.random() < 0.5:
                # small labels: a permutation of 0..n-1 (label 0 usually lands on a vertex that is not the first one)
                new = list(range(len(d2["vertices"])))
                rng.shuffle(new)
            idmap = {v["id"]: n_ for v, n_ in zip(desc["vertices"], new)}
            for v in d2["vertices"]:
                v["id"] = idmap[v["id"]]
            for e in d2["edges"]:
                e["vids"] = [idmap[i] for i in e["vids"]]
        elif variant == "two_pi":
            for v in d2["vertices"]:
                if v["cls"] == "PoseSE2":
                    v["vals"] = v["vals"][:2] + [v["vals"][2] + 2 * math.pi * rng.randrange(-3, 4)]
            for e in d2["edges"]:
                if e.get("est_cls") == "PoseSE2":
                    e["est"] = e["est"][:2] + [e["est"][2] + 2 * math.pi * rng.randrange(-3, 4)]
        elif variant == "neg_quat_vertex":
            vs = [v for v in d2["vertices"] if v["cls"] == "PoseSE3"]
            for v in rng.sample(vs, rng.randrange(1, len(vs) + 1)):
                v["vals"] = v["vals"][:3] + [-x for x in v["vals"][3:]]
            has_cross = any(e["kind"] == "odometry" and (np.abs(np.asarray(e["info"])[:3, 3:]).max() > 0) for e in d2["edges"])
            if has_cross:
                extra = dict(match="quat-sign:odometry:cross-terms")
        elif variant == "neg_quat_measurement":
            es = [e for e in d2["edges"] if e["kind"] == "odometry"]
            for e in rng.sample(es, rng.randrange(1, len(es) + 1)):
                e["est"] = e["est"][:3] + [-x for x in e["est"][3:]]
            has_cross = any(e["kind"] == "odometry" and (np.abs(np.asarray(e["info"])[:3, 3:]).max() > 0) for e in d2["edges"])
            if has_cross:
                extra = dict(match="quat-sign:odometry:cross-terms")
        elif variant == "neg_quat_offset":
            es = [e for e in d2["edges"] if e["kind"] == "landmark"]
            if not es:
                continue
            for e in es:
                e["off"] = e["off"][:3] + [-x for x in e["off"][3:]]
        elif variant == "scale_info":
            c = rng.logu(1e-9, 1e3)
            chi_scale = c
            for e in d2["edges"]:
                e["info"] = (np.asarray(e["info"]) * c).tolist()
        elif variant == "split_edge":
            out = []
            for e in d2["edges"]:
                if rng.random() < 0.5:
                    h = dict(e, info=(np.asarray(e["info"]) / 2).tolist())
                    out += [h, dict(h)]
                else:
                    out.append(e)
            d2["edges"] = out
        if variant == "scale_info":
            # the full run with the documented (relative) stopping rule takes the same decisions at any scale, as long as
            # chi2 stays far above the eps in the rule's denominator: noisy measurements keep chi2 = O(c), c >= 1e-9
            rng2 = Rng(seed, "c08scale|%d" % k)
            gS, dS = well_posed_graph(rng2, world=world, noise=0.15 if world != "3d" else 0.04, meas_noise=0.03, nv=rng2.randrange(3, 9), cross=True)
            dS["vertices"][0]["fixed"] = True
            dS2 = dict(dS, edges=[dict(e, info=(np.asarray(e["info"]) * chi_scale).tolist()) for e in dS["edges"]])
            gA, gB = G.rebuild(dS), G.rebuild(dS2)
            tolr = rng2.choice([1e-3, 1e-4, 1e-6])
            rA = quiet_optimize(gA, tol=tolr, max_iter=60, fix_first_pose=False)
            rB = quiet_optimize(gB, tol=tolr, max_iter=60, fix_first_pose=False)
            ev += 1
            if rA.converged and math.isfinite(float(rA.final_chi2)) and float(rA.final_chi2) > 1e-6:
                byid0 = {v.id: v for v in gB._vertices}
                devs = [pose_diff(type(v.pose).__name__, v.pose, byid0[v.id].pose) / (1 + float(np.max(np.abs(np.asarray(v.pose))))) for v in gA._vertices]
                # (iteration counts may legitimately differ by one on an exact plateau, where `chi2 <= chi2_prev` is decided by rounding)
                if (not rB.converged) or max(devs) > 1e-8 or abs(float(rA.final_chi2) * chi_scale - float(rB.final_chi2)) > 1e-8 * abs(float(rB.final_chi2)):
                    r = dict(kind="representation", what="scale_info: the optimisation result depends on the scale of the information matrices", match="repr:scale_info:optimum", scale=chi_scale, tol=tolr, iterations=[rA.num_iterations, rB.num_iterations], max_pose_deviation=max(devs), final_chi2=[float(rA.final_chi2), float(rB.final_chi2)], desc=dS)
                    if r["match"] not in found:
                        found[r["match"]] = r
                        break
        gA, gB = G.rebuild(desc), G.rebuild(d2)
        if variant in ("perm_vertices", "perm_edges", "relabel") and rng.random() < 0.5:
            # the second representation re-uses edge *objects* that already served another Graph (since optimised) and pairs
            # them with fresh Vertex objects: same lists, same numbers, so the same graph
            from graphslam.graph import Graph as _Graph
            from graphslam.vertex import Vertex as _Vertex

            try:
                quiet_optimize(gB, tol=0.0, max_iter=2, fix_first_pose=False)
            except Exception:  # noqa
                pass
            vs = [_Vertex(v["id"], G.mk_pose(v["cls"], v["vals"]), fixed=bool(v["fixed"])) for v in d2["vertices"]]
            gB = _Graph(list(gB._edges), vs)
            variant = variant + "+reused_edge_objects"
        if variant == "relabel" and all(e["kind"] == "odometry" for e in d2["edges"]) and desc["world"] == "2d" and rng.random() < 0.6:
            import os as _os
            from graphslam.graph import Graph as _Graph

            big = rng.sample(range(2**53 + 1, 2**62), len(d2["vertices"]))
            big = [b_ | 1 for b_ in big]  # odd: not representable as a double
            if len(set(big)) == len(big):
                remap = {v["id"]: n_ for v, n_ in zip(d2["vertices"], big)}
                for v in d2["vertices"]:
                    v["id"] = remap[v["id"]]
                for e in d2["edges"]:
                    e["vids"] = [remap[i] for i in e["vids"]]
                idmap = {k_: remap[v_] for k_, v_ in idmap.items()}
                path_ = "/var/tmp/gsverif_c08_%d.g2o" % _os.getpid()
                try:
                    G.rebuild(d2).to_g2o(path_)
                    gB = _Graph.from_g2o(path_)
                    fx_ = {v["id"]: bool(v["fixed"]) for v in d2["vertices"]}
                    for v_ in gB._vertices:
                        v_.fixed = fx_[v_.id]  # the file format does not carry the fixed flags
                    variant = "relabel+g2o_file"
                except Exception as ex:  # noqa
                    found["repr:relabel:g2o-load"] = dict(kind="representation", what="relabel: a graph with ids beyond 2^53 could not be written to / read from .g2o: %s: %s" % (type(ex).__name__, ex), match="repr:relabel:g2o-load", desc=d2)
                    break
                finally:
                    if _os.path.exists(path_):
                        _os.remove(path_)
        mapB = {}
        byid = {v.id: v for v in gB._vertices}
        for v in gA._vertices:
            mapB[v.id] = byid[idmap[v.id]]
        ev += 1
        # relabelling / permuting edges keeps the vertex order: the default fix_first_pose=True is the same physical graph too
        ffp_ = variant.split("+")[0] in ("relabel", "perm_edges") and rng.random() < 0.6
        r = compare_graphs(gA, gB, mapB, variant, desc, ev, iters, extra, chi_scale, ffp=ffp_)
        if r is not None and r["match"] not in found:
            found[r["match"]] = r
            if r["match"] != "quat-sign:odometry:cross-terms":
                break
    return list(found.values()), ev, counts


if __name__ == "__main__":
    seed = int(os.environ.get("VERIF_SEED", "0"))
    r = search_frame(seed, 100)
    print(r[0] and {k: v for k, v in r[0].items() if k != "desc"}, r[1:])
    for s in range(4):
        r = search_representation(seed + s, 150)
        print([{k: v for k, v in x.items() if k != "desc"} for x in r[0]], r[1:])
