"""Implementation-level search oracles for C01 / C10 (used when a proof or the translator tie breaks, and as extra
exploration in the thorough tier).  They never read the Lean model: the real methods are compared with
Richardson-extrapolated finite differences of the real operations, along manifold (box-plus) directions, which is
exactly what the properties state."""
import math
import os
import sys

sys.path.insert(0, os.path.join(os.path.dirname(__file__), ".."))
from lib.common import Rng, use_repo  # noqa: E402
from lib.numdiff import jac  # noqa: E402

use_repo()
import numpy as np  # noqa: E402
from graphslam.edge.edge_landmark import EdgeLandmark  # noqa: E402
from graphslam.edge.edge_odometry import EdgeOdometry  # noqa: E402
from graphslam.pose.r2 import PoseR2  # noqa: E402
from graphslam.pose.r3 import PoseR3  # noqa: E402
from graphslam.pose.se2 import PoseSE2  # noqa: E402
from graphslam.pose.se3 import PoseSE3  # noqa: E402
from graphslam.vertex import Vertex  # noqa: E402

CLS = {"PoseR2": PoseR2, "PoseR3": PoseR3, "PoseSE2": PoseSE2, "PoseSE3": PoseSE3}
POINT = {"PoseR2": PoseR2, "PoseR3": PoseR3, "PoseSE2": PoseR2, "PoseSE3": PoseR3}


def rand_pose(rng, cname, mild=False):
    s = (lambda: rng.uniform(-3, 3)) if mild else rng.scalar
    if cname == "PoseR2":
        return PoseR2([s(), s()])
    if cname == "PoseR3":
        return PoseR3([s(), s(), s()])
    if cname == "PoseSE2":
        return PoseSE2([s(), s()], rng.uniform(-3.0, 3.0) if mild else rng.angle())
    return PoseSE3([s(), s(), s()], rng.unit_quat())


def angle_slots_of(v):
    return (2,) if isinstance(v, PoseSE2) else ()


def flat(v):
    return np.asarray(v, dtype=np.float64).ravel()


# the 12 public methods: name -> (operation on (a, b), which operand is differentiated, compact?)
def _ops(cname):
    def add(a, b):
        return a + b

    def sub(a, b):
        return a - b

    return {
        "jacobian_self_oplus_other_wrt_self": (add, 0, False, "pose"),
        "jacobian_self_oplus_other_wrt_self_compact": (add, 0, True, "pose"),
        "jacobian_self_oplus_other_wrt_other": (add, 1, False, "pose"),
        "jacobian_self_oplus_other_wrt_other_compact": (add, 1, True, "pose"),
        "jacobian_self_ominus_other_wrt_self": (sub, 0, False, "pose"),
        "jacobian_self_ominus_other_wrt_self_compact": (sub, 0, True, "pose"),
        "jacobian_self_ominus_other_wrt_other": (sub, 1, False, "pose"),
        "jacobian_self_ominus_other_wrt_other_compact": (sub, 1, True, "pose"),
        "jacobian_self_oplus_point_wrt_self": (add, 0, False, "point"),
        "jacobian_self_oplus_point_wrt_point": (add, 1, False, "point"),
        "jacobian_inverse": (lambda a, b: a.inverse, 0, False, None),
        "jacobian_boxplus": (None, 0, False, None),
    }


def check_pose_method(cname, mname, a, b):
    """returns (max abs deviation, scale, analytic, numeric) comparing  J_method · J_boxplus(operand)
    with the numerical derivative of  δ ↦ op(operand ⊞ δ)  at δ = 0"""
    op, which, compact, _ = _ops(cname)[mname]
    if mname == "jacobian_boxplus":
        c = a.COMPACT_DIMENSIONALITY
        ana = np.asarray(a.jacobian_boxplus())
        num = jac(lambda d: flat(a + d), np.zeros(c), angle_slots=angle_slots_of(a))
    else:
        operand = a if which == 0 else b
        c = operand.COMPACT_DIMENSIONALITY
        Jm = np.asarray(getattr(a, mname)(b) if b is not None else getattr(a, mname)())
        ana = Jm @ np.asarray(operand.jacobian_boxplus())

        def f(d):
            o2 = operand + d
            r = op(o2, b) if which == 0 else op(a, o2)
            return flat(r.to_compact() if compact else r)

        r0 = op(a, b)
        num = jac(f, np.zeros(c), angle_slots=angle_slots_of(r0))
    dev = float(np.max(np.abs(ana - num))) if ana.shape == num.shape else float("inf")
    return dev, 1.0 + float(np.max(np.abs(ana))) if ana.size else 1.0, ana, num


def near_wrap(*angles):
    return any(abs(abs(math.remainder(x, 2 * math.pi)) - math.pi) < 0.05 for x in angles)


def search_pose(seed, n, classes=None, methods=None, thresh=2e-6):
    """first failing (class, method, operands) or None; plus counts"""
    stats = dict(evaluations=0, skipped_near_wrap=0)
    for cname in classes or CLS:
        for mname in _ops(cname):
            if methods and mname not in methods:
                continue
            rng = Rng(seed, "search_pose|%s|%s" % (cname, mname))
            kind = _ops(cname)[mname][3]
            for k in range(n):
                a = rand_pose(rng, cname, mild=(k % 2 == 0))
                b = rand_pose(rng, cname if kind == "pose" else POINT[cname].__name__, mild=(k % 2 == 0)) if kind else None
                # special operands: zero translation (pure rotation), identity, and a pose that has been modified in
                # place after an earlier call (normalize() sign flip / component write): no stale per-object state
                r = rng.random()
                if cname == "PoseSE3" and kind == "pose" and 0.25 <= r < 0.33:
                    # the identity rotation written with q = (0,0,0,-1) (all-zero compact coordinates), with and without translation
                    b = PoseSE3([0.0, 0.0, 0.0] if r < 0.29 else [rng.uniform(-3, 3) for _ in range(3)], [0.0, 0.0, 0.0, -1.0])
                if cname == "PoseSE3" and 0.33 <= r < 0.37:
                    a = PoseSE3([0.0, 0.0, 0.0] if r < 0.35 else [rng.uniform(-3, 3) for _ in range(3)], [0.0, 0.0, 0.0, -1.0])
                if b is not None and r < 0.25:
                    nb = len(np.asarray(b.position)) if hasattr(b, "position") else 0
                    vals = np.asarray(b).copy()
                    vals[:nb] = 0.0
                    b = type(b)(vals[:2], vals[2]) if isinstance(b, PoseSE2) else type(b)(vals[:3], vals[3:]) if isinstance(b, PoseSE3) else type(b)(vals)
                if r > 0.7:
                    try:
                        out = getattr(a, mname)(b) if b is not None else getattr(a, mname)()
                        # the caller owns what a method returned: scaling it in place must not change later answers
                        np.asarray(out)[...] *= 3.5
                        np.asarray(a.jacobian_boxplus())[...] *= -2.0
                    except Exception:
                        pass
                    if isinstance(a, PoseSE3):
                        if rng.random() < 0.5:
                            a[3:] = -np.asarray(a[3:])
                            a.normalize()
                        else:
                            a[3:] = np.asarray(rng.unit_quat())
                    else:
                        a[0] = a[0] + 1.25
                    stats["history_probes"] = stats.get("history_probes", 0) + 1
                if cname == "PoseSE2":
                    # the real-valued angle coordinate is discontinuous on the wrap; the property excludes it
                    angs = [a[2]] + ([a[2] + b[2], a[2] - b[2]] if kind == "pose" else [])
                    if near_wrap(*angs):
                        stats["skipped_near_wrap"] += 1
                        continue
                if mname.endswith("_compact"):
                    pairs = [(a, b)]
                    if kind == "pose":
                        base = np.array([rng.sign() * rng.logu(1e5, 1e7) for _ in range(len(np.asarray(a.position)))])
                        def far(p):
                            v = flat(p).copy()
                            v[: len(base)] = base + v[: len(base)] * 0.1
                            return type(p)(v[:2], v[2]) if isinstance(p, PoseSE2) else type(p)(v[:3], v[3:]) if isinstance(p, PoseSE3) else type(p)(v)
                        pairs.append((far(a), far(b)))
                    for aa, bb in pairs:
                        full = np.asarray(getattr(aa, mname[: -len("_compact")])(bb) if bb is not None else getattr(aa, mname[: -len("_compact")])())
                        comp = np.asarray(getattr(aa, mname)(bb) if bb is not None else getattr(aa, mname)())
                        rows = full[: comp.shape[0]] if comp.ndim == 2 and full.ndim == 2 else full
                        stats["compact_row_checks"] = stats.get("compact_row_checks", 0) + 1
                        if comp.shape != rows.shape or not np.allclose(comp, rows, rtol=1e-12, atol=1e-12 * (1.0 + float(np.max(np.abs(rows), initial=0.0)))):
                            return dict(kind="pose_jacobian", cls=cname, method=mname, self=flat(aa).tolist(), other=(flat(bb).tolist() if bb is not None else None), entry=[0, 0], analytic=comp.tolist(), numeric=rows.tolist(),
                                        deviation=float(np.max(np.abs(comp - rows))) if comp.shape == rows.shape else float("inf"), shape_analytic=list(comp.shape), shape_numeric=list(rows.shape), what="the _compact variant is not the compact-coordinate rows of the full Jacobian"), stats
                if k % 4 == 1:
                    first = np.asarray(getattr(a, mname)(b) if b is not None else getattr(a, mname)())
                    keep = first.copy()
                    a_o = rand_pose(rng, cname, mild=True)
                    b_o = rand_pose(rng, cname if kind == "pose" else POINT[cname].__name__, mild=True) if kind else None
                    for mm in _ops(cname):
                        try:
                            bb_o = b_o if _ops(cname)[mm][3] == kind else (rand_pose(rng, cname if _ops(cname)[mm][3] == "pose" else POINT[cname].__name__, mild=True) if _ops(cname)[mm][3] else None)
                            getattr(a_o, mm)(bb_o) if bb_o is not None else getattr(a_o, mm)()
                        except Exception:  # noqa
                            pass
                    stats["alive_probes"] = stats.get("alive_probes", 0) + 1
                    if first.tobytes() != keep.tobytes():
                        return dict(kind="pose_jacobian", cls=cname, method=mname, self=flat(a).tolist(), other=(flat(b).tolist() if b is not None else None), entry=[0, 0], analytic=first.tolist(), numeric=keep.tolist(),
                                    deviation=float(np.max(np.abs(first - keep))), shape_analytic=list(first.shape), shape_numeric=list(keep.shape), what="a Jacobian returned earlier was overwritten by a later call on other operands"), stats
                dev, scale, ana, num = check_pose_method(cname, mname, a, b)
                stats["evaluations"] += 1
                if not dev <= thresh * scale * (1 + float(np.max(np.abs(flat(a)))) + (float(np.max(np.abs(flat(b)))) if b is not None else 0.0)):
                    ij = np.unravel_index(int(np.argmax(np.abs(ana - num))), ana.shape) if ana.shape == num.shape else (0, 0)
                    return dict(kind="pose_jacobian", cls=cname, method=mname, self=flat(a).tolist(), other=(flat(b).tolist() if b is not None else None), entry=[int(ij[0]), int(ij[1])], analytic=ana.tolist(), numeric=num.tolist(), deviation=dev, shape_analytic=list(ana.shape), shape_numeric=list(num.shape)), stats
    return None, stats


def make_edge(kind, T, rng, mild=False):
    if kind == "odometry":
        z, p0, p1 = rand_pose(rng, T, mild), rand_pose(rng, T, mild), rand_pose(rng, T, mild)
        # special measurements: exactly the identity ("no motion" constraints, loop closures at the same place)
        if rng.random() < 0.12:
            z = CLS[T].identity()
        n = p0.COMPACT_DIMENSIONALITY
        e = EdgeOdometry([0, 1], np.eye(n), z, [Vertex(0, p0), Vertex(1, p1)])
    else:
        P = POINT[T].__name__
        p0, off, p1, z = rand_pose(rng, T, mild), rand_pose(rng, T, mild), rand_pose(rng, P, mild), rand_pose(rng, P, mild)
        # special offsets: identity, pure rotation (zero lever arm), pure translation
        r = rng.random()
        if r < 0.15:
            off = CLS[T].identity()
        elif r < 0.4:
            o = np.asarray(off).copy()
            o[: len(np.asarray(off.position))] = 0.0
            off = type(off)(o[:2], o[2]) if T == "PoseSE2" else type(off)(o[:3], o[3:]) if T == "PoseSE3" else type(off)(o)
        elif r < 0.5 and T in ("PoseSE2", "PoseSE3"):
            ident = np.asarray(CLS[T].identity())
            o = np.asarray(off).copy()
            n = len(np.asarray(off.position))
            o[n:] = ident[n:]
            off = type(off)(o[:2], o[2]) if T == "PoseSE2" else type(off)(o[:3], o[3:])
        n = p1.COMPACT_DIMENSIONALITY
        e = EdgeLandmark([0, 1], np.eye(n), z, offset=off, vertices=[Vertex(0, p0), Vertex(1, p1)])
    if rng.random() < 0.3:
        # fixed flags (set by the caller or left behind by an earlier optimize(fix_first_pose=True)) are not operands of the error
        for v in e.vertices:
            v.fixed = rng.random() < 0.6
    if T == "PoseSE3" and rng.random() < 0.1:
        v = e.vertices[0] if rng.random() < 0.6 else e.vertices[-1]
        if isinstance(v.pose, PoseSE3):
            v.pose = PoseSE3(list(np.asarray(v.pose)[:3]), [0.0, 0.0, 0.0, -1.0])
    return e


def check_edge(e):
    """max deviation between e.calc_jacobians() and the numerical derivative of the error along box-plus"""
    J = [np.asarray(j) for j in e.calc_jacobians()]
    err0 = np.asarray(e.calc_error())
    slots = (2,) if isinstance(e, EdgeOdometry) and isinstance(e.vertices[0].pose, PoseSE2) else ()
    worst = (0.0, 1.0, None, None, None)
    for k, v in enumerate(e.vertices):
        p = v.pose
        c = p.COMPACT_DIMENSIONALITY

        def f(d, k=k, p=p):
            e.vertices[k].pose = p + d
            try:
                return np.asarray(e.calc_error(), dtype=np.float64)
            finally:
                e.vertices[k].pose = p

        num = jac(f, np.zeros(c), angle_slots=slots)
        ana = J[k]
        dev = float(np.max(np.abs(ana - num))) if ana.shape == num.shape else float("inf")
        scale = 1.0 + float(np.max(np.abs(ana))) if ana.size else 1.0
        if dev / scale >= worst[0] / worst[1]:
            worst = (dev, scale, k, ana, num)
    return worst, err0


def search_edges(seed, n, thresh=2e-6):
    stats = dict(evaluations=0, skipped_near_wrap=0)
    for kind in ("odometry", "landmark"):
        for T in CLS:
            rng = Rng(seed, "search_edge|%s|%s" % (kind, T))
            for k in range(n):
                e = make_edge(kind, T, rng, mild=(k % 2 == 0))
                if kind == "odometry" and T == "PoseSE2":
                    err = e.calc_error()
                    if near_wrap(err[2]):
                        stats["skipped_near_wrap"] += 1
                        continue
                if k % 3 == 2:
                    # history: the edge was already evaluated at other estimates, then a vertex pose was edited *in place*
                    # (poses are mutable arrays): nothing computed earlier may leak into the Jacobians
                    e.calc_error()
                    e.calc_chi2()
                    if k % 2 == 0:
                        e.calc_jacobians()
                    vsel = e.vertices[k % 2]
                    fresh = rand_pose(rng, type(vsel.pose).__name__, mild=True)
                    vsel.pose[:] = np.asarray(fresh)
                    stats["history_probes"] = stats.get("history_probes", 0) + 1
                    if kind == "odometry" and T == "PoseSE2" and near_wrap(e.calc_error()[2]):
                        stats["skipped_near_wrap"] += 1
                        continue
                if k % 5 == 4:
                    # history: a caller scaled / overwrote the Jacobians an EARLIER edge returned (robust-kernel weighting done
                    # in place); what this edge reports must not depend on that
                    e_prev = make_edge(kind, T, rng, mild=True)
                    for Jp in e_prev.calc_jacobians():
                        Jp = np.asarray(Jp)
                        if Jp.flags.writeable:
                            Jp *= 0.125
                            Jp += 3.0
                    stats["scribble_probes"] = stats.get("scribble_probes", 0) + 1
                (dev, scale, vk, ana, num), err0 = check_edge(e)
                stats["evaluations"] += 1
                mag = 1.0 + max(float(np.max(np.abs(flat(v.pose)))) for v in e.vertices) + float(np.max(np.abs(flat(e.estimate))))
                if not dev <= thresh * scale * mag * mag:
                    ij = np.unravel_index(int(np.argmax(np.abs(ana - num))), ana.shape) if ana.shape == num.shape else (0, 0)
                    return dict(kind="edge_jacobian", edge=kind, pose_type=T, estimate=flat(e.estimate).tolist(), offset=(flat(e.offset).tolist() if kind == "landmark" else None), p0=flat(e.vertices[0].pose).tolist(), p1=flat(e.vertices[1].pose).tolist(), vertex=vk, entry=[int(ij[0]), int(ij[1])], analytic=ana.tolist(), numeric=num.tolist(), deviation=dev), stats
    return None, stats


if __name__ == "__main__":
    import json

    seed = int(os.environ.get("VERIF_SEED", "0"))
    n = int(sys.argv[1]) if len(sys.argv) > 1 else 10
    r, st = search_pose(seed, n)
    print("pose:", json.dumps(r)[:400] if r else None, st)
    r, st = search_edges(seed, n)
    print("edges:", json.dumps(r)[:400] if r else None, st)
