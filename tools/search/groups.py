"""Implementation-level oracles for C09 (group laws vs an independent numpy model with homogeneous matrices) and
C11 (manifold invariants along long operation chains).  Independent of the Lean model."""
import math
import os
import sys

sys.path.insert(0, os.path.join(os.path.dirname(__file__), ".."))
from lib.common import Rng, use_repo  # noqa: E402

use_repo()
import numpy as np  # noqa: E402
from graphslam.pose.r2 import PoseR2  # noqa: E402
from graphslam.pose.r3 import PoseR3  # noqa: E402
from graphslam.pose.se2 import PoseSE2  # noqa: E402
from graphslam.pose.se3 import PoseSE3  # noqa: E402

CLS = {"PoseR2": PoseR2, "PoseR3": PoseR3, "PoseSE2": PoseSE2, "PoseSE3": PoseSE3}


def H(p):
    """independent homogeneous matrix of a pose (textbook formulas, not the code's to_matrix)"""
    if isinstance(p, PoseSE2):
        c, s = math.cos(p[2]), math.sin(p[2])
        return np.array([[c, -s, p[0]], [s, c, p[1]], [0, 0, 1.0]])
    if isinstance(p, PoseSE3):
        x, y, z, w = (float(v) for v in p[3:])
        n = x * x + y * y + z * z + w * w
        R = np.array([[w * w + x * x - y * y - z * z, 2 * (x * y - z * w), 2 * (x * z + y * w)], [2 * (x * y + z * w), w * w - x * x + y * y - z * z, 2 * (y * z - x * w)], [2 * (x * z - y * w), 2 * (y * z + x * w), w * w - x * x - y * y + z * z]]) / n
        M = np.eye(4)
        M[:3, :3] = R
        M[:3, 3] = p[:3]
        return M
    n = len(p)
    M = np.eye(n + 1)
    M[:n, n] = np.asarray(p)
    return M


def rand_pose(rng, cname):
    s = lambda: rng.scalar() if rng.random() < 0.5 else rng.uniform(-5, 5)
    if cname == "PoseR2":
        return PoseR2([s(), s()])
    if cname == "PoseR3":
        return PoseR3([s(), s(), s()])
    if cname == "PoseSE2":
        return PoseSE2([s(), s()], rng.angle())
    return PoseSE3([s(), s(), s()], rng.unit_quat())


def close(A, B, scale):
    return np.max(np.abs(np.asarray(A) - np.asarray(B))) <= 1e-9 * scale


def search_group(seed, n):
    ev = 0
    for cname, cls in CLS.items():
        rng = Rng(seed, "search_group|" + cname)
        for k in range(n):
            a, b, c = rand_pose(rng, cname), rand_pose(rng, cname), rand_pose(rng, cname)
            # special operand pairs: the same orientation at another position (bit-identical angle / quaternion: straight-line
            # motion), identical poses, the identity written with q = (0,0,0,-1), zero translation
            sp = rng.random()
            npos = 2 if cname in ("PoseR2", "PoseSE2") else 3
            if sp < 0.15:
                bv = np.asarray(b).copy()
                bv[npos:] = np.asarray(a)[npos:]
                b = type(b)(bv[:2], bv[2]) if cname == "PoseSE2" else type(b)(bv[:3], bv[3:]) if cname == "PoseSE3" else b
            elif sp < 0.2:
                b = a.copy()
            elif sp < 0.3 and cname == "PoseSE3":
                b = PoseSE3([0.0, 0.0, 0.0] if rng.random() < 0.5 else list(np.asarray(b)[:3]), [0.0, 0.0, 0.0, -1.0])
            elif sp < 0.35:
                bv = np.asarray(b).copy()
                bv[:npos] = 0.0
                b = type(b)(bv[:2], bv[2]) if cname == "PoseSE2" else type(b)(bv[:3], bv[3:]) if cname == "PoseSE3" else type(b)(bv)
            # history on the operands: use them once, then edit them *in place* (poses are mutable arrays), then ask again:
            # nothing remembered from the first use may leak into the second
            if rng.random() < 0.35:
                for made in (a + b, a - b, b + a, a.inverse):
                    pass
                if cname in ("PoseSE2", "PoseSE3") :
                    xs = [rng.uniform(-1, 1) for _ in range(npos)]
                    a2 = rand_pose(rng, cname)
                    a[:] = np.asarray(a2)
                    b[npos:] = np.asarray(rand_pose(rng, cname))[npos:]
                else:
                    a[:] = np.asarray(rand_pose(rng, cname))
            sc = (1 + max(float(np.max(np.abs(np.asarray(v)))) for v in (a, b, c))) ** 3
            # history: what a call returned belongs to the caller (poses are mutable arrays; building a pose by filling
            # in `identity()` is ordinary use): writing into earlier results must not change later answers
            tmp = cls.identity()
            tmp[:] = np.asarray(c)
            for made in (a.inverse, a + b, a - b, a.copy()):
                np.asarray(made)[...] = 7.25
            # two results alive at once: what an operator returned must not change when the operator is used again
            if cname in ("PoseSE2", "PoseSE3"):
                Pq = PoseR2 if cname == "PoseSE2" else PoseR3
                dq = 2 if cname == "PoseSE2" else 3
                x1 = Pq([rng.uniform(-5, 5) for _ in range(dq)])
                x2 = np.array([rng.uniform(-5, 5) for _ in range(dq)])
                held = [a + x1, a + b, a - b, a.inverse, a + x2]
                held_bits = [np.asarray(h_).tobytes() for h_ in held]
                for _ in (b + x2, b + x1, c + b, c - a, c.inverse, b + (a + x1)):
                    pass
                ev += 1
                for hi, (h_, hb) in enumerate(zip(held, held_bits)):
                    if np.asarray(h_).tobytes() != hb:
                        return dict(kind="group_law", cls=cname, law="result_overwritten_by_later_call", index=hi, a=np.asarray(a).tolist(), b=np.asarray(b).tolist(), c=np.asarray(c).tolist(), lhs=np.asarray(h_).tolist(), rhs=[]), ev
            checks = [
                ("oplus_is_matrix_product", H(a + b), H(a) @ H(b)),
                ("ominus_is_inverse_oplus", H(a - b), np.linalg.inv(H(b)) @ H(a)),
                ("inverse", H(a.inverse), np.linalg.inv(H(a))),
                ("identity", H(cls.identity()), np.eye(H(a).shape[0])),
                ("assoc", H((a + b) + c), H(a + (b + c))),
            ]
            if hasattr(a, "to_matrix"):
                checks.append(("to_matrix", a.to_matrix(), H(a)))
            if hasattr(cls, "from_matrix"):
                # poses recovered from matrices (all four quadrants of the heading, clockwise rotations included)
                checks.append(("from_matrix_to_matrix", H(cls.from_matrix(a.to_matrix())), H(a)))
                checks.append(("oplus_from_matrix_product", H(cls.from_matrix(H(a) @ H(b))), H(a + b)))
                checks.append(("ominus_from_matrix", H(cls.from_matrix(np.linalg.inv(H(b)) @ H(a))), H(a - b)))
                checks.append(("inverse_from_matrix", H(cls.from_matrix(np.linalg.inv(H(a)))), H(a.inverse)))
                fm = cls.from_matrix(a.to_matrix())
                checks.append(("from_matrix_components", np.asarray(fm)[:2], np.asarray(a)[:2]))
                checks.append(("from_matrix_angle", np.array([math.remainder(float(fm[2]) - float(a[2]), 2 * math.pi)]), np.array([0.0])))
            # point action
            if cname in ("PoseSE2", "PoseSE3"):
                P = PoseR2 if cname == "PoseSE2" else PoseR3
                d = 2 if cname == "PoseSE2" else 3
                x = P([rng.uniform(-5, 5) for _ in range(d)])
                checks.append(("point_action", np.asarray(a + x), (H(a) @ np.append(np.asarray(x), 1.0))[:d]))
                checks.append(("point_action_ndarray", np.asarray(a + np.asarray(x)), (H(a) @ np.append(np.asarray(x), 1.0))[:d]))
            # boxplus = compose with the pose whose compact form is delta
            cdim = a.COMPACT_DIMENSIONALITY
            delta = np.array([rng.uniform(-0.5, 0.5) for _ in range(cdim)])
            if cname == "PoseSE3":
                inc = PoseSE3(delta[:3], list(delta[3:]) + [math.sqrt(max(0.0, 1 - float(delta[3:] @ delta[3:])))])
            elif cname == "PoseSE2":
                inc = PoseSE2(delta[:2], delta[2])
            else:
                inc = cls(delta)
            checks.append(("boxplus_is_oplus_expmap", H(a + delta), H(a) @ H(inc)))
            # += delegates to +, never mutates its operands, and tolerates an aliased right operand
            a2 = a.copy()
            a2_id = id(a2)
            a_before = np.asarray(a).tobytes()
            a2 += b
            checks.append(("iadd", H(a2), H(a + b)))
            a3 = a.copy()
            a3 += a3
            checks.append(("iadd_aliased", H(a3), H(a) @ H(a)))
            a4 = a.copy()
            alias = a4
            a4 += b
            checks.append(("iadd_rebinds", np.asarray(alias), np.asarray(a)))
            # box-plus on the boundary |dv| = 1 (a half turn is a legal compact increment)
            if cname == "PoseSE3":
                axis = np.zeros(3)
                axis[rng.randrange(3)] = rng.sign()
                if rng.random() < 0.5:
                    v = np.array([rng.gauss(0, 1) for _ in range(3)])
                    axis = v / np.linalg.norm(v)
                    axis = axis / math.sqrt(float(axis @ axis))
                # (float-normalised directions: the computed norm is exactly 1.0 while the sum of squares may be 1 + 2^-52)
                if float(np.linalg.norm(axis)) <= 1.0:
                    dl = np.concatenate([delta[:3], axis])
                    checks.append(("boxplus_unit_rotation_increment", H(a + dl), H(a) @ H(PoseSE3(dl[:3], list(axis) + [0.0]))))
            for name, X, Y in checks:
                ev += 1
                if not close(X, Y, sc):
                    return dict(kind="group_law", cls=cname, law=name, a=np.asarray(a).tolist(), b=np.asarray(b).tolist(), c=np.asarray(c).tolist(), lhs=np.asarray(X).tolist(), rhs=np.asarray(Y).tolist()), ev
    return None, ev


def search_invariants(seed, chains, length):
    """long random operation chains on the real objects; returns first violation of the manifold invariants"""
    ev = 0
    worst_norm = 0.0
    for cname in ("PoseSE2", "PoseSE3"):
        for ch in range(chains):
            rng = Rng(seed, "search_inv|%s|%d" % (cname, ch))
            # a linear history: the running pose is combined with a *fresh* well-formed operand at every step
            # (re-using earlier results on both sides squares the norm error and makes it grow exponentially,
            # which is inherent to multiplication, not a defect)
            x = rand_pose(rng, cname)
            hist = []
            for step in range(length):
                op = rng.choice(["add", "radd", "sub", "rsub", "inverse", "boxplus", "copy", "iadd", "iadd_boxplus"])
                a, b = x, rand_pose(rng, cname)
                if op == "add":
                    r = a + b
                elif op == "radd":
                    r = b + a
                elif op == "sub":
                    r = a - b
                elif op == "rsub":
                    r = b - a
                elif op == "inverse":
                    r = a.inverse
                elif op == "copy":
                    r = a.copy()
                elif op == "iadd":
                    r = a.copy()
                    r += b
                elif op == "iadd_boxplus":
                    # an optimiser update: `pose += dx` with a raw increment (angular part unbounded: several turns are legal)
                    c = a.COMPACT_DIMENSIONALITY
                    sc = rng.choice([1e-6, 1e-2, 0.3, 2.0])
                    dxv = np.array([rng.gauss(0, sc) for _ in range(c)])
                    if cname == "PoseSE2" and rng.random() < 0.5:
                        dxv[2] = rng.sign() * rng.logu(3.0, 1e6)
                    if cname == "PoseSE3" and rng.random() < 0.25:
                        # a half-turn step: rotation part normalised in floating point (norm exactly 1.0 as computed,
                        # sum of squares possibly one ulp above 1)
                        d3 = np.array([rng.gauss(0, 1) for _ in range(3)])
                        d3 = d3 / np.linalg.norm(d3)
                        if float(np.linalg.norm(d3)) <= 1.0:
                            dxv[3:] = d3
                    r = a.copy()
                    r += dxv
                else:
                    c = a.COMPACT_DIMENSIONALITY
                    sc = rng.choice([1e-6, 1e-2, 0.3, 2.0])
                    r = a + np.array([rng.gauss(0, sc) for _ in range(c)])
                    if cname == "PoseSE2" and rng.random() < 0.3:
                        r = a + np.array([0.0, 0.0, rng.sign() * rng.logu(3.0, 1e6)])
                # keep translations bounded so that float error stays interpretable
                if float(np.max(np.abs(np.asarray(r)[: (2 if cname == "PoseSE2" else 3)]))) > 1e6:
                    r = rand_pose(rng, cname)
                hist.append(op)
                x = r
                ev += 1
                if cname == "PoseSE2":
                    ok = -math.pi <= r[2] <= math.pi and isinstance(r, PoseSE2)
                    if not ok:
                        return dict(kind="angle_range", op=op, step=step, result=np.asarray(r).tolist(), a=np.asarray(a).tolist(), b=np.asarray(b).tolist()), ev, worst_norm
                else:
                    nrm = float(np.linalg.norm(np.asarray(r)[3:]))
                    worst_norm = max(worst_norm, abs(nrm - 1))
                    if not abs(nrm - 1) <= 2e-15 * (step + 10) or not isinstance(r, PoseSE3):
                        return dict(kind="unit_quaternion", op=op, step=step, norm=nrm, result=np.asarray(r).tolist(), a=np.asarray(a).tolist(), b=np.asarray(b).tolist()), ev, worst_norm
    # normalize()
    rng = Rng(seed, "search_inv|normalize")
    for k in range(300):
        q = np.array(rng.unit_quat()) * rng.logu(1e-3, 1e3)
        if k % 3 == 0:  # exactly-unit inputs of either sign (already normalised data, e.g. results of compositions)
            q = np.array(rng.unit_quat())
            if k % 2 == 0:
                q = -np.abs(q[3]) * np.array([0, 0, 0, 1.0]) + np.array([q[0], q[1], q[2], 0.0])
        if k % 7 == 0:
            q = np.asarray((PoseSE3([0, 0, 0], rng.unit_quat()) + PoseSE3([0, 0, 0], rng.unit_quat())))[3:]
        p = PoseSE3([rng.scalar(), rng.scalar(), rng.scalar()], q)
        M0 = H(p)
        p.normalize()
        ev += 1
        if abs(np.linalg.norm(p[3:]) - 1) > 1e-12 or p[6] < 0 or not close(H(p), M0, 1 + float(np.max(np.abs(M0)))):
            return dict(kind="normalize", q=q.tolist(), result=np.asarray(p).tolist()), ev, worst_norm
    # congruence of the wrap (exact rational check of the float result against a high-precision reference)
    from fractions import Fraction
    import graphslam.util as gu

    PI = Fraction(314159265358979323846264338327950288419716939937510, 10**50)
    for k in range(300):
        a = rng.angle() if k % 2 else rng.sign() * rng.logu(1, 1e6)
        w = float(gu.neg_pi_to_pi(a))
        ev += 1
        kk = round((Fraction(a) - Fraction(w)) / (2 * PI))
        resid = abs(Fraction(a) - Fraction(w) - kk * 2 * PI)
        ulp = math.ulp(abs(a) + math.pi)
        if not (-math.pi <= w <= math.pi) or resid > 4 * ulp:
            return dict(kind="wrap_congruence", angle=a, wrapped=w, residual=float(resid), ulp=ulp), ev, worst_norm
    for kodd in [1, -1, 3, -3, 5, 101, -257, 31831, -318309, 2001]:
        base = kodd * math.pi
        for j in range(-4, 5):
            a = base
            for _ in range(abs(j)):
                a = math.nextafter(a, math.inf if j > 0 else -math.inf)
            w = float(gu.neg_pi_to_pi(a))
            ev += 1
            kk = round((Fraction(a) - Fraction(w)) / (2 * PI))
            resid = abs(Fraction(a) - Fraction(w) - kk * 2 * PI)
            ulp = math.ulp(abs(a) + math.pi)
            if not (-math.pi <= w <= math.pi) or resid > 4 * ulp:
                return dict(kind="wrap_congruence", angle=a, wrapped=w, residual=float(resid), ulp=ulp, seam=True), ev, worst_norm
            if abs(kodd) <= 5:
                # the same angle reached by construction, composition, difference, inversion and update
                half = a / 2
                cands = [PoseSE2([0.3, -0.2], a), PoseSE2([0, 0], half) + PoseSE2([1, 2], a - half), PoseSE2([0, 0], a - 0.25) - PoseSE2([1, 1], -0.25),
                         PoseSE2([0.5, 0.5], -a).inverse, PoseSE2([0, 0], 0.125) + np.array([0.0, 0.0, a - 0.125])]
                for ci, r in enumerate(cands):
                    ev += 1
                    if not (-math.pi <= float(r[2]) <= math.pi):
                        return dict(kind="angle_range", op="seam-%d" % ci, step=0, result=np.asarray(r).tolist(), a=[a], b=[]), ev, worst_norm
    return None, ev, worst_norm


def search_optimizer_invariants(seed, n):
    """SE(3) vertices after optimizer iterations have finite unit quaternions - also when the fixed flags were set AFTER the
    Graph was constructed (by the caller or by fix_first_pose) and when a fixed vertex has no edge"""
    import contextlib
    import io
    import warnings
    from lib import graphgen as GG
    from graphslam.graph import Graph
    from graphslam.vertex import Vertex

    ev = 0
    for k in range(n):
        rng = Rng(seed, "search_inv_opt|%d" % k)
        g, desc = GG.make_graph(rng, world="3d", noise=0.02, well_posed=True, fix="first", custom=False, walk=True, ids="plain")
        # the anchor must be a pose (a graph anchored at a landmark point only is rank deficient whatever else happens)
        i0 = next(i for i, v in enumerate(desc["vertices"]) if v["cls"] == "PoseSE3")
        desc["vertices"][0], desc["vertices"][i0] = desc["vertices"][i0], desc["vertices"][0]
        for i, v in enumerate(desc["vertices"]):
            v["fixed"] = i == 0
        g = GG.rebuild(desc)
        mode = rng.choice(["plain", "extra-first-ffp", "extra-fixed-after", "flags-after"])
        kiter = rng.randrange(1, 6)
        # reference: the plain graph must itself stay finite for this number of iterations
        gref = GG.rebuild(desc)
        with warnings.catch_warnings(), contextlib.redirect_stdout(io.StringIO()):
            warnings.simplefilter("ignore")
            gref.optimize(tol=0.0, max_iter=kiter, fix_first_pose=False, verbose=False)
        if not all(np.all(np.isfinite(np.asarray(v.pose))) for v in gref._vertices):
            continue
        vs = list(g._vertices)
        extra = None
        if mode in ("extra-first-ffp", "extra-fixed-after"):
            extra = Vertex(10**6 + k, GG.mk_pose("PoseSE3", GG.rand_pose_vals(rng, "PoseSE3")), fixed=False)
            vs = [extra] + vs if mode == "extra-first-ffp" else vs[:1] + [extra] + vs[1:]
        flags = [bool(v.fixed) for v in vs]
        if mode in ("flags-after", "extra-fixed-after"):
            for v in vs:
                v.fixed = False
        g2 = Graph(list(g._edges), vs)
        if mode in ("flags-after", "extra-fixed-after"):
            for v, f in zip(vs, flags):
                v.fixed = f
            if extra is not None:
                extra.fixed = True
        with warnings.catch_warnings(), contextlib.redirect_stdout(io.StringIO()):
            warnings.simplefilter("ignore")
            g2.optimize(tol=0.0, max_iter=kiter, fix_first_pose=(mode == "extra-first-ffp" or rng.random() < 0.5), verbose=False)
        ev += 1
        for v in g2._vertices:
            if type(v.pose).__name__ == "PoseSE3":
                q = np.asarray(v.pose)[3:]
                if not np.all(np.isfinite(q)) or abs(float(np.linalg.norm(q)) - 1) > 1e-12:
                    return dict(kind="unit_quaternion_after_optimize", mode=mode, vertex=v.id, quaternion=q.tolist(), desc=desc), ev
    return None, ev


if __name__ == "__main__":
    seed = int(os.environ.get("VERIF_SEED", "0"))
    print(search_group(seed, 50))
    print(search_invariants(seed, 3, 2000))
