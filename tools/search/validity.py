"""C18 search: the property's own sentence on the real `Graph` constructor, independent of the Lean model.

Seeded random graphs with *unique* vertex ids in shuffled order and odometry / landmark / custom edges that are consistent
by the rule of the class docstrings or deviate from it in one or more respects (vertex count, pose class, estimate class,
offset class, information shape) or name an unknown id.  Oracle (written here, from the docstrings):
  some id unknown                     -> KeyError
  all known, some edge inconsistent   -> AssertionError
  all known, all consistent           -> accepted, `e.vertices[k] is` the vertex whose id is `e.vertex_ids[k]`, for every
                                         order of the vertex list; gradient indices are the prefix sums of the compact
                                         dimensionalities in vertex-list order.
`replay` rebuilds the recorded graph description and re-runs the oracle."""
import os
import sys
import warnings

sys.path.insert(0, os.path.join(os.path.dirname(__file__), ".."))
from lib.common import Rng, use_repo  # noqa: E402

use_repo()
import numpy as np  # noqa: E402
from graphslam.edge.base_edge import BaseEdge  # noqa: E402
from graphslam.edge.edge_landmark import EdgeLandmark  # noqa: E402
from graphslam.edge.edge_odometry import EdgeOdometry  # noqa: E402
from graphslam.graph import Graph  # noqa: E402
from graphslam.pose.r2 import PoseR2  # noqa: E402
from graphslam.pose.r3 import PoseR3  # noqa: E402
from graphslam.pose.se2 import PoseSE2  # noqa: E402
from graphslam.pose.se3 import PoseSE3  # noqa: E402
from graphslam.vertex import Vertex  # noqa: E402

POSES = {"PoseR2": PoseR2, "PoseR3": PoseR3, "PoseSE2": PoseSE2, "PoseSE3": PoseSE3}
CDIMS = {"PoseR2": 2, "PoseR3": 3, "PoseSE2": 3, "PoseSE3": 6}
IDENT = {"PoseR2": lambda: PoseR2([0.5, 1.5]), "PoseR3": lambda: PoseR3([0.5, 1.5, 2.5]), "PoseSE2": lambda: PoseSE2([0.5, 1.5], 0.25), "PoseSE3": lambda: PoseSE3([0.5, 1.5, 2.5], [0.0, 0.0, 0.0, 1.0])}


class PriorEdge(BaseEdge):
    """custom unary edge; documents its own rule: one vertex, information c x c"""

    def is_valid(self):
        if not self._is_valid() or len(self.vertices) != 1:
            return False
        n = self.vertices[0].pose.COMPACT_DIMENSIONALITY
        return self.information.shape == (n, n)

    def calc_error(self):
        return np.zeros(1)


def mk_value(kind):
    if kind in POSES:
        return IDENT[kind]()
    if kind == "ndarray":
        return np.zeros(3)
    if kind == "None":
        return None
    return 0.75


def build(desc):
    verts = [Vertex(i, IDENT[k]()) for i, k in desc["vertices"]]
    edges = []
    for e in desc["edges"]:
        info = np.zeros(tuple(e["shape"]))
        if e["cls"] == "EdgeOdometry":
            edges.append(EdgeOdometry(list(e["ids"]), info, mk_value(e["estimate"])))
        elif e["cls"] == "EdgeLandmark":
            edges.append(EdgeLandmark(list(e["ids"]), info, mk_value(e["estimate"]), mk_value(e["offset"])))
        else:
            edges.append(PriorEdge(list(e["ids"]), info, mk_value(e["estimate"])))
    return edges, verts


def consistent(e, kind_of):
    """the documented rule (edge_odometry.py / edge_landmark.py class docstrings); ids are known here"""
    ids = e["ids"]
    if e["cls"] == "EdgeOdometry":
        if len(ids) != 2:
            return False
        t0, t1 = kind_of[ids[0]], kind_of[ids[1]]
        return t0 == t1 and e["estimate"] == t0 and list(e["shape"]) == [CDIMS[t0]] * 2
    if e["cls"] == "EdgeLandmark":
        if len(ids) != 2:
            return False
        t0, t1 = kind_of[ids[0]], kind_of[ids[1]]
        return e["offset"] == t0 and e["estimate"] == t1 and list(e["shape"]) == [CDIMS[t1]] * 2
    if len(ids) != 1:
        return False
    return list(e["shape"]) == [CDIMS[kind_of[ids[0]]]] * 2


def expected(desc):
    kind_of = dict(desc["vertices"])
    if any(i not in kind_of for e in desc["edges"] for i in e["ids"]):
        return "KeyError"
    if not all(consistent(e, kind_of) for e in desc["edges"]):
        return "AssertionError"
    return "accepted"


def check(desc, prebind=False):
    """-> None | (match, details).  prebind: the edge objects have already been used for an earlier Graph over *other*
    Vertex objects with the same ids (the constructor must bind to the vertices it is given now)"""
    want = expected(desc)
    edges, verts = build(desc)
    if prebind:
        _, other = build(desc)
        other = other[::-1]
        for e, v0 in zip(edges, other):
            pass
        try:
            Graph(edges, other)
        except Exception:  # noqa: BLE001
            # even if that construction failed, hand-bind look-alikes (a caller may pass pre-filled `vertices`)
            by = {v.id: v for v in other}
            for e in edges:
                if all(i in by for i in e.vertex_ids):
                    e.vertices = [by[i] for i in e.vertex_ids]
    try:
        g = Graph(edges, verts)
        got = "accepted"
    except Exception as ex:  # noqa: BLE001
        got = type(ex).__name__
    if got != want:
        if got == "accepted":
            m = "construct:accepted-inconsistent" if want == "AssertionError" else "construct:unknown-id-not-raised"
        elif want == "accepted":
            m = "construct:rejected-consistent"
        else:
            m = "construct:wrong-exception"
        return m, dict(want=want, got=got)
    if got != "accepted":
        return None
    by_id = {v.id: v for v in verts}
    for ei, e in enumerate(edges):
        if len(e.vertices) != len(e.vertex_ids) or any(v is not by_id[i] for v, i in zip(e.vertices, e.vertex_ids)):
            return "construct:bound-wrong-vertex", dict(edge=ei, bound=[v.id for v in e.vertices], ids=list(e.vertex_ids))
    acc = 0
    for v in verts:
        if v.gradient_index != acc:
            return "construct:gradient-index", dict(vertex=v.id, got=v.gradient_index, want=acc)
        acc += v.pose.COMPACT_DIMENSIONALITY
    if g._len_gradient != acc:
        return "construct:gradient-index", dict(len_gradient=g._len_gradient, want=acc)
    return None


def random_desc(rng):
    nv = rng.choice([1, 2, 3, 4, 6, 9])
    ids = rng.sample(range(-3, 40), nv)
    world = rng.choice(["2d", "3d", "mixed"])
    pool = {"2d": ["PoseSE2", "PoseSE2", "PoseR2"], "3d": ["PoseSE3", "PoseSE3", "PoseR3"], "mixed": list(POSES)}[world]
    verts = [[i, rng.choice(pool)] for i in ids]
    kind_of = dict(verts)
    edges = []
    for _ in range(rng.choice([0, 1, 2, 3, 5])):
        cls = rng.choice(["EdgeOdometry", "EdgeOdometry", "EdgeLandmark", "EdgeLandmark", "PriorEdge"])
        if cls == "PriorEdge":
            a = rng.choice(ids)
            e = dict(cls=cls, ids=[a], estimate="float", offset="None", shape=[CDIMS[kind_of[a]]] * 2)
        elif cls == "EdgeOdometry":
            a = rng.choice(ids)
            same = [i for i in ids if kind_of[i] == kind_of[a]]
            b = rng.choice(same)
            e = dict(cls=cls, ids=[a, b], estimate=kind_of[a], offset="None", shape=[CDIMS[kind_of[a]]] * 2)
        else:
            a, b = rng.choice(ids), rng.choice(ids)
            e = dict(cls=cls, ids=[a, b], estimate=kind_of[b], offset=kind_of[a], shape=[CDIMS[kind_of[b]]] * 2)
        # deviations
        r = rng.random()
        if r < 0.45:
            pass
        else:
            for _k in range(rng.choice([1, 1, 2])):
                dev = rng.choice(["count+", "count-", "endpoint", "estimate", "offset", "shape-r", "shape-c", "shape-nd", "unknown"])
                if dev == "count+":
                    e["ids"] = e["ids"] + [rng.choice(ids)]
                elif dev == "count-" and e["ids"]:
                    e["ids"] = e["ids"][:-1]
                elif dev == "endpoint" and e["ids"]:
                    e["ids"][rng.randrange(len(e["ids"]))] = rng.choice(ids)
                elif dev == "estimate":
                    e["estimate"] = rng.choice(list(POSES) + ["ndarray", "None", "float"])
                elif dev == "offset":
                    e["offset"] = rng.choice(list(POSES) + ["ndarray", "None"])
                elif dev in ("shape-r", "shape-c") and len(e["shape"]) != 2:
                    e["shape"] = [rng.choice([2, 3, 6]), rng.choice([2, 3, 6])]
                elif dev == "shape-r":
                    e["shape"] = [e["shape"][0] + rng.choice([-1, 1, 3]), e["shape"][1]]
                elif dev == "shape-c":
                    e["shape"] = [e["shape"][0], e["shape"][1] + rng.choice([-1, 1, 3])]
                elif dev == "shape-nd":
                    e["shape"] = rng.choice([e["shape"][:1], e["shape"] + [1], []])
                elif dev == "unknown" and e["ids"]:
                    e["ids"][rng.randrange(len(e["ids"]))] = rng.choice([77, 78])
            e["shape"] = [max(0, s) for s in e["shape"]]
        edges.append(e)
    return dict(vertices=verts, edges=edges)


def search(seed, n):
    warnings.filterwarnings("ignore")
    found, ev, seen = [], 0, set()
    stats = dict(accepted=0, KeyError=0, AssertionError=0)
    for it in range(n):
        rng = Rng(seed, "c18search|%d" % it)
        desc = random_desc(rng)
        want = expected(desc)
        stats[want] += 1
        orders = [desc["vertices"], desc["vertices"][::-1]]
        sh = list(desc["vertices"])
        rng.shuffle(sh)
        orders.append(sh)
        for order in orders:
            d = dict(desc, vertices=order)
            for prebind in (False, True):
                ev += 1
                r = check(d, prebind=prebind)
                if r and r[0] not in seen:
                    seen.add(r[0])
                    found.append(dict(match=r[0], details=dict(r[1], edges_previously_bound=prebind), desc=d, prebind=prebind))
        if len(found) >= 5:
            break
    return dict(found=found, evaluations=ev, expected_distribution=stats)


def entry(seed, tier, broken):
    """entry point for tools/check.py (props.py: search=("search.validity", "entry"))"""
    return search(seed, 40000 if (tier == "thorough" or broken) else (9000 if tier == "escalated" else 1500))


def replay(rep):
    import json

    w = rep.get("witness")
    if not w:
        print("replay file names a broken theorem/correspondence, not an input:", json.dumps(rep.get("no_longer_checks"))[:1500])
        return 1
    warnings.filterwarnings("ignore")
    print("graph description:", json.dumps(w["desc"])[:1500])
    print("documented rule expects:", expected(w["desc"]), "  recorded:", w["match"], w.get("details"))
    r = check(w["desc"], prebind=bool(w.get("prebind")))
    print("now:", r)
    print("REPRODUCED" if r else "not reproduced on the current tree")
    return 1 if r else 0


if __name__ == "__main__":
    import json

    r = search(int(os.environ.get("VERIF_SEED", "0")), int(os.environ.get("N", "2000")))
    print(json.dumps(r, indent=1, default=str)[:3000])
