"""C17 search: the property's own sentence checked on the real `equals` methods, independent of the Lean model.

For seeded random *well-formed* poses, vertices, edges (odometry, landmark, two custom classes with pose / ndarray /
scalar estimates) and graphs:
  copy                      -> True
  perturbation far below    -> True   (every numeric component moved by 1e-4 * tol * max(norm, tol))
  perturbation far above    -> False  (one numeric component moved by 1e+3 * tol * max(norm, tol))
  discrete difference       -> False  (id, id order, id count, class, pose class with the same numbers, estimate shape,
                                       information shape, offset class, offset id, list length, list order)
  both directions agree (all of the above are outside the tolerance band), and nothing raises, including every pair
  of a mixed pool of well-formed objects of the same category.
A witness is a JSON-able dict(match, check, level, a, b, got...) from which `replay` rebuilds both objects."""
import copy
import os
import sys
import warnings

sys.path.insert(0, os.path.join(os.path.dirname(__file__), ".."))
from lib.common import Rng, use_repo  # noqa: E402

use_repo()
import numpy as np  # noqa: E402
from graphslam.edge.base_edge import BaseEdge  # noqa: E402
from graphslam.edge.edge_landmark import EdgeLandmark  # noqa: E402
from graphslam.edge.edge_odometry import EdgeOdometry  # noqa: E402
from graphslam.graph import Graph  # noqa: E402
from graphslam.pose.base_pose import BasePose  # noqa: E402
from graphslam.pose.r2 import PoseR2  # noqa: E402
from graphslam.pose.r3 import PoseR3  # noqa: E402
from graphslam.pose.se2 import PoseSE2  # noqa: E402
from graphslam.pose.se3 import PoseSE3  # noqa: E402
from graphslam.vertex import Vertex  # noqa: E402

POSES = {"PoseR2": PoseR2, "PoseR3": PoseR3, "PoseSE2": PoseSE2, "PoseSE3": PoseSE3}
DIMS = {"PoseR2": 2, "PoseR3": 3, "PoseSE2": 3, "PoseSE3": 7}
CDIMS = {"PoseR2": 2, "PoseR3": 3, "PoseSE2": 3, "PoseSE3": 6}
POINT = {"PoseSE2": "PoseR2", "PoseSE3": "PoseR3", "PoseR2": "PoseR2", "PoseR3": "PoseR3"}


class RangeEdge(BaseEdge):
    """custom edge, scalar or ndarray estimate"""

    def is_valid(self):
        return self._is_valid()

    def calc_error(self):
        return np.zeros(1)


class BearingEdge(BaseEdge):
    """a second, unrelated custom edge class with the same fields"""

    def is_valid(self):
        return self._is_valid()

    def calc_error(self):
        return np.zeros(1)


class RobustOdometry(EdgeOdometry):
    """a user subclass of a built-in class: same fields, another type"""


class WideLandmark(EdgeLandmark):
    """a user subclass of EdgeLandmark"""


class LongRangeEdge(RangeEdge):
    """a user subclass of a custom class"""


EDGES = {"EdgeOdometry": EdgeOdometry, "EdgeLandmark": EdgeLandmark, "RangeEdge": RangeEdge, "BearingEdge": BearingEdge}
SUBCLASS = {"EdgeOdometry": "RobustOdometry", "EdgeLandmark": "WideLandmark", "RangeEdge": "LongRangeEdge"}
EDGES_ALL = dict(EDGES, RobustOdometry=RobustOdometry, WideLandmark=WideLandmark, LongRangeEdge=LongRangeEdge)

# ---------------------------------------------------------------------------------------------------------------------
# JSON-able descriptions  <->  real objects


def d_pose(cls, vals):
    return dict(t="pose", cls=cls, vals=[float(v) for v in vals])


def b_pose(d):
    # the stored array exactly as described (SE(2) angles in the descriptions are already inside (-pi, pi])
    return np.array(d["vals"], dtype=np.float64).view(POSES[d["cls"]])


def b_value(d):
    if d is None:
        return None
    if d["t"] == "pose":
        return b_pose(d)
    if d["t"] == "array":
        return np.array(d["vals"], dtype=np.float64).reshape(d["shape"])
    return float(d["vals"][0])


def b_vertex(d):
    return Vertex(d["id"], b_pose(d["pose"]))


def b_edge(d):
    info = np.array(d["info"]["vals"], dtype=np.float64).reshape(d["info"]["shape"])
    cls = EDGES_ALL[d["cls"]]
    if d["cls"] in ("EdgeLandmark", "WideLandmark"):
        return cls(list(d["ids"]), info, b_value(d["estimate"]), b_value(d["offset"]), offset_id=d["offset_id"])
    return cls(list(d["ids"]), info, b_value(d["estimate"]))


def b_graph(d):
    g = object.__new__(Graph)  # equals() reads _edges/_vertices only; the constructor's typing assert is C18's business
    g._edges = [b_edge(e) for e in d["edges"]]
    g._vertices = [b_vertex(v) for v in d["vertices"]]
    return g


BUILD = dict(pose=b_pose, vertex=b_vertex, edge=b_edge, graph=b_graph)

# ---------------------------------------------------------------------------------------------------------------------
# random well-formed descriptions


def r_pose(rng, cls=None, scale=None):
    cls = cls or rng.choice(list(POSES))
    s = scale if scale is not None else rng.choice([0.0, 1e-9, 1.0, 1.0, 5.0, 1e3])
    u = lambda: rng.uniform(-1, 1) * s
    if cls == "PoseR2":
        v = [u(), u()]
    elif cls == "PoseR3":
        v = [u(), u(), u()]
    elif cls == "PoseSE2":
        v = [u(), u(), rng.uniform(-3.1, 3.1)]
    else:
        v = [u(), u(), u()] + rng.unit_quat()
    return d_pose(cls, v)


def r_array(rng, shape=None):
    shape = shape or rng.choice([[1], [2], [3], [1, 3], [3, 1], [2, 2], []])
    n = int(np.prod(shape)) if shape else 1
    s = rng.choice([0.0, 1.0, 1.0, 100.0])
    return dict(t="array", shape=list(shape), vals=[rng.uniform(-1, 1) * s for _ in range(n)])


def r_info(rng, n):
    s = rng.choice([1.0, 1.0, 1e-3, 1e4])
    m = np.array([[rng.gauss(0, 1) for _ in range(n)] for _ in range(n)])
    m = (m @ m.T + n * np.eye(n)) * s
    return dict(t="array", shape=[n, n], vals=[float(x) for x in m.ravel()])


def r_edge(rng, cls=None):
    cls = cls or rng.choice(list(EDGES))
    if cls == "EdgeOdometry":
        pk = rng.choice(list(POSES))
        return dict(t="edge", cls=cls, ids=[rng.randrange(0, 50), rng.randrange(0, 50)], info=r_info(rng, CDIMS[pk]), estimate=r_pose(rng, pk))
    if cls == "EdgeLandmark":
        pk = rng.choice(list(POSES))
        pt = POINT[pk] if rng.random() < 0.8 else rng.choice(list(POSES))
        return dict(t="edge", cls=cls, ids=[rng.randrange(0, 50), rng.randrange(0, 50)], info=r_info(rng, CDIMS[pt]), estimate=r_pose(rng, pt), offset=r_pose(rng, pk), offset_id=rng.choice([None, 0, 1, 7]))
    est = rng.choice(["scalar", "array", "array", "pose"])
    if est == "scalar":
        e = dict(t="scalar", vals=[rng.uniform(-10, 10) * rng.choice([0.0, 1.0, 1.0])])
    elif est == "array":
        e = r_array(rng)
    else:
        e = r_pose(rng)
    n = rng.choice([1, 2, 3])
    return dict(t="edge", cls=cls, ids=[rng.randrange(0, 50) for _ in range(rng.choice([1, 2, 2, 3]))], info=r_info(rng, n), estimate=e)


def r_vertex(rng):
    return dict(t="vertex", id=rng.randrange(-5, 100), pose=r_pose(rng))


def r_graph(rng):
    return dict(t="graph", edges=[r_edge(rng) for _ in range(rng.choice([0, 1, 2, 3, 5]))], vertices=[r_vertex(rng) for _ in range(rng.choice([0, 1, 2, 4]))])


# ---------------------------------------------------------------------------------------------------------------------
# numeric blocks of a description (lists that can be perturbed in place)


def blocks(d):
    t = d["t"]
    if t in ("pose", "array", "scalar"):
        return [d["vals"]] if d["vals"] else []
    if t == "vertex":
        return blocks(d["pose"])
    if t == "edge":
        out = blocks(d["info"]) + blocks(d["estimate"])
        if d["cls"] == "EdgeLandmark":
            out += blocks(d["offset"])
        return out
    out = []
    for e in d["edges"]:
        out += blocks(e)
    for v in d["vertices"]:
        out += blocks(v)
    return out


def nrm(v):
    return float(np.sqrt(sum(x * x for x in v)))


def perturb_all(d, tol, factor, rng):
    d = copy.deepcopy(d)
    for b in blocks(d):
        s = factor * tol * max(nrm(b), tol) / np.sqrt(len(b))
        for i in range(len(b)):
            b[i] += rng.sign() * s
    return d


def perturb_one(d, tol, factor, rng):
    d = copy.deepcopy(d)
    bs = blocks(d)
    if not bs:
        return None
    b = rng.choice(bs)
    i = rng.randrange(len(b))
    b[i] += rng.sign() * factor * tol * max(nrm(b), tol)
    return d


def discrete_variants(d, rng):
    """[(name, description differing from d in one discrete respect)]"""
    t = d["t"]
    out = []
    if t == "pose":
        for c in POSES:
            if c != d["cls"] and DIMS[c] == DIMS[d["cls"]]:
                out.append(("pose-class-same-numbers", dict(d, cls=c)))
        c = rng.choice([c for c in POSES if c != d["cls"]])
        out.append(("pose-class", r_pose(rng, c)))
    elif t == "vertex":
        out.append(("vertex-id", dict(d, id=d["id"] + 1)))
        for n, p in discrete_variants(d["pose"], rng):
            out.append(("vertex-" + n, dict(d, pose=p)))
    elif t == "edge":
        ids = d["ids"]
        out.append(("edge-id", dict(d, ids=[ids[0] + 1] + ids[1:])))
        if len(ids) > 1 and ids[0] != ids[-1]:
            out.append(("edge-id-order", dict(d, ids=ids[::-1])))
        out.append(("edge-id-count-more", dict(d, ids=ids + [ids[-1]])))
        if len(ids) > 1:
            out.append(("edge-id-count-less", dict(d, ids=ids[:-1])))
        if d["cls"] in SUBCLASS:
            # a subclass instance with identical fields is an edge of another type (asked in both directions)
            out.append(("edge-subclass", dict(d, cls=SUBCLASS[d["cls"]])))
        n = d["info"]["shape"][0]
        out.append(("edge-info-shape", dict(d, info=dict(t="array", shape=[n * n], vals=d["info"]["vals"]))))
        out.append(("edge-info-shape-bigger", dict(d, info=dict(t="array", shape=[n + 1, n + 1], vals=d["info"]["vals"] + [0.0] * ((n + 1) ** 2 - n * n)))))
        if d["cls"] in ("RangeEdge", "BearingEdge"):
            other = "BearingEdge" if d["cls"] == "RangeEdge" else "RangeEdge"
            out.append(("edge-class", dict(d, cls=other)))
            out.append(("edge-class", dict(d, cls="EdgeOdometry")))
        elif d["cls"] == "EdgeOdometry":
            out.append(("edge-class", dict(d, cls="RangeEdge")))
            out.append(("edge-class-landmark", dict(d, cls="EdgeLandmark", offset=r_pose(rng), offset_id=None)))
        else:
            out.append(("edge-class-landmark", {k: v for k, v in dict(d, cls="EdgeOdometry").items() if k not in ("offset", "offset_id")}))
            out.append(("edge-offset-id", dict(d, offset_id=(d["offset_id"] or 0) + 1)))
            out.append(("edge-offset-id-none", dict(d, offset_id=None if d["offset_id"] is not None else 3)))
            for nme, p in discrete_variants(d["offset"], rng):
                out.append(("edge-offset-" + nme, dict(d, offset=p)))
        e = d["estimate"]
        if e["t"] == "pose":
            for nme, p in discrete_variants(e, rng):
                out.append(("edge-estimate-" + nme, dict(d, estimate=p)))
            out.append(("edge-estimate-pose-vs-array", dict(d, estimate=dict(t="array", shape=[len(e["vals"])], vals=list(e["vals"])))))
        elif e["t"] == "array":
            vals = list(e["vals"])
            out.append(("edge-estimate-shape", dict(d, estimate=dict(t="array", shape=list(e["shape"]) + [1], vals=vals))))
            out.append(("edge-estimate-shape", dict(d, estimate=dict(t="array", shape=[len(vals) + 1], vals=vals + [0.0]))))
            if len(vals) in (2, 3, 7):
                c = {2: "PoseR2", 3: rng.choice(["PoseR3", "PoseSE2"]), 7: "PoseSE3"}[len(vals)]
                out.append(("edge-estimate-pose-vs-array", dict(d, estimate=d_pose(c, vals))))
            if e["shape"] != []:
                out.append(("edge-estimate-array-vs-scalar", dict(d, estimate=dict(t="scalar", vals=[vals[0] if vals else 0.0]))))
        else:
            out.append(("edge-estimate-shape", dict(d, estimate=dict(t="array", shape=[1], vals=list(e["vals"])))))
            out.append(("edge-estimate-shape", dict(d, estimate=dict(t="array", shape=[2], vals=list(e["vals"]) * 2))))
    else:
        es, vs = d["edges"], d["vertices"]
        out.append(("graph-extra-edge", dict(d, edges=es + [r_edge(rng)])))
        out.append(("graph-extra-vertex", dict(d, vertices=vs + [r_vertex(rng)])))
        if es:
            out.append(("graph-fewer-edges", dict(d, edges=es[:-1])))
            i = rng.randrange(len(es))
            n, v = rng.choice(discrete_variants(es[i], rng))
            out.append(("graph-" + n, dict(d, edges=es[:i] + [v] + es[i + 1 :])))
        if vs:
            out.append(("graph-fewer-vertices", dict(d, vertices=vs[:-1])))
            i = rng.randrange(len(vs))
            n, v = rng.choice(discrete_variants(vs[i], rng))
            out.append(("graph-" + n, dict(d, vertices=vs[:i] + [v] + vs[i + 1 :])))
        if len(es) > 1:
            i, j = rng.sample(range(len(es)), 2)
            sw = list(es)
            sw[i], sw[j] = sw[j], sw[i]
            out.append(("graph-edge-order", dict(d, edges=sw)))
        if len(vs) > 1:
            i, j = rng.sample(range(len(vs)), 2)
            sw = list(vs)
            sw[i], sw[j] = sw[j], sw[i]
            out.append(("graph-vertex-order", dict(d, vertices=sw)))
    return out


# ---------------------------------------------------------------------------------------------------------------------


def call(a, b, tol):
    try:
        r = a.equals(b) if tol is None else a.equals(b, tol)
    except Exception as e:  # noqa: BLE001
        return "raises " + type(e).__name__
    return bool(r)


class Search:
    def __init__(self, seed):
        self.found = []
        self.ev = 0
        self.seen = set()
        self.seed = seed

    def expect(self, check, level, da, db, tol, want, extra=None):
        a, b = BUILD[level](da), BUILD[level](db)
        for direction, (x, y) in (("ab", (a, b)), ("ba", (b, a))):
            got = call(x, y, tol)
            self.ev += 1
            if got is want:
                continue
            if isinstance(got, str):
                match = "equals:type-or-shape-mismatch" if check.startswith(("discrete", "pool")) else "equals:raises"
            elif check.startswith(("discrete", "pool")):
                match = "equals:type-or-shape-mismatch" if ("class" in check or "shape" in check or "pose-vs" in check or "array-vs" in check) else "equals:discrete-difference-equal"
            else:
                match = {"copy": "equals:copy-unequal", "small": "equals:small-perturbation-unequal", "large": "equals:large-perturbation-equal"}.get(check, "equals:" + check)
            key = (match, check, level)
            if key in self.seen:
                continue
            self.seen.add(key)
            self.found.append(dict(match=match, check=check, level=level, direction=direction, tol=tol, want=want, got=got, a=da, b=db, extra=extra))

    def symmetric(self, check, level, da, db, tol):
        a, b = BUILD[level](da), BUILD[level](db)
        r1, r2 = call(a, b, tol), call(b, a, tol)
        self.ev += 2
        if r1 != r2 and ("equals:asymmetric", level) not in self.seen:
            self.seen.add(("equals:asymmetric", level))
            self.found.append(dict(match="equals:asymmetric", check=check, level=level, tol=tol, got=[r1, r2], a=da, b=db))


def search(seed, n_rounds):
    warnings.filterwarnings("ignore")
    np.seterr(all="ignore")
    S = Search(seed)
    gens = dict(pose=r_pose, vertex=r_vertex, edge=r_edge, graph=r_graph)
    for it in range(n_rounds):
        rng = Rng(seed, "c17search|%d" % it)
        tol_arg = rng.choice([None, None, 1e-3, 1e-9, 0.5])
        tol = 1e-6 if tol_arg is None else tol_arg
        for level, gen in gens.items():
            d = gen(rng)
            S.expect("copy", level, d, copy.deepcopy(d), tol_arg, True)
            S.expect("small", level, d, perturb_all(d, tol, 1e-4, rng), tol_arg, True)
            big = perturb_one(d, tol, 1e3, rng)
            if big is not None:
                S.expect("large", level, d, big, tol_arg, False)
            for name, dv in discrete_variants(d, rng):
                if "order" in name and level == "graph":
                    # a swap of two elements that are themselves within tolerance changes nothing
                    key = "edges" if "edge" in name else "vertices"
                    lv = "edge" if "edge" in name else "vertex"
                    diff = [i for i, (x, y) in enumerate(zip(d[key], dv[key])) if x is not y]
                    if all(call(BUILD[lv](d[key][i]), BUILD[lv](dv[key][i]), tol_arg) is True for i in diff):
                        continue
                S.expect("discrete:" + name, level, d, dv, tol_arg, False)
        # mixed pools: no pair of well-formed objects raises; far-apart random objects are unequal both ways
        for level, gen in gens.items():
            pool = [gen(rng) for _ in range(6)]
            for i in range(len(pool)):
                for j in range(i + 1, len(pool)):
                    a, b = BUILD[level](pool[i]), BUILD[level](pool[j])
                    for x, y in ((a, b), (b, a)):
                        got = call(x, y, tol_arg)
                        S.ev += 1
                        if isinstance(got, str) and ("pool-raises", level) not in S.seen:
                            S.seen.add(("pool-raises", level))
                            S.found.append(dict(match="equals:type-or-shape-mismatch", check="pool:never-raises", level=level, tol=tol_arg, got=got, a=pool[i], b=pool[j]))
        if len(S.found) >= 6:
            break
    return dict(found=S.found, evaluations=S.ev)


def entry(seed, tier, broken):
    """entry point for tools/check.py (props.py: search=("search.equals", "entry"))"""
    return search(seed, 4000 if (tier == "thorough" or broken) else (900 if tier == "escalated" else 150))


def replay(rep):
    """re-run a recorded witness on the current tree; 1 = reproduces"""
    import json

    w = rep.get("witness")
    if not w:
        print("replay file names a broken theorem/correspondence, not an input:", json.dumps(rep.get("no_longer_checks"))[:1500])
        return 1
    warnings.filterwarnings("ignore")
    a, b = BUILD[w["level"]](w["a"]), BUILD[w["level"]](w["b"])
    r1, r2 = call(a, b, w.get("tol")), call(b, a, w.get("tol"))
    print("check:", w.get("check"), " level:", w["level"], " tol:", w.get("tol"))
    print("a =", json.dumps(w["a"])[:800])
    print("b =", json.dumps(w["b"])[:800])
    print("a.equals(b) ->", r1, "   b.equals(a) ->", r2, "   recorded:", w.get("got"), " expected:", w.get("want", "no exception / same answer both ways"))
    if w["match"] == "equals:asymmetric":
        bad = r1 != r2
    elif "want" in w:
        bad = (r1 is not w["want"]) or (r2 is not w["want"])
    else:
        bad = isinstance(r1, str) or isinstance(r2, str)
    print("REPRODUCED" if bad else "not reproduced on the current tree")
    return 1 if bad else 0


if __name__ == "__main__":
    import json

    r = search(int(os.environ.get("VERIF_SEED", "0")), int(os.environ.get("N", "200")))
    print(json.dumps(dict(evaluations=r["evaluations"], found=[{k: v for k, v in w.items() if k not in ("a", "b")} for w in r["found"]]), indent=1, default=str))
