"""Independent numpy re-implementation of the documented measurement model (C02 search oracle):
homogeneous matrices, Hamilton product — shares no code with graphslam and none with the Lean model."""
import math
import os
import sys

sys.path.insert(0, os.path.join(os.path.dirname(__file__), ".."))
from lib.common import use_repo  # noqa: E402

use_repo()
import numpy as np  # noqa: E402
from graphslam.edge.edge_landmark import EdgeLandmark  # noqa: E402
from graphslam.edge.edge_odometry import EdgeOdometry  # noqa: E402
from graphslam.pose.se2 import PoseSE2  # noqa: E402
from graphslam.pose.se3 import PoseSE3  # noqa: E402


def qmul(a, b):
    """Hamilton product, quaternions as [x, y, z, w]"""
    ax, ay, az, aw = a
    bx, by, bz, bw = b
    return np.array([aw * bx + ax * bw + ay * bz - az * by, aw * by - ax * bz + ay * bw + az * bx, aw * bz + ax * by - ay * bx + az * bw, aw * bw - ax * bx - ay * by - az * bz])


def qconj(a):
    return np.array([-a[0], -a[1], -a[2], a[3]])


def rot(q):
    x, y, z, w = q
    n = x * x + y * y + z * z + w * w
    return np.array([[w * w + x * x - y * y - z * z, 2 * (x * y - z * w), 2 * (x * z + y * w)], [2 * (x * y + z * w), w * w - x * x + y * y - z * z, 2 * (y * z - x * w)], [2 * (x * z - y * w), 2 * (y * z + x * w), w * w - x * x - y * y + z * z]]) / n


def H(p):
    p = np.asarray(p, dtype=np.float64)
    return p


def compose(a, b, kind):
    if kind == "SE2":
        c, s = math.cos(a[2]), math.sin(a[2])
        return np.array([a[0] + c * b[0] - s * b[1], a[1] + s * b[0] + c * b[1], a[2] + b[2]])
    if kind == "SE3":
        t = a[:3] + rot(a[3:]) @ b[:3]
        return np.concatenate([t, qmul(a[3:], b[3:])])
    return a + b


def inverse(a, kind):
    if kind == "SE2":
        c, s = math.cos(a[2]), math.sin(a[2])
        return np.array([-(c * a[0] + s * a[1]), -(-s * a[0] + c * a[1]), -a[2]])
    if kind == "SE3":
        R = rot(a[3:])
        return np.concatenate([-(R.T @ a[:3]), qconj(a[3:])])
    return -a


def act(a, x, kind):
    if kind == "SE2":
        c, s = math.cos(a[2]), math.sin(a[2])
        return np.array([a[0] + c * x[0] - s * x[1], a[1] + s * x[0] + c * x[1]])
    if kind == "SE3":
        return a[:3] + rot(a[3:]) @ x
    return a + x


def kind_of(p):
    if isinstance(p, PoseSE2):
        return "SE2"
    if isinstance(p, PoseSE3):
        return "SE3"
    return "R"


def edge_error(e):
    """documented error of a built-in edge, from the independent model; None for other edge types"""
    if type(e) is EdgeOdometry:
        p0, p1, z = (np.asarray(x, dtype=np.float64) for x in (e.vertices[0].pose, e.vertices[1].pose, e.estimate))
        k = kind_of(e.vertices[0].pose)
        delta = compose(inverse(p0, k), p1, k)
        E = compose(inverse(delta, k), z, k)
        if k == "SE2":
            return np.array([E[0], E[1], math.remainder(E[2], 2 * math.pi)])
        if k == "SE3":
            return E[:6]
        return E
    if type(e) is EdgeLandmark:
        p0, off, l, z = (np.asarray(x, dtype=np.float64) for x in (e.vertices[0].pose, e.offset, e.vertices[1].pose, e.estimate))
        k = kind_of(e.vertices[0].pose)
        s = compose(p0, off, k)
        return act(inverse(s, k), l, k) - z
    return None


def edge_chi2(e, err=None):
    err = edge_error(e) if err is None else err
    if err is None:
        err = np.asarray(e.calc_error(), dtype=np.float64)
    return float(err @ np.asarray(e.information) @ err)
