"""Implementation-level oracles for the optimiser properties (C03, C04, C05, C06, C12, C15, C16), independent of the
Lean model: dense numpy re-computation from the real edges' own calc_error / calc_jacobians, direct before/after
comparisons, and the property sentences re-implemented."""
import contextlib
import io
import math
import os
import sys
import warnings

sys.path.insert(0, os.path.join(os.path.dirname(__file__), ".."))
from lib.common import Rng, use_repo  # noqa: E402
from lib import graphgen as G  # noqa: E402

use_repo()
import numpy as np  # noqa: E402

EPS = float(np.finfo(float).eps)


def quiet_optimize(g, **kw):
    with warnings.catch_warnings():
        warnings.simplefilter("ignore")
        if kw.get("verbose"):
            with contextlib.redirect_stdout(io.StringIO()):
                return g.optimize(**kw)
        kw.setdefault("verbose", False)
        return g.optimize(**kw)


def poses(g):
    return [np.array(v.pose) for v in g._vertices]


def same_bits(a, b):
    return all(x.tobytes() == y.tobytes() for x, y in zip(a, b))


# ----------------------------------------------------------------------------- C12


def search_report(seed, n):
    ev = 0
    for k in range(n):
        rng = Rng(seed, "c12search|%d" % k)
        g, desc = G.make_graph(rng, noise=rng.choice([0.02, 0.3, 1.5]), well_posed=True, fix=rng.choice(["first", "random"]))
        tol = rng.choice([0.0, 1e-10, 1e-6, 1e-3, 1e-1])
        mi = rng.randrange(1, 9)
        ffp = rng.random() < 0.5
        chi0 = float(G.rebuild(desc).calc_chi2())
        r = quiet_optimize(g, tol=tol, max_iter=mi, fix_first_pose=ffp)
        ev += 1
        w = lambda what, **kw: dict(kind="report", what=what, match="report:" + what, tol=tol, max_iter=mi, fix_first_pose=ffp, desc=desc, **kw)
        if not all(math.isfinite(x) for x in [r.initial_chi2, r.final_chi2]):
            continue
        if float(r.initial_chi2) != chi0:
            return w("initial_chi2", reported=float(r.initial_chi2), actual=chi0), ev
        if float(r.final_chi2) != float(g.calc_chi2()):
            return w("final_chi2", reported=float(r.final_chi2), actual=float(g.calc_chi2())), ev
        # chi2 of the state after j updates, from independent shorter runs
        n_it = r.num_iterations
        chis = [chi0]
        for j in range(1, n_it + 1):
            gj = G.rebuild(desc)
            quiet_optimize(gj, tol=0.0, max_iter=j, fix_first_pose=ffp)
            chis.append(float(gj.calc_chi2()))
        for j in range(n_it):
            it = r.iteration_results[j]
            if it.chi2 is None or float(it.chi2) != chis[j + 1]:
                return w("iteration_chi2", iteration=j, reported=None if it.chi2 is None else float(it.chi2), actual=chis[j + 1]), ev
        if float(r.final_chi2) != chis[n_it]:
            return w("final_is_state_chi2", reported=float(r.final_chi2), actual=chis[n_it]), ev

        def stop(i):
            prev, cur = chis[i - 1], chis[i]
            return cur <= prev and (prev - cur) / (prev + EPS) < tol

        # the documented rule, re-implemented: first i in 1..mi-1 with stop(i), else mi  (needs chi2 beyond n_it only if wrong)
        first = next((i for i in range(1, n_it) if stop(i)), None)
        if first is not None:
            return w("stopped_late", expected_stop=first, reported=n_it), ev
        if n_it < mi and not stop(n_it):
            return w("stopped_without_reason", reported=n_it), ev
        if n_it > mi:
            return w("exceeded_max_iter", reported=n_it), ev
        if bool(r.converged) != bool(stop(n_it)):
            return w("converged_flag", reported=bool(r.converged), expected=bool(stop(n_it))), ev
        explen = n_it + 1 if n_it < mi else mi
        if len(r.iteration_results) != explen:
            return w("len_iteration_results", reported=len(r.iteration_results), expected=explen), ev
        # verbose does not alter results
        g2 = G.rebuild(desc)
        r2 = quiet_optimize(g2, tol=tol, max_iter=mi, fix_first_pose=ffp, verbose=True)
        if not same_bits(poses(g), poses(g2)) or r2.num_iterations != r.num_iterations or float(r2.final_chi2) != float(r.final_chi2):
            return w("verbose_changes_result"), ev
        # split run (tol = 0): k1 then k2 iterations == k1 + k2 iterations
        k1 = rng.randrange(1, 4)
        k2 = rng.randrange(1, 4)
        ga, gb = G.rebuild(desc), G.rebuild(desc)
        quiet_optimize(ga, tol=0.0, max_iter=k1, fix_first_pose=ffp)
        rb2 = quiet_optimize(ga, tol=0.0, max_iter=k2, fix_first_pose=ffp)
        rb = quiet_optimize(gb, tol=0.0, max_iter=k1 + k2, fix_first_pose=ffp)
        if all(np.all(np.isfinite(p)) for p in poses(gb)):
            if not same_bits(poses(ga), poses(gb)) or float(rb2.final_chi2) != float(rb.final_chi2):
                return w("split_run", k1=k1, k2=k2), ev
    return None, ev


# ----------------------------------------------------------------------------- C03 / C06


def dense_normal_equations(g):
    """H* = Σ J̄ᵀ Ω J̄, b* = Σ J̄ᵀ Ω e from the real edges' own errors and Jacobians"""
    N = g._len_gradient
    H = np.zeros((N, N))
    b = np.zeros(N)
    for e in g._edges:
        err = np.asarray(e.calc_error(), dtype=np.float64).ravel()
        m = len(err)
        Jbar = np.zeros((m, N))
        for v, J in zip(e.vertices, e.calc_jacobians()):
            J = np.asarray(J, dtype=np.float64)
            Jbar[:, v.gradient_index : v.gradient_index + J.shape[1]] += J
        Om = np.asarray(e.information, dtype=np.float64)
        H += Jbar.T @ Om @ Jbar
        b += Jbar.T @ Om @ err
    return H, b


def search_step(seed, n):
    """one iteration == Gauss-Newton step on the free vertices; fixed vertices unchanged"""
    ev = 0
    skipped = 0
    for k in range(n):
        rng = Rng(seed, "c03search|%d" % k)
        g, desc = G.make_graph(rng, noise=rng.choice([0.05, 0.3]), well_posed=True, fix=rng.choice(["first", "random"]))
        ffp = rng.random() < 0.5
        if ffp:
            g._vertices[0].fixed = True
        # edges naming the same vertex twice are outside C03's quantifier
        H, b = dense_normal_equations(g)
        free = np.concatenate([np.arange(v.gradient_index, v.gradient_index + v.pose.COMPACT_DIMENSIONALITY) for v in g._vertices if not v.fixed] or [np.array([], dtype=int)]).astype(int)
        before = [(v, np.array(v.pose)) for v in g._vertices]
        quiet_optimize(g, tol=0.0, max_iter=1, fix_first_pose=False)
        ev += 1
        for v, p0 in before:
            if v.fixed and np.array(v.pose).tobytes() != p0.tobytes():
                return dict(kind="step", what="fixed vertex moved", match="fixed-vertex-moved", vertex=v.id, desc=desc), ev, skipped
        if len(free) == 0:
            continue
        Hf, bf = H[np.ix_(free, free)], b[free]
        cond = np.linalg.cond(Hf)
        if not cond < 1e9:
            skipped += 1
            continue
        dxf = -np.linalg.solve(Hf, bf)
        dx = np.zeros(len(b))
        dx[free] = dxf
        for v, p0 in before:
            if v.fixed:
                continue
            c = v.pose.COMPACT_DIMENSIONALITY
            exp = np.asarray(G.mk_pose(type(v.pose).__name__, p0) + dx[v.gradient_index : v.gradient_index + c])
            got = np.asarray(v.pose)
            d = got - exp
            if type(v.pose).__name__ == "PoseSE2":
                d[2] = math.remainder(d[2], 2 * math.pi)
            if not np.max(np.abs(d)) <= 1e-7 * max(1.0, cond * 1e-5) * (1 + np.max(np.abs(exp))):
                return dict(kind="step", what="pose after one iteration is not the Gauss-Newton step", match="gn-step", vertex=v.id, expected=exp.tolist(), got=got.tolist(), cond=float(cond), desc=desc), ev, skipped
    return None, ev, skipped


def search_fixed(seed, n):
    """fixed vertices never move in any outcome; flags as documented; fixing keeps the problem solvable"""
    ev = 0
    outcomes = {}
    for k in range(n):
        rng = Rng(seed, "c06search|%d" % k)
        scenario = rng.choice(["normal", "isolated-fixed", "unanchored", "all-fixed", "diverge", "none-fixed"])
        g, desc = G.make_graph(rng, noise=rng.choice([0.05, 0.5]) if scenario != "diverge" else 3.0, well_posed=(scenario in ("normal", "isolated-fixed", "diverge")), fix="random" if scenario != "none-fixed" else "none", world=(rng.choice(["3d", "2d"]) if scenario == "diverge" else None))
        if scenario == "isolated-fixed":
            cname = desc["vertices"][0]["cls"]
            desc["vertices"].insert(rng.randrange(len(desc["vertices"]) + 1), dict(id=10**7 + k, cls=cname, vals=G.rand_pose_vals(rng, cname), fixed=True, truth=None))
        if scenario == "all-fixed":
            for v in desc["vertices"]:
                v["fixed"] = True
        if scenario == "unanchored":
            for v in desc["vertices"][1:]:
                v["fixed"] = False
        g = G.rebuild(desc)
        ffp = rng.random() < 0.5
        flags0 = [v.fixed for v in g._vertices]
        before = poses(g)
        r = None
        try:
            r = quiet_optimize(g, tol=rng.choice([0.0, 1e-6, 1e-2]), max_iter=rng.randrange(1, 8), fix_first_pose=ffp)
        except Exception as e:  # noqa
            return dict(kind="fixed", what="optimize raised %s" % type(e).__name__, match="optimize-raised", scenario=scenario, desc=desc), ev, outcomes
        ev += 1
        oc = "nan" if not math.isfinite(float(r.final_chi2)) else "converged" if r.converged else "limit"
        outcomes[scenario + ":" + oc] = outcomes.get(scenario + ":" + oc, 0) + 1
        flags1 = [v.fixed for v in g._vertices]
        exp_flags = list(flags0)
        if ffp:
            exp_flags[0] = True
        if flags1 != exp_flags:
            return dict(kind="fixed", what="fixed flags changed", match="fixed-flags", scenario=scenario, before=flags0, after=flags1, fix_first_pose=ffp, desc=desc), ev, outcomes
        for v, p0, p1 in zip(g._vertices, before, poses(g)):
            if v.fixed and p0.tobytes() != p1.tobytes():
                return dict(kind="fixed", what="fixed vertex moved", match="fixed-vertex-moved", scenario=scenario, vertex=v.id, before=p0.tolist(), after=p1.tolist(), fix_first_pose=ffp, desc=desc), ev, outcomes
        if scenario == "isolated-fixed" and oc == "nan":
            # the same graph without the extra fixed vertex must also be NaN, else fixing made it unsolvable
            d2 = dict(desc)
            d2["vertices"] = [v for v in desc["vertices"] if v["id"] < 10**7]
            g2 = G.rebuild(d2)
            r2 = quiet_optimize(g2, tol=0.0, max_iter=2, fix_first_pose=ffp)
            if math.isfinite(float(r2.final_chi2)):
                return dict(kind="fixed", what="an unconstrained fixed vertex made a well-posed problem unsolvable", match="fixed-vertex-singular", scenario=scenario, desc=desc), ev, outcomes
    return None, ev, outcomes


# ----------------------------------------------------------------------------- C16


def search_numjac(seed, n):
    """numerical Jacobians vs analytic ones of the same edge; twin graphs converge to the same optimum"""
    from graphslam.edge.base_edge import BaseEdge

    ev = 0
    worst = 0.0
    eps = BaseEdge._NUMERICAL_DIFFERENTIATION_EPSILON
    for k in range(n):
        rng = Rng(seed, "c16search|%d" % k)
        g, desc = G.make_graph(rng, noise=rng.choice([0.02, 0.1]), well_posed=True, custom=True, fix="first")
        for ei, e in enumerate(g._edges):
            if type(e).__name__ == "DistanceEdge":
                continue  # no analytic twin on this object (its twin class is checked through the graph twin below)
            Jn = BaseEdge.calc_jacobians(e)
            Ja = e.calc_jacobians()
            ev += 1
            for a, b in zip(Jn, Ja):
                a, b = np.asarray(a), np.asarray(b)
                if a.shape != b.shape:
                    return dict(kind="numjac", what="shape", match="numjac-shape", edge=desc["edges"][ei], desc=desc), ev, worst
                # second-derivative scale: poses are O(5), errors are at most quadratic in them
                mag = 1 + max(float(np.max(np.abs(np.asarray(v.pose)))) for v in e.vertices) + float(np.max(np.abs(np.asarray(e.estimate, dtype=np.float64))))
                tol = 10 * eps * mag * mag + 1e-9 * mag / eps * 1e-6
                dev = float(np.max(np.abs(a - b))) if a.size else 0.0
                worst = max(worst, dev / tol)
                if not dev <= tol:
                    return dict(kind="numjac", what="numerical Jacobian differs from the analytic one by more than a 1e-6 forward difference allows", match="numjac-accuracy", deviation=dev, tol=tol, edge=desc["edges"][ei], desc=desc), ev, worst
        # twin graphs: every analytic custom edge replaced by its numerical twin (and vice versa)
        if any(e["kind"].startswith("custom") for e in desc["edges"]) and desc["world"] != "mixed":
            d1 = dict(desc, edges=[dict(e, kind="custom_num") if e["kind"].startswith("custom") else e for e in desc["edges"]])
            d2 = dict(desc, edges=[dict(e, kind="custom_ana") if e["kind"].startswith("custom") else e for e in desc["edges"]])
            g1, g2 = G.rebuild(d1), G.rebuild(d2)
            r1 = quiet_optimize(g1, tol=1e-10, max_iter=40)
            r2 = quiet_optimize(g2, tol=1e-10, max_iter=40)
            ev += 1
            if r1.converged and r2.converged and math.isfinite(r1.final_chi2) and math.isfinite(r2.final_chi2):
                dc = abs(r1.final_chi2 - r2.final_chi2)
                if not dc <= 1e-5 * (1 + abs(r2.final_chi2)):
                    return dict(kind="numjac", what="graphs with numerical and analytic Jacobians reach different optima", match="numjac-optimum", chi2_num=float(r1.final_chi2), chi2_ana=float(r2.final_chi2), desc=desc), ev, worst
    return None, ev, worst
