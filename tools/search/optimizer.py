"""Implementation-level oracles for the optimiser properties (C03, C04, C05, C06, C12, C15, C16), independent of the
Lean model: dense numpy re-computation from the real edges' own calc_error / calc_jacobians, direct before/after
comparisons, and the property sentences re-implemented."""
import contextlib
import io
import math
import os
import sys
import warnings

sys.path.insert(0, os.path.join(os.path.dirname(__file__), ".."))
from lib.common import Rng, use_repo  # noqa: E402
from lib import graphgen as G  # noqa: E402

use_repo()
import numpy as np  # noqa: E402

EPS = float(np.finfo(float).eps)


def quiet_optimize(g, **kw):
    with warnings.catch_warnings():
        warnings.simplefilter("ignore")
        if kw.get("verbose"):
            with contextlib.redirect_stdout(io.StringIO()):
                return g.optimize(**kw)
        kw.setdefault("verbose", False)
        return g.optimize(**kw)


def poses(g):
    return [np.array(v.pose) for v in g._vertices]


def same_bits(a, b):
    return all(x.tobytes() == y.tobytes() for x, y in zip(a, b))


# ----------------------------------------------------------------------------- C12


def search_report(seed, n):
    ev = 0
    warnings.simplefilter("ignore")  # overflow / invalid-value RuntimeWarnings of the deliberately non-finite scenarios
    for k in range(n):
        rng = Rng(seed, "c12search|%d" % k)
        g, desc = G.make_graph(rng, noise=rng.choice([0.02, 0.3, 1.5]), well_posed=True, fix=rng.choice(["first", "random"]))
        tol = rng.choice([0.0, 1e-10, 1e-6, 1e-3, 1e-1])
        mi = rng.randrange(1, 9)
        ffp = rng.random() < 0.5
        # runs that pass through a non-finite chi2 are runs too (the property quantifies over diverging runs):
        #   overflow  - information ~1e300: the first chi2 is inf while H and b stay finite, so the run recovers
        #   singular  - no vertex fixed: the solver returns NaN, every later chi2 is NaN
        #   tiny      - information ~1e-9..1e-12: chi2 far below tol (the test is *relative*)
        scenario = rng.choice(["plain", "plain", "plain", "overflow", "singular", "tiny"])
        if scenario == "overflow":
            for e in desc["edges"]:
                e["info"] = (np.asarray(e["info"], dtype=np.float64) * 1e300).tolist()
            for v in desc["vertices"]:
                if not v.get("fixed") and v["cls"] in ("PoseR2", "PoseR3", "PoseSE2"):
                    v["vals"] = [x + (40.0 if i < 2 else 0.0) for i, x in enumerate(v["vals"])]
        elif scenario == "singular":
            for v in desc["vertices"]:
                v["fixed"] = False
            ffp = False
        elif scenario == "tiny":
            sc = 10 ** rng.uniform(-12, -7)
            for e in desc["edges"]:
                e["info"] = (np.asarray(e["info"], dtype=np.float64) * sc).tolist()
        if scenario != "plain":
            g = G.rebuild(desc)
        same = lambda a, b: a == b or (isinstance(a, float) and isinstance(b, float) and math.isnan(a) and math.isnan(b))
        chi0 = float(G.rebuild(desc).calc_chi2())
        r = quiet_optimize(g, tol=tol, max_iter=mi, fix_first_pose=ffp)
        ev += 1
        w = lambda what, **kw: dict(kind="report", what=what, match="report:" + what, tol=tol, max_iter=mi, fix_first_pose=ffp, scenario=scenario, desc=desc, **kw)
        if not same(float(r.initial_chi2), chi0):
            return w("initial_chi2", reported=float(r.initial_chi2), actual=chi0), ev
        if not same(float(r.final_chi2), float(g.calc_chi2())):
            return w("final_chi2", reported=float(r.final_chi2), actual=float(g.calc_chi2())), ev
        # chi2 of the state after j updates, from independent shorter runs
        n_it = r.num_iterations
        chis = [chi0]
        for j in range(1, n_it + 1):
            gj = G.rebuild(desc)
            quiet_optimize(gj, tol=0.0, max_iter=j, fix_first_pose=ffp)
            chis.append(float(gj.calc_chi2()))
        if len(r.iteration_results) < n_it:
            return w("len_iteration_results", reported=len(r.iteration_results), num_iterations=n_it), ev
        for j in range(n_it):
            it = r.iteration_results[j]
            if it.chi2 is None or not same(float(it.chi2), chis[j + 1]):
                return w("iteration_chi2", iteration=j, reported=None if it.chi2 is None else float(it.chi2), actual=chis[j + 1]), ev
        if not same(float(r.final_chi2), chis[n_it]):
            return w("final_is_state_chi2", reported=float(r.final_chi2), actual=chis[n_it]), ev

        def stop(i):
            prev, cur = chis[i - 1], chis[i]
            return cur <= prev and (prev - cur) / (prev + EPS) < tol

        # the documented rule, re-implemented: first i in 1..mi-1 with stop(i), else mi  (needs chi2 beyond n_it only if wrong)
        first = next((i for i in range(1, n_it) if stop(i)), None)
        if first is not None:
            return w("stopped_late", expected_stop=first, reported=n_it), ev
        if n_it < mi and not stop(n_it):
            return w("stopped_without_reason", reported=n_it), ev
        if n_it > mi:
            return w("exceeded_max_iter", reported=n_it), ev
        if bool(r.converged) != bool(stop(n_it)):
            return w("converged_flag", reported=bool(r.converged), expected=bool(stop(n_it))), ev
        explen = n_it + 1 if n_it < mi else mi
        if len(r.iteration_results) != explen:
            return w("len_iteration_results", reported=len(r.iteration_results), expected=explen), ev
        # verbose does not alter results
        g2 = G.rebuild(desc)
        r2 = quiet_optimize(g2, tol=tol, max_iter=mi, fix_first_pose=ffp, verbose=True)
        if not same_bits(poses(g), poses(g2)) or r2.num_iterations != r.num_iterations or not same(float(r2.final_chi2), float(r.final_chi2)):
            return w("verbose_changes_result"), ev
        # the stopping rule exactly at its boundary: tol just above / at the relative decrease of a deciding iteration j,
        # with max_iter = j (the decision is taken after the loop) and max_iter = j + 2 (taken inside the loop)
        if scenario == "plain" and len(chis) >= 2:
            gfull = G.rebuild(desc)
            depth = max(n_it, min(mi, 4))
            seq = [chi0]
            for j2 in range(1, depth + 1):
                gj = G.rebuild(desc)
                quiet_optimize(gj, tol=0.0, max_iter=j2, fix_first_pose=ffp)
                seq.append(float(gj.calc_chi2()))
            del gfull
            j = rng.randrange(1, depth + 1)
            prev, cur = seq[j - 1], seq[j]
            if all(map(math.isfinite, seq)) and cur < prev:
                dj = (prev - cur) / (prev + EPS)
                alt = (prev - cur) / (cur + EPS)  # the same decrease measured against the wrong chi2
                cands = [float(np.nextafter(dj, np.inf)), dj, dj * (1 + 1e-9), 0.5 * (dj + alt) if alt > dj else dj * (1 + 1e-6)]
                for tb in cands:
                    for mib in (j, j + 2):
                        gb_ = G.rebuild(desc)
                        rb_ = quiet_optimize(gb_, tol=tb, max_iter=mib, fix_first_pose=ffp)
                        ev += 1

                        def stopb(i):
                            return seq[i] <= seq[i - 1] and (seq[i - 1] - seq[i]) / (seq[i - 1] + EPS) < tb

                        lim = min(mib, len(seq) - 1)
                        firstb = next((i for i in range(1, lim + 1) if i < mib and stopb(i)), None)
                        if firstb is None and mib > lim:
                            continue  # the run goes beyond the states computed here
                        exp_n = firstb if firstb is not None else mib
                        exp_conv = True if firstb is not None else bool(stopb(mib))
                        if rb_.num_iterations != exp_n or bool(rb_.converged) != exp_conv:
                            return w("boundary_rule", boundary_tol=tb, boundary_max_iter=mib, deciding_iteration=j, chi2_sequence=seq, reported=dict(num_iterations=rb_.num_iterations, converged=bool(rb_.converged)),
                                     expected=dict(num_iterations=exp_n, converged=exp_conv)), ev
        # no hidden state across calls: after a run, the caller changes what is visible (fixes a further vertex, releases one,
        # keeps at least one fixed) - the next call must behave exactly like the first call on a fresh Graph built from the same
        # visible state (poses, flags, edges)
        if scenario == "plain" and all(np.all(np.isfinite(p)) for p in poses(g)):
            fr = [v for v in g._vertices if not v.fixed]
            fx = [v for v in g._vertices if v.fixed]
            if fr and rng.random() < 0.7:
                rng.choice(fr).fixed = True
            if len(fx) > 1 and rng.random() < 0.5:
                rng.choice(fx).fixed = False
            # ... and / or re-seeds a vertex estimate, replaces a measurement (public attributes), after an extra calc_chi2()
            edit = rng.choice(["none", "pose", "pose", "measurement"])
            edited_edge = None
            if rng.random() < 0.5:
                g.calc_chi2()
            if edit == "pose":
                fr2 = [v for v in g._vertices if not v.fixed]
                if fr2:
                    vv = rng.choice(fr2)
                    vv.pose = vv.pose + np.array([rng.gauss(0, 0.2) for _ in range(vv.pose.COMPACT_DIMENSIONALITY)])
            elif edit == "measurement":
                cand = [(i, e) for i, e in enumerate(g._edges) if type(e).__name__ in ("EdgeOdometry", "EdgeLandmark")]
                if cand:
                    ei, ee = rng.choice(cand)
                    edited_edge = ei
                    ee.estimate = ee.estimate + np.array([rng.gauss(0, 0.1) for _ in range(ee.estimate.COMPACT_DIMENSIONALITY)])
                    desc = dict(desc, edges=[dict(ed, est=(np.asarray(ee.estimate).tolist() if j == ei else ed["est"])) for j, ed in enumerate(desc["edges"])])
            d2 = dict(desc)
            d2["vertices"] = [dict(vd, vals=np.asarray(v.pose).tolist(), fixed=bool(v.fixed)) for vd, v in zip(desc["vertices"], g._vertices)]
            gfresh = G.rebuild(d2)
            for vf, v in zip(gfresh._vertices, g._vertices):
                vf.pose[:] = np.asarray(v.pose)  # identical bits (the SE(2) constructor re-wraps the angle)
            if edited_edge is not None:
                gfresh._edges[edited_edge].estimate[:] = np.asarray(g._edges[edited_edge].estimate)
            kk = rng.randrange(1, 4)
            ra = quiet_optimize(g, tol=0.0, max_iter=kk, fix_first_pose=False)
            rf = quiet_optimize(gfresh, tol=0.0, max_iter=kk, fix_first_pose=False)
            ev += 1
            if all(np.all(np.isfinite(p)) for p in poses(gfresh)):
                rep = lambda r_: [float(r_.initial_chi2), float(r_.final_chi2), r_.num_iterations, bool(r_.converged)] + [None if it.chi2 is None else float(it.chi2) for it in r_.iteration_results]
                if not same_bits(poses(g), poses(gfresh)) or not all(same(x, y) for x, y in zip(rep(ra), rep(rf))) or len(rep(ra)) != len(rep(rf)):
                    return w("hidden_state_across_calls", iterations=kk, edit=edit, used_graph_report=rep(ra), fresh_graph_report=rep(rf), state=d2), ev
        # split run (tol = 0): k1 then k2 iterations == k1 + k2 iterations
        k1 = rng.randrange(1, 4)
        k2 = rng.randrange(1, 4)
        ga, gb = G.rebuild(desc), G.rebuild(desc)
        quiet_optimize(ga, tol=0.0, max_iter=k1, fix_first_pose=ffp)
        rb2 = quiet_optimize(ga, tol=0.0, max_iter=k2, fix_first_pose=ffp)
        rb = quiet_optimize(gb, tol=0.0, max_iter=k1 + k2, fix_first_pose=ffp)
        if all(np.all(np.isfinite(p)) for p in poses(gb)):
            if not same_bits(poses(ga), poses(gb)) or float(rb2.final_chi2) != float(rb.final_chi2):
                return w("split_run", k1=k1, k2=k2), ev
    return None, ev


def search_report_custom_chi2(seed, n):
    """graphs containing edges whose class overrides calc_chi2 (a Huber-type robust kernel): initial / per-iteration / final chi2
    of the report equal Graph.calc_chi2() of the corresponding states"""
    from graphslam.edge.edge_odometry import EdgeOdometry

    class RobustOdometry(EdgeOdometry):
        def calc_chi2(self):
            c = float(EdgeOdometry.calc_chi2(self))
            return c if c <= 1.0 else 2.0 * math.sqrt(c) - 1.0

    ev = 0
    for k in range(n):
        rng = Rng(seed, "c12robust|%d" % k)
        _, desc = G.make_graph(rng, noise=rng.choice([0.3, 1.5]), well_posed=True, fix="first", custom=False)
        pick = [i for i, e in enumerate(desc["edges"]) if e["kind"] == "odometry" and rng.random() < 0.5]
        if not pick:
            continue

        def rb():
            gg = G.rebuild(desc)
            for i in pick:
                gg._edges[i].__class__ = RobustOdometry
            return gg

        tol, mi = rng.choice([0.0, 1e-6, 1e-2]), rng.randrange(1, 6)
        g = rb()
        chi0 = float(rb().calc_chi2())
        r = quiet_optimize(g, tol=tol, max_iter=mi, fix_first_pose=True)
        ev += 1
        same = lambda a, b: a == b or (math.isnan(a) and math.isnan(b)) or abs(a - b) <= 1e-12 * (1 + abs(b))
        w = lambda what, **kw: dict(kind="report", what=what, match="report:custom-chi2:" + what, tol=tol, max_iter=mi, robust_edges=pick, desc=desc, **kw)
        if not same(float(r.initial_chi2), chi0):
            return w("initial_chi2", reported=float(r.initial_chi2), actual=chi0), ev
        if not same(float(r.final_chi2), float(g.calc_chi2())):
            return w("final_chi2", reported=float(r.final_chi2), actual=float(g.calc_chi2())), ev
        for j in range(1, r.num_iterations + 1):
            gj = rb()
            quiet_optimize(gj, tol=0.0, max_iter=j, fix_first_pose=True)
            cj = float(gj.calc_chi2())
            it = r.iteration_results[j - 1]
            if it.chi2 is None or not same(float(it.chi2), cj):
                return w("iteration_chi2", iteration=j - 1, reported=None if it.chi2 is None else float(it.chi2), actual=cj), ev
    return None, ev


# ----------------------------------------------------------------------------- C03 / C06


def dense_normal_equations(g):
    """H* = Σ J̄ᵀ Ω J̄, b* = Σ J̄ᵀ Ω e from the real edges' own errors and Jacobians"""
    N = g._len_gradient
    H = np.zeros((N, N))
    b = np.zeros(N)
    for e in g._edges:
        err = np.asarray(e.calc_error(), dtype=np.float64).ravel()
        m = len(err)
        Jbar = np.zeros((m, N))
        for v, J in zip(e.vertices, e.calc_jacobians()):
            J = np.asarray(J, dtype=np.float64)
            Jbar[:, v.gradient_index : v.gradient_index + J.shape[1]] += J
        Om = np.asarray(e.information, dtype=np.float64)
        H += Jbar.T @ Om @ Jbar
        b += Jbar.T @ Om @ err
    return H, b


def _numeric_edges_ok(g):
    """None, or a description of an edge (one that inherits BaseEdge.calc_jacobians) whose reported Jacobian is not the
    derivative of its error along box-plus (independent Romberg central difference, relative 1e-4)"""
    from graphslam.edge.base_edge import BaseEdge
    from lib.numdiff import jac

    for ei, e in enumerate(g._edges):
        if type(e).calc_jacobians is not BaseEdge.calc_jacobians:
            continue
        Js = [np.asarray(j, dtype=np.float64) for j in e.calc_jacobians()]
        for kk, v in enumerate(e.vertices):
            p = v.pose
            c = p.COMPACT_DIMENSIONALITY

            def f(d, kk=kk, p=p):
                e.vertices[kk].pose = p + d
                try:
                    return np.atleast_1d(np.asarray(e.calc_error(), dtype=np.float64))
                finally:
                    e.vertices[kk].pose = p

            num = jac(f, np.zeros(c), h0=1e-3)
            ana = Js[kk].reshape(num.shape) if Js[kk].size == num.size else Js[kk]
            if ana.shape != num.shape or not np.max(np.abs(ana - num)) <= 1e-4 * (1.0 + np.max(np.abs(num))):
                return dict(edge_index=ei, edge_class=type(e).__name__, vertex=v.id, reported=np.asarray(ana).tolist(), central_difference=num.tolist(), pose=np.asarray(p).tolist())
    return None


def search_step(seed, n):
    """one iteration == Gauss-Newton step on the free vertices; fixed vertices unchanged.  Each graph is stepped up to
    three times *on the same Graph object*, the caller changing the fixed flags in between (vertices that were free become
    fixed and vice versa): every call is the Gauss-Newton step of the problem as it stands at that call."""
    ev = 0
    skipped = 0
    for k in range(n):
        rng = Rng(seed, "c03search|%d" % k)
        g, desc = G.make_graph(rng, noise=rng.choice([0.05, 0.3]), well_posed=True, fix=rng.choice(["first", "random"]))
        if rng.random() < 0.25:
            # the same edge objects were used for an earlier Graph over other Vertex objects (which was then optimised): the
            # new graph's step is computed from, and applied to, the new graph's own vertices
            from graphslam.graph import Graph as _Graph
            from graphslam.vertex import Vertex as _Vertex

            try:
                quiet_optimize(g, tol=0.0, max_iter=2, fix_first_pose=False)
            except Exception:  # noqa
                pass
            vs = [_Vertex(v["id"], G.mk_pose(v["cls"], v["vals"]), fixed=bool(v["fixed"])) for v in desc["vertices"]]
            perm = list(range(len(vs)))
            if desc["world"] != "mixed":
                rng.shuffle(perm)
            g = _Graph(list(g._edges), [vs[i] for i in perm])
            desc = dict(desc, reused_edges=True, vertex_order=perm)
        if rng.random() < 0.2 and not any(e["kind"].startswith("custom") for e in desc["edges"]):
            # (not with distance edges: the distance between two vertices at the same place is not differentiable)
            by_cls = {}
            for v in g._vertices:
                by_cls.setdefault(type(v.pose).__name__, []).append(v)
            grp = [vs_ for vs_ in by_cls.values() if len(vs_) >= 2]
            if grp:
                vs_ = rng.choice(grp)
                for v in vs_[1:]:
                    v.pose = vs_[0].pose  # one shared initial-guess object
                desc = dict(desc, shared_pose_object=[v.id for v in vs_])
        for rnd in range(rng.choice([1, 2, 3])):
            # fix_first_pose is passed to optimize() itself: the free set is the caller's flags plus the first vertex
            ffp = rng.random() < 0.5
            if rnd > 0:
                # the caller edits the flags between two calls: mostly growing the fixed set, sometimes releasing vertices
                # (one originally fixed vertex per connected component stays fixed, so the problem stays well posed)
                keep = [v for v in g._vertices if v.fixed]
                for v in g._vertices:
                    if not v.fixed and rng.random() < 0.35:
                        v.fixed = True
                    elif v.fixed and rng.random() < 0.15 and len(keep) > 1 and desc["world"] != "mixed":
                        v.fixed = False
                        keep.remove(v)
            flags_before = [bool(v.fixed) for v in g._vertices]
            want_fixed = [f or (ffp and i == 0) for i, f in enumerate(flags_before)]
            w = dict(call=rnd + 1, fix_first_pose=ffp, fixed=[v.id for v, f in zip(g._vertices, want_fixed) if f])
            # edges naming the same vertex twice are outside C03's quantifier
            if rnd == 0 and k % 4 == 0:
                badj = _numeric_edges_ok(g)
                ev += 1
                if badj:
                    return dict(kind="step", what="a numerically differentiated edge reports a Jacobian that is not the derivative of its error: b and H are not sum J^T Omega e / J^T Omega J", match="gn-step:numeric-jacobian", desc=desc, **dict(w, **badj)), ev, skipped
            H, b = dense_normal_equations(g)
            free = np.concatenate([np.arange(v.gradient_index, v.gradient_index + v.pose.COMPACT_DIMENSIONALITY) for v, f in zip(g._vertices, want_fixed) if not f] or [np.array([], dtype=int)]).astype(int)
            before = [(v, np.array(v.pose)) for v in g._vertices]
            try:
                quiet_optimize(g, tol=0.0, max_iter=1, fix_first_pose=ffp)
            except Exception as ex:  # noqa
                return dict(kind="step", what="optimize raised %s: %s" % (type(ex).__name__, ex), match="optimize-raised", desc=desc, **w), ev, skipped
            ev += 1
            if [bool(v.fixed) for v in g._vertices] != want_fixed:
                return dict(kind="step", what="fixed flags after the call are not the caller's flags plus the first vertex when fix_first_pose", match="fixed-flags", flags=[bool(v.fixed) for v in g._vertices], expected=want_fixed, desc=desc, **w), ev, skipped
            for v, p0 in before:
                if v.fixed and np.array(v.pose).tobytes() != p0.tobytes():
                    return dict(kind="step", what="fixed vertex moved", match="fixed-vertex-moved", vertex=v.id, desc=desc, **w), ev, skipped
            if len(free) == 0:
                break
            Hf, bf = H[np.ix_(free, free)], b[free]
            try:
                cond = np.linalg.cond(Hf) if np.all(np.isfinite(Hf)) else float("inf")
            except np.linalg.LinAlgError:
                cond = float("inf")
            if not cond < 1e9:
                skipped += 1
                break
            dxf = -np.linalg.solve(Hf, bf)
            dx = np.zeros(len(b))
            dx[free] = dxf
            for v, p0 in before:
                if v.fixed:
                    continue
                c = v.pose.COMPACT_DIMENSIONALITY
                exp = np.asarray(G.mk_pose(type(v.pose).__name__, p0) + dx[v.gradient_index : v.gradient_index + c])
                got = np.asarray(v.pose)
                d = got - exp
                if type(v.pose).__name__ == "PoseSE2":
                    d[2] = math.remainder(d[2], 2 * math.pi)
                if not np.max(np.abs(d)) <= 1e-7 * max(1.0, cond * 1e-5) * (1 + np.max(np.abs(exp))):
                    return dict(kind="step", what="pose after one iteration is not the Gauss-Newton step (call %d on this Graph object)" % (rnd + 1), match="gn-step", vertex=v.id, expected=exp.tolist(), got=got.tolist(), cond=float(cond), desc=desc, **w), ev, skipped
            if not all(np.all(np.isfinite(np.asarray(v.pose))) for v in g._vertices):
                break
        # small-step regime: converge, disturb every free vertex by ~1e-9 (box-plus units), take ONE step: each free vertex
        # must move by its block of -H^-1 b, however small that is
        if k % 3 == 0 and all(np.all(np.isfinite(np.asarray(v.pose))) for v in g._vertices) and any(not v.fixed for v in g._vertices):
            try:
                quiet_optimize(g, tol=1e-12, max_iter=15, fix_first_pose=False)
            except Exception:  # noqa
                continue
            if not all(np.all(np.isfinite(np.asarray(v.pose))) for v in g._vertices) or not any(v.fixed for v in g._vertices):
                continue
            for v in g._vertices:
                if not v.fixed:
                    v.pose = v.pose + np.array([rng.gauss(0, 1e-9) for _ in range(v.pose.COMPACT_DIMENSIONALITY)])
            H, b = dense_normal_equations(g)
            free = np.concatenate([np.arange(v.gradient_index, v.gradient_index + v.pose.COMPACT_DIMENSIONALITY) for v in g._vertices if not v.fixed]).astype(int)
            Hf, bf = H[np.ix_(free, free)], b[free]
            if not np.linalg.cond(Hf) < 1e7:
                skipped += 1
                continue
            dx = np.zeros(len(b))
            dx[free] = -np.linalg.solve(Hf, bf)
            before = [(v, np.array(v.pose)) for v in g._vertices]
            quiet_optimize(g, tol=0.0, max_iter=1, fix_first_pose=False)
            ev += 1
            for v, p0 in before:
                if v.fixed:
                    continue
                c = v.pose.COMPACT_DIMENSIONALITY
                blk = dx[v.gradient_index : v.gradient_index + c]
                exp = np.asarray(G.mk_pose(type(v.pose).__name__, p0) + blk)
                d = np.asarray(v.pose) - exp
                if type(v.pose).__name__ == "PoseSE2":
                    d[2] = math.remainder(d[2], 2 * math.pi)
                if np.max(np.abs(blk)) > 1e-10 and not np.max(np.abs(d)) <= 0.05 * np.max(np.abs(blk)) + 1e-12 * (1 + np.max(np.abs(exp))):
                    return dict(kind="step", what="a small Gauss-Newton step was not applied (pose after one iteration differs from pose [+] dx by more than 5% of |dx|)", match="gn-step:small", vertex=v.id, step=blk.tolist(), expected=exp.tolist(), got=np.asarray(v.pose).tolist(), desc=desc), ev, skipped
    return None, ev, skipped


def search_fixed(seed, n):
    """fixed vertices never move in any outcome; flags as documented; fixing keeps the problem solvable"""
    ev = 0
    outcomes = {}
    for k in range(n):
        rng = Rng(seed, "c06search|%d" % k)
        scenario = rng.choice(["normal", "isolated-fixed", "unanchored", "all-fixed", "diverge", "none-fixed"])
        g, desc = G.make_graph(rng, noise=rng.choice([0.05, 0.5]) if scenario != "diverge" else 3.0, well_posed=(scenario in ("normal", "isolated-fixed", "diverge")), fix="random" if scenario != "none-fixed" else "none", world=(rng.choice(["3d", "2d"]) if scenario == "diverge" else None))
        if scenario == "isolated-fixed":
            cname = desc["vertices"][0]["cls"]
            desc["vertices"].insert(rng.randrange(len(desc["vertices"]) + 1), dict(id=10**7 + k, cls=cname, vals=G.rand_pose_vals(rng, cname), fixed=True, truth=None))
        if scenario == "all-fixed":
            for v in desc["vertices"]:
                v["fixed"] = True
        if scenario == "unanchored":
            for v in desc["vertices"][1:]:
                v["fixed"] = False
        g = G.rebuild(desc)
        if scenario in ("normal", "all-fixed", "none-fixed") and rng.random() < 0.3:
            # one shared initial-guess object for several vertices of a class (Vertex keeps the caller's object), fixed ones included
            by_cls = {}
            for v in g._vertices:
                by_cls.setdefault(type(v.pose).__name__, []).append(v)
            grp = [vs for vs in by_cls.values() if len(vs) >= 2 and any(v.fixed for v in vs)] or [vs for vs in by_cls.values() if len(vs) >= 2]
            if grp:
                vs = rng.choice(grp)
                anchor = next((v for v in vs if v.fixed), vs[0])
                for v in vs:
                    v.pose = anchor.pose
                desc = dict(desc, shared_pose_object=[v.id for v in vs])
        ffp = rng.random() < 0.5
        flags0 = [v.fixed for v in g._vertices]
        before = poses(g)
        r = None
        try:
            tol_, mi_ = rng.choice([0.0, 1e-6, 1e-2]), rng.randrange(1, 8)
            r = quiet_optimize(g, tol=tol_, max_iter=mi_, fix_first_pose=ffp)
        except Exception as e:  # noqa
            return dict(kind="fixed", what="optimize raised %s" % type(e).__name__, match="optimize-raised", scenario=scenario, desc=desc), ev, outcomes
        ev += 1
        oc = "nan" if not math.isfinite(float(r.final_chi2)) else "converged" if r.converged else "limit"
        outcomes[scenario + ":" + oc] = outcomes.get(scenario + ":" + oc, 0) + 1
        flags1 = [v.fixed for v in g._vertices]
        exp_flags = list(flags0)
        if ffp:
            exp_flags[0] = True
        if flags1 != exp_flags:
            return dict(kind="fixed", what="fixed flags changed", match="fixed-flags", scenario=scenario, before=flags0, after=flags1, fix_first_pose=ffp, desc=desc), ev, outcomes
        for v, p0, p1 in zip(g._vertices, before, poses(g)):
            if v.fixed and p0.tobytes() != p1.tobytes():
                return dict(kind="fixed", what="fixed vertex moved", match="fixed-vertex-moved", scenario=scenario, vertex=v.id, before=p0.tolist(), after=p1.tolist(), fix_first_pose=ffp, desc=desc), ev, outcomes
        # second call on the same Graph object after the caller changed the fixed flags (no stale fixed set)
        if scenario in ("normal", "isolated-fixed") and oc != "nan" and len(g._vertices) >= 3:
            newflags = [rng.random() < 0.4 for _ in g._vertices]
            if not any(newflags):
                newflags[rng.randrange(len(newflags))] = True
            for v, f in zip(g._vertices, newflags):
                v.fixed = f
            # reference: a fresh Graph object in the same state
            dref = dict(desc, vertices=[dict(dv, vals=np.asarray(v.pose).tolist(), fixed=bool(f)) for dv, v, f in zip(desc["vertices"], g._vertices, newflags)])
            gref = G.rebuild(dref)
            before2 = poses(g)
            try:
                quiet_optimize(g, tol=0.0, max_iter=2, fix_first_pose=False)
                quiet_optimize(gref, tol=0.0, max_iter=2, fix_first_pose=False)
            except Exception as e:  # noqa
                return dict(kind="fixed", what="second optimize raised %s" % type(e).__name__, match="optimize-raised", scenario=scenario, desc=desc), ev, outcomes
            ev += 1
            for v, f, p0, p1, pr in zip(g._vertices, newflags, before2, poses(g), poses(gref)):
                if f and p0.tobytes() != p1.tobytes():
                    return dict(kind="fixed", what="fixed vertex moved in a second optimize call", match="fixed-vertex-moved", scenario=scenario, vertex=v.id, desc=desc), ev, outcomes
                if np.all(np.isfinite(pr)) and not np.allclose(p1, pr, rtol=0, atol=1e-9 * (1 + np.max(np.abs(pr)))):
                    return dict(kind="fixed", what="second optimize call on the same Graph differs from a fresh Graph in the same state (stale fixed set?)", match="fixed-set-stale", scenario=scenario, vertex=v.id, fixed_now=bool(f), got=p1.tolist(), fresh=pr.tolist(), flags_before=flags1, flags_now=newflags, desc=desc), ev, outcomes
        if scenario == "isolated-fixed" and oc == "nan":
            # the same graph without the extra fixed vertex - SAME fixed vertices (fix_first_pose may have picked the extra
            # vertex or the graph's own first vertex, depending on where the extra one was inserted), same tol and max_iter -
            # must also be NaN, else fixing made it unsolvable
            fixed_ids = {v.id for v in g._vertices if v.fixed}
            d2 = dict(desc)
            d2["vertices"] = [dict(v, fixed=(v["id"] in fixed_ids)) for v in desc["vertices"] if v["id"] < 10**7]
            g2 = G.rebuild(d2)
            # "otherwise well-posed": the reduced Hessian of the graph without the extra vertex must be comfortably
            # non-singular at the start (a rank-deficient system - e.g. a 3-D component anchored only at a landmark point -
            # gives solver-dependent NaN / garbage either way and says nothing about the extra fixed vertex)
            H2, _ = dense_normal_equations(g2)
            free2 = [i for v in g2._vertices if not v.fixed for i in range(v.gradient_index, v.gradient_index + v.pose.COMPACT_DIMENSIONALITY)]
            well = bool(free2) and np.all(np.isfinite(H2)) and np.linalg.cond(H2[np.ix_(free2, free2)]) < 1e8
            r2 = quiet_optimize(g2, tol=tol_, max_iter=mi_, fix_first_pose=False)
            outcomes["isolated-fixed:nan:reference-" + ("well-posed" if well else "ill-posed-skipped")] = outcomes.get("isolated-fixed:nan:reference-" + ("well-posed" if well else "ill-posed-skipped"), 0) + 1
            if well and math.isfinite(float(r2.final_chi2)):
                return dict(kind="fixed", what="an unconstrained fixed vertex made a well-posed problem unsolvable", match="fixed-vertex-singular", scenario=scenario, desc=desc), ev, outcomes
    return None, ev, outcomes


# ----------------------------------------------------------------------------- C16


def _contrib_consistent(e):
    """None, or how e.calc_chi2_gradient_hessian() differs from the blocks J_i^T Ω J_j / e^T Ω J_i of e.calc_jacobians()"""
    for k, v in enumerate(e.vertices):
        v.gradient_index = k
    J = [np.asarray(j, dtype=np.float64) for j in e.calc_jacobians()]
    err = np.asarray(e.calc_error(), dtype=np.float64)
    Om = np.asarray(e.information, dtype=np.float64)
    _, grads, hess = e.calc_chi2_gradient_hessian()
    grads, hess = list(grads), list(hess)
    if len(grads) != len(J):
        return "number of gradient contributions %d != number of vertices %d" % (len(grads), len(J))
    for k, (idx, gk) in enumerate(grads):
        want = err @ Om @ J[k]
        gk = np.asarray(gk, dtype=np.float64)
        c = e.vertices[k].pose.COMPACT_DIMENSIONALITY
        if gk.shape != (c,) or not np.allclose(gk, want, rtol=1e-9, atol=1e-12):
            return "gradient contribution of vertex %d has shape %s / differs from e^T Ω J_%d (expected shape (%d,))" % (k, gk.shape, k, c)
    pairs = [(i, j) for i in range(len(J)) for j in range(i, len(J))]
    if len(hess) != len(pairs):
        return "number of Hessian contributions %d != %d" % (len(hess), len(pairs))
    for (i, j), (idx, hij) in zip(pairs, hess):
        want = J[i].T @ Om @ J[j]
        hij = np.asarray(hij, dtype=np.float64)
        if tuple(idx) != (i, j) or hij.shape != want.shape or not np.allclose(hij, want, rtol=1e-9, atol=1e-12):
            return "Hessian contribution (%d,%d) has shape %s, expected %s = J_i^T Ω J_j" % (i, j, hij.shape, want.shape)
    return None


def search_numjac(seed, n):
    """numerical Jacobians vs analytic ones of the same edge; twin graphs converge to the same optimum"""
    from graphslam.edge.base_edge import BaseEdge

    ev = 0
    worst = 0.0
    eps = BaseEdge._NUMERICAL_DIFFERENTIATION_EPSILON
    for k in range(n):
        rng = Rng(seed, "c16search|%d" % k)
        g, desc = G.make_graph(rng, noise=rng.choice([0.02, 0.1]), well_posed=True, custom=True, fix="first")
        if k % 4 == 0:
            # aliasing: two vertices of an odometry edge hold the same pose object
            cands = [e for e in g._edges if type(e).__name__ == "EdgeOdometry"]
            if cands:
                e0 = rng.choice(cands)
                e0.vertices[1].pose = e0.vertices[0].pose
                Jn = BaseEdge.calc_jacobians(e0)
                Ja = e0.calc_jacobians()
                ev += 1
                dev = max(float(np.max(np.abs(np.asarray(a) - np.asarray(b)))) for a, b in zip(Jn, Ja))
                if not dev <= 1e-4:
                    return dict(kind="numjac", what="numerical Jacobian wrong when two vertices share one pose object", match="numjac-aliased-poses", deviation=dev, desc=desc), ev, worst
                continue
        for ei, e in enumerate(g._edges):
            # the contributions an edge hands to the optimizer are J_i^T Ω J_j / e^T Ω J_i of *its own* Jacobians, block by
            # block, for every vertex order (custom edges are probed in reversed vertex order too: smaller block first)
            probes = [e]
            if type(e).__name__.startswith("Distance") and len(e.vertices) > 1:
                probes.append(type(e)(list(reversed(e.vertex_ids)), e.information, e.estimate, list(reversed(e.vertices))))
            for pe in probes:
                w = _contrib_consistent(pe)
                ev += 1
                if w:
                    return dict(kind="numjac", what=w, match="numjac-contribs", edge=desc["edges"][ei], reversed=pe is not e, desc=desc), ev, worst
            if type(e).__name__ == "DistanceEdge":
                continue  # no analytic twin on this object (its twin class is checked through the graph twin below)
            if k % 3 == 1:
                # a measurement that is met *exactly* at the current estimates (error == 0.0): the error's Jacobian is not zero there
                try:
                    if type(e).__name__ == "DistanceEdgeAnalytic":
                        e.estimate = 0.0
                        e.estimate = float(np.asarray(e.calc_error())[0])
                        assert float(np.asarray(e.calc_error())[0]) == 0.0
                    elif type(e).__name__ == "EdgeOdometry" and type(e.vertices[0].pose).__name__ in ("PoseR2", "PoseR3"):
                        e.estimate = e.vertices[1].pose - e.vertices[0].pose
                except Exception:
                    pass
            Jn = BaseEdge.calc_jacobians(e)
            Ja = e.calc_jacobians()
            ev += 1
            for a, b in zip(Jn, Ja):
                a, b = np.asarray(a), np.asarray(b)
                if a.shape != b.shape:
                    return dict(kind="numjac", what="shape", match="numjac-shape", edge=desc["edges"][ei], desc=desc), ev, worst
                # second-derivative scale: poses are O(5), errors are at most quadratic in them
                mag = 1 + max(float(np.max(np.abs(np.asarray(v.pose)))) for v in e.vertices) + float(np.max(np.abs(np.asarray(e.estimate, dtype=np.float64))))
                tol = 10 * eps * mag * mag + 1e-9 * mag / eps * 1e-6
                dev = float(np.max(np.abs(a - b))) if a.size else 0.0
                worst = max(worst, dev / tol)
                if not dev <= tol:
                    return dict(kind="numjac", what="numerical Jacobian differs from the analytic one by more than a 1e-6 forward difference allows", match="numjac-accuracy", deviation=dev, tol=tol, edge=desc["edges"][ei], desc=desc), ev, worst
        if k % 3 == 2 and desc["world"] in ("2d", "3d", "r2", "r3"):
            dim = 2 if desc["world"] in ("2d", "r2") else 3
            t = [rng.sign() * rng.logu(1e3, 2e4) for _ in range(dim)]
            dsh = dict(desc, vertices=[dict(v, vals=[x + (t[i] if i < dim else 0.0) for i, x in enumerate(v["vals"])]) for v in desc["vertices"]])
            g0, gsh = G.rebuild(desc), G.rebuild(dsh)
            for ei, (ea, eb) in enumerate(zip(g0._edges, gsh._edges)):
                if len(ea.vertices) < 2:
                    continue  # a unary edge (norm of a position) is not translation invariant
                # landmark edges between R^n points and odometry edges are translation invariant; so are the distance edges
                J0 = [np.asarray(j, dtype=np.float64) for j in BaseEdge.calc_jacobians(ea)]
                J1 = [np.asarray(j, dtype=np.float64) for j in BaseEdge.calc_jacobians(eb)]
                ev += 1
                for a, b in zip(J0, J1):
                    if a.shape != b.shape or not np.max(np.abs(a - b), initial=0.0) <= 5e-5 * (1 + np.max(np.abs(a), initial=0.0)):
                        return dict(kind="numjac", what="numerical Jacobian changes when every vertex is translated by the same vector (the error does not)", match="numjac-translation", translation=t, jacobian=a.tolist(), jacobian_translated=b.tolist(), edge=desc["edges"][ei], desc=desc), ev, worst
        # twin graphs: every analytic custom edge replaced by its numerical twin (and vice versa)
        if any(e["kind"].startswith("custom") for e in desc["edges"]) and desc["world"] != "mixed":
            d1 = dict(desc, edges=[dict(e, kind="custom_num") if e["kind"].startswith("custom") else e for e in desc["edges"]])
            d2 = dict(desc, edges=[dict(e, kind="custom_ana") if e["kind"].startswith("custom") else e for e in desc["edges"]])
            g1, g2 = G.rebuild(d1), G.rebuild(d2)
            if rng.random() < 0.4:
                # multi-start: the numerical-Jacobian graph's edge objects served an earlier start (other Vertex objects, same ids)
                from graphslam.graph import Graph as _Graph
                from graphslam.vertex import Vertex as _Vertex

                quiet_optimize(g1, tol=1e-6, max_iter=2)
                vs1 = [_Vertex(v["id"], G.mk_pose(v["cls"], v["vals"]), fixed=bool(v["fixed"])) for v in d1["vertices"]]
                g1 = _Graph(list(g1._edges), vs1)
                # what the edges report now is about THIS graph's vertices
                for e_ in g1._edges:
                    for v_e, vid in zip(e_.vertices, e_.vertex_ids):
                        if v_e is not next(v for v in g1._vertices if v.id == vid):
                            return dict(kind="numjac", what="an edge re-used in a second Graph still refers to the first graph's Vertex objects", match="numjac-stale-binding", vertex=vid, desc=desc), ev, worst
            r1 = quiet_optimize(g1, tol=1e-10, max_iter=40)
            r2 = quiet_optimize(g2, tol=1e-10, max_iter=40)
            ev += 1
            if r1.converged and r2.converged and math.isfinite(r1.final_chi2) and math.isfinite(r2.final_chi2):
                dc = abs(r1.final_chi2 - r2.final_chi2)
                if not dc <= 1e-5 * (1 + abs(r2.final_chi2)):
                    return dict(kind="numjac", what="graphs with numerical and analytic Jacobians reach different optima", match="numjac-optimum", chi2_num=float(r1.final_chi2), chi2_ana=float(r2.final_chi2), desc=desc), ev, worst
    return None, ev, worst


# ----------------------------------------------------------------------------- C04


def search_linear(seed, n):
    """R^2 / R^3 graphs: optimize() == the weighted-least-squares optimum from numpy.linalg.lstsq, for any initial guess"""
    ev = 0
    skipped = 0
    for k in range(n):
        rng = Rng(seed, "c04search|%d" % k)
        world = rng.choice(["r2", "r3"])
        g, desc = G.make_graph(rng, world=world, nv=rng.randrange(2, 12), noise=0.3, custom=False, fix="random", well_posed=True)
        # far initial guess
        scale = rng.choice([1.0, 1e3, 1e6])
        for v in desc["vertices"]:
            if not v["fixed"]:
                v["vals"] = [x + rng.gauss(0, scale) for x in v["vals"]]
        weak = rng.random() < 0.2
        if weak:
            wsc = 10 ** rng.uniform(-14, -8)
            for e in desc["edges"]:
                e["info"] = (np.asarray(e["info"], dtype=np.float64) * wsc).tolist()
            desc = dict(desc, information_scale=wsc)
        g = G.rebuild(desc)
        flagkind = rng.choice(["bool", "bool", "numpy.bool_", "int"])
        if flagkind != "bool":
            for v in g._vertices:
                v.fixed = np.bool_(v.fixed) if flagkind == "numpy.bool_" else int(v.fixed)
        # how the caller built the objects must not matter (the initial guess is arbitrary for linear graphs):
        build = rng.choice(["plain", "plain", "shared-origin", "view-of-measurement", "reused-edges", "prior-call", "prior-call"])
        if build == "shared-origin":
            # every vertex starts from one `origin` pose object (Vertex keeps the caller's object)
            origin = g._vertices[0].pose
            for v in g._vertices:
                v.pose = origin
        elif build == "view-of-measurement":
            # dead-reckoning initialisation: a vertex estimate and an edge measurement are views of one buffer
            cand = [e for e in g._edges if type(e).__name__ == "EdgeOdometry" and not e.vertices[1].fixed]
            if cand:
                e0 = rng.choice(cand)
                buf = np.array(np.asarray(e0.estimate), dtype=np.float64)
                e0.estimate = type(e0.estimate)(buf)
                e0.vertices[1].pose = type(e0.estimate)(buf)
        elif build == "reused-edges":
            # the same edge objects were used for an earlier Graph over other Vertex objects (and solved there)
            quiet_optimize(g, tol=1e-9, max_iter=3, fix_first_pose=False)
            from graphslam.graph import Graph as _Graph
            from graphslam.vertex import Vertex as _Vertex

            vs = [_Vertex(v["id"], G.mk_pose(v["cls"], [x + (0.0 if v["fixed"] else rng.gauss(0, 50.0)) for x in v["vals"]]), fixed=bool(v["fixed"])) for v in desc["vertices"]]
            rng.shuffle(vs)
            g = _Graph(list(g._edges), vs)
        elif build == "prior-call":
            # the graph object was optimised before with another anchor: a fixed vertex is released, a free one is pinned
            # (re-anchoring the map), the free estimates are scrambled; "any fixed subset, whatever the initial guess"
            quiet_optimize(g, tol=1e-9, max_iter=rng.randrange(1, 4), fix_first_pose=rng.random() < 0.5)
            fx = [v for v in g._vertices if v.fixed]
            fr = [v for v in g._vertices if not v.fixed]
            if fx and fr:
                rng.choice(fx).fixed = False
                rng.choice(fr).fixed = True
                if rng.random() < 0.5 and len(fx) > 1:
                    rng.choice(fx).fixed = False
                if not any(v.fixed for v in g._vertices):
                    g._vertices[0].fixed = True
            for v in g._vertices:
                if not v.fixed:
                    v.pose = type(v.pose)(np.asarray(v.pose) + np.array([rng.gauss(0, scale) for _ in range(len(v.pose))]))
        dim = 2 if world == "r2" else 3
        idx = {v.id: i for i, v in enumerate(g._vertices)}
        nV = len(g._vertices)
        rows, rhs = [], []
        for e in g._edges:
            L = np.linalg.cholesky(np.asarray(e.information)).T  # Omega = L^T L
            i, j = idx[e.vertex_ids[0]], idx[e.vertex_ids[1]]
            A = np.zeros((dim, dim * nV))
            if type(e).__name__ == "EdgeOdometry":
                # e = z - (p_j - p_i)
                A[:, dim * i : dim * i + dim] = np.eye(dim)
                A[:, dim * j : dim * j + dim] = -np.eye(dim)
                c = np.asarray(e.estimate)
            else:
                # e = (p_j - (p_i + off)) - z
                A[:, dim * i : dim * i + dim] = -np.eye(dim)
                A[:, dim * j : dim * j + dim] = np.eye(dim)
                c = -np.asarray(e.offset) - np.asarray(e.estimate)
            rows.append(L @ A)
            rhs.append(-L @ c)
        A = np.vstack(rows)
        y = np.concatenate(rhs)
        free = [i for i, v in enumerate(g._vertices) if not v.fixed]
        fixed = [i for i, v in enumerate(g._vertices) if v.fixed]
        x_fixed = np.zeros(dim * nV)
        for i in fixed:
            x_fixed[dim * i : dim * i + dim] = np.asarray(g._vertices[i].pose)
        cols = np.concatenate([np.arange(dim * i, dim * i + dim) for i in free]) if free else np.array([], dtype=int)
        r = quiet_optimize(g, tol=(rng.choice([1e-9, 1e-4]) if weak else 1e-9), max_iter=10, fix_first_pose=False)
        ev += 1
        if len(cols) == 0:
            continue
        Af = A[:, cols]
        if np.linalg.matrix_rank(Af) < Af.shape[1] or np.linalg.cond(Af) > 1e6:
            skipped += 1
            continue
        xf, *_ = np.linalg.lstsq(Af, y - A @ x_fixed, rcond=None)
        x = x_fixed.copy()
        x[cols] = xf
        chi_min = float(np.sum((A @ x - y) ** 2))
        got = np.concatenate([np.asarray(v.pose) for v in g._vertices])
        sc = 1 + np.max(np.abs(x))
        w = lambda what, **kw: dict(kind="linear", what=what, match="linear:" + what, initial_scale=scale, build=build, fixed_flag_type=flagkind, weak_information=weak, desc=desc, **kw)
        if not np.max(np.abs(got - x)) <= 1e-6 * sc * max(1.0, scale * 1e-6):
            return w("optimum", expected=x.tolist(), got=got.tolist()), ev, skipped
        if not abs(float(r.final_chi2) - chi_min) <= 1e-6 * (1 + chi_min) * max(1.0, scale * 1e-3):
            return w("final_chi2", expected=chi_min, got=float(r.final_chi2)), ev, skipped
        if not r.converged:
            return w("converged", num_iterations=r.num_iterations), ev, skipped
    return None, ev, skipped


# ----------------------------------------------------------------------------- C05 (exploration: the quantitative half)

# calibrated neighbourhood (DESIGN.md §5 C05): initial-guess perturbation sigma (box-plus units) and measurement noise
# measured here (tools/dev/calibrate_c05.py, 150 random-walk graphs per cell, tol=1e-8, max_iter=100): zero failures for
# 2d init <= 0.4 (first failure at 0.8), 3d init <= 0.1 (failures from 0.2), measurement noise up to 0.05 in both;
# the bounds below are half of the largest all-pass values.
CAL = {"2d": dict(init=0.2, meas=0.025), "3d": dict(init=0.05, meas=0.025)}


def newton_decrement(g):
    H, b = dense_normal_equations(g)
    free = np.concatenate([np.arange(v.gradient_index, v.gradient_index + v.pose.COMPACT_DIMENSIONALITY) for v in g._vertices if not v.fixed] or [np.array([], dtype=int)]).astype(int)
    if len(free) == 0:
        return 0.0, 1.0
    Hf, bf = H[np.ix_(free, free)], b[free]
    cond = np.linalg.cond(Hf)
    if not cond < 1e12:
        return None, cond
    return float(bf @ np.linalg.solve(Hf, bf)), cond


def noise_free_cross_terms(e_):
    """True when negating + normalising this edge's quaternion is NOT chi2-neutral on the unchanged code (known finding:
    odometry information with translation-rotation cross terms) - such edges are left alone"""
    if type(e_).__name__ != "EdgeOdometry":
        return False
    I_ = np.asarray(e_.information)
    return I_.shape == (6, 6) and bool(np.any(I_[:3, 3:] != 0))


def search_convergence(seed, n):
    ev = 0
    stats = dict(noise_free=0, noisy=0, skipped_ill_conditioned=0, worst_decrement_ratio=0.0)
    for k in range(n):
        rng = Rng(seed, "c05search|%d" % k)
        world = rng.choice(["2d", "3d"])
        cal = CAL[world]
        noise_free = rng.random() < 0.4
        g, desc = G.make_graph(rng, world=world, nv=rng.randrange(3, 14), noise=cal["init"] * rng.uniform(0.2, 1.0), meas_noise=0.0 if noise_free else cal["meas"] * rng.uniform(0.2, 1.0), custom=False, fix="first", ids="plain", walk=True)
        # well-posed: the anchor (first vertex, fixed by fix_first_pose) must be a pose, not a landmark point
        i0 = next(i for i, v in enumerate(desc["vertices"]) if v["cls"].startswith("PoseSE"))
        desc["vertices"][0], desc["vertices"][i0] = desc["vertices"][i0], desc["vertices"][0]
        # revisited place (30%): a new pose vertex j a few centimetres from a non-anchor pose i, measured from i by one extra
        # odometry edge, whose initial guess is i's pose *object* (Vertex keeps the caller's object; legal, and harmless as
        # long as the update step never writes into a pose)
        shared = None
        if rng.random() < 0.3:
            cand = [v for v in desc["vertices"][1:] if v["cls"].startswith("PoseSE")]
            if cand:
                vi = rng.choice(cand)
                cls = vi["cls"]
                zv = [rng.gauss(0, 0.03) for _ in range(2)] + [rng.gauss(0, 0.01)] if cls == "PoseSE2" else list(np.asarray(G.mk_pose(cls, [0, 0, 0, 0, 0, 0, 1]) + np.array([rng.gauss(0, 0.03) for _ in range(3)] + [rng.gauss(0, 0.01) for _ in range(3)])))
                jid = max(v["id"] for v in desc["vertices"]) + 1
                desc["vertices"].append(dict(id=jid, cls=cls, vals=list(vi["vals"]), fixed=False))
                c = 3 if cls == "PoseSE2" else 6
                desc["edges"].append(dict(kind="odometry", vids=[vi["id"], jid], est_cls=cls, est=[float(x) for x in zv], info=(np.eye(c) * rng.logu(1, 50)).tolist()))
                shared = (vi["id"], jid)
        g = G.rebuild(desc)
        hist = rng.random()
        if hist < 0.2:
            # the edge objects were used before in a Graph over OTHER Vertex objects (a first initial guess), which was optimised;
            # this graph has new vertices (the second guess) with the same ids
            from graphslam.graph import Graph as _Graph
            from graphslam.vertex import Vertex as _Vertex

            try:
                quiet_optimize(g, tol=1e-6, max_iter=3, fix_first_pose=True)
            except Exception:  # noqa
                pass
            vs2 = [_Vertex(v["id"], G.mk_pose(v["cls"], v["vals"]), fixed=bool(v["fixed"])) for v in desc["vertices"]]
            g = _Graph(list(g._edges), vs2)
            desc = dict(desc, reused_edge_objects=True)
            stats["reused_edge_objects"] = stats.get("reused_edge_objects", 0) + 1
        elif hist < 0.4:
            # a surveyed pose that no edge refers to yet: present in the vertex list, fixed, not the first vertex
            from graphslam.graph import Graph as _Graph
            from graphslam.vertex import Vertex as _Vertex

            cls = "PoseSE2" if world == "2d" else "PoseSE3"
            extra = _Vertex(10**6 + k, G.mk_pose(cls, G.rand_pose_vals(rng, cls)), fixed=False)
            vs2 = list(g._vertices)
            vs2.insert(rng.randrange(1, len(vs2) + 1), extra)
            g = _Graph(list(g._edges), vs2)
            extra.fixed = True  # marked after construction, as fix flags usually are
            desc = dict(desc, isolated_fixed_vertex=extra.id)
            stats["isolated_fixed_vertex"] = stats.get("isolated_fixed_vertex", 0) + 1
        if rng.random() < 0.25:
            les_ = [e for e in g._edges if type(e).__name__ == "EdgeLandmark"]
            if les_:
                if rng.random() < 0.5:
                    g.calc_chi2()  # (either the placeholder or the real offset is what the edge sees first)
                for e_ in les_:
                    real = e_.offset
                    e_.offset = type(real).identity()
                    e_.calc_error(), e_.calc_chi2()
                    e_.offset = real
                stats["offset_replaced_after_first_use"] = stats.get("offset_replaced_after_first_use", 0) + 1
        if world == "3d" and rng.random() < 0.3:
            # the same rotation with the other sign, renormalised by the library itself (what from_g2o does to every estimate)
            for e_ in g._edges:
                for attr in ("estimate", "offset"):
                    q_ = getattr(e_, attr, None)
                    if type(q_).__name__ == "PoseSE3" and rng.random() < 0.5 and not noise_free_cross_terms(e_):
                        q_[3:] = -np.asarray(q_[3:])
                        q_.normalize()
            stats["negated_then_normalized"] = stats.get("negated_then_normalized", 0) + 1
        if shared:
            byid = {v.id: v for v in g._vertices}
            byid[shared[1]].pose = byid[shared[0]].pose
            desc["shared_pose_object"] = list(shared)
            stats["shared_pose_object"] = stats.get("shared_pose_object", 0) + 1
        # Gauss-Newton and the documented (relative) stopping rule are invariant under a common scaling of all information
        # matrices: a third of the graphs get a scale between 1e-9 and 1e3 (every absolute threshold below scales with it)
        iscale = 1.0
        if rng.random() < 0.35:
            # (noise-free runs end at chi2 -> 0, where the `+ eps` of the documented rule decides once chi2_prev < tol * 2.2e-16:
            #  their scale stays >= 1e-6 so that the absolute thresholds below remain above that level)
            iscale = 10 ** rng.uniform(-6 if noise_free else -9, 3)
            for e in g._edges:
                e.information = np.asarray(e.information, dtype=np.float64) * iscale
            desc = dict(desc, information_scale=iscale)
        tol = 10 ** rng.uniform(-10, -4) if rng.random() < 0.7 else 10 ** rng.uniform(-4, -2)
        second_call = rng.random() < 0.3
        for call in ((1, 2) if second_call else (1,)):
            if call == 2:
                # the same Graph object is optimised again after the caller fixed one more (converged) pose and disturbed the
                # others by half the calibrated neighbourhood: the second run is judged exactly like the first
                cand = [v for v in g._vertices[1:] if type(v.pose).__name__.startswith("PoseSE") and not v.fixed]
                if not cand:
                    break
                rng.choice(cand).fixed = True
                for v in g._vertices:
                    if not v.fixed:
                        v.pose = v.pose + np.array([rng.gauss(0, cal["init"] * 0.5) for _ in range(v.pose.COMPACT_DIMENSIONALITY)])
                stats["second_calls"] = stats.get("second_calls", 0) + 1
            wit, lam_ratio = _judge_convergence(g, desc, world, tol, noise_free, call, stats, iscale)
            ev += 1
            if wit:
                return wit, ev, stats
    return None, ev, stats


def _judge_convergence(g, desc, world, tol, noise_free, call, stats, iscale=1.0):
    chi0 = float(g.calc_chi2())
    r = quiet_optimize(g, tol=tol, max_iter=100, fix_first_pose=True)
    ev = 0
    w = lambda what, **kw: (dict(kind="convergence", what=what, match="convergence:" + what, world=world, tol=tol, noise_free=noise_free, call=call, fixed=[v.id for v in g._vertices if v.fixed], desc=desc, **kw), ev, stats)
    if not math.isfinite(float(r.final_chi2)):
        return w("non-finite final chi2")[0], 0.0
    if not float(r.final_chi2) <= chi0 * (1 + 1e-9) + 1e-12 * iscale:
        return w("final chi2 exceeds initial chi2", initial=chi0, final=float(r.final_chi2))[0], 0.0
    if not r.converged:
        # The property speaks about the state the run ends at (chi2 not above the initial one, decrement below the tolerance
        # scale), not about the `converged` flag: a noise-free run reaches chi2 ~ 1e-27 and then wanders in rounding noise
        # above tol * eps, so the documented relative test need not fire in 100 iterations although the state is optimal
        # (seen in the thorough tier on the unchanged tree, seed 0).  Not converged is therefore judged by the same
        # criteria below and only counted.
        stats["limit_reached_judged_by_state"] = stats.get("limit_reached_judged_by_state", 0) + 1
    lam2, cond = newton_decrement(g)
    if lam2 is None:
        stats["skipped_ill_conditioned"] += 1
        return None, 0.0
    bound = 20 * tol * max(float(r.final_chi2), 1e-12 * iscale) + 1e-10 * iscale
    stats["worst_decrement_ratio"] = max(stats["worst_decrement_ratio"], lam2 / bound)
    if not lam2 <= bound:
        return w("Newton decrement above the tolerance scale", decrement=lam2, bound=bound, final_chi2=float(r.final_chi2))[0], 0.0
    if noise_free:
        stats["noise_free"] += 1
        # relative poses of the ground truth are reproduced (the anchor is the first vertex, possibly perturbed: compare edges)
        if not float(r.final_chi2) <= 1e-10 * iscale:
            return w("noise-free measurements not reproduced: chi2 > 0", final_chi2=float(r.final_chi2))[0], 0.0
        from search import spec_np as _S

        for e in g._edges:
            if np.max(np.abs(np.asarray(e.calc_error()))) > 1e-6:
                return w("noise-free relative pose not reproduced", error=np.asarray(e.calc_error()).tolist())[0], 0.0
            # ... judged by the independent model of the measurement equations as well (what the edge's own calc_error reports
            # may be stale or differently wrong)
            sp_ = _S.edge_error(e)
            if sp_ is not None:
                sp_ = np.asarray(sp_, dtype=np.float64).copy()
                if type(e).__name__ == "EdgeOdometry" and len(sp_) == 3:
                    sp_[2] = math.remainder(sp_[2], 2 * math.pi)
                if type(e).__name__ == "EdgeOdometry" and len(sp_) == 6:
                    continue  # (the sign convention of the SE(3) rotational part is the known finding; its magnitude is covered above)
                if np.max(np.abs(sp_)) > 1e-6:
                    return w("noise-free measurement not reproduced according to the independent measurement model", spec_error=sp_.tolist(), edge_class=type(e).__name__)[0], 0.0
    else:
        stats["noisy"] += 1
    return None, 0.0
