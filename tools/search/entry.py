"""Search entry points called by tools/check.py: (seed, tier, broken) -> dict(found=[witness...], evaluations=int).
A witness is a concrete input on which the *real code* fails the property's own oracle."""
import json
import os
import sys

sys.path.insert(0, os.path.join(os.path.dirname(__file__), ".."))


def _n(tier, broken, quick, thorough):
    if tier == "thorough" or broken:
        return thorough
    if tier == "escalated":
        return min(thorough, 6 * quick)
    return quick


def c10(seed, tier, broken):
    from search import jacobians as J

    w, st = J.search_pose(seed, _n(tier, broken, 20, 300))
    found = []
    if w:
        w["match"] = "pose-jacobian:%s.%s" % (w["cls"], w["method"])
        found.append(w)
    return dict(found=found, **st)


def c01(seed, tier, broken):
    from search import jacobians as J

    w, st = J.search_edges(seed, _n(tier, broken, 20, 400))
    found = []
    if w:
        w["match"] = "edge-jacobian:%s:%s" % (w["edge"], w["pose_type"])
        found.append(w)
    return dict(found=found, **st)


def replay_jacobian(rep):
    """re-run a recorded Jacobian witness against the current /repo"""
    from search import jacobians as J
    import numpy as np

    w = rep.get("witness")
    if not w:
        print("replay file names a broken theorem/correspondence, not an input:", json.dumps(rep.get("no_longer_checks"))[:1500])
        return 1
    if w["kind"] == "pose_jacobian":
        cls = J.CLS[w["cls"]]

        def mk(c, v):
            v = list(v)
            if c is J.PoseSE2:
                return c(v[:2], v[2])
            if c is J.PoseSE3:
                return c(v[:3], v[3:])
            return c(v)

        a = mk(cls, w["self"])
        kind = J._ops(w["cls"])[w["method"]][3]
        b = None
        if w["other"] is not None:
            b = mk(cls if kind == "pose" else J.POINT[w["cls"]], w["other"])
        dev, scale, ana, num = J.check_pose_method(w["cls"], w["method"], a, b)
    else:
        from graphslam.vertex import Vertex
        from graphslam.edge.edge_odometry import EdgeOdometry
        from graphslam.edge.edge_landmark import EdgeLandmark

        T = J.CLS[w["pose_type"]]
        P = J.POINT[w["pose_type"]]

        def mk(c, v):
            v = list(v)
            if c is J.PoseSE2:
                return c(v[:2], v[2])
            if c is J.PoseSE3:
                return c(v[:3], v[3:])
            return c(v)

        if w["edge"] == "odometry":
            p0, p1, z = mk(T, w["p0"]), mk(T, w["p1"]), mk(T, w["estimate"])
            e = EdgeOdometry([0, 1], np.eye(p0.COMPACT_DIMENSIONALITY), z, [Vertex(0, p0), Vertex(1, p1)])
        else:
            p0, p1, z, off = mk(T, w["p0"]), mk(P, w["p1"]), mk(P, w["estimate"]), mk(T, w["offset"])
            e = EdgeLandmark([0, 1], np.eye(p1.COMPACT_DIMENSIONALITY), z, offset=off, vertices=[Vertex(0, p0), Vertex(1, p1)])
        (dev, scale, vk, ana, num), _ = J.check_edge(e)
    print("analytic:\n", np.asarray(ana), "\nnumeric (Richardson, along box-plus):\n", np.asarray(num), "\nmax deviation", dev)
    ok = dev <= 2e-6 * scale * 1e2
    print("REPRODUCED" if not ok else "not reproduced on the current tree")
    return 1 if not ok else 0


def c09(seed, tier, broken):
    from search import groups as G

    w, ev = G.search_group(seed, _n(tier, broken, 40, 1500))
    found = []
    if w:
        w["match"] = "group-law:%s:%s" % (w["cls"], w["law"])
        found.append(w)
    return dict(found=found, evaluations=ev)


def c11(seed, tier, broken):
    from search import groups as G

    big = tier == "thorough" or broken
    w, ev, worst = G.search_invariants(seed, 40 if big else (16 if tier == "escalated" else 4), 10000 if big else 2500)
    found = []
    if w:
        w["match"] = "invariant:%s" % w["kind"]
        found.append(w)
    else:
        w2, ev2 = G.search_optimizer_invariants(seed, 60 if big else (30 if tier == "escalated" else 10))
        ev += ev2
        if w2:
            w2["match"] = "invariant:%s" % w2["kind"]
            found.append(w2)
    return dict(found=found, evaluations=ev, worst_unit_norm_deviation=worst)


def replay_generic(rep):
    """re-run the search that produced the witness, with the recorded seed/tier, on the current /repo"""
    w = rep.get("witness")
    pid = rep.get("property")
    if not w:
        print("replay file names a broken theorem/correspondence, not an input:")
        print(json.dumps(rep.get("no_longer_checks"), indent=1)[:3000])
        return 1
    fn = globals().get(pid.lower())
    if fn is None:
        print(json.dumps(w, indent=1)[:3000])
        return 1
    seed = int(w.get("seed", rep.get("seed", 0)))
    tier = w.get("tier", "quick")
    r = fn(seed, tier, w.get("broken_at_search_time", True))
    same = [x for x in r.get("found", []) if x.get("match") == w.get("match")]
    print("recorded witness: match=%s what=%s" % (w.get("match"), w.get("what")))
    if same:
        x = dict(same[0])
        x.pop("desc", None)
        print("REPRODUCED on the current tree:", json.dumps(x, default=str)[:1500])
        return 1
    print("not reproduced on the current tree (search: %d evaluations, %d other witnesses)" % (r.get("evaluations", 0), len(r.get("found", []))))
    return 0


def c02(seed, tier, broken):
    """independent numpy model of the documented measurement equations vs the real edges / graph"""
    from lib.common import Rng
    from lib import graphgen as G
    from search import spec_np as S
    import numpy as np
    import math

    n = _n(tier, broken, 30, 600)
    ev = 0
    found = []
    for k in range(n):
        rng = Rng(seed, "c02search|%d" % k)
        g, desc = G.make_graph(rng, noise=rng.choice([0.0, 0.1, 1.0]))
        # information in small units (1/mm^2, weak priors): every entry far below numpy's default absolute tolerances
        if rng.random() < 0.3:
            sc = 10 ** rng.uniform(-13, -7)
            for e in desc["edges"]:
                e["info"] = (np.asarray(e["info"], dtype=np.float64) * sc).tolist()
            desc = dict(desc, information_scale=sc)
            g = G.rebuild(desc)
        # the same edge OBJECTS were used before in another Graph over other Vertex objects with the same ids (scoring one
        # set of measurements against an initial guess and then against a reference solution): chi2 is about the vertices of
        # THIS graph
        if rng.random() < 0.3:
            from graphslam.graph import Graph as _Graph
            from graphslam.vertex import Vertex as _Vertex

            g.calc_chi2()
            vs = [_Vertex(v["id"], G.mk_pose(v["cls"], G.rand_pose_vals(rng, v["cls"])), fixed=bool(v["fixed"])) for v in desc["vertices"]]
            g = _Graph(list(g._edges), vs)
            desc = dict(desc, vertices=[dict(v, vals=np.asarray(x.pose).tolist()) for v, x in zip(desc["vertices"], vs)], reused_edge_objects=True)
        total = 0.0
        import copy as _copy

        byid = {v.id: v for v in g._vertices}
        for ei, e in enumerate(g._edges):
            # the documented model is evaluated at the estimates of THIS graph's vertices (looked up by the ids the edge names),
            # not at whatever objects the edge happens to hold
            es = _copy.copy(e)
            es.vertices = [byid[i] for i in e.vertex_ids]
            spec = S.edge_error(es)
            err = np.asarray(e.calc_error(), dtype=np.float64)
            if spec is not None:
                ev += 1
                d = err - spec
                if type(e).__name__ == "EdgeOdometry" and len(err) == 3 and type(e.vertices[0].pose).__name__ == "PoseSE2":
                    d[2] = math.remainder(d[2], 2 * math.pi)
                scale = 1 + float(np.max(np.abs(spec))) + max(float(np.max(np.abs(np.asarray(v.pose)))) for v in e.vertices) ** 2
                if not float(np.max(np.abs(d))) <= 1e-9 * scale:
                    found.append(dict(match="edge-error:%s:%s" % (type(e).__name__, type(e.vertices[0].pose).__name__), kind="edge_error", edge=desc["edges"][ei] if ei < len(desc["edges"]) else None, impl=err.tolist(), spec=spec.tolist(), desc=desc))
                    return dict(found=found, evaluations=ev)
            c = float(e.calc_chi2())
            cs = S.edge_chi2(e, err)
            ev += 1
            if not abs(c - cs) <= 1e-9 * (1 + abs(cs)):
                found.append(dict(match="edge-chi2", kind="edge_chi2", impl=c, spec=cs, desc=desc))
                return dict(found=found, evaluations=ev)
            # PSD information => chi2 >= 0
            if c < -1e-9 * (1 + abs(c)):
                found.append(dict(match="chi2-negative", kind="chi2_negative", impl=c, desc=desc))
                return dict(found=found, evaluations=ev)
            total += c
        gc = float(g.calc_chi2())
        ev += 1
        if not abs(gc - total) <= 1e-9 * (1 + abs(total)):
            found.append(dict(match="graph-chi2-sum", kind="graph_chi2", impl=gc, spec=total, desc=desc))
            return dict(found=found, evaluations=ev)
        # history: move a vertex / double the information after the first evaluation; chi2 must follow
        v = rng.choice(g._vertices)
        v.pose = v.pose + np.array([rng.gauss(0, 0.5) for _ in range(v.pose.COMPACT_DIMENSIONALITY)])
        t2 = sum(S.edge_chi2(e) for e in g._edges)
        gc2 = float(g.calc_chi2())
        ev += 1
        if not abs(gc2 - t2) <= 1e-9 * (1 + abs(t2)):
            found.append(dict(match="graph-chi2-stale", kind="graph_chi2_after_move", impl=gc2, spec=t2, moved_vertex=v.id, desc=desc))
            return dict(found=found, evaluations=ev)
        # ... also when the estimate is edited IN PLACE (same pose object: `v.pose[:2] = ...`, `v.pose[2] = a`, `pose.normalize()`):
        # every edge error / chi2 is compared with the independent model at the current values
        for vv in rng.sample(list(g._vertices), min(2, len(g._vertices))):
            arr = vv.pose
            kind = type(arr).__name__
            if kind == "PoseSE3":
                if rng.random() < 0.5:
                    arr[:3] = np.asarray(arr[:3]) + np.array([rng.gauss(0, 0.7) for _ in range(3)])
                else:
                    q = np.array([rng.gauss(0, 1) for _ in range(4)])
                    arr[3:] = q / np.linalg.norm(q)
            elif kind == "PoseSE2":
                if rng.random() < 0.5:
                    arr[:2] = np.asarray(arr[:2]) + np.array([rng.gauss(0, 0.7) for _ in range(2)])
                else:
                    arr[2] = rng.uniform(-3.1, 3.1)
            else:
                arr[:] = np.asarray(arr) + np.array([rng.gauss(0, 0.7) for _ in range(len(arr))])
        for ei, e in enumerate(g._edges):
            spec = S.edge_error(e)
            if spec is None:
                continue
            err = np.asarray(e.calc_error(), dtype=np.float64)
            ev += 1
            d = err - spec
            if type(e).__name__ == "EdgeOdometry" and len(err) == 3 and type(e.vertices[0].pose).__name__ == "PoseSE2":
                d[2] = math.remainder(d[2], 2 * math.pi)
            scale = 1 + float(np.max(np.abs(spec))) + max(float(np.max(np.abs(np.asarray(v.pose)))) for v in e.vertices) ** 2
            c, cs = float(e.calc_chi2()), S.edge_chi2(e, err)  # chi2 of the value calc_error() returns NOW
            if not float(np.max(np.abs(d))) <= 1e-9 * scale or not abs(c - cs) <= 1e-9 * (1 + abs(cs)):
                found.append(dict(match="edge-error-stale-after-in-place-edit", kind="edge_error_in_place", edge_index=ei, impl=err.tolist(), spec=spec.tolist(), impl_chi2=c, spec_chi2=cs,
                                  poses_now=[np.asarray(v.pose).tolist() for v in e.vertices], desc=desc))
                return dict(found=found, evaluations=ev)
        t2 = sum(S.edge_chi2(e) for e in g._edges)
        gc3 = float(g.calc_chi2())
        ev += 1
        if not abs(gc3 - t2) <= 1e-9 * (1 + abs(t2)):
            found.append(dict(match="graph-chi2-stale", kind="graph_chi2_after_in_place_edit", impl=gc3, spec=t2, desc=desc))
            return dict(found=found, evaluations=ev)
        # U-turns: measurements / estimates whose heading is EXACTLY +-pi or +-pi/2 (the wrap maps +pi to -pi: the documented range
        # is half open); the angular error is then compared exactly, not modulo 2 pi
        if desc["world"] == "2d" and rng.random() < 0.5:
            from graphslam.pose.se2 import PoseSE2 as _SE2
            from graphslam.vertex import Vertex as _V
            from graphslam.edge.edge_odometry import EdgeOdometry as _EO

            # headings k * pi/2 with every intermediate angle an exact float in [-pi, pi] (so that the unchanged code's own
            # rounding at the seam cannot interfere): k in -2..2, |kb - ka| <= 2, |kz - (kb - ka)| <= 2
            while True:
                ka, kb, kz = rng.randrange(-2, 3), rng.randrange(-2, 3), rng.randrange(-2, 3)
                dk = kb - ka
                dkw = dk - 4 if dk >= 2 else dk  # the wrap of an exact multiple: +pi -> -pi
                if abs(dk) <= 2 and abs(kz - dkw) <= 2 and abs((-2 if kz == 2 else kz) - dkw) <= 2:
                    break
            va, vb = _V(0, _SE2([rng.uniform(-2, 2), rng.uniform(-2, 2)], ka * (math.pi / 2))), _V(1, _SE2([rng.uniform(-2, 2), rng.uniform(-2, 2)], kb * (math.pi / 2)))
            eo = _EO([0, 1], G.spd(rng, 3, True), _SE2([rng.uniform(-2, 2), rng.uniform(-2, 2)], kz * (math.pi / 2)), [va, vb])
            err_ = np.asarray(eo.calc_error(), dtype=np.float64)
            spec_ = S.edge_error(eo)
            ev += 1
            if spec_ is not None:
                sa = float(spec_[2])
                sa = -math.pi if sa >= math.pi else sa
                if not abs(float(err_[2]) - sa) <= 1e-9 or not (-math.pi <= float(err_[2]) < math.pi) or any(not (-math.pi <= float(x.pose[2]) < math.pi) for x in (va, vb)) or not (-math.pi <= float(eo.estimate[2]) < math.pi):
                    found.append(dict(match="edge-error:half-turn", kind="edge_error_half_turn", impl=err_.tolist(), spec=[float(spec_[0]), float(spec_[1]), sa], poses=[np.asarray(va.pose).tolist(), np.asarray(vb.pose).tolist()], estimate=np.asarray(eo.estimate).tolist(), desc=None))
                    return dict(found=found, evaluations=ev)
        # fixed flags are an optimiser concept: chi2 is the sum over *all* edges whatever is fixed (also edges between two
        # fixed vertices)
        for vv in g._vertices:
            vv.fixed = rng.random() < 0.6
        if g._edges:
            for vv in rng.choice(g._edges).vertices:
                vv.fixed = True
        gcf = float(g.calc_chi2())
        ev += 1
        if not abs(gcf - t2) <= 1e-9 * (1 + abs(t2)):
            found.append(dict(match="graph-chi2-depends-on-fixed-flags", kind="graph_chi2_fixed", impl=gcf, spec=t2, fixed=[vv.id for vv in g._vertices if vv.fixed], desc=desc))
            return dict(found=found, evaluations=ev)
        # offset / measurement are public attributes: an edge first evaluated with the identity offset (what a 2-D .g2o
        # line gives) and then given its real offset, or edited in place, follows the current values
        for ei, e in enumerate(g._edges):
            if type(e).__name__ != "EdgeLandmark":
                continue
            real_off = e.offset
            e.offset = type(real_off).identity()
            e2 = type(e)(list(e.vertex_ids), np.asarray(e.information), e.estimate, offset=type(real_off).identity(), offset_id=e.offset_id, vertices=list(e.vertices))
            outs = []
            for ee in (e, e2):
                ee.calc_error(), ee.calc_chi2(), ee.calc_jacobians()
                if rng.random() < 0.5:
                    ee.offset = real_off.copy()
                else:
                    ee.offset[:] = np.asarray(real_off)
                if rng.random() < 0.5:
                    ee.estimate[:] = np.asarray(ee.estimate) + 0.25
                outs.append(ee)
            for ee in outs:
                spec = S.edge_error(ee)
                err = np.asarray(ee.calc_error(), dtype=np.float64)
                ev += 1
                if spec is not None:
                    scale = 1 + float(np.max(np.abs(spec))) + max(float(np.max(np.abs(np.asarray(v.pose)))) for v in ee.vertices) ** 2
                    if not float(np.max(np.abs(err - spec))) <= 1e-9 * scale or not abs(float(ee.calc_chi2()) - S.edge_chi2(ee, err)) <= 1e-9 * (1 + abs(S.edge_chi2(ee, err))):
                        found.append(dict(match="edge-error-stale-after-attribute-change", kind="edge_error_history", edge=desc["edges"][ei] if ei < len(desc["edges"]) else None, impl=err.tolist(), spec=spec.tolist(), desc=desc))
                        return dict(found=found, evaluations=ev)
        t2 = sum(S.edge_chi2(e) for e in g._edges)
        for e in g._edges:
            e.information = np.asarray(e.information) * 2.0
        gc3 = float(g.calc_chi2())
        ev += 1
        if not abs(gc3 - 2 * t2) <= 1e-9 * (1 + abs(t2)):
            found.append(dict(match="graph-chi2-not-linear-in-information", kind="graph_chi2_linear", impl=gc3, spec=2 * t2, desc=desc))
            return dict(found=found, evaluations=ev)
    return dict(found=found, evaluations=ev)


def _c12_custom(seed, tier, broken):
    from search import optimizer as O

    return O.search_report_custom_chi2(seed, _n(tier, broken, 12, 300))


def c12(seed, tier, broken):
    from search import optimizer as O

    w, ev = O.search_report(seed, _n(tier, broken, 25, 500))
    if not w:
        w, ev2 = _c12_custom(seed, tier, broken)
        ev += ev2
    return dict(found=[w] if w else [], evaluations=ev)


def c03(seed, tier, broken):
    from search import optimizer as O

    w, ev, skipped = O.search_step(seed, _n(tier, broken, 60, 3000))
    return dict(found=[w] if w else [], evaluations=ev, skipped_ill_conditioned=skipped)


def c06(seed, tier, broken):
    from search import optimizer as O

    w, ev, outcomes = O.search_fixed(seed, _n(tier, broken, 80, 4000))
    found = [w] if w else []
    if not found:
        w2, ev2, _ = O.search_step(seed, _n(tier, broken, 30, 1000))
        ev += ev2
        if w2:
            found.append(w2)
    return dict(found=found, evaluations=ev, outcomes=outcomes)


def c16(seed, tier, broken):
    from search import optimizer as O

    w, ev, worst = O.search_numjac(seed, _n(tier, broken, 40, 1500))
    found = [w] if w else []
    if not found:
        # n-ary / mixed-dimension contributions: one iteration on graphs with custom edges must be the Gauss-Newton step
        w2, ev2, _ = O.search_step(seed + 17, _n(tier, broken, 40, 1500))
        ev += ev2
        if w2:
            found.append(w2)
    return dict(found=found, evaluations=ev, worst_deviation_over_tolerance=worst)


def c15(seed, tier, broken):
    from harness import purity as P

    found0 = []
    try:
        # deterministic probe of the recorded finding (known_findings.json: se2-plus-pi-rewrap-on-copy): a stored angle of exactly
        # +pi is re-wrapped to -pi by a numerical-Jacobian query
        import math
        import numpy as np
        from graphslam.pose.se2 import PoseSE2
        from graphslam.vertex import Vertex
        from graphslam.edge.base_edge import BaseEdge
        from graphslam.edge.edge_odometry import EdgeOdometry

        pp = PoseSE2([0.0, 0.0], np.nextafter(-np.pi, -np.inf))
        if float(pp[2]) == math.pi:
            vv0, vv1 = Vertex(0, PoseSE2([0.0, 0.0], 0.1)), Vertex(1, pp)
            ee = EdgeOdometry([0, 1], np.eye(3), PoseSE2([1.0, 0.0], 0.2), [vv0, vv1])
            b0 = np.array(vv1.pose).tobytes()
            BaseEdge.calc_jacobians(ee)
            if np.array(vv1.pose).tobytes() != b0:
                found0.append(dict(match="purity:se2-angle-plus-pi:copy-rewraps", what="numerical-Jacobian query re-wrapped a stored angle of +pi to -pi", kind="purity", pose_before=[0.0, 0.0, math.pi], pose_after=np.array(vv1.pose).tolist()))
    except Exception:  # noqa
        pass
    big = tier == "thorough" or broken
    r = P.run(seed + 7919, 400 if big else (180 if tier == "escalated" else 30), 50 if big else 40)
    found = []
    for d in r["disagreements"][:1]:
        d = dict(d)
        d["match"] = "purity:" + d["what"]
        found.append(d)
    return dict(found=found0 + found, evaluations=r["cases"] + 1)


def c04(seed, tier, broken):
    from search import optimizer as O

    w, ev, skipped = O.search_linear(seed, _n(tier, broken, 60, 3000))
    return dict(found=[w] if w else [], evaluations=ev, skipped_rank_deficient=skipped)


def c05(seed, tier, broken):
    from search import optimizer as O

    w, ev, stats = O.search_convergence(seed, _n(tier, broken, 60, 3000))
    return dict(found=[w] if w else [], evaluations=ev, calibrated_bounds=O.CAL, **stats)


def c07(seed, tier, broken):
    from search import metamorphic as M

    w, ev, worst = M.search_frame(seed, _n(tier, broken, 40, 2000))
    return dict(found=[w] if w else [], evaluations=ev, worst_deviation_over_tolerance=worst)


def c08(seed, tier, broken):
    from search import metamorphic as M

    found, ev, counts = M.search_representation(seed, _n(tier, broken, 120, 5000))
    return dict(found=found, evaluations=ev, variants=counts)


def c13(seed, tier, broken):
    """export -> import on the real code, every number bitwise modulo the allowed canonicalisation, chi2 at 1e-12"""
    from search import g2o as S

    return S.search_c13(seed, _n(tier, broken, 150, 6000))


def c14(seed, tier, broken):
    """Graph.from_g2o and the load.py wrappers vs an independent reference parser"""
    from search import g2o as S

    return S.search_c14(seed, _n(tier, broken, 150, 6000))


def replay_g2o(rep):
    from search import g2o as S

    return S.replay(rep)
