"""Richardson-extrapolated central differences (used only by the *search* oracles, never as a decision)."""
import math

import numpy as np


def jac(f, x, h0=1e-2, levels=4, angle_slots=()):
    """Jacobian of f: R^n -> R^m at x by Romberg extrapolation of central differences.
    Outputs listed in `angle_slots` are differenced modulo 2*pi."""
    x = np.asarray(x, dtype=np.float64)
    n = len(x)
    f0 = np.asarray(f(x), dtype=np.float64).ravel()
    m = len(f0)
    J = np.zeros((m, n))
    for j in range(n):
        h = h0 * (1.0 + abs(x[j]))
        T = []
        for k in range(levels):
            hk = h / (2**k)
            xp = x.copy()
            xm = x.copy()
            xp[j] += hk
            xm[j] -= hk
            d = np.asarray(f(xp), dtype=np.float64).ravel() - np.asarray(f(xm), dtype=np.float64).ravel()
            for a in angle_slots:
                d[a] = math.remainder(d[a], 2 * math.pi)
            row = [d / (2 * hk)]
            for i in range(1, k + 1):
                row.append(row[i - 1] + (row[i - 1] - T[k - 1][i - 1]) / (4**i - 1))
            T.append(row)
        J[:, j] = T[-1][-1]
    return J
