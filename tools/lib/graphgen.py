"""Random well-formed graphs on the real graphslam classes (shared by the Layer-B harnesses and the searches).

Every random choice comes from the Rng passed in.  `make_graph` returns the real `Graph`; `describe` a JSON-able
description from which `rebuild` reconstructs the same graph (used for replays)."""
import math

import numpy as np

from .common import use_repo

use_repo()
from graphslam.edge.base_edge import BaseEdge  # noqa: E402
from graphslam.edge.edge_landmark import EdgeLandmark  # noqa: E402
from graphslam.edge.edge_odometry import EdgeOdometry  # noqa: E402
from graphslam.graph import Graph  # noqa: E402
from graphslam.pose.r2 import PoseR2  # noqa: E402
from graphslam.pose.r3 import PoseR3  # noqa: E402
from graphslam.pose.se2 import PoseSE2  # noqa: E402
from graphslam.pose.se3 import PoseSE3  # noqa: E402
from graphslam.vertex import Vertex  # noqa: E402

CLS = {"PoseR2": PoseR2, "PoseR3": PoseR3, "PoseSE2": PoseSE2, "PoseSE3": PoseSE3}
POINT = {"PoseR2": "PoseR2", "PoseR3": "PoseR3", "PoseSE2": "PoseR2", "PoseSE3": "PoseR3"}


def mk_pose(cname, v):
    v = [float(x) for x in v]
    if cname == "PoseSE2":
        return PoseSE2(v[:2], v[2])
    if cname == "PoseSE3":
        return PoseSE3(v[:3], v[3:])
    return CLS[cname](v)


def rand_pose_vals(rng, cname, spread=5.0):
    s = lambda: rng.uniform(-spread, spread)
    if cname == "PoseR2":
        return [s(), s()]
    if cname == "PoseR3":
        return [s(), s(), s()]
    if cname == "PoseSE2":
        return [s(), s(), rng.uniform(-math.pi, math.pi)]
    return [s(), s(), s()] + rng.unit_quat()


def spd(rng, n, cross=True, cond=None):
    """symmetric positive-definite matrix with eigenvalues log-uniform in [0.5, 50] (or up to `cond`)"""
    a = np.array([[rng.gauss(0, 1) for _ in range(n)] for _ in range(n)])
    q, _ = np.linalg.qr(a)
    hi = 50.0 if cond is None else 0.5 * cond
    ev = np.array([rng.logu(0.5, hi) for _ in range(n)])
    m = (q * ev) @ q.T if cross else np.diag(ev)
    return (m + m.T) / 2


class DistanceEdge(BaseEdge):
    """custom n-ary edge with *numerical* Jacobians (defines only calc_error): distance between the positions of its
    first two vertices (binary), norm of the position (unary), or perimeter of a triangle (ternary), minus estimate"""

    def is_valid(self):
        return self._is_valid()

    def calc_error(self):
        ps = [np.asarray(v.pose.position, dtype=np.float64) for v in self.vertices]
        d = min(len(p) for p in ps)
        ps = [p[:d] for p in ps]
        if len(ps) == 1:
            val = np.linalg.norm(ps[0])
        elif len(ps) == 2:
            val = np.linalg.norm(ps[0] - ps[1])
        else:
            val = sum(np.linalg.norm(ps[i] - ps[(i + 1) % len(ps)]) for i in range(len(ps)))
        return np.array([val - self.estimate])


class DistanceEdgeAnalytic(DistanceEdge):
    """same error, analytic Jacobians through the pose classes' public building blocks"""

    def calc_jacobians(self):
        ps = [np.asarray(v.pose.position, dtype=np.float64) for v in self.vertices]
        d = min(len(p) for p in ps)
        out = []
        n = len(ps)
        for k, v in enumerate(self.vertices):
            g = np.zeros(len(ps[k]))
            if n == 1:
                g[:d] = ps[0][:d] / np.linalg.norm(ps[0][:d])
            elif n == 2:
                diff = ps[0][:d] - ps[1][:d]
                g[:d] = (1 if k == 0 else -1) * diff / np.linalg.norm(diff)
            else:
                for i in range(n):
                    j = (i + 1) % n
                    diff = ps[i][:d] - ps[j][:d]
                    u = diff / np.linalg.norm(diff)
                    if i == k:
                        g[:d] += u
                    if j == k:
                        g[:d] -= u
            # d position / d pose (ambient) then chain with box-plus
            dim_full = len(np.asarray(v.pose))
            P = np.zeros((len(ps[k]), dim_full))
            P[:, : len(ps[k])] = np.eye(len(ps[k]))
            out.append((g @ P @ v.pose.jacobian_boxplus()).reshape(1, -1))
        return out


def make_graph(rng, world=None, nv=None, ne=None, fix="first", custom=True, well_posed=False, noise=0.1, multi=True, ids="shuffled", cross=True, meas_noise=None, walk=False):
    """world: '2d' (SE2 poses + R2 landmarks), '3d' (SE3 + R3), 'r2', 'r3', or 'mixed' (2d and 3d components in one graph).
    Returns (graph, desc)."""
    world = world or rng.choice(["2d", "3d", "r2", "r3", "mixed"])
    nv = nv or rng.randrange(2, 9)
    mn = noise * 0.3 if meas_noise is None else meas_noise
    comps = []
    if world == "mixed":
        comps = [("2d", max(2, nv // 2)), ("3d", max(2, nv - nv // 2))]
    else:
        comps = [(world, nv)]
    verts = []  # (id, cname, vals, fixed)
    edges = []  # dicts
    next_id = 0
    id_pool = list(range(200))
    if ids == "shuffled":
        id_pool = rng.sample(range(-50, 1000), 200)
    elif ids == "huge":
        id_pool = [rng.randrange(-(2**62), 2**62) for _ in range(200)]
    for w, n in comps:
        pose_t = {"2d": "PoseSE2", "3d": "PoseSE3", "r2": "PoseR2", "r3": "PoseR3"}[w]
        point_t = POINT[pose_t]
        n_land = 0 if w in ("r2", "r3") else rng.randrange(0, max(1, n // 2) + 1)
        n_pose = max(2, n - n_land)
        base = len(verts)
        truth = []
        cur = None
        for k in range(n_pose):
            if walk and cur is not None:
                # random-walk ground truth: unit-scale steps with moderate rotations
                c = cur.COMPACT_DIMENSIONALITY
                step = np.array([rng.gauss(0, 1.0) for _ in range(c)])
                if pose_t == "PoseSE3":
                    step[3:] *= 0.25
                elif pose_t == "PoseSE2":
                    step[2] *= 0.5
                cur = cur + step
                truth.append((pose_t, np.asarray(cur).tolist()))
            else:
                vals = rand_pose_vals(rng, pose_t)
                cur = mk_pose(pose_t, vals)
                truth.append((pose_t, vals))
        for k in range(n_land):
            if walk:
                a = rng.randrange(n_pose)
                base_pos = np.asarray(mk_pose(pose_t, truth[a][1]).position)
                truth.append((point_t, (base_pos + np.array([rng.gauss(0, 2.0) for _ in range(len(base_pos))])).tolist()))
            else:
                truth.append((point_t, rand_pose_vals(rng, point_t)))
        order = list(range(len(truth)))
        rng.shuffle(order)
        idx_of = {}
        for k in order:
            cname, vals = truth[k]
            vid = id_pool[next_id]
            next_id += 1
            init = list(vals)
            if noise:
                p = mk_pose(cname, vals)
                c = p.COMPACT_DIMENSIONALITY
                init = np.asarray(p + np.array([rng.gauss(0, noise) for _ in range(c)])).tolist()
            idx_of[k] = len(verts)
            verts.append(dict(id=vid, cls=cname, vals=init, fixed=False, truth=vals))
        # spanning chain of odometry edges + extra loop closures
        pose_idx = list(range(n_pose))
        pairs = [(pose_idx[i], pose_idx[i + 1]) for i in range(n_pose - 1)]
        extra = rng.randrange(0, n_pose + 1) if ne is None else max(0, ne - len(pairs))
        for _ in range(extra):
            a, b = rng.sample(pose_idx, 2)
            pairs.append((a, b))
            if multi and rng.random() < 0.3:
                pairs.append((a, b) if rng.random() < 0.5 else (b, a))
        for a, b in pairs:
            if rng.random() < 0.3:
                a, b = b, a
            pa, pb = mk_pose(pose_t, truth[a][1]), mk_pose(pose_t, truth[b][1])
            z = pb - pa
            c = z.COMPACT_DIMENSIONALITY
            if mn:
                z = z + np.array([rng.gauss(0, mn) for _ in range(c)])
            edges.append(dict(kind="odometry", vids=[verts[idx_of[a]]["id"], verts[idx_of[b]]["id"]], est_cls=pose_t, est=np.asarray(z).tolist(), info=spd(rng, c, cross and rng.random() >= 0.15).tolist()))
        for k in range(n_pose, n_pose + n_land):
            for _ in range(rng.randrange(1, 3)):
                a = rng.choice(pose_idx)
                off_vals = rand_pose_vals(rng, pose_t, spread=1.0) if rng.random() < 0.7 else np.asarray(CLS[pose_t].identity()).tolist()
                if rng.random() < 0.2:  # rotation-only offset (zero lever arm, e.g. a camera optical frame)
                    npos = 2 if pose_t == "PoseSE2" else 3
                    off_vals = [0.0] * npos + list(rand_pose_vals(rng, pose_t)[npos:])
                pa, off, l = mk_pose(pose_t, truth[a][1]), mk_pose(pose_t, off_vals), mk_pose(point_t, truth[k][1])
                z = (pa + off).inverse + l
                c = z.COMPACT_DIMENSIONALITY
                if mn:
                    z = z + np.array([rng.gauss(0, mn) for _ in range(c)])
                edges.append(dict(kind="landmark", vids=[verts[idx_of[a]]["id"], verts[idx_of[k]]["id"]], est_cls=point_t, est=np.asarray(z).tolist(), off_cls=pose_t, off=off_vals, off_id=rng.randrange(0, 5), info=spd(rng, c, cross and rng.random() >= 0.15).tolist()))
        if w in ("r2", "r3") and rng.random() < 0.5 and n_pose >= 2:
            # point-to-point landmark edges with offsets
            for _ in range(rng.randrange(1, 3)):
                a, b = rng.sample(pose_idx, 2)
                off_vals = rand_pose_vals(rng, pose_t, spread=1.0)
                pa, off, l = mk_pose(pose_t, truth[a][1]), mk_pose(pose_t, off_vals), mk_pose(pose_t, truth[b][1])
                z = (pa + off).inverse + l
                c = z.COMPACT_DIMENSIONALITY
                edges.append(dict(kind="landmark", vids=[verts[idx_of[a]]["id"], verts[idx_of[b]]["id"]], est_cls=pose_t, est=np.asarray(z).tolist(), off_cls=pose_t, off=off_vals, off_id=None, info=spd(rng, c, cross and rng.random() >= 0.15).tolist()))
        if custom and rng.random() < 0.5:
            for _ in range(rng.randrange(1, 3)):
                arity = rng.choice([1, 2, 2, 3])
                arity = min(arity, len(truth))
                ks = rng.sample(range(len(truth)), arity)
                ps = [np.asarray(mk_pose(*truth[k]).position) for k in ks]
                d = min(len(p) for p in ps)
                if arity == 1:
                    val = float(np.linalg.norm(ps[0][:d]))
                elif arity == 2:
                    val = float(np.linalg.norm(ps[0][:d] - ps[1][:d]))
                else:
                    val = float(sum(np.linalg.norm(ps[i][:d] - ps[(i + 1) % arity][:d]) for i in range(arity)))
                if val < 0.2:
                    continue
                edges.append(dict(kind=rng.choice(["custom_num", "custom_ana"]), vids=[verts[idx_of[k]]["id"] for k in ks], est=val, info=[[rng.logu(0.5, 50)]]))
        # fixed flags
        comp_verts = verts[base:]
        if fix in ("first", "none"):
            pass
        elif fix == "random":
            for v in comp_verts:
                v["fixed"] = rng.random() < 0.3
        if well_posed and fix != "first" and not any(v["fixed"] for v in comp_verts):
            rng.choice(comp_verts)["fixed"] = True
    if world == "mixed" and fix == "first":
        # fix_first_pose only fixes the first listed vertex: give the other component its own anchor
        first_cls = verts[0]["cls"]
        is2d = first_cls in ("PoseSE2", "PoseR2")
        for v in verts:
            if (v["cls"] in ("PoseSE2", "PoseR2")) != is2d:
                v["fixed"] = True
                break
    rng.shuffle(edges)
    desc = dict(world=world, vertices=verts, edges=edges)
    return rebuild(desc), desc


def rebuild(desc):
    vs = [Vertex(v["id"], mk_pose(v["cls"], v["vals"]), fixed=bool(v["fixed"])) for v in desc["vertices"]]
    es = []
    for e in desc["edges"]:
        info = np.array(e["info"], dtype=np.float64)
        if e["kind"] == "odometry":
            es.append(EdgeOdometry(list(e["vids"]), info, mk_pose(e["est_cls"], e["est"])))
        elif e["kind"] == "landmark":
            es.append(EdgeLandmark(list(e["vids"]), info, mk_pose(e["est_cls"], e["est"]), offset=mk_pose(e["off_cls"], e["off"]), offset_id=e["off_id"]))
        elif e["kind"] == "custom_num":
            es.append(DistanceEdge(list(e["vids"]), info, float(e["est"])))
        else:
            es.append(DistanceEdgeAnalytic(list(e["vids"]), info, float(e["est"])))
    return Graph(es, vs)


def snapshot(g):
    """bitwise snapshot of everything a query must not change"""
    out = []
    for v in g._vertices:
        out.append(("v", v.id, type(v.pose).__name__, np.asarray(v.pose).tobytes(), bool(v.fixed), v.gradient_index))
    for e in g._edges:
        est = e.estimate
        out.append(("e", type(e).__name__, tuple(e.vertex_ids), np.asarray(e.information).tobytes(), np.asarray(est, dtype=np.float64).tobytes(), type(est).__name__, (np.asarray(e.offset).tobytes(), e.offset_id) if hasattr(e, "offset") else None, tuple(id(v) for v in e.vertices)))
    return out
