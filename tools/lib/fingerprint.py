"""Source fingerprints of the /repo modules a property's hand-written (Layer B) models and harness oracles depend on.

The fingerprint of a module is the SHA-256 of its AST with docstrings removed (comments, formatting and docstring edits do
not change it).  tools/source_baseline.json holds the fingerprints of the tree the models were written against.  When a
module a property depends on differs from the baseline, ./check does NOT report anything by itself (a harmless rewrite is
not a violation) - it escalates: the correspondence harnesses and the implementation-level searches of that property run
with their thorough-tier budgets, because a changed source is exactly when a hand model may have silently stopped
describing the code.  Regenerate the baseline (tools/dev/gen_source_baseline.py) only after re-reading the changed code
against the models."""
import ast
import glob
import hashlib
import json
import os

HERE = os.path.dirname(os.path.abspath(__file__))
BASELINE = os.path.join(os.path.dirname(HERE), "source_baseline.json")

ALL = ["graphslam/graph.py", "graphslam/vertex.py", "graphslam/load.py", "graphslam/g2o_parameters.py", "graphslam/util.py",
       "graphslam/edge/base_edge.py", "graphslam/edge/edge_odometry.py", "graphslam/edge/edge_landmark.py",
       "graphslam/pose/base_pose.py", "graphslam/pose/r2.py", "graphslam/pose/r3.py", "graphslam/pose/se2.py", "graphslam/pose/se3.py"]
POSE = [f for f in ALL if "/pose/" in f] + ["graphslam/util.py"]
EDGE = [f for f in ALL if "/edge/" in f]
CORE = POSE + EDGE + ["graphslam/graph.py", "graphslam/vertex.py"]

DEPENDS = {
    "C01": POSE + EDGE, "C02": CORE, "C03": CORE, "C04": CORE, "C05": CORE, "C06": CORE, "C07": CORE, "C08": CORE,
    "C09": POSE, "C10": POSE, "C11": CORE, "C12": CORE, "C13": ALL, "C14": ALL, "C15": ALL, "C16": CORE, "C17": ALL, "C18": CORE,
}


def _strip_docstrings(tree):
    for node in ast.walk(tree):
        if isinstance(node, (ast.FunctionDef, ast.AsyncFunctionDef, ast.ClassDef, ast.Module)):
            b = node.body
            if b and isinstance(b[0], ast.Expr) and isinstance(getattr(b[0], "value", None), ast.Constant) and isinstance(b[0].value.value, str):
                node.body = b[1:] or [ast.Pass()]
    return tree


def module_fingerprint(path):
    try:
        src = open(path).read()
        tree = _strip_docstrings(ast.parse(src))
        return hashlib.sha256(ast.dump(tree, include_attributes=False).encode()).hexdigest()[:16]
    except SyntaxError as e:
        return "syntax-error:%s" % e.lineno
    except OSError:
        return "missing"


def function_fingerprints(path):
    """{qualified name: hash} for every function/method of a module (used to name what changed)"""
    out = {}
    try:
        tree = _strip_docstrings(ast.parse(open(path).read()))
    except Exception:
        return out

    def walk(node, prefix):
        for ch in getattr(node, "body", []):
            if isinstance(ch, (ast.FunctionDef, ast.AsyncFunctionDef)):
                out[prefix + ch.name] = hashlib.sha256(ast.dump(ch, include_attributes=False).encode()).hexdigest()[:12]
                walk(ch, prefix + ch.name + ".")
            elif isinstance(ch, ast.ClassDef):
                walk(ch, prefix + ch.name + ".")

    walk(tree, "")
    return out


def current(repo):
    files = sorted(set(ALL) | set(os.path.relpath(p, repo) for p in glob.glob(os.path.join(repo, "graphslam", "**", "*.py"), recursive=True)))
    return {f: dict(module=module_fingerprint(os.path.join(repo, f)), functions=function_fingerprints(os.path.join(repo, f))) for f in files}


def drift(repo, pid):
    """list of 'file:function' entries of the property's dependency cone that differ from the baseline"""
    try:
        base = json.load(open(BASELINE))["files"]
    except Exception:
        return ["baseline-missing"]
    cur = current(repo)
    out = []
    deps = set(DEPENDS.get(pid, ALL))
    # a new module under graphslam/ counts for every property
    for f in sorted(cur):
        if f not in base:
            if not f.endswith("__init__.py"):
                out.append(f + ":<new module>")
            continue
        if f not in deps:
            continue
        if cur[f]["module"] == base[f]["module"]:
            continue
        bf, cf = base[f]["functions"], cur[f]["functions"]
        changed = sorted(k for k in set(bf) | set(cf) if bf.get(k) != cf.get(k))
        # report innermost names only
        changed = [k for k in changed if not any(o != k and o.startswith(k + ".") for o in changed)]
        out += ["%s:%s" % (f, k) for k in changed] or [f + ":<module level>"]
    return out
