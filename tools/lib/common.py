"""Shared helpers for the /verif harnesses (run under /venv/bin/python with the real graphslam importable)."""
import hashlib
import json
import os
import random
import struct
import subprocess
import sys
import time

VERIF = os.path.abspath(os.path.join(os.path.dirname(__file__), "..", ".."))
REPO = os.environ.get("VERIF_REPO", "/repo")
LEAN_DIR = os.environ.get("VERIF_LEAN_DIR") or os.path.join(VERIF, "lean")  # override: development copies only
DRIVER = os.path.join(LEAN_DIR, ".lake", "build", "bin", "gsdriver")


def use_repo():
    """make `import graphslam` resolve to REPO's working tree (not an installed copy)"""
    if REPO not in sys.path:
        sys.path.insert(0, REPO)
    import graphslam  # noqa

    p = os.path.dirname(os.path.abspath(graphslam.__file__))
    assert os.path.realpath(p) == os.path.realpath(os.path.join(REPO, "graphslam")), (p, REPO)
    return graphslam


def f2h(x):
    return "%016x" % struct.unpack("<Q", struct.pack("<d", float(x)))[0]


def h2f(s):
    return struct.unpack("<d", struct.pack("<Q", int(s, 16)))[0]


class Driver:
    """Line protocol to the compiled Lean model driver."""

    def __init__(self, binary="gsdriver"):
        path = os.path.join(LEAN_DIR, ".lake", "build", "bin", binary)
        if not os.path.exists(path):
            raise RuntimeError("driver not built: " + path)
        self.p = subprocess.Popen([path], stdin=subprocess.PIPE, stdout=subprocess.PIPE, text=True, bufsize=1 << 20)
        self.n = 0

    def ask(self, line):
        self.p.stdin.write(line + "\n")
        self.p.stdin.flush()
        self.n += 1
        r = self.p.stdout.readline()
        if not r:
            raise RuntimeError("driver died on: " + line[:200])
        return r.rstrip("\n")

    def ask_many(self, lines):
        """pipeline a batch (avoids a round trip per line)"""
        out = []
        B = 2000
        for i in range(0, len(lines), B):
            chunk = lines[i : i + B]
            self.p.stdin.write("\n".join(chunk) + "\n")
            self.p.stdin.flush()
            for _ in chunk:
                r = self.p.stdout.readline()
                if not r:
                    raise RuntimeError("driver died")
                out.append(r.rstrip("\n"))
        self.n += len(lines)
        return out

    def eval(self, name, dims, floats):
        r = self.ask("eval %s %s %s" % (name, ",".join(map(str, dims)) if dims else "-", " ".join(f2h(x) for x in floats)))
        if not r.startswith("ok"):
            raise RuntimeError("driver: %s on %s" % (r, name))
        return [h2f(w) for w in r.split()[1:]]

    def close(self):
        try:
            self.p.stdin.close()
            self.p.wait(timeout=10)
        except Exception:
            self.p.kill()


class Rng(random.Random):
    """single PRNG: every random choice of a run derives from VERIF_SEED"""

    def __init__(self, seed, salt=""):
        h = hashlib.sha256(("%s|%s" % (seed, salt)).encode()).digest()
        super().__init__(int.from_bytes(h[:8], "big"))

    def sign(self):
        return -1.0 if self.random() < 0.5 else 1.0

    def logu(self, lo, hi):
        import math

        return math.exp(self.uniform(math.log(lo), math.log(hi)))

    def scalar(self):
        r = self.random()
        if r < 0.5:
            return self.uniform(-1.0, 1.0)
        if r < 0.85:
            return self.sign() * self.logu(1e-3, 1e4)
        if r < 0.9:
            return 0.0
        return self.uniform(-10, 10)

    def angle(self):
        import math

        r = self.random()
        if r < 0.5:
            return self.uniform(-math.pi, math.pi)
        if r < 0.65:
            return self.sign() * (math.pi - self.logu(1e-12, 1e-3))
        if r < 0.75:
            return self.choice([0.0, math.pi, -math.pi, math.pi / 2, -math.pi / 2])
        if r < 0.9:
            return self.uniform(-50, 50)
        return self.sign() * self.logu(1e-9, 1e3)

    def unit_quat(self):
        import math

        r = self.random()
        while True:
            q = [self.gauss(0, 1) for _ in range(4)]
            n = math.sqrt(sum(x * x for x in q))
            if n > 1e-3:
                break
        q = [x / n for x in q]
        if r < 0.1:  # w == 0 exactly (180 degree rotation)
            q[3] = 0.0
            n = math.sqrt(sum(x * x for x in q))
            q = [x / n for x in q]
        elif r < 0.2:  # near identity
            e = self.logu(1e-9, 1e-2)
            v = [self.gauss(0, e) for _ in range(3)]
            w = math.sqrt(max(0.0, 1 - sum(x * x for x in v)))
            q = v + [w * self.sign()]
        elif r < 0.3:  # near 180 degrees
            q[3] = self.sign() * self.logu(1e-9, 1e-3)
            n = math.sqrt(sum(x * x for x in q))
            q = [x / n for x in q]
        elif r < 0.4:  # axis aligned
            k = self.randrange(3)
            a = self.uniform(-math.pi, math.pi)
            q = [0.0, 0.0, 0.0, math.cos(a / 2)]
            q[k] = math.sin(a / 2)
        return q


def write_json(path, obj):
    os.makedirs(os.path.dirname(path), exist_ok=True)
    tmp = path + ".tmp%d" % os.getpid()
    with open(tmp, "w") as f:
        json.dump(obj, f, indent=1, default=str)
        f.write("\n")
    os.replace(tmp, path)


def now():
    return time.time()
