import sys; sys.path.insert(0,'/verif/tools')
from lib.common import Rng
from lib import graphgen as G
from search import optimizer as O
import numpy as np, math
def trial(world, init, meas, n, seed0=0):
    fails=0; tot=0
    for k in range(n):
        rng=Rng(seed0,"cal|%s|%g|%g|%d"%(world,init,meas,k))
        g,desc=G.make_graph(rng, world=world, nv=rng.randrange(3,14), noise=init, meas_noise=meas, custom=False, fix="first", ids="plain", walk=True)
        i0=next(i for i,v in enumerate(desc["vertices"]) if v["cls"].startswith("PoseSE"))
        desc["vertices"][0],desc["vertices"][i0]=desc["vertices"][i0],desc["vertices"][0]
        g=G.rebuild(desc)
        chi0=float(g.calc_chi2())
        r=O.quiet_optimize(g, tol=1e-8, max_iter=100)
        tot+=1
        ok = math.isfinite(float(r.final_chi2)) and r.converged and float(r.final_chi2) <= chi0*(1+1e-9)+1e-12
        if ok:
            lam2,cond=O.newton_decrement(g)
            if lam2 is not None and lam2 > 20*1e-8*max(float(r.final_chi2),1e-12)+1e-10: ok=False
        fails += (not ok)
    return fails, tot
for world in ("2d","3d"):
    for init in (0.05,0.1,0.2,0.4,0.8):
        for meas in (0.0, 0.02, 0.05):
            print(world, init, meas, trial(world, init, meas, 150))
