#!/usr/bin/env python3-vt
"""Development-time helper (NOT run by the checks): certificate lemmas for C07 (SE(3)).  Output is committed."""
import os
import sys

import sympy as sp

HERE = os.path.dirname(os.path.abspath(__file__))
sys.path.insert(0, HERE)
from certs import Sym, cert, load, vec  # noqa: E402
import gen_c09  # noqa: F401,E402  (reuses theorem_vec and the se3_unfold macro text)
from gen_c09 import theorem_vec  # noqa: E402

tr = load()
S = Sym(tr)
p, q = vec("p", 7), vec("q", 7)
x = vec("x", 3)
inv = lambda v: S.call("PoseSE3.inverse", v)
add = lambda a, b: S.call("PoseSE3.add", a, b)
ap = lambda a, b: S.call("PoseSE3.add_point", a, b)
out = '''import GraphSlam.Props.C09.SE3

/-!
# C07 — certificate lemmas for SE(3) (generated once by tools/dev/gen_c07.py, kernel-checked)
-/

namespace GraphSlam.Props.C07
open GraphSlam GraphSlam.Gen GraphSlam.Props.C09
set_option linter.unusedSimpArgs false
set_option linter.unusedVariables false
set_option maxHeartbeats 4000000

'''
out += theorem_vec("PoseSE3_inverse_add_rev", "`(p ⊕ q)⁻¹ = q⁻¹ ⊕ p⁻¹` (unit `p`, `q`)", "(p q : Fin 7 → ℝ) (hp : Unit4 p) (hq : Unit4 q)", [("hp", p), ("hq", q)], "PoseSE3.inverse (PoseSE3.add p q)", "PoseSE3.add (PoseSE3.inverse q) (PoseSE3.inverse p)", inv(add(p, q)), add(inv(q), inv(p)), p + q)
out += theorem_vec("PoseSE3_inverse_add_point_cancel", "`p⁻¹ • (p • x) = x` (unit `p`)", "(p : Fin 7 → ℝ) (x : Fin 3 → ℝ) (hp : Unit4 p)", [("hp", p)], "PoseSE3.add_point (PoseSE3.inverse p) (PoseSE3.add_point p x)", "x", ap(inv(p), ap(p, x)), x, p + x)
out += "end GraphSlam.Props.C07\n"
open(os.path.join(HERE, "..", "..", "lean", "GraphSlam", "Props", "C07", "SE3Certs.lean"), "w").write(out)
print("written", len(out))
