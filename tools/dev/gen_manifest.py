#!/usr/bin/env python3
"""Writes /verif/MANIFEST.json from tools/props.py (development-time helper; the manifest is committed)."""
import json
import os
import sys

HERE = os.path.dirname(os.path.abspath(__file__))
sys.path.insert(0, os.path.join(HERE, ".."))
import props as P  # noqa: E402

VERIF = os.path.abspath(os.path.join(HERE, "..", ".."))
ALL = ["C%02d" % i for i in range(1, 19)]

checks = []
for pid in ALL:
    if pid not in P.PROPS:
        continue
    c = P.PROPS[pid]
    checks.append(
        dict(
            property_id=pid,
            quick_cmd="./check %s --tier quick" % pid,
            thorough_cmd="./check %s --tier thorough" % pid,
            evidence_file="evidence/%s.json" % pid,
            replay_cmd_template="./check %s --replay {path}" % pid,
            engine="lean4-proof",
            level_claimed=dict(category="proof", text=c["level_text"], design_ref=c.get("design_ref", "DESIGN.md §5 " + pid)),
            level_note=c["level_note"],
            technique=c["technique"],
        )
    )
na = [dict(property_id=p, reason=P.NOT_APPLICABLE.get(p, "check not built yet in this revision (planned: DESIGN.md §5 %s); no claim is made" % p)) for p in ALL if p not in P.PROPS]
man = dict(
    version=1,
    setup_cmd="./setup.sh",
    hooks=dict(
        guard="GRAPHSLAM_VERIF",
        enable="no hooks are needed: every check imports the unmodified /repo working tree in-process (all properties have hook_needed=null)",
        baseline_off_cmd="cd /repo && /venv/bin/python -m pytest -ra -q -p no:cacheprovider --timeout=900 --continue-on-collection-errors",
        source_commits=[],
        add_only=True,
    ),
    engines=[
        dict(name="lean4-proof", path="lean/", serves_properties=[c["property_id"] for c in checks], kind_free_text="Lean 4.33 + Mathlib theorems about (A) definitions regenerated from /repo's Python source by tools/translate/py2lean.py on every run and (B) hand-written models tied by a correspondence harness (tools/harness) that drives the compiled Lean model (lean/Driver) and the real code on the same inputs"),
    ],
    checks=checks,
    notes="A broken proof/translation/correspondence is never reported by itself as a failing input: the property's implementation-level search runs first; if it finds nothing the VIOLATION line ends with no-failing-input-found. See DESIGN.md §4.",
    not_applicable=na,
)
json.dump(man, open(os.path.join(VERIF, "MANIFEST.json"), "w"), indent=1)
print("checks:", [c["property_id"] for c in checks], "not_applicable:", [n["property_id"] for n in na])
