"""Self-test of the `.g2o` source tie (py2lean_g2o.py + Props/Tie/G2OPy.lean).

Every mutation is a small realistic edit of a scratch copy of /repo/graphslam (never of /repo).  For each one the translator is
run on the copy; if it stops (`Untranslatable`) that is the detection.  Otherwise the regenerated `Generated/G2OPy.lean` is put
into the private Lean project, `lake build GraphSlam.Props.Tie.G2OPy` is run, and the theorems whose proofs stop checking are
listed.  The unchanged tree and a few harmless edits must translate to byte-identical Lean (apart from line numbers / hashes in
the docstrings) and build.

    /venv/bin/python selftest_g2o.py [--work /var/tmp/leanwork/P8/lean] [--repo /repo] [--scratch /var/tmp/leanwork/P8/scratch/mut]
"""
import argparse
import json
import os
import re
import shutil
import subprocess
import sys
import time

HERE = os.path.dirname(os.path.abspath(__file__))
sys.path.insert(0, HERE)
import py2lean_g2o as T  # noqa: E402

# (name, file, old, new, description); `old` must occur exactly once in the file
MUTATIONS = [
    ("swap_written_fields", "graphslam/vertex.py",
     'return "VERTEX_SE2 {} {} {} {}\\n".format(self.id, self.pose[0], self.pose[1], self.pose[2])',
     'return "VERTEX_SE2 {} {} {} {}\\n".format(self.id, self.pose[1], self.pose[0], self.pose[2])',
     "VERTEX_SE2 written as id y x theta"),
    ("info_wrong_offset", "graphslam/edge/edge_odometry.py",
     "information = upper_triangular_matrix_to_full_matrix(arr[3:], 3)",
     "information = upper_triangular_matrix_to_full_matrix(arr[2:], 3)",
     "EDGE_SE2: information read from arr[2:] instead of arr[3:]"),
    ("drop_normalize", "graphslam/edge/edge_odometry.py",
     "            estimate.normalize()\n", "",
     "EDGE_SE3:QUAT: estimate.normalize() dropped on import"),
    ("change_written_tag", "graphslam/vertex.py",
     'return "VERTEX_XY {} {} {}\\n".format(', 'return "VERTEX_R2 {} {} {}\\n".format(',
     "VERTEX_XY written with the tag VERTEX_R2"),
    ("int_of_float_id", "graphslam/vertex.py",
     '            p = PoseR2(arr)\n            return cls(int(numbers[0]), p)',
     '            p = PoseR2(arr)\n            return cls(int(float(numbers[0])), p)',
     "VERTEX_XY id read through int(float(tok))"),
    ("edge_ids_swapped", "graphslam/edge/edge_odometry.py",
     'numbers = line[len("EDGE_SE2 "):].split()  # fmt: skip\n            arr = np.array([float(number) for number in numbers[2:]], dtype=np.float64)\n            vertex_ids = [int(numbers[0]), int(numbers[1])]',
     'numbers = line[len("EDGE_SE2 "):].split()  # fmt: skip\n            arr = np.array([float(number) for number in numbers[2:]], dtype=np.float64)\n            vertex_ids = [int(numbers[1]), int(numbers[0])]',
     "EDGE_SE2: vertex ids read in the other order"),
    ("offset_id_position", "graphslam/edge/edge_landmark.py",
     "offset_id = int(numbers[2])", "offset_id = int(numbers[1])",
     "EDGE_SE3_TRACKXYZ: offset id read from token 1"),
    ("offset_id_written_last", "graphslam/edge/edge_landmark.py",
     "self.vertex_ids[0], self.vertex_ids[1], self.offset_id, self.estimate[0], self.estimate[1], self.estimate[2])",
     "self.vertex_ids[0], self.vertex_ids[1], self.estimate[0], self.estimate[1], self.estimate[2], self.offset_id)",
     "EDGE_SE3_TRACKXYZ: offset id written after the estimate"),
    ("triu_diagonal_offset", "graphslam/edge/edge_landmark.py",
     "self.information[np.triu_indices(3, 0)]", "self.information[np.triu_indices(3, 1)]",
     "EDGE_SE3_TRACKXYZ: information written without its diagonal"),
    ("tril_not_mirrored", "graphslam/util.py",
     "tril1 = np.tril_indices(n, -1)", "tril1 = np.tril_indices(n, -2)",
     "upper_triangular_matrix_to_full_matrix: first sub-diagonal not mirrored"),
    ("startswith_without_space", "graphslam/vertex.py",
     'if line.startswith("VERTEX_SE2 "):', 'if line.startswith("VERTEX_SE2"):',
     "VERTEX_SE2 matched without the trailing space"),
    ("skip_wrong_literal", "graphslam/g2o_parameters.py",
     'numbers = line[len("PARAMS_SE3OFFSET "):].split()', 'numbers = line[len("PARAMS_SE3OFFSET"):].split()',
     "PARAMS_SE3OFFSET: one character fewer skipped before split (harmless for split(), still a changed statement)"),
    ("param_quaternion_first", "graphslam/g2o_parameters.py",
     "            self.key[1],\n            self.value[0],\n            self.value[1],\n            self.value[2],\n            self.value[3],\n            self.value[4],\n            self.value[5],\n            self.value[6],",
     "            self.key[1],\n            self.value[6],\n            self.value[0],\n            self.value[1],\n            self.value[2],\n            self.value[3],\n            self.value[4],\n            self.value[5],",
     "PARAMS_SE3OFFSET written qw first"),
    ("vertices_before_params", "graphslam/graph.py",
     "            if self._g2o_params:\n                for g2o_param in self._g2o_params.values():\n                    f.write(g2o_param.to_g2o())\n\n            for v in self._vertices:\n                f.write(v.to_g2o())\n",
     "            for v in self._vertices:\n                f.write(v.to_g2o())\n\n            if self._g2o_params:\n                for g2o_param in self._g2o_params.values():\n                    f.write(g2o_param.to_g2o())\n",
     "Graph.to_g2o writes the vertices before the parameters"),
    ("odometry_before_custom", "graphslam/graph.py",
     "                    # Custom edge types\n                    custom_edge_or_none = custom_edge_from_g2o(line, custom_edge_types, g2o_params)\n                    if custom_edge_or_none:\n                        edges.append(custom_edge_or_none)\n                        continue\n\n                    # Odometry Edge\n                    edge_or_none = EdgeOdometry.from_g2o(line, g2o_params)\n                    if edge_or_none:\n                        edges.append(edge_or_none)\n                        continue\n",
     "                    # Odometry Edge\n                    edge_or_none = EdgeOdometry.from_g2o(line, g2o_params)\n                    if edge_or_none:\n                        edges.append(edge_or_none)\n                        continue\n\n                    # Custom edge types\n                    custom_edge_or_none = custom_edge_from_g2o(line, custom_edge_types, g2o_params)\n                    if custom_edge_or_none:\n                        edges.append(custom_edge_or_none)\n                        continue\n",
     "Graph.from_g2o tries odometry before the registered custom edge types"),
    ("warning_strip", "graphslam/graph.py",
     "_LOGGER.warning(\"Line not supported -- '%s'\", line.rstrip())", "_LOGGER.warning(\"Line not supported -- '%s'\", line.strip())",
     "warning text uses strip() instead of rstrip()"),
    ("missing_continue", "graphslam/graph.py",
     "                    if vertex_or_none:\n                        vertices.append(vertex_or_none)\n                        continue\n",
     "                    if vertex_or_none:\n                        vertices.append(vertex_or_none)\n",
     "a vertex line is also offered to the edge / parameter readers"),
    ("se2_ctor_swapped", "graphslam/pose/se2.py",
     "np.array([position[0], position[1], neg_pi_to_pi(orientation)], dtype=np.float64)",
     "np.array([position[1], position[0], neg_pi_to_pi(orientation)], dtype=np.float64)",
     "PoseSE2.__new__ stores y before x"),
    ("deprecation_message", "graphslam/load.py",
     '"load_g2o_se2 is deprecated; use Graph.load_g2o instead"', '"load_g2o_se2 is deprecated"',
     "load_g2o_se2 logs another message"),
    ("falsy_edge_written", "graphslam/graph.py",
     "                if edge_str_or_none:\n                    f.write(edge_str_or_none)", "                f.write(edge_str_or_none or \"\")",
     "edge loop rewritten (harmless here, but no longer the statement the model mirrors)"),
    # the mutants of the first C13/C14 build round (DESIGN.md section 10.1, table (d)) that touch located statements
    ("c13_fmt6", "graphslam/vertex.py",
     'return "VERTEX_SE2 {} {} {} {}\\n".format(self.id, self.pose[0], self.pose[1], self.pose[2])',
     'return "VERTEX_SE2 {} {:.6f} {:.6f} {:.6f}\\n".format(self.id, self.pose[0], self.pose[1], self.pose[2])',
     "6-digit formatting of SE2 vertices"),
    ("c13_tril", "graphslam/edge/edge_odometry.py",
     '" ".join([str(x) for x in self.information[np.triu_indices(3, 0)]])', '" ".join([str(x) for x in self.information[np.tril_indices(3, 0)]])',
     "EDGE_SE2 writes the lower triangle"),
    ("c13_offset_id_zero", "graphslam/edge/edge_landmark.py",
     "self.vertex_ids[0], self.vertex_ids[1], self.offset_id, self.estimate[0]", "self.vertex_ids[0], self.vertex_ids[1], 0, self.estimate[0]",
     "EDGE_SE3_TRACKXYZ always written with offset id 0"),
    ("c13_drop_precheck", "graphslam/graph.py",
     "                if param is None or not np.array_equal(param.value, e.offset):", "                if False:",
     "pre-check of Graph.to_g2o disabled"),
    ("c14_wrong_field", "graphslam/vertex.py",
     "p = PoseSE2(arr[:2], arr[2])", "p = PoseSE2(arr[:2], arr[1])",
     "VERTEX_SE2 angle read from the y field"),
    ("c14_split_space", "graphslam/edge/edge_landmark.py",
     'numbers = line[len("EDGE_SE2_XY "):].split()', 'numbers = line[len("EDGE_SE2_XY "):].split(" ")',
     "EDGE_SE2_XY fields split on single spaces only"),
    ("c14_first_param_wins", "graphslam/graph.py",
     "                        g2o_params[param_or_none.key] = param_or_none\n", "                        g2o_params.setdefault(param_or_none.key, param_or_none)\n",
     "duplicate parameter ids: the first line wins"),
    ("c14_blank_test", "graphslam/graph.py",
     "                if line.strip():", '                if line != "\\n":',
     "only the empty line counts as blank"),
    ("c14_loader_silent", "graphslam/load.py",
     '    _LOGGER.warning("load_g2o_se2 is deprecated; use Graph.load_g2o instead")\n', "",
     "load_g2o_se2 no longer logs its deprecation warning"),
    ("c14_triu_no_mirror", "graphslam/util.py",
     "    mat[tril1] = mat.T[tril1]\n", "",
     "information not mirrored below the diagonal"),
]

# edits that do not change any located statement: the generated definitions must be unchanged and the tie must build
HARMLESS = [
    ("comment_and_blank_lines", "graphslam/vertex.py", "        # R^2\n", "        # the plane\n\n", "a comment changed, a blank line added"),
    ("docstring", "graphslam/util.py", '"""Given an upper triangular matrix, return the full matrix.', '"""Expand an upper triangular matrix.', "a docstring changed"),
    ("quotes", "graphslam/edge/edge_landmark.py", 'if line.startswith("EDGE_SE2_XY "):', "if line.startswith('EDGE_SE2_XY '):", "quote style"),
]


def strip_meta(txt):
    """generated text without the docstrings (line numbers / hashes move with every edit)"""
    return re.sub(r"/--.*?-/\n", "", txt, flags=re.S)


def build(work, module):
    t0 = time.time()
    p = subprocess.run(["lake", "build", module], cwd=work, stdout=subprocess.PIPE, stderr=subprocess.STDOUT, text=True, timeout=1800)
    return p.returncode, p.stdout, time.time() - t0


def failing_theorems(work, out):
    """names of the theorems of Props/Tie/G2OPy.lean in which an error is reported (an error on a docstring line belongs to
    the declaration that follows)"""
    src = open(os.path.join(work, "GraphSlam/Props/Tie/G2OPy.lean")).read().splitlines()
    decl = re.compile(r"\s*(?:theorem|def)\s+(\S+)")
    names = []
    for m in re.finditer(r"error: GraphSlam/Props/Tie/G2OPy\.lean:(\d+):", out):
        i = min(int(m.group(1)), len(src)) - 1
        if src[i].lstrip().startswith("/--") or src[i].lstrip().startswith("set_option"):
            while i < len(src) and not decl.match(src[i]):
                i += 1
        else:
            while i >= 0 and not decl.match(src[i]):
                i -= 1
        if 0 <= i < len(src) and decl.match(src[i]).group(1) not in names:
            names.append(decl.match(src[i]).group(1))
    return names


def main():
    ap = argparse.ArgumentParser()
    ap.add_argument("--work", default=os.path.join(HERE, "lean"))
    ap.add_argument("--repo", default="/repo")
    ap.add_argument("--scratch", default=os.path.join(HERE, "scratch", "mut"))
    ap.add_argument("--only", default=None)
    ap.add_argument("--json", default=os.path.join(HERE, "selftest_g2o_result.json"))
    a = ap.parse_args()
    gen = os.path.join(a.work, "GraphSlam/Generated/G2OPy.lean")
    base_txt, _ = T.translate(a.repo)
    open(gen, "w").write(base_txt)
    rc, out, dt = build(a.work, "GraphSlam.Props.Tie.G2OPy")
    print("unchanged tree: translate ok, tie build rc=%d (%.0fs)" % (rc, dt))
    assert rc == 0, out[-3000:]
    results = [dict(name="unchanged", kind="baseline", detected=False, how="translates; all tie theorems check", seconds=round(dt, 1))]
    try:
        for kind, muts in (("mutation", MUTATIONS), ("harmless", HARMLESS)):
            for name, rel, old, new, desc in muts:
                if a.only and name != a.only:
                    continue
                d = os.path.join(a.scratch, name)
                shutil.rmtree(d, ignore_errors=True)
                shutil.copytree(os.path.join(a.repo, "graphslam"), os.path.join(d, "graphslam"))
                path = os.path.join(d, rel)
                s = open(path).read()
                assert s.count(old) == 1, "%s: pattern occurs %d times in %s" % (name, s.count(old), rel)
                open(path, "w").write(s.replace(old, new))
                compile(open(path).read(), path, "exec")  # the mutant is valid Python
                r = dict(name=name, kind=kind, file=rel, change=desc)
                try:
                    txt, _ = T.translate(d)
                except T.Untranslatable as e:
                    r.update(detected=True, how="translation stops", detail="%s:%s: %s" % (e.file, e.line, e.reason))
                    print("%-26s translation stops   %s:%s: %s" % (name, e.file, e.line, e.reason))
                    results.append(r)
                    continue
                if strip_meta(txt) == strip_meta(base_txt):
                    r.update(detected=False, how="generated definitions unchanged", detail="")
                    print("%-26s generated definitions unchanged (not detected)" % name)
                    results.append(r)
                    continue
                open(gen, "w").write(txt)
                rc, out, dt = build(a.work, "GraphSlam.Props.Tie.G2OPy")
                names = failing_theorems(a.work, out)
                r.update(detected=rc != 0, how="tie theorems fail" if rc != 0 else "generated definitions changed but all tie theorems still check", detail=", ".join(names), seconds=round(dt, 1))
                print("%-26s %s: %s (%.0fs)" % (name, r["how"], r["detail"], dt))
                results.append(r)
    finally:
        open(gen, "w").write(base_txt)
        rc, out, dt = build(a.work, "GraphSlam.Props.Tie.G2OPy")
        print("restored the unchanged generated file: tie build rc=%d (%.0fs)" % (rc, dt))
    json.dump(results, open(a.json, "w"), indent=1)
    bad = [r["name"] for r in results if (r["kind"] == "mutation" and not r["detected"]) or (r["kind"] == "harmless" and r["detected"])]
    print("mutations detected: %d/%d; harmless edits silent: %d/%d%s" % (
        sum(1 for r in results if r["kind"] == "mutation" and r["detected"]), sum(1 for r in results if r["kind"] == "mutation"),
        sum(1 for r in results if r["kind"] == "harmless" and not r["detected"]), sum(1 for r in results if r["kind"] == "harmless"),
        ("; UNEXPECTED: " + ", ".join(bad)) if bad else ""))
    return 1 if bad else 0


if __name__ == "__main__":
    sys.exit(main())
