#!/bin/sh
# import_round6.sh Cxx : confirm and import /tmp/wt6/Cxx/mutants/m1,m2 as seeded/Cxx-m11, Cxx-m12
p=$1
/venv/bin/python /verif/tools/dev/import_mutant.py /tmp/wt6/$p 1 $p-m11
/venv/bin/python /verif/tools/dev/import_mutant.py /tmp/wt6/$p 2 $p-m12
