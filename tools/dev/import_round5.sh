#!/bin/sh
# import_round5.sh Cxx : confirm and import /tmp/wt5/Cxx/mutants/m1,m2 as seeded/Cxx-m9, Cxx-m10
p=$1
/venv/bin/python /verif/tools/dev/import_mutant.py /tmp/wt5/$p 1 $p-m9
/venv/bin/python /verif/tools/dev/import_mutant.py /tmp/wt5/$p 2 $p-m10
