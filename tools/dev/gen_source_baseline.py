#!/venv/bin/python
"""Record the fingerprints of /repo's current working tree as the tree the hand models were written against."""
import json
import os
import subprocess
import sys

sys.path.insert(0, os.path.join(os.path.dirname(__file__), ".."))
from lib import fingerprint as F

repo = os.environ.get("VERIF_REPO", "/repo")
head = subprocess.run(["git", "-C", repo, "rev-parse", "HEAD"], stdout=subprocess.PIPE, text=True).stdout.strip()
json.dump(dict(repo_head=head, files=F.current(repo)), open(F.BASELINE, "w"), indent=1, sort_keys=True)
print("wrote", F.BASELINE, "for", head)
