#!/usr/bin/env python3-vt
"""Development-time helper (NOT run by the checks): writes lean/GraphSlam/Props/C09/SE3.lean — the SE(3) group-law
theorems with sympy-computed `linear_combination` certificates (see certs.py).  Output is committed."""
import os
import sys

import sympy as sp

HERE = os.path.dirname(os.path.abspath(__file__))
sys.path.insert(0, HERE)
from certs import Sym, cert, load, vec  # noqa: E402

tr = load()
S = Sym(tr)
UNF = "PoseSE3.add, PoseSE3.sub, PoseSE3.inverse, PoseSE3.identity, PoseSE3.add_point, PoseSE3.to_matrix, PoseSE3.copy, PoseSE3.to_compact, PoseSE3.position, PoseSE3.orientation"


def theorem_vec(name, doc, binders, units, lhs_lean, rhs_lean, lhs, rhs, allvars):
    n = len(lhs)
    s = "/-- %s -/\ntheorem %s %s :\n    %s = %s := by\n  try unfold Unit4 at *\n  funext i\n  fin_cases i\n" % (doc, name, binders, lhs_lean, rhs_lean)
    for i in range(n):
        c = cert(lhs[i] - rhs[i], units, allvars)
        assert c is not None, (name, i, sp.expand(lhs[i] - rhs[i]))
        s += "  · se3_unfold <;> %s\n" % c
    return s + "\n"


def theorem_mat(name, doc, binders, units, stmt_fn, lhs, rhs, allvars):
    m, n = len(lhs), len(lhs[0])
    s = "/-- %s -/\ntheorem %s %s (i : Fin %d) (j : Fin %d) :\n    %s := by\n  try unfold Unit4 at *\n  fin_cases i <;> fin_cases j\n" % (doc, name, binders, m, n, stmt_fn)
    for i in range(m):
        for j in range(n):
            c = cert(lhs[i][j] - rhs[i][j], units, allvars)
            assert c is not None, (name, i, j)
            s += "  · se3_unfold <;> %s\n" % c
    return s + "\n"


p, q, r = vec("p", 7), vec("q", 7), vec("r", 7)
x = vec("x", 3)
out = '''import GraphSlam.Real.Reflect
import GraphSlam.Generated.PoseSE3
import Mathlib.Tactic.LinearCombination

/-!
# C09 / C11 for `PoseSE3` — composition is the rigid-motion group (unit quaternions)

Statements are fixed; the definitions (`PoseSE3.add`, `.sub`, `.inverse`, `.to_matrix`, …) are regenerated from
`/repo/graphslam/pose/se3.py` on every run.  Identities that hold only on the unit sphere are proved by
`linear_combination c * hp` where the cofactor `c` was found by sympy (tools/dev/certs.py) — an untrusted oracle: the
kernel re-checks the identity by `ring`.  A certificate keeps checking under any rewrite of the code denoting the same
polynomial and stops checking when the polynomial changes.
-/

namespace GraphSlam.Props.C09
open GraphSlam GraphSlam.Gen
set_option linter.unusedSimpArgs false
set_option linter.unusedVariables false
set_option maxHeartbeats 4000000

/-- the quaternion part `[qx qy qz qw] = p 3 … p 6` has unit norm -/
def Unit4 (p : Fin 7 → ℝ) : Prop := p 3 ^ 2 + p 4 ^ 2 + p 5 ^ 2 + p 6 ^ 2 = 1

/-- squared norm of the quaternion part -/
def qnorm2 (p : Fin 7 → ℝ) : ℝ := p 3 ^ 2 + p 4 ^ 2 + p 5 ^ 2 + p 6 ^ 2

macro "se3_unfold" : tactic =>
  `(tactic| simp only [%s, dotMM, finSum_four, finSum_three, qnorm2,
      real_ofInt, Fin.isValue, Fin.reduceEq, Fin.reduceFinMk, Fin.zero_eta, Fin.mk_one, Fin.reduceLast, Fin.reduceCastSucc,
      Fin.castSucc_zero, Fin.castSucc_one, Fin.last, Fin.castSucc,
      Int.cast_zero, Int.cast_one, Int.cast_ofNat, Int.cast_neg, ↓reduceIte, if_true, if_false])

''' % UNF

inv = lambda v: S.call("PoseSE3.inverse", v)
add = lambda a, b: S.call("PoseSE3.add", a, b)
sub = lambda a, b: S.call("PoseSE3.sub", a, b)
ident = S.call("PoseSE3.identity")
P = "(p : Fin 7 → ℝ)"
out += theorem_vec("PoseSE3_identity_left", "identity is a left unit (every `p`)", P, [], "PoseSE3.add PoseSE3.identity p", "p", add(ident, p), p, p)
out += theorem_vec("PoseSE3_identity_right", "identity is a right unit (every `p`)", P, [], "PoseSE3.add p PoseSE3.identity", "p", add(p, ident), p, p)
out += theorem_vec("PoseSE3_add_inverse", "`p ⊕ p⁻¹ = identity` for unit quaternions", P + " (hp : Unit4 p)", [("hp", p)], "PoseSE3.add p (PoseSE3.inverse p)", "PoseSE3.identity", add(p, inv(p)), ident, p)
out += theorem_vec("PoseSE3_inverse_add", "`p⁻¹ ⊕ p = identity` for unit quaternions", P + " (hp : Unit4 p)", [("hp", p)], "PoseSE3.add (PoseSE3.inverse p) p", "PoseSE3.identity", add(inv(p), p), ident, p)
out += theorem_vec("PoseSE3_inverse_inverse", "inversion is an involution on unit quaternions", P + " (hp : Unit4 p)", [("hp", p)], "PoseSE3.inverse (PoseSE3.inverse p)", "p", inv(inv(p)), p, p)
out += theorem_vec("PoseSE3_sub_eq_inverse_add", "`a ⊖ b = b⁻¹ ⊕ a` (unit `b`)", "(p q : Fin 7 → ℝ) (hq : Unit4 q)", [("hq", q)], "PoseSE3.sub p q", "PoseSE3.add (PoseSE3.inverse q) p", sub(p, q), add(inv(q), p), p + q)
out += theorem_vec("PoseSE3_add_assoc", "composition is associative (unit `p`, `q`)", "(p q r : Fin 7 → ℝ) (hp : Unit4 p) (hq : Unit4 q)", [("hp", p), ("hq", q)], "PoseSE3.add (PoseSE3.add p q) r", "PoseSE3.add p (PoseSE3.add q r)", add(add(p, q), r), add(p, add(q, r)), p + q + r)
out += theorem_vec("PoseSE3_add_sub_cancel", "`(q ⊕ p) ⊖ q = p` (unit `q`)", "(p q : Fin 7 → ℝ) (hq : Unit4 q)", [("hq", q)], "PoseSE3.sub (PoseSE3.add q p) q", "p", sub(add(q, p), q), p, p + q)
out += theorem_vec("PoseSE3_add_sub_cancel_left", "`q ⊕ (p ⊖ q) = p` (unit `q`)", "(p q : Fin 7 → ℝ) (hq : Unit4 q)", [("hq", q)], "PoseSE3.add q (PoseSE3.sub p q)", "p", add(q, sub(p, q)), p, p + q)
out += theorem_vec("PoseSE3_sub_eq_inverse_add'", "`a ⊖ b = (b⁻¹ ⊕ a)` restated for the odometry error: `z ⊖ (p₁ ⊖ p₀) = (p₀⁻¹ ⊕ p₁)⁻¹ ⊕ z` (unit `p₀`, `p₁`)", "(z p0 p1 : Fin 7 → ℝ) (h0 : Unit4 p0) (h1 : Unit4 p1)", [("h0", vec("p0_", 7)), ("h1", vec("p1_", 7))], "PoseSE3.sub z (PoseSE3.sub p1 p0)", "PoseSE3.add (PoseSE3.inverse (PoseSE3.add (PoseSE3.inverse p0) p1)) z", [sp.Integer(0)], [sp.Integer(0)], []) if False else ""
out += theorem_vec("PoseSE3_sub_self", "`p ⊖ p = identity` (unit `p`)", P + " (hp : Unit4 p)", [("hp", p)], "PoseSE3.sub p p", "PoseSE3.identity", sub(p, p), ident, p)

# norms (C11): exact multiplicativity, no hypothesis
n2 = lambda v: v[3] ** 2 + v[4] ** 2 + v[5] ** 2 + v[6] ** 2
for nm, val, stmt in (
    ("add", add(p, q), "qnorm2 (PoseSE3.add p q) = qnorm2 p * qnorm2 q"),
    ("sub", sub(p, q), "qnorm2 (PoseSE3.sub p q) = qnorm2 p * qnorm2 q"),
):
    assert sp.expand(n2(val) - n2(p) * n2(q)) == 0
    out += "/-- the quaternion norm is multiplicative under `%s` (every real operand) -/\ntheorem PoseSE3_qnorm2_%s (p q : Fin 7 → ℝ) : %s := by\n  se3_unfold; ring\n\n" % (nm, nm, stmt)
assert sp.expand(n2(inv(p)) - n2(p)) == 0
out += "theorem PoseSE3_qnorm2_inverse (p : Fin 7 → ℝ) : qnorm2 (PoseSE3.inverse p) = qnorm2 p := by\n  se3_unfold; ring\n\n"
out += "theorem PoseSE3_qnorm2_copy (p : Fin 7 → ℝ) : qnorm2 (PoseSE3.copy p) = qnorm2 p := by\n  se3_unfold\n\n"
out += "theorem PoseSE3_qnorm2_identity : qnorm2 (PoseSE3.identity (E := ℝ)) = 1 := by\n  se3_unfold; norm_num\n\n"
out += '''/-- every operation maps unit quaternions to unit quaternions -/
theorem PoseSE3_unit_add (p q : Fin 7 → ℝ) (hp : Unit4 p) (hq : Unit4 q) : Unit4 (PoseSE3.add p q) := by
  have h := PoseSE3_qnorm2_add p q
  unfold Unit4 at *; unfold qnorm2 at h; rw [h, hp, hq]; norm_num
theorem PoseSE3_unit_sub (p q : Fin 7 → ℝ) (hp : Unit4 p) (hq : Unit4 q) : Unit4 (PoseSE3.sub p q) := by
  have h := PoseSE3_qnorm2_sub p q
  unfold Unit4 at *; unfold qnorm2 at h; rw [h, hp, hq]; norm_num
theorem PoseSE3_unit_inverse (p : Fin 7 → ℝ) (hp : Unit4 p) : Unit4 (PoseSE3.inverse p) := by
  have h := PoseSE3_qnorm2_inverse p
  unfold Unit4 at *; unfold qnorm2 at h; rw [h, hp]
theorem PoseSE3_unit_identity : Unit4 (PoseSE3.identity (E := ℝ)) := PoseSE3_qnorm2_identity

'''
# matrix form
M = lambda v: S.call("PoseSE3.to_matrix", v)
Mp, Mq, Mpq = M(p), M(q), M(add(p, q))
prod = [[sum(Mp[i][k] * Mq[k][j] for k in range(4)) for j in range(4)] for i in range(4)]
out += theorem_mat("PoseSE3_to_matrix_add", "⊕ is multiplication of the 4×4 homogeneous matrices `to_matrix` returns (unit `p`, `q`)", "(p q : Fin 7 → ℝ) (hp : Unit4 p) (hq : Unit4 q)", [("hp", p), ("hq", q)], "PoseSE3.to_matrix (PoseSE3.add p q) i j = dotMM (PoseSE3.to_matrix p) (PoseSE3.to_matrix q) i j", Mpq, prod, p + q)
Mi = M(inv(p))
prod = [[sum(Mp[i][k] * Mi[k][j] for k in range(4)) for j in range(4)] for i in range(4)]
I4 = [[sp.Integer(1 if i == j else 0) for j in range(4)] for i in range(4)]
out += theorem_mat("PoseSE3_to_matrix_inverse", "`to_matrix p · to_matrix p⁻¹ = I` (unit `p`)", "(p : Fin 7 → ℝ) (hp : Unit4 p)", [("hp", p)], "dotMM (PoseSE3.to_matrix p) (PoseSE3.to_matrix (PoseSE3.inverse p)) i j = (if i = j then 1 else 0)", prod, I4, p)
# rotation block orthogonal
R = [[Mp[i][j] for j in range(3)] for i in range(3)]
RRt = [[sum(R[i][k] * R[j][k] for k in range(3)) for j in range(3)] for i in range(3)]
I3 = [[sp.Integer(1 if i == j else 0) for j in range(3)] for i in range(3)]
s = "/-- the rotation block of `to_matrix p` is orthogonal for unit `p` (so `to_matrix` really is a rigid motion) -/\ntheorem PoseSE3_rotation_orthogonal (p : Fin 7 → ℝ) (hp : Unit4 p) (i j : Fin 3) :\n    (PoseSE3.to_matrix p (Fin.castLE (by omega) i) 0 * PoseSE3.to_matrix p (Fin.castLE (by omega) j) 0 + PoseSE3.to_matrix p (Fin.castLE (by omega) i) 1 * PoseSE3.to_matrix p (Fin.castLE (by omega) j) 1 + PoseSE3.to_matrix p (Fin.castLE (by omega) i) 2 * PoseSE3.to_matrix p (Fin.castLE (by omega) j) 2) = (if i = j then 1 else 0) := by\n  unfold Unit4 at *\n  fin_cases i <;> fin_cases j\n"
for i in range(3):
    for j in range(3):
        c = cert(RRt[i][j] - I3[i][j], [("hp", p)], p)
        assert c
        s += "  · simp only [Fin.castLE]; se3_unfold <;> %s\n" % c
out += s + "\n"
# point action = matrix-vector product
ap = S.call("PoseSE3.add_point", p, x)
mv = [sum(Mp[i][k] * (x + [sp.Integer(1)])[k] for k in range(4)) for i in range(3)]
s = "/-- `pose ⊕ point` is the action of the homogeneous matrix on the point (unit `p`) -/\ntheorem PoseSE3_add_point_action (p : Fin 7 → ℝ) (x : Fin 3 → ℝ) (hp : Unit4 p) (i : Fin 3) :\n    PoseSE3.add_point p x i = PoseSE3.to_matrix p (Fin.castLE (by omega) i) 0 * x 0 + PoseSE3.to_matrix p (Fin.castLE (by omega) i) 1 * x 1 + PoseSE3.to_matrix p (Fin.castLE (by omega) i) 2 * x 2 + PoseSE3.to_matrix p (Fin.castLE (by omega) i) 3 := by\n  unfold Unit4 at *\n  fin_cases i\n"
for i in range(3):
    c = cert(ap[i] - mv[i], [("hp", p)], p + x)
    assert c
    s += "  · simp only [Fin.castLE]; se3_unfold <;> %s\n" % c
out += s + "\n"
# action compatibility: (p ⊕ q) • x = p • (q • x)
lhs = S.call("PoseSE3.add_point", add(p, q), x)
rhs = S.call("PoseSE3.add_point", p, S.call("PoseSE3.add_point", q, x))
out += theorem_vec("PoseSE3_add_point_add", "the point action is compatible with composition (unit `p`, `q`)", "(p q : Fin 7 → ℝ) (x : Fin 3 → ℝ) (hp : Unit4 p) (hq : Unit4 q)", [("hp", p), ("hq", q)], "PoseSE3.add_point (PoseSE3.add p q) x", "PoseSE3.add_point p (PoseSE3.add_point q x)", lhs, rhs, p + q + x)
# add_point agrees with composition's translation
lhs = S.call("PoseSE3.add_point", p, [q[0], q[1], q[2]])
rhs = add(p, q)[:3]
assert all(sp.expand(a - b) == 0 for a, b in zip(lhs, rhs))
out += "end GraphSlam.Props.C09\n"
open(os.path.join(HERE, "..", "..", "lean", "GraphSlam", "Props", "C09", "SE3.lean"), "w").write(out)
print("written", len(out))
