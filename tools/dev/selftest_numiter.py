"""Self-test of tools/harness/numiter.py (typed numerical-Jacobian graph model, driver command `numiterm` / `numiter`): one-line
changes of BaseEdge._calc_jacobian in a scratch copy of the library must be reported as disagreements; the unchanged copy and
behaviour-preserving edits must pass.

    /venv/bin/python tools/dev/selftest_numiter.py [n_graphs=30] [seed=0]

The scratch copies live under $VERIF_SCRATCH (default /var/tmp/gsverif_selftest_numiter) and are removed afterwards; /repo is
never written.  Exit status 0 iff every change is caught and every equivalent edit passes.
"""
import json
import os
import shutil
import subprocess
import sys

HERE = os.path.dirname(os.path.abspath(__file__))
TOOLS = os.path.abspath(os.path.join(HERE, ".."))
REPO = os.environ.get("VERIF_REPO", "/repo")
SCRATCH = os.environ.get("VERIF_SCRATCH", "/var/tmp/gsverif_selftest_numiter")
F = "graphslam/edge/base_edge.py"

QUOT = "            jacobian[:, d] = (self.calc_error() - err) / self._NUMERICAL_DIFFERENTIATION_EPSILON\n"
RESTORE = "            self.vertices[vertex_index].pose = p0.copy()\n"
STEP = "            delta_pose[d] = self._NUMERICAL_DIFFERENTIATION_EPSILON\n"

# (name, old, new, expected stage(s) of the first disagreement or None when any stage will do)
MUTS = [
    ("quotient_by_2eps", QUOT, "            jacobian[:, d] = (self.calc_error() - err) / (2 * self._NUMERICAL_DIFFERENTIATION_EPSILON)\n", ("gradient", "hessian")),
    ("restore_skipped_last_column", RESTORE, "            if d < dim - 1:\n                self.vertices[vertex_index].pose = p0.copy()\n", None),
    ("restore_skipped_always", RESTORE, "            pass\n", None),
    ("step_negative", STEP, "            delta_pose[d] = -self._NUMERICAL_DIFFERENTIATION_EPSILON\n", None),
    ("step_wrong_coordinate", STEP, "            delta_pose[dim - 1 - d] = self._NUMERICAL_DIFFERENTIATION_EPSILON\n", None),
    ("column_wrong_index", QUOT, QUOT.replace("jacobian[:, d]", "jacobian[:, dim - 1 - d]"), None),
    ("difference_reversed", QUOT, QUOT.replace("(self.calc_error() - err)", "(err - self.calc_error())"), None),
    ("epsilon_1e-7", "    _NUMERICAL_DIFFERENTIATION_EPSILON = 1e-6\n", "    _NUMERICAL_DIFFERENTIATION_EPSILON = 1e-7\n", ("epsilon",)),
    ("first_vertex_only", "        return [self._calc_jacobian(err, v.pose.COMPACT_DIMENSIONALITY, i) for i, v in enumerate(self.vertices)]\n",
     "        return [self._calc_jacobian(err, v.pose.COMPACT_DIMENSIONALITY, 0) for i, v in enumerate(self.vertices)]\n", None),
]

EQUIV = [
    ("eq_unchanged", None, None),
    ("eq_restore_without_second_copy", RESTORE, "            self.vertices[vertex_index].pose = p0.copy().copy()\n"),
    ("eq_named_eps", QUOT, "            eps = self._NUMERICAL_DIFFERENTIATION_EPSILON\n            jacobian[:, d] = (self.calc_error() - err) / eps\n"),
]


def run_on(name, old, new, n, seed):
    dst = os.path.join(SCRATCH, name)
    shutil.rmtree(dst, ignore_errors=True)
    os.makedirs(dst)
    shutil.copytree(os.path.join(REPO, "graphslam"), os.path.join(dst, "graphslam"))
    if old is not None:
        p = os.path.join(dst, F)
        s = open(p).read()
        if s.count(old) != 1:
            return dict(error="pattern occurs %d times" % s.count(old))
        open(p, "w").write(s.replace(old, new))
    code = ("import sys, json; sys.path.insert(0, %r); from harness import numiter as N; r = N.run(%d, %d); "
            "print('RESULT ' + json.dumps(dict(ok=r['ok'], graphs=r['graphs'], stages=[d['stage'] for d in r['disagreements']], "
            "first={k: v for k, v in (r['disagreements'][0] if r['disagreements'] else {}).items() if k in ('stage', 'graph', 'deviation', 'vertex', 'at')}, "
            "worst_b=r['worst_b'], worst_H=r['worst_H']), default=str))") % (TOOLS, seed, n)
    p = subprocess.run([sys.executable, "-c", code], env=dict(os.environ, VERIF_REPO=dst), capture_output=True, text=True)
    shutil.rmtree(dst, ignore_errors=True)
    for line in p.stdout.splitlines():
        if line.startswith("RESULT "):
            return json.loads(line[7:])
    return dict(error=(p.stderr or p.stdout)[-400:])


def main():
    n = int(sys.argv[1]) if len(sys.argv) > 1 else 30
    seed = int(sys.argv[2]) if len(sys.argv) > 2 else 0
    rows, good = [], True
    for name, old, new in EQUIV:
        r = run_on(name, old, new, n, seed)
        passed = r.get("ok") is True
        good &= passed
        rows.append(dict(name=name, kind="equivalent", verdict="passes" if passed else "WRONGLY REPORTED", **r))
        print(rows[-1], flush=True)
    for name, old, new, stages in MUTS:
        r = run_on(name, old, new, n, seed)
        caught = r.get("ok") is False and bool(r.get("stages")) and (stages is None or r["stages"][0] in stages)
        good &= caught
        rows.append(dict(name=name, kind="change", verdict="caught" if caught else "NOT CAUGHT", **r))
        print(rows[-1], flush=True)
    shutil.rmtree(SCRATCH, ignore_errors=True)
    print(json.dumps(dict(ok=good, caught=sum(r["verdict"] == "caught" for r in rows), changes=len(MUTS), equivalent_pass=sum(r["verdict"] == "passes" for r in rows), equivalent=len(EQUIV))))
    return 0 if good else 1


if __name__ == "__main__":
    sys.exit(main())
