#!/usr/bin/env python3
"""Development-time helper (NOT run by the checks): writes the *statements* of the 48 pose-level Jacobian
theorems (C10) into lean/GraphSlam/Props/C10/<cls>.lean.  The output is committed and thereafter maintained by hand;
the statements are fixed, only the definitions they mention are regenerated from /repo on every run."""
import os

OUT = os.path.join(os.path.dirname(__file__), "..", "..", "lean", "GraphSlam", "Props", "C10")
DIMS = {"PoseR2": (2, 2, 2), "PoseR3": (3, 3, 3), "PoseSE2": (3, 3, 2), "PoseSE3": (7, 6, 3)}

HEAD = """import GraphSlam.Real.Reflect
import GraphSlam.Real.Wrap
import GraphSlam.Generated.{cls}

/-!
# C10 for `{cls}` — every public Jacobian method is the exact Fréchet derivative

Statements are hand-written and fixed; the definitions they mention (`{cls}.add`, `{cls}.jacobian_…`) are
regenerated from `/repo/graphslam/{file}` on every run, so a change to a formula changes the term these theorems
are about.  All operands range over *all* real vectors (no unit-norm / range hypothesis) except where a
hypothesis is displayed.
-/

namespace GraphSlam.Props.C10
open GraphSlam GraphSlam.Gen GraphSlam.Expr
set_option linter.unusedSimpArgs false
set_option linter.unusedVariables false
set_option linter.unnecessarySeqFocus false
set_option maxHeartbeats 4000000

"""


def thm(name, binders, hyp, fun, J, at, P, N, ps, expr, defs, smooth_hyp):
    hyps = (" " + hyp) if hyp else ""
    if smooth_hyp:
        sm = "intro i; fin_cases i <;> simp [%s, Util.neg_pi_to_pi, Smooth, closed, eval, vars, pars] <;> exact ⟨Real.pi_pos, %s⟩" % (", ".join(defs), smooth_hyp)
    else:
        sm = "intro i; fin_cases i <;> simp [%s, Smooth, vars, pars]" % ", ".join(defs)
    return """theorem %s %s%s :
    HasFDerivAt (%s) (toCLM (%s)) %s := by
  refine hasFDerivAt_of_reflect %s %s _ (%s) _ ?_ ?_ ?_
  · reflect_rfl
  · %s
  · jac_entries [%s]

""" % (name, binders, hyps, fun, J, at, ps, at, expr, sm, ", ".join(defs + (["Util.neg_pi_to_pi"] if smooth_hyp else [])))


CORE = {"add_wrt_self", "sub_wrt_self", "sub_wrt_other", "sub_wrt_other_compact", "inverse", "oplus_point_wrt_self", "oplus_point_wrt_point", "boxplus"}


def gen(cls):
    """returns (core_text, extra_text): `core` holds the theorems the edge Jacobians (C01) are assembled from,
    `extra` the remaining public Jacobian methods, so that a change to a method no edge uses cannot break C01's cone."""
    d, c, pd = DIMS[cls]
    se2 = cls == "PoseSE2"
    file = {"PoseR2": "pose/r2.py", "PoseR3": "pose/r3.py", "PoseSE2": "pose/se2.py", "PoseSE3": "pose/se3.py"}[cls]
    out = {True: "", False: ""}

    def add(tag, text):
        out[tag in CORE] += text

    pq = "(p q : Fin %d → ℝ)" % d
    X = lambda P, N: "(E := Expr %d %d)" % (P, N)
    V = lambda P, N: "(vars %d %d)" % (P, N)
    Pa = lambda P, N: "(pars %d %d)" % (P, N)
    for op, opname, hyp_arg in (("add", "oplus", "p 2 + q 2"), ("sub", "ominus", "p 2 - q 2")):
        h = "(h : OffWrap (%s))" % hyp_arg if se2 else ""
        hn = "h" if se2 else None
        J = "%s.jacobian_self_%s_other_wrt_self" % (cls, opname)
        add("%s_wrt_self" % op, thm("%s_%s_wrt_self" % (cls, op), pq, h, "fun s => %s.%s s q" % (cls, op), "%s p q" % J, "p", d, d, "q", "%s.%s %s %s %s" % (cls, op, X(d, d), V(d, d), Pa(d, d)), ["%s.%s" % (cls, op), J], hn))
        Jc = J + "_compact"
        add("%s_wrt_self_compact" % op, thm("%s_%s_wrt_self_compact" % (cls, op), pq, h, "fun s => %s.to_compact (%s.%s s q)" % (cls, cls, op), "%s p q" % Jc, "p", d, d, "q", "%s.to_compact (%s.%s %s %s %s)" % (cls, cls, op, X(d, d), V(d, d), Pa(d, d)), ["%s.%s" % (cls, op), "%s.to_compact" % cls, Jc], hn))
        J = "%s.jacobian_self_%s_other_wrt_other" % (cls, opname)
        add("%s_wrt_other" % op, thm("%s_%s_wrt_other" % (cls, op), pq, h, "fun o => %s.%s p o" % (cls, op), "%s p q" % J, "q", d, d, "p", "%s.%s %s %s %s" % (cls, op, X(d, d), Pa(d, d), V(d, d)), ["%s.%s" % (cls, op), J], hn))
        Jc = J + "_compact"
        add("%s_wrt_other_compact" % op, thm("%s_%s_wrt_other_compact" % (cls, op), pq, h, "fun o => %s.to_compact (%s.%s p o)" % (cls, cls, op), "%s p q" % Jc, "q", d, d, "p", "%s.to_compact (%s.%s %s %s %s)" % (cls, cls, op, X(d, d), Pa(d, d), V(d, d)), ["%s.%s" % (cls, op), "%s.to_compact" % cls, Jc], hn))
        for w in ("self", "other"):
            J = "%s.jacobian_self_%s_other_wrt_%s" % (cls, opname, w)
            add("rows", "/-- the `_compact` variant is the first %d rows of the full Jacobian -/\ntheorem %s_%s_wrt_%s_compact_rows %s (i : Fin %d) (j : Fin %d) :\n    %s_compact p q i j = %s p q (Fin.castLE (by omega) i) j := by\n  fin_cases i <;> fin_cases j <;> rfl\n\n" % (c, cls, op, w, pq, c, d, J, J))
    h = "(h : OffWrap (-p 2))" if se2 else ""
    J = "%s.jacobian_inverse" % cls
    add("inverse", thm("%s_inverse" % cls, "(p : Fin %d → ℝ)" % d, h, "fun s => %s.inverse s" % cls, "%s p" % J, "p", 0, d, "(Fin.elim0 : Fin 0 → ℝ)", "%s.inverse %s %s" % (cls, X(0, d), V(0, d)), ["%s.inverse" % cls, J], "h" if se2 else None))
    ap = "add_point" if cls in ("PoseSE2", "PoseSE3") else "add"
    ppt = "(p : Fin %d → ℝ) (x : Fin %d → ℝ)" % (d, pd)
    J = "%s.jacobian_self_oplus_point_wrt_self" % cls
    add("oplus_point_wrt_self", thm("%s_oplus_point_wrt_self" % cls, ppt, "", "fun s => %s.%s s x" % (cls, ap), "%s p x" % J, "p", pd, d, "x", "%s.%s %s %s %s" % (cls, ap, X(pd, d), V(pd, d), Pa(pd, d)), ["%s.%s" % (cls, ap), J], None))
    J = "%s.jacobian_self_oplus_point_wrt_point" % cls
    add("oplus_point_wrt_point", thm("%s_oplus_point_wrt_point" % cls, ppt, "", "fun o => %s.%s p o" % (cls, ap), "%s p x" % J, "x", d, pd, "p", "%s.%s %s %s %s" % (cls, ap, X(d, pd), Pa(d, pd), V(d, pd)), ["%s.%s" % (cls, ap), J], None))
    if cls != "PoseSE3":
        h = "(h : OffWrap (p 2))" if se2 else ""
        J = "%s.jacobian_boxplus" % cls
        add("boxplus", thm("%s_boxplus" % cls, "(p : Fin %d → ℝ)" % d, h, "fun δ => %s.boxplus p δ" % cls, "%s p" % J, "(0 : Fin %d → ℝ)" % c, d, c, "p", "%s.boxplus %s %s %s" % (cls, X(d, c), Pa(d, c), V(d, c)), ["%s.boxplus" % cls, J], "h" if se2 else None))
    head = HEAD.format(cls=cls, file=file)
    return head + out[True] + "end GraphSlam.Props.C10\n", head + out[False] + "end GraphSlam.Props.C10\n"


if __name__ == "__main__":
    os.makedirs(OUT, exist_ok=True)
    for cls in DIMS:
        core, extra = gen(cls)
        for suffix, txt in (("Core", core), ("Extra", extra)):
            p = os.path.join(OUT, cls.replace("Pose", "") + suffix + ".lean")
            open(p, "w").write(txt)
            print("wrote", p)
