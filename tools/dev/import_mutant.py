#!/venv/bin/python
"""Development-time helper: confirm a sub-agent's change independently and keep it under /verif/seeded/<id>/.

    import_mutant.py <worktree> <k> [<seeded id>]

In a fresh clone of /repo under /var/tmp: apply mutants/m<k>.diff, run the full test suite (must pass), run the demo
(must exit 1), revert, run the demo (must exit 0).  Only then copy patch.diff / demo.py / meta.json."""
import json
import os
import shutil
import subprocess
import sys

wt, k = sys.argv[1], sys.argv[2]
meta_in = json.load(open(os.path.join(wt, "mutants", "m%s.json" % k)))
prop = meta_in["property"]
sid = sys.argv[3] if len(sys.argv) > 3 else "%s-m%s" % (prop, k)
scratch = "/var/tmp/gsverif_import_%s" % sid
shutil.rmtree(scratch, ignore_errors=True)
subprocess.check_call(["git", "clone", "-q", "--no-hardlinks", "/repo", scratch])
diff = os.path.join(wt, "mutants", "m%s.diff" % k)
demo = os.path.join(wt, "mutants", "m%s_demo.py" % k)
os.makedirs(os.path.join(scratch, "mutants"), exist_ok=True)
shutil.copy(demo, os.path.join(scratch, "mutants", "m%s_demo.py" % k))


def run(cmd):
    p = subprocess.run(cmd, cwd=scratch, stdout=subprocess.PIPE, stderr=subprocess.STDOUT, text=True)
    return p.returncode, p.stdout


rc, out = run(["git", "apply", diff])
assert rc == 0, "patch does not apply: " + out
rc_t, out_t = run(["/venv/bin/python", "-m", "pytest", "-q", "-p", "no:cacheprovider", "--timeout=900", "-x"])
tests_line = [l for l in out_t.splitlines() if " passed" in l or " failed" in l][-1:] or [out_t[-200:]]
rc_m, out_m = run(["/venv/bin/python", "mutants/m%s_demo.py" % k])
run(["git", "checkout", "--", "graphslam"])
rc_c, out_c = run(["/venv/bin/python", "mutants/m%s_demo.py" % k])
ok = rc_t == 0 and rc_m == 1 and rc_c == 0
res = dict(id=sid, breaks=prop, tests=tests_line[0].strip(), tests_rc=rc_t, demo_with_change=rc_m, demo_without_change=rc_c, confirmed=ok)
print(json.dumps(res))
if ok:
    dst = os.path.join("/verif/seeded", sid)
    os.makedirs(dst, exist_ok=True)
    shutil.copy(diff, os.path.join(dst, "patch.diff"))
    shutil.copy(demo, os.path.join(dst, "demo.py"))
    meta = dict(id=sid, breaks=prop, checks=[prop], files=meta_in.get("files"), what=meta_in.get("what"), needs=meta_in.get("needs"),
                source="independent sub-agent given only the property text and a scratch worktree",
                confirmed=dict(cmd_tests="cd <fresh clone of /repo with patch applied> && /venv/bin/python -m pytest -q -p no:cacheprovider --timeout=900 -x", tests=res["tests"],
                               cmd_demo="/venv/bin/python demo.py (from the clone root)", demo_exit_with_change=rc_m, demo_exit_without_change=rc_c,
                               demo_output_with_change=out_m[-600:]))
    json.dump(meta, open(os.path.join(dst, "meta.json"), "w"), indent=1)
shutil.rmtree(scratch, ignore_errors=True)
sys.exit(0 if ok else 1)
