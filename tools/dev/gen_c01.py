#!/usr/bin/env python3
"""Development-time helper (NOT run by the checks): writes the chain-rule edge theorems (C01) for R2/R3/SE3.
The output is committed; statements are fixed and mention only definitions regenerated from /repo."""
import os

OUT = os.path.join(os.path.dirname(__file__), "..", "..", "lean", "GraphSlam", "Props", "C01")
D = {"R2": (2, 2, "R2", 2), "R3": (3, 3, "R3", 3), "SE3": (7, 6, "R3", 3)}


def odo(T, k):
    d, c, P, pd = D[T]
    C = "Pose" + T
    moved = "p0" if k == 0 else "p1"
    inner = ("%s.sub p1 o" % C) if k == 0 else ("%s.sub o p0" % C)
    Jinner = ("%s_sub_wrt_other p1 p0" % C) if k == 0 else ("%s_sub_wrt_self p1 p0" % C)
    args = ("(%s.boxplus p0 δ) p1" % C) if k == 0 else ("p0 (%s.boxplus p1 δ)" % C)
    return f"""theorem odometry_{T}_v{k} (z p0 p1 : Fin {d} → ℝ) :
    HasFDerivAt (fun δ => EdgeOdometry.calc_error_{T} z {args})
      (toCLM (EdgeOdometry.calc_jacobians_{T}_{k} z p0 p1)) (0 : Fin {c} → ℝ) := by
  have h23 := comp_toCLM (g := fun o => {C}.to_compact ({C}.sub z o)) (f := fun o => {inner}) rfl
    ({C}_sub_wrt_other_compact z ({C}.sub p1 p0)) ({Jinner})
  exact comp_toCLM (g := fun o => {C}.to_compact ({C}.sub z ({inner}))) (f := fun δ => {C}.boxplus {moved} δ)
    ({C}_boxplus_zero {moved}) h23 ({C}_boxplus {moved})

"""


def lm(T, k):
    d, c, P, pd = D[T]
    C = "Pose" + T
    Pc = "Pose" + P
    ap = "add_point" if T == "SE3" else "add"
    if k == 0:
        return f"""theorem landmark_{T}_v0 (z : Fin {pd} → ℝ) (off p0 : Fin {d} → ℝ) (p1 : Fin {pd} → ℝ) :
    HasFDerivAt (fun δ => EdgeLandmark.calc_error_{T} z off ({C}.boxplus p0 δ) p1)
      (toCLM (EdgeLandmark.calc_jacobians_{T}_0 z off p0 p1)) (0 : Fin {c} → ℝ) := by
  have h1 := comp_toCLM (g := fun s => {C}.{ap} s p1) (f := fun s => {C}.inverse s) rfl
    ({C}_oplus_point_wrt_self ({C}.inverse ({C}.add p0 off)) p1) ({C}_inverse ({C}.add p0 off))
  have h2 := comp_toCLM (g := fun s => {C}.{ap} ({C}.inverse s) p1) (f := fun s => {C}.add s off) rfl
    h1 ({C}_add_wrt_self p0 off)
  have h3 := comp_toCLM (g := fun s => {C}.{ap} ({C}.inverse ({C}.add s off)) p1) (f := fun δ => {C}.boxplus p0 δ)
    ({C}_boxplus_zero p0) h2 ({C}_boxplus p0)
  exact comp_id_left (h := fun y => {Pc}.to_compact ({Pc}.sub y z))
    (f := fun δ => {C}.{ap} ({C}.inverse ({C}.add ({C}.boxplus p0 δ) off)) p1) rfl ({Pc}_sub_const_deriv z _) h3

"""
    return f"""theorem landmark_{T}_v1 (z : Fin {pd} → ℝ) (off p0 : Fin {d} → ℝ) (p1 : Fin {pd} → ℝ) :
    HasFDerivAt (fun δ => EdgeLandmark.calc_error_{T} z off p0 ({Pc}.boxplus p1 δ))
      (toCLM (EdgeLandmark.calc_jacobians_{T}_1 z off p0 p1)) (0 : Fin {pd} → ℝ) := by
  have h1 := comp_toCLM (g := fun o => {C}.{ap} ({C}.inverse ({C}.add p0 off)) o) (f := fun δ => {Pc}.boxplus p1 δ)
    ({Pc}_boxplus_zero p1) ({C}_oplus_point_wrt_point ({C}.inverse ({C}.add p0 off)) p1) ({Pc}_boxplus p1)
  exact comp_id_left (h := fun y => {Pc}.to_compact ({Pc}.sub y z))
    (f := fun δ => {C}.{ap} ({C}.inverse ({C}.add p0 off)) ({Pc}.boxplus p1 δ)) rfl ({Pc}_sub_const_deriv z _) h1

"""


if __name__ == "__main__":
    for T in D:
        print("-- ====", T)
        print(odo(T, 0) + odo(T, 1) + lm(T, 0) + lm(T, 1))
