#!/bin/sh
# import_round4.sh Cxx : confirm and import /tmp/wt4/Cxx/mutants/m1,m2 as seeded/Cxx-m7, Cxx-m8
p=$1
/venv/bin/python /verif/tools/dev/import_mutant.py /tmp/wt4/$p 1 $p-m7
/venv/bin/python /verif/tools/dev/import_mutant.py /tmp/wt4/$p 2 $p-m8
