#!/usr/bin/env python3-vt
"""Development-time helper (NOT run by the checks): computes `linear_combination` certificates for identities that hold
only for unit quaternions, with sympy, from the translator's IR of the *current* source.  sympy is an untrusted oracle:
the certificate is checked by Lean's `ring` inside `linear_combination`.  A certificate stays valid under any rewrite
of the code that denotes the same polynomial, and stops checking as soon as the polynomial changes."""
import os
import sys

import sympy as sp

HERE = os.path.dirname(os.path.abspath(__file__))
sys.path.insert(0, os.path.join(HERE, "..", "translate"))
import py2lean as T  # noqa: E402


def load(repo="/repo"):
    tr = T.Translator(repo)
    tr.translate_util()
    for c in ("PoseR2", "PoseR3", "PoseSE2", "PoseSE3"):
        tr.translate_pose_class(c)
    return tr


def ev(e, env):
    t = e[0]
    if t == "lit":
        return sp.Integer(e[1])
    if t == "arg":
        return env[e[1]][e[2]]
    if t == "sarg":
        return env[e[1]]
    if t == "add":
        return ev(e[1], env) + ev(e[2], env)
    if t == "sub":
        return ev(e[1], env) - ev(e[2], env)
    if t == "mul":
        return ev(e[1], env) * ev(e[2], env)
    if t == "neg":
        return -ev(e[1], env)
    if t == "fn" and e[1] == "Scalar.cos":
        return sp.cos(ev(e[2][0], env))
    if t == "fn" and e[1] == "Scalar.sin":
        return sp.sin(ev(e[2][0], env))
    raise ValueError(e)


class Sym:
    def __init__(self, tr):
        self.tr = tr

    def call(self, name, *args):
        d = self.tr.by_lean[name]
        env = {p[0]: a for p, a in zip(d["params"], args)}
        b = d["body"]
        if isinstance(b, T.Vec):
            return [sp.expand(ev(c, env)) for c in b.comps]
        if isinstance(b, T.Mat):
            return [[sp.expand(ev(c, env)) for c in r] for r in b.rows]
        return sp.expand(ev(b, env))


def vec(name, n):
    return list(sp.symbols(" ".join("%s%d" % (name, i) for i in range(n))))


def lean_poly(expr, names):
    """sympy polynomial -> Lean text with `p 3` style atoms"""
    s = sp.sstr(sp.expand(expr))
    import re

    for nm in names:
        s = re.sub(r"\b%s(\d+)\b" % nm, lambda m: "%s %s" % (nm, m.group(1)), s)
    s = s.replace("**", "^")
    return s


def norm(v):
    return v[3] ** 2 + v[4] ** 2 + v[5] ** 2 + v[6] ** 2 - 1


def cert(diff, units, allvars):
    """units: list of (hypname, vector). returns Lean tactic text"""
    gens = [norm(v) for _, v in units]
    diff = sp.expand(diff)
    if diff == 0:
        return "ring"
    q, r = sp.reduced(diff, gens, *allvars, order="grevlex")
    if r != 0:
        # try other orders
        for order in ("lex", "grlex"):
            q, r = sp.reduced(diff, gens, *allvars, order=order)
            if r == 0:
                break
    if r != 0:
        return None
    names = sorted({str(s)[:-1] for s in allvars})
    terms = []
    for (h, _), c in zip(units, q):
        if c != 0:
            terms.append("(%s) * %s" % (lean_poly(c, names), h))
    return "linear_combination " + " + ".join(terms)


if __name__ == "__main__":
    tr = load()
    S = Sym(tr)
    p, q, r = vec("p", 7), vec("q", 7), vec("r", 7)
    a = S.call("PoseSE3.add", p, S.call("PoseSE3.inverse", p))
    ident = S.call("PoseSE3.identity")
    for i in range(7):
        print(i, cert(a[i] - ident[i], [("hp", p)], p))
