#!/usr/bin/env python3
"""Writes selftest/TABLE.md from seeded/*/meta.json, selftest/results.json and the replay files of the last self-test:
one row per seeded change — what it is, what it needs, which tie broke (translator / proof / correspondence) and which
implementation-level witness the search produced.  FIRST records how each change fared against the checks *as they were
when the change arrived* (before any strengthening): that is the honest measure of generalisation."""
import json
import os
import re

V = os.path.abspath(os.path.join(os.path.dirname(__file__), "..", ".."))
# outcome at first contact: "input" (caught, concrete failing input), "tie" (caught, no-failing-input-found), "missed"
FIRST = {}
R1_MISSED = "C02-m2 C06-m1 C07-m1 C07-m2 C08-m2 C16-m2 C18-m1".split()
R1_TIE = "C01-m1 C02-m1 C03-m2 C05-m2 C09-m1 C09-m2 C10-m1 C10-m2 C11-m1 C11-m2 C14-m1 C15-m2 C16-m1".split()
R2_MISSED = "C02-m3 C03-m3 C04-m4 C05-m3 C17-m3".split()
R2_TIE = "C01-m3 C02-m4 C04-m3 C09-m3 C10-m3 C12-m4 C16-m3".split()
R3_MISSED = "C03-m6 C08-m6 C14-m6".split()
R3_TIE = "C03-m5 C05-m6 C09-m5 C09-m6 C10-m5 C11-m6".split()
R4_MISSED = "C12-m7".split()
R4_TIE = "C02-m8 C04-m8 C12-m8 C15-m8".split()
R5_MISSED = "C02-m10 C07-m9 C09-m10 C13-m10".split()
R5_TIE = "C01-m9 C01-m10 C02-m9 C03-m9 C03-m10 C04-m9 C04-m10 C05-m9 C05-m10 C06-m9 C07-m10 C08-m9 C10-m10 C11-m9 C11-m10 C12-m10 C15-m9 C16-m9".split()
R6_MISSED = "C08-m12".split()
R6_TIE = "C01-m11 C01-m12 C02-m11 C03-m11 C05-m11 C05-m12 C07-m12 C09-m11 C10-m12 C12-m11 C14-m11 C14-m12 C15-m12 C16-m12".split()
for k in R1_MISSED + R2_MISSED + R3_MISSED + R4_MISSED + R5_MISSED + R6_MISSED:
    FIRST[k] = "missed"
for k in R1_TIE + R2_TIE + R3_TIE + R4_TIE + R5_TIE + R6_TIE:
    FIRST[k] = "tie only"


def short(s, n):
    s = " ".join(s.split())
    s = s.replace("|", "/")
    return s if len(s) <= n else s[: n - 1].rsplit(" ", 1)[0] + "…"


def main():
    res = {r["id"]: r for r in json.load(open(os.path.join(V, "selftest", "results.json")))}
    rows = []
    for sid in sorted(os.listdir(os.path.join(V, "seeded"))):
        mp = os.path.join(V, "seeded", sid, "meta.json")
        if not os.path.exists(mp):
            continue
        m = json.load(open(mp))
        r = res.get(sid, {})
        ties, wit = set(), set()
        for c, v in r.get("checks", {}).items():
            for l in v.get("lines", []):
                mm = re.search(r"replay=(\S+)", l)
                if not mm or not l.startswith("VIOLATION"):
                    continue
                try:
                    rep = json.load(open(os.path.join(V, mm.group(1))))
                except Exception:
                    continue
                for b in rep.get("broken_tie", []) + rep.get("no_longer_checks", []):
                    ties.add(b.get("kind", "?"))
                w = rep.get("witness") or {}
                if w.get("match"):
                    wit.add(w["match"])
        k = int(sid.split("-m")[1])
        rnd = str((k + 1) // 2)
        rows.append((sid, rnd, ", ".join(m.get("files", [])).replace("graphslam/", ""), short(m.get("what", ""), 230), short(m.get("needs", ""), 170), FIRST.get(sid, "input"), "yes" if r.get("caught") and r.get("with_failing_input") else ("tie only" if r.get("caught") else "NO"), ", ".join(sorted(ties)) or "–", short(", ".join(sorted(wit)), 90) or "–"))
    with open(os.path.join(V, "selftest", "TABLE.md"), "w") as f:
        f.write("| change | round | file | what was changed | what it needs | at first contact | now | ties that break | witness found by the search (`match`) |\n|---|---|---|---|---|---|---|---|---|\n")
        for row in rows:
            f.write("| " + " | ".join(row) + " |\n")
        n = len(rows)
        for rnd in sorted({x[1] for x in rows}):
            rr = [x for x in rows if x[1] == rnd]
            f.write("\nround %s: %d changes; at first contact %d caught with a concrete input, %d caught by a broken tie only, %d missed; now %d caught with a concrete input.\n" % (rnd, len(rr), sum(x[5] == "input" for x in rr), sum(x[5] == "tie only" for x in rr), sum(x[5] == "missed" for x in rr), sum(x[6] == "yes" for x in rr)))
    print(open(os.path.join(V, "selftest", "TABLE.md")).read()[-600:])


if __name__ == "__main__":
    main()
