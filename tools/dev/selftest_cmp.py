"""Self-test of py2lean_cmp.py + GraphSlam/Props/Tie/CmpPy.lean: one-token mutations of a scratch copy of the source must stop
the translation or break a tie theorem.  Usage: /venv/bin/python selftest_cmp.py   (restores the generated file at the end)"""
import json
import os
import re
import shutil
import subprocess
import sys

HERE = os.path.dirname(os.path.abspath(__file__))
sys.path.insert(0, HERE)
import py2lean_cmp as PC  # noqa: E402

WORK = os.path.join(HERE, "lean")
SCRATCH = os.path.join(HERE, "scratch")
GEN = os.path.join(WORK, "GraphSlam", "Generated", "CmpPy.lean")
TIE = os.path.join(WORK, "GraphSlam", "Props", "Tie", "CmpPy.lean")

# (name, file, old, new)
MUTS = [
    ("pose_lt_to_le", "pose/base_pose.py", "max(np.linalg.norm(self.to_array()), tol) < tol", "max(np.linalg.norm(self.to_array()), tol) <= tol"),
    ("pose_scale_other", "pose/base_pose.py", "max(np.linalg.norm(self.to_array()), tol)", "max(np.linalg.norm(other.to_array()), tol)"),
    ("pose_type_is_to_isinstance", "pose/base_pose.py", "if type(self) is not type(other):", "if not isinstance(other, type(self)):"),
    ("vertex_and_to_or", "vertex.py", "self.id == other.id and (type", "self.id == other.id or (type"),
    ("edge_type_is_to_isinstance", "edge/base_edge.py", "if not type(self) is type(other):", "if not isinstance(other, type(self)):"),
    ("edge_drop_length_check", "edge/base_edge.py", "        if len(self.vertex_ids) != len(other.vertex_ids):\n            return False\n", ""),
    ("edge_any_to_all", "edge/base_edge.py", "if any(v_id1 != v_id2", "if all(v_id1 != v_id2"),
    ("edge_info_ge_to_gt", "edge/base_edge.py", "max(np.linalg.norm(self.information), tol) >= tol", "max(np.linalg.norm(self.information), tol) > tol"),
    ("edge_info_scale_other", "edge/base_edge.py", "max(np.linalg.norm(self.information), tol)", "max(np.linalg.norm(other.information), tol)"),
    ("edge_info_or_to_and", "edge/base_edge.py", "self.information.shape != other.information.shape or np", "self.information.shape != other.information.shape and np"),
    ("edge_drop_estimate_shape", "edge/base_edge.py", "if isinstance(other.estimate, BasePose) or np.shape(self.estimate) != np.shape(other.estimate):", "if isinstance(other.estimate, BasePose):"),
    ("edge_estimate_no_max", "edge/base_edge.py", "/ max(np.linalg.norm(self.estimate), tol) < tol", "/ np.linalg.norm(self.estimate) < tol"),
    ("edge_zip_reversed", "edge/base_edge.py", "zip(self.vertex_ids, other.vertex_ids)", "zip(self.vertex_ids, reversed(other.vertex_ids))"),
    ("landmark_xor_to_and", "edge/edge_landmark.py", "(self.offset_id is None) ^ (other.offset_id is None)", "(self.offset_id is None) and (other.offset_id is None)"),
    ("landmark_drop_offset_equals", "edge/edge_landmark.py", "        if not self.offset.equals(other.offset, tol):\n            return False\n", ""),
    ("landmark_offsetid_ne_to_eq", "edge/edge_landmark.py", "self.offset_id != other.offset_id", "self.offset_id == other.offset_id"),
    ("graph_and_to_or", "graph.py", "zip(self._edges, other._edges)) and all(", "zip(self._edges, other._edges)) or all("),
    ("graph_drop_vertex_length", "graph.py", "if len(self._edges) != len(other._edges) or len(self._vertices) != len(other._vertices):", "if len(self._edges) != len(other._edges):"),
    ("graph_vertices_before_edges", "graph.py",
     "return all(e1.equals(e2, tol) for e1, e2 in zip(self._edges, other._edges)) and all(v1.equals(v2, tol) for v1, v2 in zip(self._vertices, other._vertices))",
     "return all(v1.equals(v2, tol) for v1, v2 in zip(self._vertices, other._vertices)) and all(e1.equals(e2, tol) for e1, e2 in zip(self._edges, other._edges))"),
    ("isvalid_base_ne_to_eq", "edge/base_edge.py", "if vertex.id != v_id:", "if vertex.id == v_id:"),
    ("isvalid_base_drop_length", "edge/base_edge.py", "if self.vertices is None or len(self.vertices) != len(self.vertex_ids):", "if self.vertices is None:"),
    ("odometry_count_ne_to_lt", "edge/edge_odometry.py", "len(self.vertices) != 2", "len(self.vertices) < 2"),
    ("odometry_or_to_and", "edge/edge_odometry.py", "pose_type) or not isinstance(self.estimate, pose_type)", "pose_type) and not isinstance(self.estimate, pose_type)"),
    ("odometry_drop_estimate_test", "edge/edge_odometry.py", "if not isinstance(self.vertices[1].pose, pose_type) or not isinstance(self.estimate, pose_type):", "if not isinstance(self.vertices[1].pose, pose_type):"),
    ("odometry_shape_len_estimate", "edge/edge_odometry.py", "n = pose_type.COMPACT_DIMENSIONALITY", "n = len(self.estimate)"),
    ("landmark_dim_of_pose", "edge/edge_landmark.py", "n = point_type.COMPACT_DIMENSIONALITY", "n = pose_type.COMPACT_DIMENSIONALITY"),
    ("landmark_offset_point_type", "edge/edge_landmark.py", "isinstance(self.offset, pose_type)", "isinstance(self.offset, point_type)"),
    ("landmark_estimate_ndarray", "edge/edge_landmark.py", "isinstance(self.estimate, point_type)", "isinstance(self.estimate, np.ndarray)"),
    ("assert_all_to_any", "graph.py", "assert all(e.is_valid() for e in self._edges)", "assert any(e.is_valid() for e in self._edges)"),
    ("assert_removed", "graph.py", '        assert all(e.is_valid() for e in self._edges), "Not all edges are valid"\n', ""),
    ("default_tol", "pose/base_pose.py", "def equals(self, other, tol=1e-6):", "def equals(self, other, tol=1e-5):"),
    ("odometry_overrides_equals", "edge/edge_odometry.py", "    def is_valid(self):", "    def equals(self, other, tol=1e-6):\n        return True\n\n    def is_valid(self):"),
]


# behaviour-preserving edits: the translation must succeed and every tie theorem must still check
EQUIV = [
    ("eq_comments_and_blank_lines", "edge/base_edge.py", "        if not type(self) is type(other):\n", "        # a comment\n\n        if not type(self) is type(other):  # another\n"),
    ("eq_is_not", "edge/base_edge.py", "if not type(self) is type(other):", "if type(self) is not type(other):"),
    ("eq_super_call", "edge/edge_landmark.py", "return BaseEdge.equals(self, other, tol)", "return super().equals(other, tol)"),
    ("eq_dim_through_instance", "edge/edge_odometry.py", "n = pose_type.COMPACT_DIMENSIONALITY", "n = self.vertices[0].pose.COMPACT_DIMENSIONALITY"),
    ("eq_docstring_edit", "graph.py", "Check whether two graphs are equal.", "Check whether two graphs are equal (edges, then vertices)."),
    ("eq_inline_alias", "edge/edge_landmark.py", "not isinstance(self.offset, pose_type)", "not isinstance(self.offset, type(self.vertices[0].pose))"),
]


def theorem_at(line):
    lines = open(TIE).read().splitlines()
    for i in range(min(line, len(lines)) - 1, -1, -1):
        m = re.match(r"\s*(theorem|example|def|local instance)\s+(\S+)?", lines[i])
        if m:
            return (m.group(2) or m.group(1)) if m.group(1) != "example" else "example@%d" % (i + 1)
    return "?"


def build():
    r = subprocess.run(["lake", "build", "GraphSlam.Props.Tie.CmpPy"], cwd=WORK, capture_output=True, text=True)
    out = r.stdout + r.stderr
    errs = []
    for m in re.finditer(r"error: (GraphSlam/[\w/]+\.lean):(\d+):\d+: (.*)", out):
        f, ln, msg = m.group(1), int(m.group(2)), m.group(3)
        errs.append((f, ln, msg[:90]))
    return r.returncode, errs


def main():
    results = []
    only = set(sys.argv[1:])
    for name, rel, old, new in MUTS:
        if only and name not in only:
            continue
        d = os.path.join(SCRATCH, name)
        shutil.rmtree(d, ignore_errors=True)
        shutil.copytree("/repo/graphslam", os.path.join(d, "graphslam"))
        p = os.path.join(d, "graphslam", rel)
        src = open(p).read()
        assert src.count(old) == 1, (name, src.count(old))
        open(p, "w").write(src.replace(old, new))
        compile(open(p).read(), p, "exec")
        try:
            txt, _ = PC.translate(d)
        except PC.Untranslatable as e:
            results.append(dict(name=name, outcome="translation stops", detail="%s:%s: %s" % (e.file, e.line, e.reason)))
            print(json.dumps(results[-1]), flush=True)
            continue
        open(GEN, "w").write(txt)
        rc, errs = build()
        if rc == 0:
            results.append(dict(name=name, outcome="NOT CAUGHT", detail=""))
        else:
            gen_errs = [e for e in errs if "Generated" in e[0]]
            tie_errs = [e for e in errs if "Tie/CmpPy" in e[0]]
            ths = []
            for e in tie_errs:
                t = theorem_at(e[1])
                if t not in ths:
                    ths.append(t)
            results.append(dict(name=name, outcome="tie breaks" if not gen_errs else "generated file does not build", detail=", ".join(ths) if ths else str(gen_errs[:2])))
        print(json.dumps(results[-1]), flush=True)
    for name, rel, old, new in EQUIV:
        if only and name not in only:
            continue
        d = os.path.join(SCRATCH, name)
        shutil.rmtree(d, ignore_errors=True)
        shutil.copytree("/repo/graphslam", os.path.join(d, "graphslam"))
        p = os.path.join(d, "graphslam", rel)
        src = open(p).read()
        assert src.count(old) == 1, (name, src.count(old))
        open(p, "w").write(src.replace(old, new))
        try:
            txt, _ = PC.translate(d)
            open(GEN, "w").write(txt)
            rc, errs = build()
            results.append(dict(name=name, outcome="still builds (as it should)" if rc == 0 else "NOT CAUGHT: false alarm", detail=str(errs[:2]) if rc else ""))
        except PC.Untranslatable as e:
            results.append(dict(name=name, outcome="NOT CAUGHT: false alarm (translation stops)", detail=str(e)))
        print(json.dumps(results[-1]), flush=True)
    # restore
    txt, _ = PC.translate("/repo")
    open(GEN, "w").write(txt)
    rc, errs = build()
    print(json.dumps(dict(name="RESTORED /repo", outcome="builds" if rc == 0 else "BUILD FAILS", detail=str(errs[:3]))))
    json.dump(results, open(os.path.join(HERE, "selftest_cmp_results.json"), "w"), indent=1)
    return 0 if rc == 0 and all(r["outcome"] != "NOT CAUGHT" for r in results) else 1


if __name__ == "__main__":
    sys.exit(main())
