#!/venv/bin/python
"""./check Cxx [--tier quick|thorough] [--replay FILE]

One run = (1) regenerate the Lean expression layer from /repo's working tree, (2) build the property's proof cone
and audit the axioms of every registered theorem, (3) run the correspondence / translator-validation harnesses against
the real code, (4) if any of 1-3 broke: search the real code for a concrete failing input, (5) write evidence.
Exit 0 = property held on everything explored; 1 = VIOLATION line printed; 2 = infrastructure problem.
"""
import argparse
import fcntl
import glob
import hashlib
import importlib
import json
import os
import re
import subprocess
import sys
import time
import traceback

HERE = os.path.dirname(os.path.abspath(__file__))
VERIF = os.path.dirname(HERE)
sys.path.insert(0, HERE)
LEAN = os.path.join(VERIF, "lean")
REPO = os.environ.get("VERIF_REPO", "/repo")
ALLOWED_AXIOMS = {"propext", "Classical.choice", "Quot.sound"}
FORBIDDEN = re.compile(r"\bsorry\b|\badmit\b|^axiom\s|native_decide|bv_decide|implemented_by|\bunsafe\s|maxHeartbeats\s+0\b")

TRUSTED_BASE = [
    "Lean 4.33.0 kernel (thorough tier: leanchecker re-check of the compiled modules)",
    "axioms allowed in registered theorems: propext, Classical.choice, Quot.sound (audited with #print axioms every run)",
    "Mathlib v4.33.0 definitions of Real, HasFDerivAt, Real.cos/sin/sqrt, Matrix as the meaning of the statements",
    "tools/translate/py2lean.py (Layer A translator) — validated every run by executing its output at Float against the real methods",
    "tools/harness/* correspondence harnesses and lean/Driver (Layer B), including canonicalisation and tolerances",
    "modelled, not verified: IEEE-754 rounding (theorems are over the reals), scipy spsolve (a parameter), numpy aliasing, str/float round trip",
]


def log(*a):
    print(*a, file=sys.stderr, flush=True)


def sh(cmd, cwd=None, timeout=None, env=None):
    t = time.time()
    p = subprocess.run(cmd, cwd=cwd, stdout=subprocess.PIPE, stderr=subprocess.STDOUT, text=True, timeout=timeout, env=env)
    return p.returncode, p.stdout, time.time() - t


class Lock:
    def __enter__(self):
        os.makedirs(LEAN, exist_ok=True)
        self.f = open(os.path.join(LEAN, ".build.lock"), "w")
        fcntl.flock(self.f, fcntl.LOCK_EX)
        return self

    def __exit__(self, *a):
        fcntl.flock(self.f, fcntl.LOCK_UN)
        self.f.close()


# ----------------------------------------------------------------------------- steps


def regenerate():
    rc, out, dt = sh([sys.executable, os.path.join(HERE, "translate", "py2lean.py"), "--repo", REPO, "--out", LEAN])
    try:
        info = json.loads(out.strip().splitlines()[-1])
    except Exception:
        info = dict(status="error", raw=out[-2000:])
    info["rc"] = rc
    info["wall_s"] = round(dt, 2)
    return info


def theorem_index(files, skip_generated_shape=False):
    """[(qualified name, file, line)] for every `theorem` in the given files (relative to LEAN)"""
    out = []
    for pat in files:
        for f in sorted(glob.glob(os.path.join(LEAN, pat))):
            stack = []  # ("ns", name) | ("sec", name)
            for i, line in enumerate(open(f), 1):
                m = re.match(r"^namespace\s+(\S+)", line)
                if m:
                    stack.append(("ns", m.group(1)))
                    continue
                if re.match(r"^(noncomputable\s+)?section\b", line):
                    stack.append(("sec", ""))
                    continue
                if re.match(r"^end\b", line) and stack:
                    stack.pop()
                    continue
                m = re.match(r"^(?:private\s+|protected\s+)?theorem\s+([^\s:({\[]+)", line)
                if m:
                    ns = [n for k, n in stack if k == "ns"]
                    out.append((".".join(ns + [m.group(1)]), os.path.relpath(f, LEAN), i))
    return out


def build(modules, timeout, drivers=("gsdriver",)):
    rc, out, dt = sh(["lake", "build"] + modules + list(drivers), cwd=LEAN, timeout=timeout)
    errs = []
    for m in re.finditer(r"^error: ([^\s:]+\.lean):(\d+):(\d+): (.*)$", out, re.M):
        errs.append(dict(file=m.group(1), line=int(m.group(2)), msg=m.group(4)[:300]))
    failed = re.findall(r"^- (\S+)$", out, re.M)
    return dict(ok=(rc == 0), rc=rc, errors=errs, failed_modules=failed, wall_s=round(dt, 1), tail=out[-3000:] if rc != 0 else "")


def attribute(errors, thms):
    """map build errors to the registered theorems whose text contains the error line"""
    by_file = {}
    for name, f, line in thms:
        by_file.setdefault(f, []).append((line, name))
    broken = {}
    for e in errors:
        cands = sorted(by_file.get(e["file"], []))
        owner = None
        for line, name in cands:
            if line <= e["line"]:
                owner = name
        if owner:
            broken.setdefault(owner, e["msg"])
    return broken


def audit(pid, modules, thms, timeout):
    os.makedirs(os.path.join(LEAN, "Audit"), exist_ok=True)
    path = os.path.join(LEAN, "Audit", pid + ".lean")
    with open(path, "w") as f:
        for m in modules:
            f.write("import %s\n" % m)
        f.write("\n")
        for name, _, _ in thms:
            f.write("#print axioms %s\n" % name)
    rc, out, dt = sh(["lake", "env", "lean", path], cwd=LEAN, timeout=timeout)
    res = {}
    for m in re.finditer(r"^'(.+)' depends on axioms: \[([^\]]*)\]", out, re.M):
        res[m.group(1)] = [a.strip() for a in m.group(2).replace("\n", " ").split(",") if a.strip()]
    for m in re.finditer(r"^'(.+)' does not depend on any axioms", out, re.M):
        res[m.group(1)] = []
    bad = {}
    for name, _, _ in thms:
        if name not in res:
            bad[name] = "not found by #print axioms"
        elif not set(res[name]) <= ALLOWED_AXIOMS:
            bad[name] = "axioms " + ",".join(sorted(set(res[name]) - ALLOWED_AXIOMS))
    return dict(ok=(not bad), axioms=res, bad=bad, wall_s=round(dt, 1), raw=(out[-1500:] if bad else ""))


def forbidden_scan(files):
    hits = []
    for pat in files:
        for f in sorted(glob.glob(os.path.join(LEAN, pat), recursive=True)):
            incomment = 0
            for i, line in enumerate(open(f), 1):
                code = line
                # crude comment stripping: block comments /- -/ and line comments --
                s = ""
                j = 0
                while j < len(code):
                    if code.startswith("/-", j):
                        incomment += 1
                        j += 2
                    elif code.startswith("-/", j) and incomment:
                        incomment -= 1
                        j += 2
                    elif incomment:
                        j += 1
                    elif code.startswith("--", j):
                        break
                    else:
                        s += code[j]
                        j += 1
                if FORBIDDEN.search(s):
                    hits.append("%s:%d: %s" % (os.path.relpath(f, LEAN), i, line.strip()[:120]))
    return hits


def leanchecker(modules, timeout):
    rc, out, dt = sh(["lake", "env", "leanchecker"] + modules, cwd=LEAN, timeout=timeout)
    return dict(ok=(rc == 0), wall_s=round(dt, 1), tail=out[-800:])


# ----------------------------------------------------------------------------- main


def load_known():
    p = os.path.join(VERIF, "known_findings.json")
    if os.path.exists(p):
        return json.load(open(p)).get("findings", [])
    return []


def write_replay(pid, obj):
    os.makedirs(os.path.join(VERIF, "replays"), exist_ok=True)
    blob = json.dumps(obj, sort_keys=True, default=str)
    name = "replays/%s-%s.json" % (pid, hashlib.sha256(blob.encode()).hexdigest()[:12])
    with open(os.path.join(VERIF, name), "w") as f:
        json.dump(obj, f, indent=1, default=str)
        f.write("\n")
    return name


def main():
    ap = argparse.ArgumentParser()
    ap.add_argument("prop")
    ap.add_argument("--tier", default=os.environ.get("VERIF_TIER", "quick"), choices=["quick", "thorough"])
    ap.add_argument("--replay")
    a = ap.parse_args()
    pid = a.prop
    seed = int(os.environ.get("VERIF_SEED", "0") or 0)
    t0 = time.time()
    import props as P

    if pid not in P.PROPS:
        log("unknown property", pid)
        return 2
    cfg = P.PROPS[pid]
    tier = a.tier
    os.environ["VERIF_TIER"] = tier

    if a.replay:
        mod = importlib.import_module(cfg["replay"][0])
        return getattr(mod, cfg["replay"][1])(json.load(open(a.replay)))

    report = dict(property_id=pid, tier=tier, seed=seed)
    broken = []  # list of dicts(kind=..., detail=...)
    # source drift: a changed module in the property's cone is not a violation, it escalates the exploration budgets
    from lib import fingerprint as FP

    drifted = [] if os.environ.get("VERIF_NO_ESCALATE") else FP.drift(REPO, pid)
    report["source_drift"] = drifted
    eff_tier = tier if (tier == "thorough" or not drifted) else "escalated"
    if drifted:
        log("[%s] source differs from the modelled baseline in %d place(s): %s -> correspondence and search run with escalated (6x quick) budgets" % (pid, len(drifted), ", ".join(drifted[:6])))
    try:
        with Lock():
            gen = regenerate()
            report["translator"] = gen
            if gen.get("status") != "ok":
                broken.append(dict(kind="translator", detail=gen))
            elif cfg.get("graph_tie") and gen.get("graph", {}).get("status") != "ok":
                broken.append(dict(kind="translator", detail=dict(layer="graph.py decision expressions (py2lean_graph.py)", **gen.get("graph", {}))))
            elif cfg.get("g2o_tie") and gen.get("g2o", {}).get("status") != "ok":
                broken.append(dict(kind="translator", detail=dict(layer=".g2o reader / writer statements (py2lean_g2o.py)", **gen.get("g2o", {}))))
            elif cfg.get("cmp_tie") and gen.get("cmp", {}).get("status") != "ok":
                broken.append(dict(kind="translator", detail=dict(layer="equals / is_valid guard sequences (py2lean_cmp.py)", **gen.get("cmp", {}))))
            thms = theorem_index(cfg["theorem_files"])
            report["obligations"] = len(thms)
            discharged = 0
            if gen.get("status") == "ok" or not cfg.get("needs_generated", True):
                b = build(cfg["modules"], timeout=3000, drivers=cfg.get("drivers", ("gsdriver",)))
                report["build"] = {k: v for k, v in b.items() if k != "tail"}
                if b["ok"]:
                    au = audit(pid, cfg["modules"], thms, timeout=900)
                    report["audit"] = dict(ok=au["ok"], bad=au["bad"], wall_s=au["wall_s"])
                    discharged = len(thms) - len(au["bad"])
                    if not au["ok"]:
                        broken.append(dict(kind="axiom-audit", detail=au["bad"], raw=au["raw"]))
                    report["axioms_sample"] = dict(list(au["axioms"].items())[:5])
                    hits = forbidden_scan(cfg["theorem_files"] + cfg.get("scan_files", []))
                    report["forbidden_hits"] = hits
                    if hits:
                        broken.append(dict(kind="forbidden-construct", detail=hits))
                    if tier == "thorough" and cfg.get("leanchecker", True):
                        lc = leanchecker(cfg["modules"], timeout=3000)
                        report["leanchecker"] = lc
                        if not lc["ok"]:
                            broken.append(dict(kind="leanchecker", detail=lc))
                else:
                    owners = attribute(b["errors"], thms)
                    discharged = 0 if not owners and not b["errors"] else max(0, len(thms) - max(1, len(owners)))
                    broken.append(dict(kind="proof", theorems=owners, failed_modules=b["failed_modules"], errors=b["errors"][:10], tail=b["tail"][-1500:]))
            report["discharged"] = discharged
    except subprocess.TimeoutExpired as e:
        log("timeout:", e)
        return 2
    except Exception:
        traceback.print_exc()
        return 2

    # correspondence / translator validation (needs a built driver; skipped if the build broke)
    corr = []
    driver_ok = os.path.exists(os.path.join(LEAN, ".lake", "build", "bin", "gsdriver")) and not any(x["kind"] in ("translator", "proof") and "gsdriver" in json.dumps(x) for x in broken)
    build_ok = report.get("build", {}).get("ok", False)
    for modname, fn, kw in cfg.get("corr", []):
        if not build_ok and kw.get("needs_driver", True):
            corr.append(dict(name=modname + "." + fn, skipped="build broken"))
            continue
        try:
            mod = importlib.import_module(modname)
            r = getattr(mod, fn)(seed=seed, tier=eff_tier, **{k: v for k, v in kw.items() if k != "needs_driver"})
        except Exception as e:
            traceback.print_exc()
            r = dict(ok=False, error="%s: %s" % (type(e).__name__, e), cases=0)
        r["name"] = modname + "." + fn
        corr.append(r)
        if not r.get("ok"):
            broken.append(dict(kind="correspondence", stage=r["name"], detail={k: r[k] for k in r if k in ("disagreements", "errors", "error")}))
    report["correspondence"] = corr

    # exploration on the real code (thorough tier, or whenever the tie is broken): the property's own oracle
    violations = []
    known_lines = []
    search_res = None
    if broken or tier == "thorough" or drifted or cfg.get("always_search"):
        try:
            mod = importlib.import_module(cfg["search"][0])
            search_res = getattr(mod, cfg["search"][1])(seed=seed, tier=eff_tier, broken=broken)
            for wz in search_res.get("found", []):
                wz.setdefault("seed", seed)
                wz.setdefault("tier", tier)
                wz.setdefault("broken_at_search_time", bool(broken))
        except Exception as e:
            traceback.print_exc()
            search_res = dict(found=[], error="%s: %s" % (type(e).__name__, e), evaluations=0)
        report["search"] = {k: v for k, v in search_res.items() if k != "found"}
        known = [k for k in load_known() if k.get("property") == pid and k.get("kind") == "known"]
        for w in search_res.get("found", []):
            kmatch = next((k for k in known if k.get("match") and k["match"] == w.get("match")), None)
            if kmatch:
                known_lines.append("KNOWN-FINDING: property=%s %s" % (pid, kmatch["what"]))
            else:
                violations.append(w)

    out_lines = []
    exit_code = 0
    for l in sorted(set(known_lines)):
        out_lines.append(l)
    if violations:
        for w in violations[:3]:
            rp = write_replay(pid, dict(property=pid, kind="failing-input", witness=w, broken_tie=broken, how_to_replay="./check %s --replay <this file>" % pid))
            out_lines.append("VIOLATION property=%s replay=%s" % (pid, rp))
        exit_code = 1
    elif broken:
        rp = write_replay(pid, dict(property=pid, kind="tie-broken", no_longer_checks=broken, search=report.get("search"), note="no failing input found on the implementation; the property is no longer shown to hold"))
        out_lines.append("VIOLATION property=%s replay=%s no-failing-input-found" % (pid, rp))
        exit_code = 1

    # evidence
    cases = sum(int(c.get("cases", 0)) for c in corr)
    samples = []
    for c in corr:
        samples += c.get("samples", [])[:3]
    thm_samples = [dict(theorem=n, file=f, line=l) for n, f, l in thms[:4]]
    cov = dict(
        obligations=report.get("obligations", 0),
        discharged=report.get("discharged", 0),
        checker_cmd="cd lean && lake build %s && lake env lean Audit/%s.lean   (#print axioms of every registered theorem)" % (" ".join(cfg["modules"]), pid),
        trusted_base=TRUSTED_BASE + cfg.get("trusted_extra", []),
        traces_validated_against_impl=cases,
        evaluations=cases + int((search_res or {}).get("evaluations", 0)),
        distinct_nontrivial=sum(int(c.get("distinct_nontrivial", c.get("cases", 0))) for c in corr),
        rule=cfg.get("rule", ""),
        samples=(thm_samples + samples)[:10] or [dict(note="no samples")],
        correspondence=[{k: v for k, v in c.items() if k not in ("samples", "per_def", "disagreements")} for c in corr],
        translator=dict(status=report.get("translator", {}).get("status"), defs=report.get("translator", {}).get("defs")),
        search=report.get("search"),
        broken=[b.get("kind") for b in broken],
        source_drift=drifted,
        proved_level=cfg.get("proved_level", "full"),
        unproved_clauses=cfg.get("unproved", []),
    )
    ev = dict(property_id=pid, tier=tier, seed=seed, level="proof", coverage=cov, assumptions=cfg.get("assumptions", []), wall_s=round(time.time() - t0, 1), violations=len(violations) + (1 if (broken and not violations) else 0))
    from lib.common import write_json

    # runs against a scratch copy of the repository (mutation self-tests) must not overwrite the committed evidence
    evdir = "evidence" if os.path.realpath(REPO) == os.path.realpath("/repo") else "evidence_scratch"
    write_json(os.path.join(VERIF, evdir, pid + ".json"), ev)
    for l in out_lines:
        print(l)
    log("[%s %s] obligations=%d discharged=%d corr_cases=%d broken=%s wall=%.1fs exit=%d" % (pid, tier, cov["obligations"], cov["discharged"], cases, [b.get("kind") for b in broken], time.time() - t0, exit_code))
    return exit_code


if __name__ == "__main__":
    sys.exit(main())
