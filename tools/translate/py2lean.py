#!/usr/bin/env python3
"""py2lean: translate the expression layer of python-graphslam into Lean 4.

Reads (with `ast`, never importing) the *current* sources

    graphslam/util.py            neg_pi_to_pi
    graphslam/pose/{r2,r3,se2,se3}.py   every method of the four pose classes
    graphslam/edge/edge_odometry.py     calc_error, calc_jacobians
    graphslam/edge/edge_landmark.py     calc_error, calc_jacobians
    graphslam/edge/base_edge.py         calc_chi2, the two comprehension bodies of
                                        calc_chi2_gradient_hessian

and writes Lean definitions, generic over the `Scalar`/`ScalarF`/`ScalarT` interface
(GraphSlam/Core/Scalar.lean; `ScalarT` = `ScalarF` + `atan2`, needed by `PoseSE2.from_matrix` only), into <out>/GraphSlam/Generated/*.lean, plus
`generated_manifest.json` (method -> source span, sha256, signature, how the harness can
call the Python original) and `Dispatch.lean` (name -> Float evaluator, used by the driver).

The translator is a *symbolic interpreter* for a whitelisted subset of Python.  Vectors are
tuples of scalar expression trees; constructor calls (`PoseSE3([...], [...])`) are executed
symbolically (the class's own `__new__` is interpreted), method calls on poses (`a - b`,
`.inverse`, `.to_compact()`, `.jacobian_*()`) become calls to the generated definition of that
method.  `if isinstance(...)`/`len(...)` tests are decided statically from the specialisation;
float comparisons become `if … then … else …` on every variable assigned in the branches.
Anything outside the whitelist raises `Untranslatable(file, line, reason)`; the caller treats
that as a broken tie (never, by itself, as a property violation).

Exit status: 0 ok, 3 untranslatable (message on stdout as JSON), 2 usage/internal error.
"""
import ast
import hashlib
import json
import os
import re
import sys


class Untranslatable(Exception):
    def __init__(self, file, line, reason):
        super().__init__("untranslatable %s:%s: %s" % (file, line, reason))
        self.file, self.line, self.reason = file, line, reason


# --------------------------------------------------------------------------- IR
# scalar expressions: tuples
#   ('lit', int) ('arg', name, idx) ('sarg', name) ('add',a,b) ('sub',a,b) ('mul',a,b) ('div',a,b)
#   ('neg',a) ('fn', leanname, [scalars]) ('ite', cond, a, b) ('idx', leanexpr_str, i) ('idx2', leanexpr_str, i, j)
#   cond: ('gt', a, b) | ('ge', a, b)
# vectors: Vec(cls, comps) ; cls in {None('ndarray'), 'PoseR2', ...}; comps list of scalars
# matrices: Mat(rows) ; rows list of list of scalars
# opaque refs: Ref(shape, lean, cls) where shape is a tuple of ints/strs


class Vec:
    def __init__(self, cls, comps, lean=None):
        self.cls, self.comps, self.lean = cls, list(comps), lean

    def __len__(self):
        return len(self.comps)


class Mat:
    def __init__(self, rows, lean=None):
        self.rows, self.lean = [list(r) for r in rows], lean

    @property
    def shape(self):
        return (len(self.rows), len(self.rows[0]))


class GRef:
    """Opaque array of symbolic (generic) shape: only dot / transpose are allowed on it."""

    def __init__(self, shape, lean):
        self.shape, self.lean = tuple(shape), lean


class PyList:
    def __init__(self, items):
        self.items = list(items)


POSE_DIMS = {"PoseR2": (2, 2), "PoseR3": (3, 3), "PoseSE2": (3, 3), "PoseSE3": (7, 6)}
POSE_FILES = {"PoseR2": "pose/r2.py", "PoseR3": "pose/r3.py", "PoseSE2": "pose/se2.py", "PoseSE3": "pose/se3.py"}
POINT_OF = {"PoseSE2": "PoseR2", "PoseSE3": "PoseR3", "PoseR2": "PoseR2", "PoseR3": "PoseR3"}
SHORT = {"PoseR2": "R2", "PoseR3": "R3", "PoseSE2": "SE2", "PoseSE3": "SE3"}


def needs_F(e):
    """does scalar expression e need ScalarF (sqrt / div / comparisons)?"""
    t = e[0]
    if t in ("lit", "arg", "sarg"):
        return False
    if t in ("idx", "idx2"):
        return any(n + " " in e[1] + " " for n in NEEDS_F)
    if t in ("div", "ite"):
        return True
    if t == "fn":
        return e[1].startswith("ScalarF.") or any(n + " " in e[1] + " " for n in NEEDS_F) or any(needs_F(a) for a in e[2])
    if t == "neg":
        return needs_F(e[1])
    return needs_F(e[1]) or needs_F(e[2])


NEEDS_F = set()  # lean names of generated defs that need ScalarF
NEEDS_T = set()  # lean names of generated defs that need ScalarT (atan2)


def needs_T(e):
    """does scalar expression e need ScalarT (the two-argument arctangent)?"""
    t = e[0]
    if t in ("lit", "arg", "sarg"):
        return False
    if t in ("idx", "idx2"):
        return any(n + " " in e[1] + " " for n in NEEDS_T)
    if t == "ite":
        c = e[1]
        return needs_T(c[1]) or needs_T(c[2]) or needs_T(e[2]) or needs_T(e[3])
    if t == "fn":
        return e[1].startswith("ScalarT.") or any(n + " " in e[1] + " " for n in NEEDS_T) or any(needs_T(a) for a in e[2])
    if t == "neg":
        return needs_T(e[1])
    return needs_T(e[1]) or needs_T(e[2])


def paren(s):
    return "(" + s + ")"


APP = 1024


def render(e, p=0):
    """scalar IR -> Lean text; `p` is the binding power the context requires (Lean: + - 65, * 70, prefix - 75, application 1024)."""

    def w(s, mine):
        return paren(s) if p > mine else s

    t = e[0]
    if t == "lit":
        return w("Scalar.ofInt %d" % e[1] if e[1] >= 0 else "Scalar.ofInt (%d)" % e[1], APP - 1)
    if t == "arg":
        return w("%s %d" % (e[1], e[2]), APP - 1)
    if t == "sarg":
        return e[1]
    if t == "idx":
        return w("%s %d" % (e[1], e[2]), APP - 1)
    if t == "idx2":
        return w("%s %d %d" % (e[1], e[2], e[3]), APP - 1)
    if t == "add":
        return w("%s + %s" % (render(e[1], 65), render(e[2], 66)), 65)
    if t == "sub":
        return w("%s - %s" % (render(e[1], 65), render(e[2], 66)), 65)
    if t == "mul":
        return w("%s * %s" % (render(e[1], 70), render(e[2], 71)), 70)
    if t == "div":
        return w("ScalarF.div %s %s" % (render(e[1], APP), render(e[2], APP)), APP - 1)
    if t == "neg":
        return w("-%s" % render(e[1], 76), 75)
    if t == "fn":
        if not e[2]:
            return w(e[1], APP - 1) if " " in e[1] else e[1]
        return w("%s %s" % (e[1], " ".join(render(a, APP) for a in e[2])), APP - 1)
    if t == "ite":
        c = e[1]
        return paren("if ScalarF.%s %s %s = true then %s else %s" % (c[0], render(c[1], APP), render(c[2], APP), render(e[2], 0), render(e[3], 0)))
    raise AssertionError(e)


# --------------------------------------------------------------------------- interpreter


class Ctx:
    """One symbolic execution of one function body."""

    def __init__(self, tr, file, env, self_name=None):
        self.tr, self.file, self.env, self.self_name = tr, file, dict(env), self_name
        self.ret = None
        self.raised = False

    def bad(self, node, why):
        raise Untranslatable(self.file, getattr(node, "lineno", 0), why)

    # -- statements
    def run(self, body):
        for st in body:
            if self.ret is not None or self.raised:
                return
            self.stmt(st)

    def stmt(self, st):
        if isinstance(st, ast.Expr) and isinstance(st.value, ast.Constant) and isinstance(st.value.value, str):
            return  # docstring
        if isinstance(st, ast.Return):
            self.ret = self.ev(st.value) if st.value is not None else "none"
            return
        if isinstance(st, ast.Raise):
            self.raised = True
            return
        if isinstance(st, ast.Assign):
            if len(st.targets) != 1:
                self.bad(st, "multiple assignment targets")
            self.assign(st.targets[0], self.ev(st.value), st)
            return
        if isinstance(st, ast.AugAssign):
            # only `self[a:] /= scalar`
            tgt = st.target
            if not (isinstance(tgt, ast.Subscript) and isinstance(tgt.value, ast.Name) and tgt.value.id == self.self_name and isinstance(st.op, ast.Div)):
                self.bad(st, "augmented assignment other than self[a:b] /= scalar")
            lo, hi = self.slice_bounds(tgt.slice, len(self.env[self.self_name]), st)
            d = self.ev(st.value)
            if not isinstance(d, tuple):
                self.bad(st, "non-scalar divisor")
            v = self.env[self.self_name]
            comps = list(v.comps)
            for k in range(lo, hi):
                comps[k] = ("div", comps[k], d)
            self.env[self.self_name] = Vec(v.cls, comps)
            self.mutated_self = True
            return
        if isinstance(st, ast.If):
            c = self.cond(st.test)
            if c is True:
                self.run(st.body)
                return
            if c is False:
                self.run(st.orelse)
                return
            # dynamic: both branches may only assign locals
            a = Ctx(self.tr, self.file, self.env, self.self_name)
            b = Ctx(self.tr, self.file, self.env, self.self_name)
            a.run(st.body)
            b.run(st.orelse)
            if a.ret is not None or b.ret is not None or a.raised or b.raised:
                self.bad(st, "return/raise inside a data-dependent if")
            for k in sorted(set(a.env) | set(b.env)):
                va, vb = a.env.get(k), b.env.get(k)
                if va is vb:
                    continue
                if va is None or vb is None:
                    self.bad(st, "variable %s assigned in only one branch of a data-dependent if" % k)
                if isinstance(va, tuple) and isinstance(vb, tuple):
                    self.env[k] = ("ite", c, va, vb)
                else:
                    self.bad(st, "non-scalar merge of %s in a data-dependent if" % k)
            return
        self.bad(st, "statement %s" % type(st).__name__)

    def assign(self, tgt, val, st):
        if isinstance(tgt, ast.Name):
            self.env[tgt.id] = val
            return
        if isinstance(tgt, ast.Tuple):
            items = self.seq_items(val, st)
            if len(items) != len(tgt.elts):
                self.bad(st, "unpack length mismatch")
            for t, v in zip(tgt.elts, items):
                self.assign(t, v, st)
            return
        self.bad(st, "assignment target %s" % type(tgt).__name__)

    def seq_items(self, val, node):
        if isinstance(val, PyList):
            return val.items
        if isinstance(val, Vec):
            return val.comps
        self.bad(node, "expected a sequence")

    def slice_bounds(self, sl, n, node):
        if not isinstance(sl, ast.Slice) or sl.step is not None:
            self.bad(node, "non-slice")

        def c(x, dflt):
            if x is None:
                return dflt
            v = self.const_int(x, node)
            return v if v >= 0 else n + v

        return c(sl.lower, 0), min(c(sl.upper, n), n)

    def const_int(self, x, node):
        if isinstance(x, ast.Constant) and isinstance(x.value, int) and not isinstance(x.value, bool):
            return x.value
        if isinstance(x, ast.UnaryOp) and isinstance(x.op, ast.USub):
            return -self.const_int(x.operand, node)
        self.bad(node, "non-constant integer")

    # -- static / dynamic conditions
    def cond(self, t):
        if isinstance(t, ast.BoolOp):
            vals = [self.cond(v) for v in t.values]
            if isinstance(t.op, ast.And):
                if any(v is False for v in vals):
                    return False
                if all(v is True for v in vals):
                    return True
            else:
                if any(v is True for v in vals):
                    return True
                if all(v is False for v in vals):
                    return False
            self.bad(t, "mixed static/dynamic boolean")
        if isinstance(t, ast.Call) and isinstance(t.func, ast.Name) and t.func.id == "isinstance":
            v = self.ev(t.args[0])
            cname = self.class_name(t.args[1])
            if isinstance(v, Vec):
                if cname == "np.ndarray":
                    return True  # every pose is an ndarray subclass
                return v.cls == cname
            self.bad(t, "isinstance on a non-array")
        if isinstance(t, ast.Compare) and len(t.ops) == 1:
            l, r = t.left, t.comparators[0]
            if isinstance(l, ast.Call) and isinstance(l.func, ast.Name) and l.func.id == "len" and isinstance(t.ops[0], ast.Eq):
                v = self.ev(l.args[0])
                return len(self.seq_items(v, t)) == self.const_int(r, t)
            a, b = self.ev(l), self.ev(r)
            if isinstance(a, tuple) and isinstance(b, tuple):
                if isinstance(t.ops[0], ast.Gt):
                    return ("gt", a, b)
                if isinstance(t.ops[0], ast.GtE):
                    return ("ge", a, b)
            self.bad(t, "comparison operator")
        self.bad(t, "condition")

    def class_name(self, n):
        if isinstance(n, ast.Name):
            return n.id
        if isinstance(n, ast.Attribute) and isinstance(n.value, ast.Name) and n.value.id == "np" and n.attr == "ndarray":
            return "np.ndarray"
        self.bad(n, "class reference")

    # -- expressions
    def ev(self, n):
        tr = self.tr
        if isinstance(n, ast.Constant):
            v = n.value
            if isinstance(v, bool) or v is None or isinstance(v, str):
                self.bad(n, "constant %r" % (v,))
            if isinstance(v, int):
                return ("lit", v)
            if isinstance(v, float):
                if v != int(v) or abs(v) > 2**31:
                    self.bad(n, "non-integral float literal %r" % v)
                return ("lit", int(v))
            self.bad(n, "constant %r" % (v,))
        if isinstance(n, ast.Name):
            if n.id in self.env:
                return self.env[n.id]
            if n.id in tr.module_consts.get(self.file, {}):
                return tr.module_consts[self.file][n.id]
            self.bad(n, "unknown name %s" % n.id)
        if isinstance(n, (ast.List, ast.Tuple)):
            return PyList([self.ev(x) for x in n.elts])
        if isinstance(n, ast.UnaryOp) and isinstance(n.op, ast.USub):
            v = self.ev(n.operand)
            if isinstance(v, tuple):
                return ("lit", -v[1]) if v[0] == "lit" else ("neg", v)
            if isinstance(v, Mat):
                return Mat([[("neg", x) for x in r] for r in v.rows], lean=("negM %s" % paren(v.lean)) if v.lean else None)
            self.bad(n, "unary minus on %s" % type(v).__name__)
        if isinstance(n, ast.IfExp):
            c = self.cond(n.test)
            if c is True:
                return self.ev(n.body)
            if c is False:
                return self.ev(n.orelse)
            a, b = self.ev(n.body), self.ev(n.orelse)
            if isinstance(a, tuple) and isinstance(b, tuple):
                return ("ite", c, a, b)
            self.bad(n, "non-scalar conditional expression")
        if isinstance(n, ast.BinOp):
            return self.binop(n)
        if isinstance(n, ast.Subscript):
            v = self.ev(n.value)
            if isinstance(n.slice, ast.Slice):
                items = self.seq_items(v, n)
                lo, hi = self.slice_bounds(n.slice, len(items), n)
                return Vec(None, items[lo:hi])
            if isinstance(n.slice, ast.Tuple):
                # matrix[i, j] with constant indices on a 2-D array
                if not (isinstance(v, Mat) and len(n.slice.elts) == 2):
                    self.bad(n, "tuple subscript of %s" % type(v).__name__)
                i, j = (self.const_int(x, n) for x in n.slice.elts)
                r, c = v.shape
                if not (-r <= i < r and -c <= j < c):
                    self.bad(n, "matrix index (%d, %d) out of range for shape %s" % (i, j, v.shape))
                return v.rows[i][j]
            i = self.const_int(n.slice, n)
            if isinstance(v, PyList):
                return v.items[i]
            if isinstance(v, Vec):
                return v.comps[i]
            if isinstance(v, Mat):
                if not -v.shape[0] <= i < v.shape[0]:
                    self.bad(n, "row index %d out of range for shape %s" % (i, v.shape))
                return Vec(None, v.rows[i])  # matrix[i] is row i
            self.bad(n, "subscript of %s" % type(v).__name__)
        if isinstance(n, ast.Attribute):
            return self.attribute(n)
        if isinstance(n, ast.Call):
            return self.call(n)
        self.bad(n, "expression %s" % type(n).__name__)

    def binop(self, n):
        a, b = self.ev(n.left), self.ev(n.right)
        op = n.op
        if isinstance(a, Vec) and a.cls in POSE_DIMS and isinstance(op, (ast.Add, ast.Sub)):
            return self.tr.pose_call(self, n, a, "__add__" if isinstance(op, ast.Add) else "__sub__", [b])
        if isinstance(a, tuple) and isinstance(b, tuple):
            if isinstance(op, ast.Add):
                return ("add", a, b)
            if isinstance(op, ast.Sub):
                return ("sub", a, b)
            if isinstance(op, ast.Mult):
                return ("mul", a, b)
            if isinstance(op, ast.Div):
                return ("div", a, b)
            if isinstance(op, ast.Mod):
                return ("fn", "Scalar.pymod", [a, b])
            if isinstance(op, ast.Pow):
                if b == ("lit", 2):
                    return ("mul", a, a)
                self.bad(n, "power other than **2")
        self.bad(n, "binary operator %s on %s,%s" % (type(op).__name__, type(a).__name__, type(b).__name__))

    def attribute(self, n):
        # np.pi
        if isinstance(n.value, ast.Name) and n.value.id == "np" and n.attr == "pi":
            return ("fn", "Scalar.pi", [])
        # edge attributes
        if isinstance(n.value, ast.Name) and n.value.id == self.self_name and ("edge." + n.attr) in self.env:
            return self.env["edge." + n.attr]
        # self.vertices[k].pose
        if n.attr == "pose" and isinstance(n.value, ast.Subscript):
            base = n.value.value
            if isinstance(base, ast.Attribute) and base.attr == "vertices" and isinstance(base.value, ast.Name) and base.value.id == self.self_name:
                k = self.const_int(n.value.slice, n)
                key = "edge.vertices[%d].pose" % k
                if key in self.env:
                    return self.env[key]
        v = self.ev(n.value)
        if isinstance(v, Vec) and v.cls in POSE_DIMS:
            # property access on a pose (inverse, position, orientation)
            return self.tr.pose_call(self, n, v, n.attr, [], prop=True)
        self.bad(n, "attribute .%s" % n.attr)

    def call(self, n):
        f = n.func
        tr = self.tr
        args = n.args
        # numpy functions
        np_name = None
        if isinstance(f, ast.Attribute) and isinstance(f.value, ast.Name) and f.value.id == "np":
            np_name = f.attr
        if isinstance(f, ast.Attribute) and isinstance(f.value, ast.Attribute) and isinstance(f.value.value, ast.Name) and f.value.value.id == "np" and f.value.attr == "linalg":
            np_name = "linalg." + f.attr
        if np_name is not None:
            return self.np_call(n, np_name, args)
        # math.atan2(y, x): only when `math` is the standard module imported at the top of the file
        if isinstance(f, ast.Attribute) and isinstance(f.value, ast.Name) and f.value.id == "math":
            if not tr.imports_plain(self.file, "math") or "math" in self.env:
                self.bad(n, "`math` is not the plainly imported standard module")
            if f.attr == "atan2" and len(args) == 2 and not n.keywords:
                y, x = self.ev(args[0]), self.ev(args[1])
                if isinstance(y, tuple) and isinstance(x, tuple):
                    return ("fn", "ScalarT.atan2", [y, x])
            self.bad(n, "math.%s" % f.attr)
        # x.view(cls)
        if isinstance(f, ast.Attribute) and f.attr == "view":
            v = self.ev(f.value)
            cname = args[0].id if isinstance(args[0], ast.Name) else None
            if cname == "cls":
                cname = self.env.get("cls")
            if isinstance(v, Vec) and cname in POSE_DIMS:
                return Vec(cname, v.comps)
            self.bad(n, ".view")
        if isinstance(f, ast.Name):
            if f.id == "neg_pi_to_pi":
                a = self.ev(args[0])
                if not isinstance(a, tuple):
                    self.bad(n, "neg_pi_to_pi of non-scalar")
                return ("fn", "Util.neg_pi_to_pi", [a])
            if f.id in POSE_DIMS:
                return tr.construct(self, n, f.id, [self.ev(a) for a in args])
            if f.id == "cls" and self.env.get("cls") in POSE_DIMS:
                return tr.construct(self, n, self.env["cls"], [self.ev(a) for a in args])
            self.bad(n, "call of %s" % f.id)
        if isinstance(f, ast.Attribute):
            # PoseX.identity()
            if isinstance(f.value, ast.Name) and f.value.id in POSE_DIMS and f.attr == "identity":
                return tr.pose_static(self, n, f.value.id, "identity")
            recv = self.ev(f.value)
            if isinstance(recv, Vec) and recv.cls in POSE_DIMS:
                return tr.pose_call(self, n, recv, f.attr, [self.ev(a) for a in args])
        self.bad(n, "call")

    def np_call(self, n, name, args):
        ev = self.ev
        if name in ("array", "asarray"):
            v = ev(args[0])
            return self.to_array(v, n)
        if name in ("cos", "sin"):
            a = ev(args[0])
            if isinstance(a, tuple):
                return ("fn", "Scalar." + name, [a])
        if name == "sqrt":
            a = ev(args[0])
            if isinstance(a, tuple):
                return ("fn", "ScalarF.sqrt", [a])
        if name == "arctan2" and len(args) == 2 and not n.keywords:
            y, x = ev(args[0]), ev(args[1])
            if isinstance(y, tuple) and isinstance(x, tuple):
                return ("fn", "ScalarT.atan2", [y, x])
        if name == "linalg.norm":
            v = ev(args[0])
            items = self.seq_items(v, n)
            s = None
            for x in items:
                sq = ("mul", x, x)
                s = sq if s is None else ("add", s, sq)
            return ("fn", "ScalarF.sqrt", [s])
        if name in ("add", "subtract"):
            a, b = ev(args[0]), ev(args[1])
            ia, ib = self.seq_items(a, n), self.seq_items(b, n)
            if len(ia) != len(ib):
                self.bad(n, "np.%s on different lengths" % name)
            t = "add" if name == "add" else "sub"
            return Vec(None, [(t, x, y) for x, y in zip(ia, ib)])
        if name == "eye":
            k = self.const_int(args[0], n)
            return Mat([[("lit", 1 if i == j else 0) for j in range(k)] for i in range(k)], lean="eye %d" % k)
        if name == "transpose":
            v = ev(args[0])
            if isinstance(v, GRef):
                if len(v.shape) == 1:
                    return GRef(v.shape, "transposeV %s" % paren(v.lean))
                return GRef(v.shape[::-1], "transposeM %s" % paren(v.lean))
            if isinstance(v, Vec):
                return v
            if isinstance(v, Mat):
                rows = [[v.rows[i][j] for i in range(v.shape[0])] for j in range(v.shape[1])]
                return Mat(rows, lean=("transposeM %s" % paren(v.lean)) if v.lean else None)
        if name == "dot":
            a, b = ev(args[0]), ev(args[1])
            return self.dot(a, b, n)
        self.bad(n, "np.%s" % name)

    def to_array(self, v, n):
        if isinstance(v, Vec):
            return Vec(None, v.comps)
        if isinstance(v, PyList):
            if all(isinstance(x, tuple) for x in v.items):
                return Vec(None, v.items)
            if all(isinstance(x, PyList) for x in v.items):
                rows = [x.items for x in v.items]
                if len(set(len(r) for r in rows)) == 1 and all(isinstance(y, tuple) for r in rows for y in r):
                    return Mat(rows)
        self.bad(n, "np.array of this shape")

    def shape_of(self, v):
        if isinstance(v, GRef):
            return v.shape
        if isinstance(v, Vec):
            return (len(v),)
        if isinstance(v, Mat):
            return v.shape
        return None

    def lean_of(self, v, n):
        if isinstance(v, (GRef, Vec, Mat)) and v.lean:
            return v.lean
        self.bad(n, "np.dot operand is not a named array")

    def dot(self, a, b, n):
        sa, sb = self.shape_of(a), self.shape_of(b)
        if sa is None or sb is None:
            self.bad(n, "np.dot operands")
        la, lb = self.lean_of(a, n), self.lean_of(b, n)
        if sa[-1] != sb[0]:
            self.bad(n, "np.dot inner dimension mismatch %s %s" % (sa, sb))
        kind = {(1, 1): "dotVV", (1, 2): "dotVM", (2, 1): "dotMV", (2, 2): "dotMM"}[(len(sa), len(sb))]
        shape = sa[:-1] + sb[1:]
        lean = "%s %s %s" % (kind, paren(la), paren(lb))
        if all(isinstance(d, int) for d in shape):
            if len(shape) == 0:
                return ("fn", lean, [])
            if len(shape) == 1:
                return Vec(None, [("idx", paren(lean), i) for i in range(shape[0])], lean=lean)
            return Mat([[("idx2", paren(lean), i, j) for j in range(shape[1])] for i in range(shape[0])], lean=lean)
        if len(shape) == 0:
            return ("fn", lean, [])
        return GRef(shape, lean)


# --------------------------------------------------------------------------- translator


class Translator:
    def __init__(self, repo):
        self.repo = repo
        self.src = {}
        self.tree = {}
        self.module_consts = {}
        self.sigs = {}  # (cls, leanmethod) -> dict(result kind)
        self.defs = []  # emitted defs in order: dict
        self.by_lean = {}

    def load(self, rel):
        if rel in self.tree:
            return self.tree[rel]
        p = os.path.join(self.repo, "graphslam", rel)
        s = open(p).read()
        self.src[rel] = s
        t = ast.parse(s, filename=rel)
        self.tree[rel] = t
        return t

    def imports_plain(self, rel, module):
        """is there a top-level `import <module>` (no alias) in file rel, and no other top-level binding of that name?"""
        found = False
        for n in self.load(rel).body:
            if isinstance(n, ast.Import):
                for a in n.names:
                    if a.name == module and a.asname is None:
                        found = True
                    elif (a.asname or a.name.split(".")[0]) == module:
                        return False
            elif isinstance(n, ast.ImportFrom):
                if any((a.asname or a.name) == module for a in n.names):
                    return False
            elif isinstance(n, (ast.FunctionDef, ast.ClassDef)) and n.name == module:
                return False
            elif isinstance(n, ast.Assign) and any(isinstance(t, ast.Name) and t.id == module for t in n.targets):
                return False
        return found

    def find_class(self, rel, cname):
        for n in self.load(rel).body:
            if isinstance(n, ast.ClassDef) and n.name == cname:
                return n
        raise Untranslatable(rel, 0, "class %s not found" % cname)

    def find_func(self, body, name, rel):
        for n in body:
            if isinstance(n, ast.FunctionDef) and n.name == name:
                return n
        raise Untranslatable(rel, 0, "function %s not found" % name)

    def segment(self, rel, node):
        lines = self.src[rel].split("\n")[node.lineno - 1 : node.end_lineno]
        return "\n".join(lines)

    # --- pose-level helpers used by the interpreter
    def construct(self, ctx, node, cname, args):
        """symbolically execute cname.__new__(cls, *args)"""
        rel = POSE_FILES[cname]
        fn = self.find_func(self.find_class(rel, cname).body, "__new__", rel)
        params = [a.arg for a in fn.args.args]
        if len(params) != len(args) + 1:
            ctx.bad(node, "constructor arity")
        env = {"cls": cname}
        for p, a in zip(params[1:], args):
            env[p] = a
        c = Ctx(self, rel, env)
        c.run(fn.body)
        r = c.ret
        if not isinstance(r, Vec) or r.cls != cname:
            ctx.bad(node, "constructor of %s did not return a %s" % (cname, cname))
        if len(r) != POSE_DIMS[cname][0]:
            # R2/R3 constructors accept whatever they are given; we only model well-formed ones
            ctx.bad(node, "constructor of %s given %d components" % (cname, len(r)))
        return r

    def spec_name(self, cname, meth, argvals, ctx, node):
        """which generated definition does `recv.meth(args)` refer to?"""
        d, c = POSE_DIMS[cname]
        if meth == "__add__":
            o = argvals[0]
            if isinstance(o, Vec) and o.cls == cname:
                return "add"
            if isinstance(o, Vec) and o.cls == POINT_OF[cname] and cname in ("PoseSE2", "PoseSE3"):
                return "add_point"
            if isinstance(o, Vec) and o.cls is None and len(o) == c:
                return "boxplus"
            if isinstance(o, Vec) and o.cls in POSE_DIMS and cname in ("PoseR2", "PoseR3") and len(o) == d:
                return "add"
            ctx.bad(node, "unsupported operand for %s.__add__" % cname)
        if meth == "__sub__":
            return "sub"
        return meth

    def pose_call(self, ctx, node, recv, meth, args, prop=False):
        cname = recv.cls
        lm = self.spec_name(cname, meth, args, ctx, node)
        key = (cname, lm)
        if key not in self.sigs:
            ctx.bad(node, "call of untranslated method %s.%s" % (cname, lm))
        sig = self.sigs[key]
        lean = "%s.%s" % (cname, lm)
        parts = [self.as_lean_arg(ctx, node, recv)]
        for a in args[: sig["nargs"] - 1]:
            parts.append(self.as_lean_arg(ctx, node, a))
        call = lean + " " + " ".join(parts)
        return self.result_of(sig, call)

    def pose_static(self, ctx, node, cname, meth):
        sig = self.sigs[(cname, meth)]
        return self.result_of(sig, "(%s.%s (E := E))" % (cname, meth))

    def result_of(self, sig, call):
        k = sig["ret"]
        if k[0] == "scalar":
            return ("fn", call, [])
        if k[0] == "vec":
            return Vec(k[2], [("idx", paren(call), i) for i in range(k[1])], lean=call)
        if k[0] == "mat":
            return Mat([[("idx2", paren(call), i, j) for j in range(k[2])] for i in range(k[1])], lean=call)
        raise AssertionError(k)

    def as_lean_arg(self, ctx, node, v):
        if isinstance(v, tuple):
            return render(v, APP)
        if isinstance(v, (Vec, Mat)) and v.lean:
            return paren(v.lean) if " " in v.lean else v.lean
        if isinstance(v, Vec):
            return "(fun i => match i with " + " ".join("| %d => %s" % (i, render(c)) for i, c in enumerate(v.comps)) + ")"
        ctx.bad(node, "argument is not a named array")

    # --- emission
    def emit(self, group, lean, params, ret, rel, node, py, doc_shape=None, note=None):
        """params: list of (name, kind) kind = ('vec', n, cls) | ('scalar',) | ('mat', m, n) | ('gvec', 'n') | ('gmat','m','n')
        ret: scalar IR | Vec | Mat | GRef"""
        seg = self.segment(rel, node)
        if isinstance(ret, tuple):
            rk = ("scalar",)
            f = needs_F(ret)
        elif isinstance(ret, Vec):
            rk = ("vec", len(ret), ret.cls)
            f = any(needs_F(c) for c in ret.comps)
        elif isinstance(ret, Mat):
            rk = ("mat",) + ret.shape
            f = any(needs_F(c) for r in ret.rows for c in r)
        elif isinstance(ret, GRef):
            rk = ("g",) + ret.shape
            f = False
        else:
            raise AssertionError(ret)
        comps = [ret] if isinstance(ret, tuple) else ret.comps if isinstance(ret, Vec) else [c for r in ret.rows for c in r] if isinstance(ret, Mat) else []
        t = any(needs_T(c) for c in comps)
        if f:
            NEEDS_F.add(lean)
        if t:
            NEEDS_T.add(lean)
        d = dict(group=group, lean=lean, params=params, ret=rk, needsF=f, needsT=t, file="graphslam/" + rel, line=node.lineno, end_line=node.end_lineno, sha256=hashlib.sha256(seg.encode()).hexdigest(), py=py, doc_shape=doc_shape, note=note, body=ret)
        self.defs.append(d)
        self.by_lean[lean] = d
        return d

    # --- pose classes
    def arg_vec(self, name, n, cls):
        return Vec(cls, [("arg", name, i) for i in range(n)], lean=name)

    def translate_pose_class(self, cname):
        rel = POSE_FILES[cname]
        cls = self.find_class(rel, cname)
        d, c = POSE_DIMS[cname]
        point = POINT_OF[cname]
        pd = POSE_DIMS[point][0]
        funcs = {n.name: n for n in cls.body if isinstance(n, ast.FunctionDef)}
        group = cname

        def run(fn, env, self_name="self"):
            ctx = Ctx(self, rel, env, self_name)
            ctx.mutated_self = False
            ctx.run(fn.body)
            return ctx

        def reg(lm, nargs, ret):
            if isinstance(ret, tuple):
                k = ("scalar",)
            elif isinstance(ret, Vec):
                k = ("vec", len(ret), ret.cls)
            else:
                k = ("mat",) + ret.shape
            self.sigs[(cname, lm)] = dict(nargs=nargs, ret=k)

        # constructor
        fn = funcs["__new__"]
        if cname in ("PoseR2", "PoseR3"):
            pos = Vec(None, [("arg", "position", i) for i in range(d)], lean="position")
            r = self.construct(Ctx(self, rel, {}), fn, cname, [pos])
            self.emit(group, cname + ".new", [("position", ("vec", d, None))], r, rel, fn, dict(kind="ctor", cls=cname, args=[["vec", d]]))
        elif cname == "PoseSE2":
            pos = Vec(None, [("arg", "position", i) for i in range(2)], lean="position")
            r = self.construct(Ctx(self, rel, {}), fn, cname, [pos, ("sarg", "orientation")])
            self.emit(group, cname + ".new", [("position", ("vec", 2, None)), ("orientation", ("scalar",))], r, rel, fn, dict(kind="ctor", cls=cname, args=[["vec", 2], ["scalar"]]))
        else:
            pos = Vec(None, [("arg", "position", i) for i in range(3)], lean="position")
            ori = Vec(None, [("arg", "orientation", i) for i in range(4)], lean="orientation")
            r = self.construct(Ctx(self, rel, {}), fn, cname, [pos, ori])
            self.emit(group, cname + ".new", [("position", ("vec", 3, None)), ("orientation", ("vec", 4, None))], r, rel, fn, dict(kind="ctor", cls=cname, args=[["vec", 3], ["vec", 4]]))

        selfv = self.arg_vec("self", d, cname)

        def unary(name, lm=None, kind="method"):
            lm = lm or name
            fn = funcs[name]
            ctx = run(fn, {"self": selfv, "cls": cname})
            r = ctx.ret
            if (r is None or r == "none") and ctx.mutated_self and not ctx.raised:
                r = ctx.env["self"]
            if r is None or r == "none" or ctx.raised:
                raise Untranslatable(rel, fn.lineno, "%s does not return a value" % name)
            reg(lm, 1, r)
            self.emit(group, "%s.%s" % (cname, lm), [("self", ("vec", d, cname))], r, rel, fn, dict(kind=kind, cls=cname, name=name, args=[]), doc_shape=self.doc_shape(fn))

        # identity (classmethod, no self)
        fn = funcs["identity"]
        ctx = run(fn, {"cls": cname}, self_name=None)
        reg("identity", 0, ctx.ret)
        self.sigs[(cname, "identity")]["nargs"] = 0
        self.emit(group, cname + ".identity", [], ctx.ret, rel, fn, dict(kind="static", cls=cname, name="identity", args=[]))

        for name in ("copy", "to_array", "to_compact"):
            unary(name)
        if "to_matrix" in funcs:
            unary("to_matrix")
        if "from_matrix" in funcs:
            # classmethod: matrix (a (k x k) homogeneous array, k = shape of what to_matrix returns) -> pose; `cls(...)` is the
            # class's own constructor (interpreted, with its angle wrap).  Anything else in the body stops the translation.
            fn = funcs["from_matrix"]
            if [ast.unparse(x) for x in fn.decorator_list] != ["classmethod"]:
                raise Untranslatable(rel, fn.lineno, "from_matrix is not a plain @classmethod")
            params = [a.arg for a in fn.args.args]
            if len(params) != 2 or fn.args.vararg or fn.args.kwarg or fn.args.kwonlyargs or fn.args.defaults:
                raise Untranslatable(rel, fn.lineno, "from_matrix signature is not (cls, matrix)")
            tm = self.sigs.get((cname, "to_matrix"), {}).get("ret")
            if not (tm and tm[0] == "mat" and tm[1] == tm[2]):
                raise Untranslatable(rel, fn.lineno, "from_matrix without a square to_matrix to take the shape from")
            k = tm[1]
            mname = params[1]
            marg = Mat([[("idx2", mname, i, j) for j in range(k)] for i in range(k)], lean=mname)
            ctx = run(fn, {params[0]: cname, mname: marg}, self_name=None)
            r = ctx.ret
            if ctx.raised or not isinstance(r, Vec) or r.cls != cname or len(r) != d:
                raise Untranslatable(rel, fn.lineno, "from_matrix does not return a %s" % cname)
            self.emit(group, cname + ".from_matrix", [(mname, ("mat", k, k))], r, rel, fn, dict(kind="from_matrix", cls=cname, name="from_matrix", args=[["mat", k, k]]))
        unary("position", kind="property")
        unary("orientation", kind="property")
        unary("inverse", kind="property")
        if "normalize" in funcs:
            unary("normalize", kind="mutator")

        def binary(name, lm, oname, oval, okind, pyargs):
            fn = funcs[name]
            params = [a.arg for a in fn.args.args]
            ctx = run(fn, {"self": selfv, params[1]: oval, "cls": cname})
            if ctx.raised or ctx.ret is None:
                raise Untranslatable(rel, fn.lineno, "%s raises for specialisation %s" % (name, lm))
            reg(lm, 2, ctx.ret)
            pname = params[1]
            self.emit(group, "%s.%s" % (cname, lm), [("self", ("vec", d, cname)), (pname, okind)], ctx.ret, rel, fn, dict(kind="method", cls=cname, name=name, args=pyargs), doc_shape=self.doc_shape(fn))

        def other_vec(fn_name, n, cls):
            pname = [a.arg for a in funcs[fn_name].args.args][1]
            return Vec(cls, [("arg", pname, i) for i in range(n)], lean=pname)

        binary("__add__", "add", "other", other_vec("__add__", d, cname), ("vec", d, cname), [["pose", cname]])
        binary("__add__", "boxplus", "other", other_vec("__add__", c, None), ("vec", c, None), [["ndarray", c]])
        if cname in ("PoseSE2", "PoseSE3"):
            binary("__add__", "add_point", "other", other_vec("__add__", pd, point), ("vec", pd, point), [["pose", point]])
        binary("__sub__", "sub", "other", other_vec("__sub__", d, cname), ("vec", d, cname), [["pose", cname]])
        for name in sorted(funcs):
            if not name.startswith("jacobian_"):
                continue
            fn = funcs[name]
            params = [a.arg for a in fn.args.args]
            if len(params) == 1:
                unary(name)
            elif "point" in name:
                binary(name, name, params[1], other_vec(name, pd, point), ("vec", pd, point), [["pose", point]])
            else:
                binary(name, name, params[1], other_vec(name, d, cname), ("vec", d, cname), [["pose", cname]])
        # `p += q` : BasePose.__iadd__ (base_pose.py) — inherited, translated once per class and operand kind
        if "__iadd__" in funcs:  # an override in the class itself takes precedence (MRO)
            brel, bfn = rel, funcs["__iadd__"]
        else:
            brel = "pose/base_pose.py"
            bfn = self.find_func(self.find_class(brel, "BasePose").body, "__iadd__", brel)
        bparams = [a.arg for a in bfn.args.args]
        for lm, oval, okind, pyargs in (
            ("iadd", Vec(cname, [("arg", bparams[1], i) for i in range(d)], lean=bparams[1]), ("vec", d, cname), [["pose", cname]]),
            ("iadd_boxplus", Vec(None, [("arg", bparams[1], i) for i in range(c)], lean=bparams[1]), ("vec", c, None), [["ndarray", c]]),
        ):
            ctx = Ctx(self, brel, {"self": selfv, bparams[1]: oval, "cls": cname}, "self")
            ctx.run(bfn.body)
            if ctx.raised or not isinstance(ctx.ret, Vec):
                raise Untranslatable(brel, bfn.lineno, "__iadd__ does not return a pose")
            reg(lm, 2, ctx.ret)
            self.emit(group, "%s.%s" % (cname, lm), [("self", ("vec", d, cname)), (bparams[1], okind)], ctx.ret, brel, bfn, dict(kind="iadd", cls=cname, name="__iadd__", args=pyargs))

    def doc_shape(self, fn):
        doc = ast.get_docstring(fn) or ""
        m = re.search(r"shape: ``(\d+) x (\d+)``", doc)
        return [int(m.group(1)), int(m.group(2))] if m else None

    # --- util
    def translate_util(self):
        rel = "util.py"
        t = self.load(rel)
        consts = {}
        for n in t.body:
            if isinstance(n, ast.Assign) and len(n.targets) == 1 and isinstance(n.targets[0], ast.Name):
                try:
                    c = Ctx(self, rel, {})
                    self.module_consts[rel] = consts
                    consts[n.targets[0].id] = c.ev(n.value)
                except Untranslatable:
                    pass
        self.module_consts[rel] = consts
        fn = self.find_func(t.body, "neg_pi_to_pi", rel)
        p = fn.args.args[0].arg
        c = Ctx(self, rel, {p: ("sarg", p)})
        c.run(fn.body)
        if not isinstance(c.ret, tuple):
            raise Untranslatable(rel, fn.lineno, "neg_pi_to_pi does not return a scalar")
        self.emit("Util", "Util.neg_pi_to_pi", [(p, ("scalar",))], c.ret, rel, fn, dict(kind="function", module="graphslam.util", name="neg_pi_to_pi", args=[["scalar"]]))

    # --- edges
    def translate_edges(self):
        # odometry
        rel = "edge/edge_odometry.py"
        cls = self.find_class(rel, "EdgeOdometry")
        funcs = {n.name: n for n in cls.body if isinstance(n, ast.FunctionDef)}
        for T in ("PoseR2", "PoseR3", "PoseSE2", "PoseSE3"):
            d, c = POSE_DIMS[T]
            env = {
                "edge.estimate": self.arg_vec("estimate", d, T),
                "edge.vertices[0].pose": self.arg_vec("p0", d, T),
                "edge.vertices[1].pose": self.arg_vec("p1", d, T),
            }
            params = [("estimate", ("vec", d, T)), ("p0", ("vec", d, T)), ("p1", ("vec", d, T))]
            tag = SHORT[T]
            fn = funcs["calc_error"]
            ctx = Ctx(self, rel, env, "self")
            ctx.run(fn.body)
            self.need_vec(ctx.ret, fn, rel)
            self.emit("Edges", "EdgeOdometry.calc_error_" + tag, params, ctx.ret, rel, fn, dict(kind="edge", cls="EdgeOdometry", name="calc_error", types=[T, T, T]))
            fn = funcs["calc_jacobians"]
            ctx = Ctx(self, rel, env, "self")
            ctx.run(fn.body)
            if not (isinstance(ctx.ret, PyList) and len(ctx.ret.items) == 2 and all(isinstance(x, Mat) for x in ctx.ret.items)):
                raise Untranslatable(rel, fn.lineno, "calc_jacobians must return a list of two 2-D arrays")
            for k, m in enumerate(ctx.ret.items):
                self.emit("Edges", "EdgeOdometry.calc_jacobians_%s_%d" % (tag, k), params, m, rel, fn, dict(kind="edge", cls="EdgeOdometry", name="calc_jacobians", index=k, types=[T, T, T]))
        # landmark
        rel = "edge/edge_landmark.py"
        cls = self.find_class(rel, "EdgeLandmark")
        funcs = {n.name: n for n in cls.body if isinstance(n, ast.FunctionDef)}
        for T in ("PoseR2", "PoseR3", "PoseSE2", "PoseSE3"):
            P = POINT_OF[T]
            d, c = POSE_DIMS[T]
            pd = POSE_DIMS[P][0]
            env = {
                "edge.estimate": self.arg_vec("estimate", pd, P),
                "edge.offset": self.arg_vec("offset", d, T),
                "edge.vertices[0].pose": self.arg_vec("p0", d, T),
                "edge.vertices[1].pose": self.arg_vec("p1", pd, P),
            }
            params = [("estimate", ("vec", pd, P)), ("offset", ("vec", d, T)), ("p0", ("vec", d, T)), ("p1", ("vec", pd, P))]
            tag = SHORT[T]
            fn = funcs["calc_error"]
            ctx = Ctx(self, rel, env, "self")
            ctx.run(fn.body)
            self.need_vec(ctx.ret, fn, rel)
            self.emit("Edges", "EdgeLandmark.calc_error_" + tag, params, ctx.ret, rel, fn, dict(kind="edge", cls="EdgeLandmark", name="calc_error", types=[P, T, T, P]))
            fn = funcs["calc_jacobians"]
            ctx = Ctx(self, rel, env, "self")
            ctx.run(fn.body)
            if not (isinstance(ctx.ret, PyList) and len(ctx.ret.items) == 2 and all(isinstance(x, Mat) for x in ctx.ret.items)):
                raise Untranslatable(rel, fn.lineno, "calc_jacobians must return a list of two 2-D arrays")
            for k, m in enumerate(ctx.ret.items):
                self.emit("Edges", "EdgeLandmark.calc_jacobians_%s_%d" % (tag, k), params, m, rel, fn, dict(kind="edge", cls="EdgeLandmark", name="calc_jacobians", index=k, types=[P, T, T, P]))
        # base edge: chi2 and the two comprehension element expressions
        rel = "edge/base_edge.py"
        cls = self.find_class(rel, "BaseEdge")
        funcs = {n.name: n for n in cls.body if isinstance(n, ast.FunctionDef)}
        fn = funcs["calc_chi2"]
        env = {"edge.information": GRef(("n", "n"), "information"), "edge.calc_error()": GRef(("n",), "err")}
        ctx = BaseEdgeCtx(self, rel, env, "self")
        ctx.run(fn.body)
        if not isinstance(ctx.ret, tuple):
            raise Untranslatable(rel, fn.lineno, "calc_chi2 must return a scalar")
        self.emit("Edges", "BaseEdge.calc_chi2", [("err", ("gvec", "n")), ("information", ("gmat", "n", "n"))], ctx.ret, rel, fn, dict(kind="generic", cls="BaseEdge", name="calc_chi2"))
        self.translate_contribs(rel, funcs["calc_chi2_gradient_hessian"])

    def need_vec(self, r, fn, rel):
        if not isinstance(r, Vec):
            raise Untranslatable(rel, fn.lineno, "calc_error must return a 1-D array")

    def translate_contribs(self, rel, fn):
        """calc_chi2_gradient_hessian: check the statement/comprehension skeleton structurally and translate the two
        element expressions.  The skeleton (which pairs (i, j), which keys) is what Model/Assembly.lean mirrors; if it
        changes shape the translation stops and the correspondence check is what speaks."""
        body = [s for s in fn.body if not (isinstance(s, ast.Expr) and isinstance(s.value, ast.Constant))]
        ok = len(body) == 4 and all(isinstance(s, ast.Assign) for s in body[:3]) and isinstance(body[3], ast.Return)
        names = [s.targets[0].id for s in body[:3]] if ok else []
        ok = ok and names == ["chi2", "err", "jacobians"]
        if ok:
            calls = [ast.unparse(s.value) for s in body[:3]]
            ok = calls == ["self.calc_chi2()", "self.calc_error()", "self.calc_jacobians()"]
        r = body[3].value if ok else None
        ok = ok and isinstance(r, ast.Tuple) and len(r.elts) == 3 and ast.unparse(r.elts[0]) == "chi2"
        if ok:
            g, h = r.elts[1], r.elts[2]
            ok = isinstance(g, ast.ListComp) and isinstance(h, ast.ListComp)
        if ok:
            ok = len(g.generators) == 1 and ast.unparse(g.generators[0].target) == "(v, jacobian)" and ast.unparse(g.generators[0].iter) == "zip(self.vertices, jacobians)" and not g.generators[0].ifs
            ok = ok and isinstance(g.elt, ast.Tuple) and len(g.elt.elts) == 2 and ast.unparse(g.elt.elts[0]) == "v.gradient_index"
            ok = ok and len(h.generators) == 2 and ast.unparse(h.generators[0].target) == "i" and ast.unparse(h.generators[0].iter) == "range(len(jacobians))"
            ok = ok and ast.unparse(h.generators[1].target) == "j" and ast.unparse(h.generators[1].iter) == "range(i, len(jacobians))" and not h.generators[0].ifs and not h.generators[1].ifs
            ok = ok and isinstance(h.elt, ast.Tuple) and len(h.elt.elts) == 2 and ast.unparse(h.elt.elts[0]) == "(self.vertices[i].gradient_index, self.vertices[j].gradient_index)"
        if not ok:
            raise Untranslatable(rel, fn.lineno, "calc_chi2_gradient_hessian no longer has the skeleton the assembly model mirrors")
        env = {"edge.information": GRef(("m", "m"), "information"), "err": GRef(("m",), "err"), "jacobian": GRef(("m", "c"), "jacobian")}
        ctx = BaseEdgeCtx(self, rel, env, "self")
        gexp = ctx.ev(g.elt.elts[1])
        if not (isinstance(gexp, GRef) and gexp.shape == ("c",)):
            raise Untranslatable(rel, fn.lineno, "gradient contribution is not a 1-D array of the vertex dimension")
        self.emit("Edges", "BaseEdge.gradient_contrib", [("err", ("gvec", "m")), ("information", ("gmat", "m", "m")), ("jacobian", ("gmat", "m", "c"))], gexp, rel, g, dict(kind="generic", cls="BaseEdge", name="gradient_contrib"))
        env = {"edge.information": GRef(("m", "m"), "information"), "jacobians": GList({"i": GRef(("m", "ci"), "jacobian_i"), "j": GRef(("m", "cj"), "jacobian_j")})}
        ctx = BaseEdgeCtx(self, rel, env, "self")
        hexp = ctx.ev(h.elt.elts[1])
        if not (isinstance(hexp, GRef) and hexp.shape == ("ci", "cj")):
            raise Untranslatable(rel, fn.lineno, "Hessian contribution is not a (dim_i x dim_j) array")
        self.emit("Edges", "BaseEdge.hessian_contrib", [("jacobian_i", ("gmat", "m", "ci")), ("information", ("gmat", "m", "m")), ("jacobian_j", ("gmat", "m", "cj"))], hexp, rel, h, dict(kind="generic", cls="BaseEdge", name="hessian_contrib"))

    # --- output
    def lean_type(self, kind):
        if kind[0] == "scalar":
            return "E"
        if kind[0] == "vec":
            return "Fin %d → E" % kind[1]
        if kind[0] == "mat":
            return "Fin %d → Fin %d → E" % (kind[1], kind[2])
        if kind[0] == "gvec":
            return "Fin %s → E" % kind[1]
        if kind[0] == "gmat":
            return "Fin %s → Fin %s → E" % (kind[1], kind[2])
        if kind[0] == "g":
            return " → ".join("Fin %s" % d for d in kind[1:]) + " → E"
        raise AssertionError(kind)

    def render_def(self, d):
        body = d["body"]
        cls = "ScalarT" if d.get("needsT") else "ScalarF" if d["needsF"] else "Scalar"
        gdims = sorted({x for _, k in d["params"] for x in k[1:] if isinstance(x, str) and k[0] in ("gvec", "gmat")})
        binders = "".join(" {%s : Nat}" % g for g in gdims)
        binders += " {E : Type} [%s E]" % cls
        for name, kind in d["params"]:
            binders += " (%s : %s)" % (name, self.lean_type(kind))
        rt = self.lean_type(d["ret"])
        head = "/-- `%s:%d-%d`  sha256 %s -/\ndef %s%s : %s :=" % (d["file"], d["line"], d["end_line"], d["sha256"][:16], d["lean"], binders, rt)
        if isinstance(body, tuple):
            return head + "\n  " + render(body) + "\n"
        if isinstance(body, GRef):
            return head + "\n  " + body.lean + "\n"
        if isinstance(body, Vec):
            if body.lean and " " in body.lean:
                return head + "\n  " + body.lean + "\n"
            lines = ["  | %d => %s" % (i, render(c)) for i, c in enumerate(body.comps)]
            return head + " fun i => match i with\n" + "\n".join(lines) + "\n"
        if isinstance(body, Mat):
            if body.lean and not body.lean.startswith("__"):
                return head + "\n  " + body.lean + "\n"
            lines = []
            for i, r in enumerate(body.rows):
                lines.append("  " + " ".join("| %d, %d => %s" % (i, j, render(c)) for j, c in enumerate(r)))
            return head + " fun i j => match i, j with\n" + "\n".join(lines) + "\n"
        raise AssertionError(body)

    def write(self, out):
        gen = os.path.join(out, "GraphSlam", "Generated")
        os.makedirs(gen, exist_ok=True)
        groups = ["Util", "PoseR2", "PoseR3", "PoseSE2", "PoseSE3", "Edges"]
        imports = {
            "Util": ["GraphSlam.Core.Scalar"],
            "PoseR2": ["GraphSlam.Generated.Util"],
            "PoseR3": ["GraphSlam.Generated.Util"],
            "PoseSE2": ["GraphSlam.Generated.PoseR2"],
            "PoseSE3": ["GraphSlam.Generated.PoseR3"],
            "Edges": ["GraphSlam.Generated.PoseSE2", "GraphSlam.Generated.PoseSE3"],
        }
        files = {}
        for g in groups:
            txt = "".join("import %s\n" % i for i in imports[g])
            txt += "\n/-! GENERATED by tools/translate/py2lean.py from /repo/graphslam — do not edit. -/\n\n"
            txt += "set_option maxRecDepth 4096\nset_option linter.unusedVariables false\n\nnamespace GraphSlam.Gen\nopen GraphSlam\n\n"
            for d in self.defs:
                if d["group"] == g:
                    txt += self.render_def(d) + "\n"
                    if d["doc_shape"] and d["ret"][0] == "mat":
                        txt += "/-- documented shape (docstring of `%s`) equals the shape of the returned array -/\ntheorem %s.shape_doc : ((%d, %d) : Nat × Nat) = (%d, %d) := rfl\n\n" % (d["py"].get("name"), d["lean"], d["doc_shape"][0], d["doc_shape"][1], d["ret"][1], d["ret"][2])
            txt += "end GraphSlam.Gen\n"
            files[os.path.join(gen, g + ".lean")] = txt
        files[os.path.join(gen, "Dispatch.lean")] = self.render_dispatch()
        # Layer-B decision expressions of graph.py (tools/translate/py2lean_graph.py); a stub when they cannot be located,
        # so that the tie theorems (Props/Tie/GraphPy.lean) stop building
        files[os.path.join(gen, "GraphPy.lean")] = getattr(self, "graph_txt", None) or (
            "import GraphSlam.Core.Scalar\n\n/-! GENERATED: graph.py snippets could NOT be located in the current source:\n%s -/\n" % str(getattr(self, "graph_error", "not translated")).replace("-/", "- /"))
        import py2lean_cmp as _PCM
        import py2lean_g2o as _PGO

        files[os.path.join(gen, "G2OPy.lean")] = getattr(self, "g2o_txt", None) or _PGO.stub(str(getattr(self, "g2o_error", "not translated")))

        files[os.path.join(gen, "CmpPy.lean")] = getattr(self, "cmp_txt", None) or _PCM.stub(str(getattr(self, "cmp_error", "not translated")))
        man = []
        for d in self.defs:
            m = {k: v for k, v in d.items() if k != "body"}
            man.append(m)
        man += getattr(self, "graph_man", [])
        man += getattr(self, "cmp_man", [])
        man += getattr(self, "g2o_man", [])
        files[os.path.join(out, "generated_manifest.json")] = json.dumps(dict(repo=self.repo, defs=man), indent=1, default=list) + "\n"
        changed = []
        for p, txt in files.items():
            old = open(p).read() if os.path.exists(p) else None
            if old != txt:
                with open(p, "w") as f:
                    f.write(txt)
                changed.append(os.path.relpath(p, out))
        return changed

    def render_dispatch(self):
        """Float evaluators: name -> (List Float -> Option (List Float))"""
        txt = "import GraphSlam.Generated.Edges\n\n/-! GENERATED by tools/translate/py2lean.py — Float evaluators of every generated definition, keyed by name. -/\n\n"
        txt += "set_option maxRecDepth 4096\n\nnamespace GraphSlam.Gen.Dispatch\nopen GraphSlam GraphSlam.Gen\n\n"
        txt += "def vecOf (n : Nat) (a : Array Float) (off : Nat) : Fin n → Float := fun i => a[off + i.val]!\n"
        txt += "def matOf (m n : Nat) (a : Array Float) (off : Nat) : Fin m → Fin n → Float := fun i j => a[off + i.val * n + j.val]!\n"
        txt += "def outVec {n : Nat} (v : Fin n → Float) : Array Float := Array.ofFn v\n"
        txt += "def outMat {m n : Nat} (v : Fin m → Fin n → Float) : Array Float := (Array.ofFn fun (i : Fin m) => Array.ofFn fun (j : Fin n) => v i j).flatten\n\n"
        txt += "/-- `eval name dims args`: `dims` instantiates the symbolic dimensions of generic definitions (else empty). -/\n"
        txt += "def eval (name : String) (dims : Array Nat) (a : Array Float) : Option (Array Float) :=\n  match name with\n"
        for d in self.defs:
            gd = sorted({x for _, k in d["params"] for x in k[1:] if isinstance(x, str) and k[0] in ("gvec", "gmat")})
            dimv = {g: "dims[%d]!" % i for i, g in enumerate(gd)}
            off = "0"
            args = []
            need = []
            for name, k in d["params"]:
                if k[0] == "scalar":
                    args.append("a[%s]!" % off)
                    off = "%s + 1" % off
                elif k[0] == "vec":
                    args.append("(vecOf %d a (%s))" % (k[1], off))
                    off = "%s + %d" % (off, k[1])
                elif k[0] == "mat":
                    args.append("(matOf %d %d a (%s))" % (k[1], k[2], off))
                    off = "%s + %d" % (off, k[1] * k[2])
                elif k[0] == "gvec":
                    args.append("(vecOf %s a (%s))" % (dimv[k[1]], off))
                    off = "%s + %s" % (off, dimv[k[1]])
                elif k[0] == "gmat":
                    args.append("(matOf %s %s a (%s))" % (dimv[k[1]], dimv[k[2]], off))
                    off = "%s + %s * %s" % (off, dimv[k[1]], dimv[k[2]])
            call = "%s (E := Float) %s" % (d["lean"], " ".join(args)) if args else "(%s (E := Float))" % d["lean"]
            r = d["ret"]
            if r[0] == "scalar":
                out = "#[%s]" % call
            elif r[0] in ("vec",) or (r[0] == "g" and len(r) == 2):
                out = "outVec (%s)" % call
            else:
                out = "outMat (%s)" % call
            txt += '  | "%s" => some (%s)\n' % (d["lean"], out)
        txt += "  | _ => none\n\n"
        txt += "def names : List String := [" + ", ".join('"%s"' % d["lean"] for d in self.defs) + "]\n\n"
        txt += "end GraphSlam.Gen.Dispatch\n"
        return txt


class GList:
    """`jacobians` inside the Hessian comprehension: indexable by the loop variables i and j only."""

    def __init__(self, by_name):
        self.by_name = by_name


class BaseEdgeCtx(Ctx):
    """Interpreter variant for base_edge.py: arrays have symbolic shapes; only np.dot/np.transpose are allowed."""

    def ev(self, n):
        if isinstance(n, ast.Call) and ast.unparse(n) == "self.calc_error()":
            return self.env["edge.calc_error()"]
        if isinstance(n, ast.Subscript) and isinstance(n.value, ast.Name) and isinstance(self.env.get(n.value.id), GList):
            if isinstance(n.slice, ast.Name) and n.slice.id in self.env[n.value.id].by_name:
                return self.env[n.value.id].by_name[n.slice.id]
            self.bad(n, "jacobians[...] index")
        return super().ev(n)


def main(argv):
    import argparse

    sys.path.insert(0, os.path.dirname(os.path.abspath(__file__)))

    ap = argparse.ArgumentParser()
    ap.add_argument("--repo", default=os.environ.get("VERIF_REPO", "/repo"))
    ap.add_argument("--out", default=os.path.join(os.path.dirname(os.path.abspath(__file__)), "..", "..", "lean"))
    a = ap.parse_args(argv)
    tr = Translator(a.repo)
    try:
        tr.translate_util()
        for c in ("PoseR2", "PoseR3", "PoseSE2", "PoseSE3"):
            tr.translate_pose_class(c)
        tr.translate_edges()
    except Untranslatable as e:
        print(json.dumps(dict(status="untranslatable", file=e.file, line=e.line, reason=e.reason)))
        return 3
    except (KeyError, SyntaxError, FileNotFoundError, IndexError, AttributeError, TypeError) as e:
        print(json.dumps(dict(status="untranslatable", file="?", line=0, reason="%s: %s" % (type(e).__name__, e))))
        return 3
    import py2lean_graph as PG

    graph = dict(status="ok")
    try:
        tr.graph_txt, tr.graph_man = PG.translate(open(os.path.join(a.repo, "graphslam", "graph.py")).read(), open(os.path.join(a.repo, "graphslam", "edge", "base_edge.py")).read(), {r: open(os.path.join(a.repo, "graphslam", "edge", r)).read() for r in ("edge_odometry.py", "edge_landmark.py")})
        graph["defs"] = len(tr.graph_man)
    except PG.Untranslatable as e:
        tr.graph_error = str(e)
        graph = dict(status="untranslatable", file=e.file, line=e.line, reason=e.reason)
    except (KeyError, SyntaxError, FileNotFoundError, IndexError, AttributeError, TypeError, ValueError) as e:
        tr.graph_error = "%s: %s" % (type(e).__name__, e)
        graph = dict(status="untranslatable", file="graphslam/graph.py", line=0, reason=tr.graph_error)
    import py2lean_cmp as PCM

    cmp_ = dict(status="ok")
    try:
        tr.cmp_txt, tr.cmp_man = PCM.translate(a.repo)
        cmp_["defs"] = len(tr.cmp_man)
    except PCM.Untranslatable as e:
        tr.cmp_error = str(e)
        cmp_ = dict(status="untranslatable", file=getattr(e, "file", "?"), line=getattr(e, "line", 0), reason=getattr(e, "reason", str(e)))
    except (KeyError, SyntaxError, FileNotFoundError, IndexError, AttributeError, TypeError, ValueError) as e:
        tr.cmp_error = "%s: %s" % (type(e).__name__, e)
        cmp_ = dict(status="untranslatable", file="?", line=0, reason=tr.cmp_error)
    import py2lean_g2o as PGO

    g2o_ = dict(status="ok")
    try:
        tr.g2o_txt, tr.g2o_man = PGO.translate(a.repo)
        g2o_["defs"] = len(tr.g2o_man)
    except PGO.Untranslatable as e:
        tr.g2o_error = str(e)
        g2o_ = dict(status="untranslatable", file=getattr(e, "file", "?"), line=getattr(e, "line", 0), reason=getattr(e, "reason", str(e)))
    except (KeyError, SyntaxError, FileNotFoundError, IndexError, AttributeError, TypeError, ValueError) as e:
        tr.g2o_error = "%s: %s" % (type(e).__name__, e)
        g2o_ = dict(status="untranslatable", file="?", line=0, reason=tr.g2o_error)
    changed = tr.write(os.path.abspath(a.out))
    print(json.dumps(dict(status="ok", defs=len(tr.defs) + len(getattr(tr, "graph_man", [])) + len(getattr(tr, "cmp_man", [])) + len(getattr(tr, "g2o_man", [])), changed=changed, graph=graph, cmp=cmp_, g2o=g2o_)))
    return 0


if __name__ == "__main__":
    sys.exit(main(sys.argv[1:]))
