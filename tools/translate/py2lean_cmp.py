"""Guard sequences of the `equals` / `is_valid` methods regenerated from the source on every run (C17 / C18).

The comparison and validity code of python-graphslam is a handful of short methods that consist of early returns:

    graphslam/pose/base_pose.py      BasePose.equals
    graphslam/vertex.py              Vertex.equals
    graphslam/edge/base_edge.py      BaseEdge.equals, BaseEdge._is_valid
    graphslam/edge/edge_landmark.py  EdgeLandmark.equals, EdgeLandmark.is_valid
    graphslam/edge/edge_odometry.py  EdgeOdometry.is_valid
    graphslam/graph.py               Graph.equals, Graph.__init__, the assert of Graph._initialize

Their hand-written Lean models (`Model/Equals.lean`, `Model/Validity.lean`) are tied to the code by correspondence (sampled).
This module adds a kernel-checked tie: it reads each method from the AST of the current source and writes the SEQUENCE of its
statements

    if <cond>: return <value>          ->  Step.ifRet <cond> <value>
    return <value>                     ->  Step.ret <value>
    for a, b in zip(X, Y):             ->  Step.ifRet (any(<cond> for a, b in zip(X, Y))) <value>
        if <cond>: return <value>

as a Lean list (`GraphSlam/Generated/CmpPy.lean`, namespace `GraphSlam.Gen.CmpPy`).  Conditions and returned values become terms
over a record of observable facts (`GraphSlam/Model/CmpFacts.lean`, hand-written and source-independent): every ATOMIC
sub-expression the model knows (`type(self) is type(other)`, `len(self.vertex_ids)`, `np.linalg.norm(self.information -
other.information)`, `isinstance(self.estimate, type(self.vertices[0].pose))`, ...) is a field; everything else stays visible in the
generated term: the comparison operator (`<`, `>=`, `!=`, ...), the `and` / `or` / `not` / `^` structure with Python's
short-circuit order, `any` / `all`, which atom stands where (`self` or `other` in the scale of the relative norm, which vertex's
pose class an `isinstance` test uses, whose `COMPACT_DIMENSIONALITY` the information shape is compared with), the order of the
guards and what each returns.  `GraphSlam/Props/Tie/CmpPy.lean` proves `model function = run <facts> <generated steps>`.

A sub-expression that is not a known atom and not one of the supported connectives stops the translation (`Untranslatable`);
./check treats that as a broken tie.  Structural guards stop the translation as well: the signatures `(self, other, tol=1e-6)` /
`(self)`, no decorators, no statement besides the early returns (a rebinding of `other` / `tol`, a cache, an `else` branch), which
classes define `equals` / `is_valid` / `_is_valid` (EdgeOdometry inherits `equals`, no pose class overrides it, the four pose
classes and the two edge classes are direct subclasses of BasePose / BaseEdge), `Graph.__init__` only stores its two arguments and
ends with `self._initialize()`, `_initialize` binds every edge unconditionally immediately before its final `assert`.

Entry points: `translate(repo_path) -> (lean_text, manifest_entries)`; `stub(reason)` is the text to write when the translation
stops (the tie theorems then fail to build); `python py2lean_cmp.py --repo /repo --out <lean project>` writes the file.
"""
import ast
import hashlib
import json
import os
import re
import sys


class Untranslatable(Exception):
    def __init__(self, file, line, reason):
        super().__init__("%s:%s: %s" % (file, line, reason))
        self.file, self.line, self.reason = file, line, reason


# ---------------------------------------------------------------------------------------------------------------- atoms
# type tags of translated terms:
#   bool   pure Bool                rbool   Res Bool (evaluation may raise)
#   scalar E                        rscalar Res E
#   int    Int      nat  Nat        shape   List Nat        optint  Option Int
def _norms(qty, field):
    s, o = "self.%s" % qty, "other.%s" % qty
    return {
        "np.linalg.norm(%s - %s)" % (s, o): ("f.%s.selfMinusOther" % field, "rscalar"),
        "np.linalg.norm(%s - %s)" % (o, s): ("f.%s.otherMinusSelf" % field, "rscalar"),
        "np.linalg.norm(%s)" % s: ("f.%s.self" % field, "scalar"),
        "np.linalg.norm(%s)" % o: ("f.%s.other" % field, "scalar"),
    }


METHODS = [
    dict(
        key="BasePose_equals", file="graphslam/pose/base_pose.py", cls="BasePose", method="equals", kind="equals",
        facts="PoseEqFacts E", binders="{E : Type} [CmpScalar E]",
        env=dict({"type(self) is type(other)": ("f.sameType", "bool"), "tol": ("f.tol", "scalar")}, **_norms("to_array()", "arr")),
    ),
    dict(
        key="Vertex_equals", file="graphslam/vertex.py", cls="Vertex", method="equals", kind="equals",
        facts="VertexEqFacts", binders="",
        env={
            "self.id": ("f.idSelf", "int"),
            "other.id": ("f.idOther", "int"),
            "type(self.pose) is type(other.pose)": ("f.poseSameType", "bool"),
            "self.pose.equals(other.pose, tol)": ("f.poseEquals", "rbool"),
        },
    ),
    dict(
        key="BaseEdge_equals", file="graphslam/edge/base_edge.py", cls="BaseEdge", method="equals", kind="equals",
        facts="EdgeEqFacts E", binders="{E : Type} [CmpScalar E]",
        env=dict(
            {
                "type(self) is type(other)": ("f.sameType", "bool"),
                "tol": ("f.tol", "scalar"),
                "len(self.vertex_ids)": ("f.idsSelf.length", "nat"),
                "len(other.vertex_ids)": ("f.idsOther.length", "nat"),
                "self.information.shape": ("f.infoShapeSelf", "shape"),
                "other.information.shape": ("f.infoShapeOther", "shape"),
                "isinstance(self.estimate, BasePose)": ("f.estSelfIsPose", "bool"),
                "isinstance(other.estimate, BasePose)": ("f.estOtherIsPose", "bool"),
                "self.estimate.equals(other.estimate, tol)": ("f.estPoseEquals", "rbool"),
                "np.shape(self.estimate)": ("f.estShapeSelf", "shape"),
                "np.shape(other.estimate)": ("f.estShapeOther", "shape"),
            },
            **dict(_norms("information", "info"), **_norms("estimate", "est"))
        ),
        # iterables of a `zip`: python text -> (Lean list, {suffix after the loop variable: type of the element expression})
        zips={"self.vertex_ids": ("f.idsSelf", {"": "int"}), "other.vertex_ids": ("f.idsOther", {"": "int"})},
    ),
    dict(
        key="EdgeLandmark_equals", file="graphslam/edge/edge_landmark.py", cls="EdgeLandmark", method="equals", kind="equals",
        facts="LandmarkEqFacts", binders="",
        env={
            "type(self) is type(other)": ("f.sameType", "bool"),
            "type(self.offset) is type(other.offset)": ("f.offsetSameType", "bool"),
            "self.offset.equals(other.offset, tol)": ("f.offsetEquals", "rbool"),
            "self.offset_id": ("f.offsetIdSelf", "optint"),
            "other.offset_id": ("f.offsetIdOther", "optint"),
            "BaseEdge.equals(self, other, tol)": ("f.baseEquals", "rbool"),
            "super().equals(other, tol)": ("f.baseEquals", "rbool"),
        },
    ),
    dict(
        key="Graph_equals", file="graphslam/graph.py", cls="Graph", method="equals", kind="equals",
        facts="GraphEqFacts", binders="",
        env={
            "len(self._edges)": ("f.numEdgesSelf", "nat"),
            "len(other._edges)": ("f.numEdgesOther", "nat"),
            "len(self._vertices)": ("f.numVerticesSelf", "nat"),
            "len(other._vertices)": ("f.numVerticesOther", "nat"),
        },
        # `all(a.equals(b, tol) for a, b in zip(X, Y))`: (X, Y) -> Lean list of results
        zipcalls={("self._edges", "other._edges"): "f.edgesSelfOther", ("self._vertices", "other._vertices"): "f.verticesSelfOther"},
    ),
    dict(
        key="BaseEdge_is_valid_base", file="graphslam/edge/base_edge.py", cls="BaseEdge", method="_is_valid", kind="valid",
        facts="BaseValidFacts", binders="",
        env={
            "self.vertices is None": ("f.verticesIsNone", "bool"),
            "len(self.vertices)": ("f.numVertices", "nat"),
            "len(self.vertex_ids)": ("f.numVertexIds", "nat"),
        },
        zips={"self.vertices": ("f.boundIds", {".id": "int"}), "self.vertex_ids": ("f.vertexIds", {"": "int"})},
    ),
    dict(
        key="EdgeOdometry_is_valid", file="graphslam/edge/edge_odometry.py", cls="EdgeOdometry", method="is_valid", kind="valid",
        facts="EdgeValidFacts", binders="", typed=True,
        env={"self._is_valid()": ("f.baseValid", "bool"), "len(self.vertices)": ("f.numVertices", "nat"), "self.information.shape": ("f.infoShape", "shape")},
    ),
    dict(
        key="EdgeLandmark_is_valid", file="graphslam/edge/edge_landmark.py", cls="EdgeLandmark", method="is_valid", kind="valid",
        facts="EdgeValidFacts", binders="", typed=True,
        env={"self._is_valid()": ("f.baseValid", "bool"), "len(self.vertices)": ("f.numVertices", "nat"), "self.information.shape": ("f.infoShape", "shape")},
    ),
]

_VPOSE = re.compile(r"self\.vertices\[(\d+)\]\.pose")
_VTYPE = re.compile(r"type\(self\.vertices\[(\d+)\]\.pose\)")
_OBJS = {"self.estimate": "ObjRef.estimate", "self.offset": "ObjRef.offset"}


class _Subst(ast.NodeTransformer):
    """replace local alias names (`pose_type`, `n`, ...) by the expressions they were assigned"""

    def __init__(self, aliases):
        self.aliases = aliases

    def visit_Name(self, node):
        if isinstance(node.ctx, ast.Load) and node.id in self.aliases:
            return self.aliases[node.id]
        return node


class _Tr:
    """expression translator of one method"""

    def __init__(self, spec):
        self.spec = spec
        self.rel = spec["file"]
        self.env = spec["env"]
        self.zips = spec.get("zips", {})
        self.zipcalls = spec.get("zipcalls", {})
        self.typed = spec.get("typed", False)
        self.aliases = {}
        self.local = {}  # element expressions inside a generator: text -> (lean, type)
        self.nvar = 0

    def bad(self, n, why):
        raise Untranslatable(self.rel, getattr(n, "lineno", 0), "%s: `%s`" % (why, ast.unparse(n)))

    def subst(self, n):
        import copy

        return ast.fix_missing_locations(_Subst(self.aliases).visit(copy.deepcopy(n))) if self.aliases else n

    # ---- atoms
    def atom(self, n):
        """-> (lean term, type) or None"""
        s = ast.unparse(n)
        if s in self.local:
            return self.local[s]
        if s in self.env:
            return self.env[s]
        if self.typed:
            # isinstance(<obj>, type(self.vertices[i].pose))
            if isinstance(n, ast.Call) and ast.unparse(n.func) == "isinstance" and len(n.args) == 2 and not n.keywords:
                o, t = ast.unparse(n.args[0]), ast.unparse(n.args[1])
                mt = _VTYPE.fullmatch(t)
                mo = _VPOSE.fullmatch(o)
                if mt and (mo or o in _OBJS):
                    obj = "ObjRef.vertexPose %s" % mo.group(1) if mo else _OBJS[o]
                    return ("f.isInst (%s) %s" % (obj, mt.group(1)), "bool")
            # type(self.vertices[i].pose).COMPACT_DIMENSIONALITY   (or through the instance: the constant is a class attribute)
            if isinstance(n, ast.Attribute) and n.attr == "COMPACT_DIMENSIONALITY":
                t = ast.unparse(n.value)
                m = _VTYPE.fullmatch(t) or _VPOSE.fullmatch(t)
                if m:
                    return ("f.compactDim %s" % m.group(1), "nat")
        return None

    # ---- values
    def val(self, n):
        """-> (lean term, type, binds); binds = [(variable, Res-valued lean term)] in evaluation order"""
        a = self.atom(n)
        if a is not None:
            t, ty = a
            if ty == "rscalar":
                v = "x%d" % self.nvar
                self.nvar += 1
                return v, "scalar", [(v, t)]
            if ty == "rbool":
                self.bad(n, "a call that may raise cannot be an operand of a comparison")
            return t, ty, []
        if isinstance(n, ast.Constant) and isinstance(n.value, int) and not isinstance(n.value, bool) and n.value >= 0:
            return str(n.value), "nat", []
        if isinstance(n, ast.Tuple):
            parts = [self.val(e) for e in n.elts]
            if any(p[1] != "nat" or p[2] for p in parts):
                self.bad(n, "a tuple that is not a shape of known sizes")
            return "[%s]" % ", ".join(p[0] for p in parts), "shape", []
        if isinstance(n, ast.BinOp) and isinstance(n.op, (ast.Div, ast.Add, ast.Sub, ast.Mult)):
            a, ta, ba = self.val(n.left)
            b, tb, bb = self.val(n.right)
            if ta != "scalar" or tb != "scalar":
                self.bad(n, "arithmetic on operands that are not known float quantities")
            fmt = {ast.Div: "(CmpScalar.div %s %s)", ast.Add: "(%s + %s)", ast.Sub: "(%s - %s)", ast.Mult: "(%s * %s)"}[type(n.op)]
            return fmt % (a, b), "scalar", ba + bb
        if isinstance(n, ast.Call) and ast.unparse(n.func) == "max" and len(n.args) == 2 and not n.keywords:
            a, ta, ba = self.val(n.args[0])
            b, tb, bb = self.val(n.args[1])
            if ta != "scalar" or tb != "scalar":
                self.bad(n, "max of operands that are not known float quantities")
            return "(pyMax %s %s)" % (a, b), "scalar", ba + bb
        self.bad(n, "unknown operand (not an observable fact of the model)")

    # ---- pure Bool (inside generators)
    def pure_bool(self, n):
        if isinstance(n, ast.BoolOp):
            return "(" + (" && " if isinstance(n.op, ast.And) else " || ").join(self.pure_bool(v) for v in n.values) + ")"
        if isinstance(n, ast.UnaryOp) and isinstance(n.op, ast.Not):
            return "(!%s)" % self.pure_bool(n.operand)
        if isinstance(n, ast.Compare) and len(n.ops) == 1:
            t, binds = self.compare(n)
            if binds:
                self.bad(n, "a comparison that may raise inside a generator")
            return t
        a = self.atom(n)
        if a is not None and a[1] == "bool":
            return a[0]
        self.bad(n, "unsupported condition inside a generator")

    def compare(self, n):
        """single comparison -> (pure Bool lean term over the bound variables, binds)"""
        op, l, r = n.ops[0], n.left, n.comparators[0]
        if isinstance(op, (ast.Is, ast.IsNot)):
            neg = isinstance(op, ast.IsNot)
            if isinstance(r, ast.Constant) and r.value is None:
                a = self.atom(ast.parse(ast.unparse(l) + " is None", mode="eval").body) if not isinstance(l, ast.Constant) else None
                if a is not None and a[1] == "bool":
                    t = a[0]
                else:
                    a = self.atom(l)
                    if a is None or a[1] != "optint":
                        self.bad(n, "`is None` test of something the model does not know as optional")
                    t = "%s.isNone" % a[0]
            else:
                a = self.env.get("%s is %s" % (ast.unparse(l), ast.unparse(r)))
                if a is None or a[1] != "bool":
                    self.bad(n, "identity test that is not a known observable fact")
                t = a[0]
            return ("(!%s)" % t if neg else t), []
        a, ta, ba = self.val(l)
        b, tb, bb = self.val(r)
        if ta != tb:
            self.bad(n, "comparison of a %s with a %s" % (ta, tb))
        binds = ba + bb
        if isinstance(op, (ast.Eq, ast.NotEq)):
            if ta not in ("int", "nat", "shape", "optint"):
                self.bad(n, "`==` / `!=` on %s operands" % ta)
            return "(%s %s %s)" % (a, "==" if isinstance(op, ast.Eq) else "!=", b), binds
        if ta == "scalar":
            # CmpScalar has Python's `<` (lt) and `>=` (ge); `a > b` is `b < a`, `a <= b` is `b >= a` (also at NaN)
            table = {ast.Lt: "(CmpScalar.lt %s %s)" % (a, b), ast.Gt: "(CmpScalar.lt %s %s)" % (b, a), ast.GtE: "(CmpScalar.ge %s %s)" % (a, b), ast.LtE: "(CmpScalar.ge %s %s)" % (b, a)}
        elif ta in ("nat", "int"):
            table = {ast.Lt: "(decide (%s < %s))" % (a, b), ast.Gt: "(decide (%s > %s))" % (a, b), ast.GtE: "(decide (%s ≥ %s))" % (a, b), ast.LtE: "(decide (%s ≤ %s))" % (a, b)}
        else:
            table = {}
        if type(op) not in table:
            self.bad(n, "unsupported comparison operator for %s operands" % ta)
        return table[type(op)], binds

    # ---- generators
    def _gen(self, n):
        """all(...) / any(...) over a two-variable zip -> Res Bool lean term, or None"""
        if not (isinstance(n, ast.Call) and isinstance(n.func, ast.Name) and n.func.id in ("all", "any") and len(n.args) == 1 and not n.keywords and isinstance(n.args[0], ast.GeneratorExp)):
            return None
        g = n.args[0]
        if len(g.generators) != 1 or g.generators[0].ifs or g.generators[0].is_async:
            self.bad(n, "generator with filters / several loops")
        c = g.generators[0]
        return self._zip_quantifier(n, n.func.id, c.target, c.iter, g.elt)

    def _zip_quantifier(self, n, quant, target, it, elt):
        if not (isinstance(it, ast.Call) and ast.unparse(it.func) == "zip" and len(it.args) == 2 and not it.keywords and isinstance(target, ast.Tuple) and len(target.elts) == 2 and all(isinstance(e, ast.Name) for e in target.elts)):
            self.bad(n, "loop that is not `for a, b in zip(X, Y)`")
        n1, n2 = target.elts[0].id, target.elts[1].id
        X, Y = ast.unparse(it.args[0]), ast.unparse(it.args[1])
        # all(a.equals(b, tol) for a, b in zip(X, Y))
        if (X, Y) in self.zipcalls:
            if ast.unparse(elt) != "%s.equals(%s, tol)" % (n1, n2):
                self.bad(elt, "element comparison is no longer `%s.equals(%s, tol)`" % (n1, n2))
            return "(%s %s)" % ("rAll" if quant == "all" else "rAny", self.zipcalls[(X, Y)])
        if X not in self.zips or Y not in self.zips:
            self.bad(it, "zip over lists the model does not know, or in another order")
        (lx, ex), (ly, ey) = self.zips[X], self.zips[Y]
        saved = self.local
        self.local = dict(saved)
        for suf, ty in ex.items():
            self.local[n1 + suf] = ("p.1", ty)
        for suf, ty in ey.items():
            self.local[n2 + suf] = ("p.2", ty)
        try:
            body = self.pure_bool(elt)
        finally:
            self.local = saved
        return "(pure ((List.zip %s %s).%s (fun p => %s)))" % (lx, ly, quant, body)

    # ---- conditions / returned values: Res Bool
    def cond(self, n):
        if isinstance(n, ast.BoolOp):
            parts = [self.cond(v) for v in n.values]
            f = "pAnd" if isinstance(n.op, ast.And) else "pOr"
            t = parts[-1]
            for p in reversed(parts[:-1]):
                t = "(%s %s %s)" % (f, p, t)
            return t
        if isinstance(n, ast.UnaryOp) and isinstance(n.op, ast.Not):
            return "(pNot %s)" % self.cond(n.operand)
        if isinstance(n, ast.BinOp) and isinstance(n.op, ast.BitXor):
            return "(pXor %s %s)" % (self.cond(n.left), self.cond(n.right))
        if isinstance(n, ast.Constant) and isinstance(n.value, bool):
            return "(pure %s)" % ("true" if n.value else "false")
        if isinstance(n, ast.Compare):
            if len(n.ops) != 1:
                self.bad(n, "chained comparison")
            self.nvar = 0
            t, binds = self.compare(n)
            t = "pure %s" % t
            for v, r in reversed(binds):
                t = "%s.bind fun %s => %s" % (r, v, t)
            return "(%s)" % t
        g = self._gen(n)
        if g is not None:
            return g
        a = self.atom(n)
        if a is not None:
            if a[1] == "bool":
                return "(pure %s)" % (("(%s)" % a[0]) if " " in a[0] else a[0])
            if a[1] == "rbool":
                return a[0]
        self.bad(n, "unsupported condition (not an observable fact of the model, not a supported connective)")


def _strip_doc(body):
    if body and isinstance(body[0], ast.Expr) and isinstance(body[0].value, ast.Constant) and isinstance(body[0].value.value, str):
        return body[1:]
    return body


def _find_class(tree, name, rel):
    for n in tree.body:
        if isinstance(n, ast.ClassDef) and n.name == name:
            return n
    raise Untranslatable(rel, 0, "cannot locate class %s" % name)


def _find_method(cls, name, rel, required=True):
    found = [n for n in cls.body if isinstance(n, (ast.FunctionDef, ast.AsyncFunctionDef)) and n.name == name]
    if len(found) > 1:
        raise Untranslatable(rel, found[1].lineno, "%s.%s is defined more than once" % (cls.name, name))
    if not found:
        if required:
            raise Untranslatable(rel, cls.lineno, "cannot locate %s.%s" % (cls.name, name))
        return None
    # a class-level assignment `equals = ...` would replace the method
    for n in cls.body:
        if isinstance(n, (ast.Assign, ast.AnnAssign)):
            tg = n.targets if isinstance(n, ast.Assign) else [n.target]
            if any(ast.unparse(t) == name for t in tg):
                raise Untranslatable(rel, n.lineno, "%s.%s is rebound by a class-level assignment" % (cls.name, name))
    return found[0]


def _check_signature(fn, cls, kind, rel):
    a = fn.args
    names = [x.arg for x in a.args]
    if not isinstance(fn, ast.FunctionDef) or fn.decorator_list:
        raise Untranslatable(rel, fn.lineno, "%s.%s has a decorator / is async" % (cls, fn.name))
    if a.vararg or a.kwarg or a.kwonlyargs or a.posonlyargs:
        raise Untranslatable(rel, fn.lineno, "%s.%s has a changed signature" % (cls, fn.name))
    if kind == "equals":
        ok = names == ["self", "other", "tol"] and len(a.defaults) == 1 and isinstance(a.defaults[0], ast.Constant) and a.defaults[0].value == 1e-6 and isinstance(a.defaults[0].value, float)
        if not ok:
            raise Untranslatable(rel, fn.lineno, "%s.%s is no longer `(self, other, tol=1e-6)`" % (cls, fn.name))
    else:
        if names != ["self"] or a.defaults:
            raise Untranslatable(rel, fn.lineno, "%s.%s is no longer `(self)`" % (cls, fn.name))


def _steps(fn, spec):
    """-> [dict(kind='ifRet'|'ret', cond=lean|None, ret=lean, node=stmt)]"""
    tr = _Tr(spec)
    rel = spec["file"]
    body = _strip_doc(fn.body)
    steps = []
    done = False
    for st in body:
        if done:
            raise Untranslatable(rel, st.lineno, "statement after the final `return`")
        if isinstance(st, ast.Return):
            if st.value is None:
                raise Untranslatable(rel, st.lineno, "bare `return`")
            steps.append(dict(kind="ret", cond=None, ret=tr.cond(tr.subst(st.value)), node=st))
            done = True
        elif isinstance(st, ast.If):
            if st.orelse or len(st.body) != 1 or not isinstance(st.body[0], ast.Return) or st.body[0].value is None:
                raise Untranslatable(rel, st.lineno, "an `if` that is not `if <cond>: return <value>`")
            steps.append(dict(kind="ifRet", cond=tr.cond(tr.subst(st.test)), ret=tr.cond(tr.subst(st.body[0].value)), node=st))
        elif isinstance(st, ast.For):
            # for a, b in zip(X, Y): if <cond>: return <value>      ==  if any(<cond> for a, b in zip(X, Y)): return <value>
            inner = st.body
            if st.orelse or len(inner) != 1 or not isinstance(inner[0], ast.If) or inner[0].orelse or len(inner[0].body) != 1 or not isinstance(inner[0].body[0], ast.Return) or inner[0].body[0].value is None:
                raise Untranslatable(rel, st.lineno, "a loop that is not `for a, b in zip(X, Y): if <cond>: return <value>`")
            c = tr._zip_quantifier(st, "any", st.target, tr.subst(st.iter), tr.subst(inner[0].test))
            steps.append(dict(kind="ifRet", cond=c, ret=tr.cond(tr.subst(inner[0].body[0].value)), node=st))
        elif spec.get("typed") and isinstance(st, ast.Assign) and len(st.targets) == 1 and isinstance(st.targets[0], ast.Name):
            # local alias of a class / of its COMPACT_DIMENSIONALITY
            v = tr.subst(st.value)
            s = ast.unparse(v)
            is_type = _VTYPE.fullmatch(s) is not None
            is_dim = tr.atom(v) is not None and tr.atom(v)[1] == "nat"
            if not (is_type or is_dim):
                raise Untranslatable(rel, st.lineno, "assignment the model does not account for: `%s`" % ast.unparse(st))
            tr.aliases[st.targets[0].id] = v
        else:
            raise Untranslatable(rel, st.lineno, "statement the model does not account for: `%s`" % ast.unparse(st).splitlines()[0])
    if not done:
        raise Untranslatable(rel, fn.lineno, "%s.%s can fall off the end (returns None)" % (spec["cls"], fn.name))
    return steps


def _src(repo, rel):
    p = os.path.join(repo, rel)
    try:
        txt = open(p).read()
    except OSError as e:
        raise Untranslatable(rel, 0, "cannot read: %s" % e)
    try:
        return ast.parse(txt)
    except SyntaxError as e:
        raise Untranslatable(rel, e.lineno or 0, "syntax error: %s" % e.msg)


def _base_names(cls):
    return [ast.unparse(b) for b in cls.bases]


def translate(repo_path):
    """-> (lean text, [manifest entries]); raises Untranslatable"""
    trees = {}

    def tree(rel):
        if rel not in trees:
            trees[rel] = _src(repo_path, rel)
        return trees[rel]

    defs = []  # dict(lean, binders, typ, body, node, file)

    def emit(name, binders, typ, body, node, rel, py=None):
        defs.append(dict(lean="CmpPy." + name, binders=binders, typ=typ, body=body, py=py or ast.unparse(node), line=node.lineno, end_line=getattr(node, "end_lineno", node.lineno), file=rel))

    # ---------------------------------------------------------------- the eight methods
    for spec in METHODS:
        rel = spec["file"]
        cls = _find_class(tree(rel), spec["cls"], rel)
        fn = _find_method(cls, spec["method"], rel)
        _check_signature(fn, spec["cls"], spec["kind"], rel)
        steps = _steps(fn, spec)
        items = []
        b = ("%s (f : %s)" % (spec["binders"], spec["facts"])).strip()
        for i, s in enumerate(steps):
            if s["kind"] == "ifRet":
                emit("%s_cond_%d" % (spec["key"], i), b, "Res Bool", s["cond"], s["node"], rel)
                rnode = s["node"].body[0] if isinstance(s["node"], ast.If) else s["node"].body[0].body[0]
                emit("%s_ret_%d" % (spec["key"], i), b, "Res Bool", s["ret"], rnode, rel)
                items.append(".ifRet CmpPy.%s_cond_%d CmpPy.%s_ret_%d" % (spec["key"], i, spec["key"], i))
            else:
                emit("%s_ret_%d" % (spec["key"], i), b, "Res Bool", s["ret"], s["node"], rel)
                items.append(".ret CmpPy.%s_ret_%d" % (spec["key"], i))
        emit(spec["key"], spec["binders"], "List (Step (%s))" % spec["facts"], "[" + ",\n   ".join(items) + "]", fn, rel,
             py="def %s.%s: %d statements" % (spec["cls"], spec["method"], len(steps)) + "\n" + "\n".join(ast.unparse(s["node"]) for s in steps))

    # ---------------------------------------------------------------- which classes override what (method resolution of the model)
    rel_o, rel_l = "graphslam/edge/edge_odometry.py", "graphslam/edge/edge_landmark.py"
    odo = _find_class(tree(rel_o), "EdgeOdometry", rel_o)
    lmk = _find_class(tree(rel_l), "EdgeLandmark", rel_l)
    if _base_names(odo) != ["BaseEdge"] or _base_names(lmk) != ["BaseEdge"]:
        raise Untranslatable(rel_o, odo.lineno, "EdgeOdometry / EdgeLandmark are no longer direct subclasses of BaseEdge")
    for name in ("equals", "_is_valid"):
        if _find_method(odo, name, rel_o, required=False) is not None:
            raise Untranslatable(rel_o, odo.lineno, "EdgeOdometry now overrides `%s` (the model lets it inherit BaseEdge's)" % name)
    if _find_method(lmk, "_is_valid", rel_l, required=False) is not None:
        raise Untranslatable(rel_l, lmk.lineno, "EdgeLandmark now overrides `_is_valid`")
    for mod, cname in (("r2", "PoseR2"), ("r3", "PoseR3"), ("se2", "PoseSE2"), ("se3", "PoseSE3")):
        rel_p = "graphslam/pose/%s.py" % mod
        pc = _find_class(tree(rel_p), cname, rel_p)
        if _base_names(pc) != ["BasePose"]:
            raise Untranslatable(rel_p, pc.lineno, "%s is no longer a direct subclass of BasePose (the model treats the four pose classes as unrelated)" % cname)
        if _find_method(pc, "equals", rel_p, required=False) is not None:
            raise Untranslatable(rel_p, pc.lineno, "%s now overrides `equals`" % cname)
    rel_b = "graphslam/pose/base_pose.py"
    if _base_names(_find_class(tree(rel_b), "BasePose", rel_b)) != ["np.ndarray"]:
        raise Untranslatable(rel_b, 0, "BasePose is no longer a direct subclass of np.ndarray")

    # ---------------------------------------------------------------- Graph.__init__ and the assert of Graph._initialize
    rel_g = "graphslam/graph.py"
    g = _find_class(tree(rel_g), "Graph", rel_g)
    init = _find_method(g, "__init__", rel_g)
    if [x.arg for x in init.args.args] != ["self", "edges", "vertices"] or init.args.defaults or init.args.vararg or init.args.kwarg or init.args.kwonlyargs or init.decorator_list:
        raise Untranslatable(rel_g, init.lineno, "Graph.__init__ is no longer `(self, edges, vertices)`")
    ib = _strip_doc(init.body)
    assigns = {}
    for st in ib[:-1]:
        if not (isinstance(st, ast.Assign) and len(st.targets) == 1 and re.fullmatch(r"self\._\w+", ast.unparse(st.targets[0]))):
            raise Untranslatable(rel_g, st.lineno, "Graph.__init__ does something besides storing attributes: `%s`" % ast.unparse(st))
        v = ast.unparse(st.value)
        if v not in ("edges", "vertices", "None", "set()"):
            raise Untranslatable(rel_g, st.lineno, "Graph.__init__ stores a derived value: `%s`" % ast.unparse(st))
        assigns[ast.unparse(st.targets[0])] = v
    if assigns.get("self._edges") != "edges" or assigns.get("self._vertices") != "vertices":
        raise Untranslatable(rel_g, init.lineno, "Graph.__init__ no longer stores the two lists as given (`self._edges = edges`, `self._vertices = vertices`)")
    if not ib or ast.unparse(ib[-1]) != "self._initialize()":
        raise Untranslatable(rel_g, init.lineno, "Graph.__init__ no longer ends with `self._initialize()`")
    ini = _find_method(g, "_initialize", rel_g)
    nb = _strip_doc(ini.body)
    asserts = [s for s in nb if isinstance(s, ast.Assert)]
    if len(asserts) != 1 or nb[-1] is not asserts[0]:
        raise Untranslatable(rel_g, ini.lineno, "Graph._initialize no longer ends with exactly one `assert`")
    a = asserts[0]
    bind_loops = [s for s in nb if isinstance(s, ast.For) and ast.unparse(s.iter) == "self._edges"]
    if len(bind_loops) != 1 or nb.index(bind_loops[0]) != nb.index(a) - 1:
        raise Untranslatable(rel_g, ini.lineno, "Graph._initialize no longer has exactly one loop over self._edges, immediately before the assert")
    bl = bind_loops[0]
    if bl.orelse or [ast.unparse(x) for x in bl.body] != ["%s.vertices = [self._vertices[id_index_dict[v_id]] for v_id in %s.vertex_ids]" % ((ast.unparse(bl.target),) * 2)]:
        raise Untranslatable(rel_g, bl.lineno, "the binding loop no longer binds every edge, unconditionally, through id_index_dict for every vertex id")
    t = a.test
    ok = isinstance(t, ast.Call) and isinstance(t.func, ast.Name) and t.func.id in ("all", "any") and len(t.args) == 1 and not t.keywords and isinstance(t.args[0], ast.GeneratorExp)
    if ok:
        ge = t.args[0]
        ok = len(ge.generators) == 1 and not ge.generators[0].ifs and isinstance(ge.generators[0].target, ast.Name) and ast.unparse(ge.generators[0].iter) == "self._edges"
    if not ok:
        raise Untranslatable(rel_g, a.lineno, "the assert is no longer a quantifier over `self._edges`: `%s`" % ast.unparse(t))
    var = ge.generators[0].target.id
    elt = ge.elt
    neg = False
    if isinstance(elt, ast.UnaryOp) and isinstance(elt.op, ast.Not):
        neg, elt = True, elt.operand
    if ast.unparse(elt) != "%s.is_valid()" % var:
        raise Untranslatable(rel_g, a.lineno, "the assert no longer tests `%s.is_valid()`: `%s`" % (var, ast.unparse(t)))
    emit("Graph_initialize_assert", "(f : InitFacts)", "Bool", "f.edgesValid.%s (fun b => %s)" % (t.func.id, "!b" if neg else "b"), a, rel_g)

    # ---------------------------------------------------------------- render
    txt = "import GraphSlam.Model.CmpFacts\n\n/-! GENERATED by tools/translate/py2lean_cmp.py from /repo/graphslam — do not edit.\n\n"
    txt += "Statement sequences of the `equals` and `is_valid` methods (and the assert of `Graph._initialize`) as found in the current\nsource, over the fact records of `GraphSlam/Model/CmpFacts.lean`.  `GraphSlam/Props/Tie/CmpPy.lean` proves that the hand-written\nmodels (`Model/Equals.lean`, `Model/Validity.lean`) evaluate exactly these guards in exactly this order. -/\n\n"
    txt += "set_option linter.unusedVariables false\n\nnamespace GraphSlam.Gen\nopen GraphSlam.Model.Cmp GraphSlam.Model.Equals GraphSlam.Model.CmpFacts\n\n"
    man = []
    for d in defs:
        sha = hashlib.sha256(d["py"].encode()).hexdigest()
        pyline = d["py"].splitlines()[0][:150].replace("-/", "- /")
        txt += "/-- `%s:%d`  `%s`  sha256 %s -/\n" % (d["file"], d["line"], pyline, sha[:16])
        txt += "def %s %s : %s :=\n  %s\n\n" % (d["lean"], d["binders"], d["typ"], d["body"])
        man.append(dict(group="CmpPy", lean=d["lean"], file=d["file"], line=d["line"], end_line=d["end_line"], sha256=sha, py=dict(kind="cmp-snippet", name=d["lean"]), params=[], ret=["snippet"], needsF=False, doc_shape=None, note=None))
    txt += "end GraphSlam.Gen\n"
    return txt, man


def stub(reason):
    return "import GraphSlam.Model.CmpFacts\n\n/-! GENERATED: the equals / is_valid guard sequences could NOT be located in the current source:\n%s -/\n" % str(reason).replace("-/", "- /")


def main(argv):
    import argparse

    ap = argparse.ArgumentParser()
    ap.add_argument("--repo", default="/repo")
    ap.add_argument("--out", required=True, help="the Lean project directory (GraphSlam/Generated/CmpPy.lean is written below it)")
    a = ap.parse_args(argv)
    path = os.path.join(a.out, "GraphSlam", "Generated", "CmpPy.lean")
    try:
        txt, man = translate(a.repo)
        status = dict(status="ok", defs=len(man))
    except Untranslatable as e:
        txt, man = stub(e), []
        status = dict(status="untranslatable", file=e.file, line=e.line, reason=e.reason)
    except (KeyError, SyntaxError, FileNotFoundError, IndexError, AttributeError, TypeError, ValueError) as e:
        txt, man = stub("%s: %s" % (type(e).__name__, e)), []
        status = dict(status="untranslatable", file="?", line=0, reason="%s: %s" % (type(e).__name__, e))
    old = open(path).read() if os.path.exists(path) else None
    if old != txt:
        with open(path, "w") as f:
            f.write(txt)
    status["changed"] = old != txt
    print(json.dumps(status))
    return 0 if status["status"] == "ok" else 3


if __name__ == "__main__":
    sys.exit(main(sys.argv[1:]))
