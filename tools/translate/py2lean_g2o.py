"""The `.g2o` reader / writer statements of python-graphslam, regenerated from the source on every run.

The `.g2o` reader and writer (`Vertex.to_g2o / from_g2o`, `EdgeOdometry.*`, `EdgeLandmark.*`, `G2OParameterSE2Offset.*`,
`G2OParameterSE3Offset.*`, `Graph.to_g2o / from_g2o`, `load.py`, `util.upper_triangular_matrix_to_full_matrix`) are modelled by hand
in `lean/GraphSlam/Model/G2O/*.lean` and tied to the code by the correspondence harness `tools/harness/g2o.py`.  This module adds the
second, kernel-checked tie (same pattern as `py2lean_graph.py`): it locates every statement of those methods in the AST of the
current source and describes it as Lean *data* (`GraphSlam/Generated/G2OPy.lean`, namespace `GraphSlam.Gen.G2OPy`, vocabulary
`GraphSlam/Core/G2OSpec.lean`):

  per line kind (VERTEX_XY, VERTEX_TRACKXYZ, VERTEX_SE2, VERTEX_SE3:QUAT, EDGE_SE2, EDGE_SE3:QUAT, EDGE_SE2_XY, EDGE_SE3_TRACKXYZ,
  PARAMS_SE2OFFSET, PARAMS_SE3OFFSET)
      <KIND>.writer   the `isinstance` guard, the format string, the ORDER of the format arguments (`self.id`, `self.pose[k]`,
                      `self.vertex_ids[k]`, `self.offset_id`, `self.estimate[k]`, `self.key[1]`, `self.value[k]`), the
                      `np.triu_indices(n, k)` of the information, the separator and the line end
      <KIND>.reader   the `startswith` literal, the literal of `line[len(...):]`, and the statements of the branch in EVALUATION
                      order: which tokens go through `float()`, which token positions go through `int()` (vertex ids, id, offset
                      id), the pose constructor and the slices / indices of `arr` it receives, `normalize()` if called, the slice and
                      size handed to `upper_triangular_matrix_to_full_matrix`, the parameter dictionary lookup, the returned object
      <KIND>.tag      the first word of the written format string
  per function   the order of the branches (`Vertex_to_g2o`, `Vertex_from_g2o`, ...), the three write loops of `Graph.to_g2o` in
                 source order, the attempts of the `Graph.from_g2o` loop in source order, `param_types`, the warning format, the
                 tag of the pre-check, the five deprecation messages of `load.py`, the `k` of `np.triu_indices` / `np.tril_indices`
                 in `util.py`, the array literals of the four pose constructors.

Everything around these data is checked structurally (exact statement shapes): `int(numbers[k])` and nothing else converts an id,
`[float(number) for number in numbers[k:]]` and nothing else converts the values, `f.write(x.to_g2o())` once per object, falsy
edge strings skipped, blank lines skipped by `line.strip()`, every attempt followed by `continue`, the warning uses
`line.rstrip()`, the constructors bind their arguments to the attributes the writers read, ...  A statement that cannot be located or
has an unexpected shape raises `Untranslatable(file, line, reason)`.

`GraphSlam/Props/Tie/G2OPy.lean` proves that the hand model's printers and parsers are exactly the interpretation
(`Props/Tie/G2OInterp.lean`) of these data, so a change of a tag, a field order, a token position, a dropped `normalize()` ...
changes the generated definition and a tie theorem stops checking.

    translate(repo_path) -> (lean_text, manifest_entries)
"""
import ast
import hashlib
import json
import os
import re


class Untranslatable(Exception):
    def __init__(self, file, line, reason):
        super().__init__("%s:%s: %s" % (file, line, reason))
        self.file, self.line, self.reason = file, line, reason


KINDS = ["VERTEX_XY", "VERTEX_TRACKXYZ", "VERTEX_SE2", "VERTEX_SE3_QUAT", "EDGE_SE2", "EDGE_SE3_QUAT", "EDGE_SE2_XY", "EDGE_SE3_TRACKXYZ",
         "PARAMS_SE2OFFSET", "PARAMS_SE3OFFSET"]
POSES = ("PoseR2", "PoseR3", "PoseSE2", "PoseSE3")
# which pose class identifies which line kind (the tag itself is data, so that a changed tag breaks a theorem, not the translation)
VERTEX_KIND = {"PoseR2": "VERTEX_XY", "PoseR3": "VERTEX_TRACKXYZ", "PoseSE2": "VERTEX_SE2", "PoseSE3": "VERTEX_SE3_QUAT"}
ODOM_KIND = {"PoseSE2": "EDGE_SE2", "PoseSE3": "EDGE_SE3_QUAT"}
LANDMARK_KIND_BY_ESTIMATE = {"PoseR2": "EDGE_SE2_XY", "PoseR3": "EDGE_SE3_TRACKXYZ"}
LANDMARK_KIND_BY_POSE0 = {"PoseSE2": "EDGE_SE2_XY", "PoseSE3": "EDGE_SE3_TRACKXYZ"}
PARAM_KIND = {"G2OParameterSE2Offset": "PARAMS_SE2OFFSET", "G2OParameterSE3Offset": "PARAMS_SE3OFFSET"}


def _u(n):
    """source text of a node without blanks"""
    return ast.unparse(n).replace(" ", "")


def _lstr(s):
    """a Lean string literal"""
    return json.dumps(s, ensure_ascii=True)


def _lint(z):
    return str(z) if z >= 0 else "(%d)" % z


def _llist(xs):
    return "[" + ", ".join(xs) + "]"


class _File:
    """one parsed source file + error helper"""

    def __init__(self, repo, rel):
        self.rel = rel
        path = os.path.join(repo, rel)
        try:
            self.src = open(path).read()
        except OSError as e:
            raise Untranslatable(rel, 0, "cannot read the file: %s" % e)
        try:
            self.tree = ast.parse(self.src)
        except SyntaxError as e:
            raise Untranslatable(rel, e.lineno or 0, "syntax error: %s" % e.msg)

    def bad(self, node, why):
        line = getattr(node, "lineno", 0) if node is not None else 0
        raise Untranslatable(self.rel, line, why)

    def cls(self, name):
        for n in self.tree.body:
            if isinstance(n, ast.ClassDef) and n.name == name:
                return n
        self.bad(None, "cannot locate class %s" % name)

    def func(self, name):
        for n in self.tree.body:
            if isinstance(n, ast.FunctionDef) and n.name == name:
                return n
        self.bad(None, "cannot locate function %s" % name)

    def method(self, cls, name, classmethod_=None):
        found = [n for n in cls.body if isinstance(n, ast.FunctionDef) and n.name == name]
        if len(found) != 1:
            self.bad(cls, "cannot locate exactly one %s.%s" % (cls.name, name))
        fn = found[0]
        decos = [ast.unparse(d) for d in fn.decorator_list]
        if classmethod_ is True and decos != ["classmethod"]:
            self.bad(fn, "%s.%s is no longer a plain classmethod" % (cls.name, name))
        if classmethod_ is False and decos:
            self.bad(fn, "%s.%s has acquired a decorator" % (cls.name, name))
        return fn

    @staticmethod
    def body(fn):
        """statements without the docstring"""
        b = fn.body
        if b and isinstance(b[0], ast.Expr) and isinstance(b[0].value, ast.Constant) and isinstance(b[0].value.value, str):
            b = b[1:]
        return b

    def params(self, fn, want):
        a = fn.args
        names = [x.arg for x in a.posonlyargs + a.args]
        if names != want or a.vararg or a.kwarg or a.kwonlyargs:
            self.bad(fn, "%s no longer has the parameters (%s)" % (fn.name, ", ".join(want)))


def _nat(f, n, what):
    if isinstance(n, ast.Constant) and type(n.value) is int and n.value >= 0:
        return n.value
    f.bad(n, "%s is not a non-negative integer literal: %s" % (what, ast.unparse(n)))


def _int(f, n, what):
    if isinstance(n, ast.Constant) and type(n.value) is int:
        return n.value
    if isinstance(n, ast.UnaryOp) and isinstance(n.op, ast.USub) and isinstance(n.operand, ast.Constant) and type(n.operand.value) is int:
        return -n.operand.value
    f.bad(n, "%s is not an integer literal: %s" % (what, ast.unparse(n)))


def _strlit(f, n, what):
    if isinstance(n, ast.Constant) and isinstance(n.value, str):
        return n.value
    f.bad(n, "%s is not a string literal: %s" % (what, ast.unparse(n)))


def _is_raise(st, exc):
    return isinstance(st, ast.Raise) and st.cause is None and st.exc is not None and ast.unparse(st.exc) in (exc, exc + "()")


# ---------------------------------------------------------------------------------------------------------------- writers

def _format_call(f, n):
    """`"<fmt>".format(a0, a1, ...)` -> (fmt, [arg nodes])"""
    if not (isinstance(n, ast.Call) and isinstance(n.func, ast.Attribute) and n.func.attr == "format" and not n.keywords
            and isinstance(n.func.value, ast.Constant) and isinstance(n.func.value.value, str)):
        f.bad(n, "not a `\"...\".format(...)` call with positional arguments: " + ast.unparse(n)[:120])
    fmt = n.func.value.value
    if any(isinstance(a, ast.Starred) for a in n.args):
        f.bad(n, "starred format argument")
    # only auto-numbered plain replacement fields: the Lean model of str.format knows `{}` and nothing else
    rest = fmt.replace("{}", "")
    if "{" in rest or "}" in rest:
        f.bad(n, "the format string uses a replacement field other than `{}`: %r" % fmt)
    if fmt.count("{}") != len(n.args):
        f.bad(n, "the format string has %d `{}` but %d arguments" % (fmt.count("{}"), len(n.args)))
    return fmt, list(n.args)


def _self_item(n, attr):
    """`self.<attr>[k]` -> k or None"""
    if isinstance(n, ast.Subscript) and _u(n.value) == "self." + attr and isinstance(n.slice, ast.Constant) and type(n.slice.value) is int and n.slice.value >= 0:
        return n.slice.value
    return None


def _vertex_field(f, a):
    if _u(a) == "self.id":
        return ".id"
    k = _self_item(a, "pose")
    if k is not None:
        return ".pose %d" % k
    f.bad(a, "Vertex.to_g2o writes `%s`, which the model does not account for" % ast.unparse(a))


def _param_field(f, a):
    if _u(a) == "self.key[1]":
        return ".keyId"
    k = _self_item(a, "value")
    if k is not None:
        return ".value %d" % k
    f.bad(a, "a parameter's to_g2o writes `%s`, which the model does not account for" % ast.unparse(a))


def _edge_field(f, a):
    if _u(a) == "self.offset_id":
        return ".offsetId"
    k = _self_item(a, "vertex_ids")
    if k is not None:
        return ".vertexId %d" % k
    k = _self_item(a, "estimate")
    if k is not None:
        return ".estimate %d" % k
    f.bad(a, "an edge's to_g2o writes `%s`, which the model does not account for" % ast.unparse(a))


def _isinstance(f, n, subject_re):
    """`isinstance(<subject>, PoseX)` -> (match of subject_re, PoseX)"""
    if not (isinstance(n, ast.Call) and _u(n.func) == "isinstance" and len(n.args) == 2 and not n.keywords):
        f.bad(n, "not an isinstance test: " + ast.unparse(n))
    m = re.fullmatch(subject_re, _u(n.args[0]))
    c = _u(n.args[1])
    if not m or c not in POSES:
        f.bad(n, "unexpected isinstance test: " + ast.unparse(n))
    return m, c


def _vertex_writers(f, out):
    cls = f.cls("Vertex")
    fn = f.method(cls, "to_g2o", classmethod_=False)
    f.params(fn, ["self"])
    body = f.body(fn)
    if not body or not _is_raise(body[-1], "NotImplementedError"):
        f.bad(fn, "Vertex.to_g2o no longer ends with `raise NotImplementedError`")
    order = []
    for st in body[:-1]:
        if not (isinstance(st, ast.If) and not st.orelse and len(st.body) == 1 and isinstance(st.body[0], ast.Return) and st.body[0].value is not None):
            f.bad(st, "Vertex.to_g2o: a statement that is not `if isinstance(self.pose, C): return \"...\".format(...)`")
        _, c = _isinstance(f, st.test, r"self\.pose")
        fmt, args = _format_call(f, st.body[0].value)
        kind = VERTEX_KIND[c]
        if kind in out["writer"]:
            f.bad(st, "Vertex.to_g2o has two branches for %s" % c)
        out["writer"][kind] = dict(typ="VertexWriter", fmt=fmt, node=st, file=f.rel,
                                   lean="{ cls := .%s, fmt := %s, args := %s }" % (c, _lstr(fmt), _llist([_vertex_field(f, a) for a in args])))
        order.append(kind)
    out["lists"]["Vertex_to_g2o"] = ("VertexWriter", [k + ".writer" for k in order], fn, f.rel)


def _param_writer(f, out, cname):
    cls = f.cls(cname)
    fn = f.method(cls, "to_g2o", classmethod_=False)
    f.params(fn, ["self"])
    body = f.body(fn)
    if not (len(body) == 1 and isinstance(body[0], ast.Return) and body[0].value is not None):
        f.bad(fn, "%s.to_g2o is no longer a single `return \"...\".format(...)`" % cname)
    fmt, args = _format_call(f, body[0].value)
    kind = PARAM_KIND[cname]
    out["writer"][kind] = dict(typ="ParamWriter", fmt=fmt, node=body[0], file=f.rel,
                               lean="{ fmt := %s, args := %s }" % (_lstr(fmt), _llist([_param_field(f, a) for a in args])))


def _edge_return(f, n):
    """`"...".format(...) + "<sep>".join([str(x) for x in self.information[np.triu_indices(n, k)]]) + "<tail>"`"""
    if not (isinstance(n, ast.BinOp) and isinstance(n.op, ast.Add) and isinstance(n.left, ast.BinOp) and isinstance(n.left.op, ast.Add)):
        f.bad(n, "an edge's to_g2o no longer returns `<format> + <join of the information> + <line end>`")
    tail = _strlit(f, n.right, "the line end")
    fmt, args = _format_call(f, n.left.left)
    j = n.left.right
    if not (isinstance(j, ast.Call) and isinstance(j.func, ast.Attribute) and j.func.attr == "join" and len(j.args) == 1 and not j.keywords):
        f.bad(j, "the information is no longer written through `\" \".join([...])`")
    sep = _strlit(f, j.func.value, "the separator of the information entries")
    lc = j.args[0]
    if not (isinstance(lc, (ast.ListComp, ast.GeneratorExp)) and len(lc.generators) == 1 and not lc.generators[0].ifs and not lc.generators[0].is_async
            and isinstance(lc.generators[0].target, ast.Name)):
        f.bad(lc, "the information entries are no longer a plain comprehension")
    x = lc.generators[0].target.id
    if _u(lc.elt) not in ("str(%s)" % x, "'{}'.format(%s)" % x):
        f.bad(lc.elt, "an information entry is no longer written as `str(x)`: " + ast.unparse(lc.elt))
    it = lc.generators[0].iter
    if not (isinstance(it, ast.Subscript) and _u(it.value) == "self.information" and isinstance(it.slice, ast.Call)
            and _u(it.slice.func) == "np.triu_indices" and len(it.slice.args) in (1, 2) and not it.slice.keywords):
        f.bad(it, "the written information entries are no longer `self.information[np.triu_indices(n, k)]`: " + ast.unparse(it))
    tn = _nat(f, it.slice.args[0], "the size given to np.triu_indices")
    tk = _int(f, it.slice.args[1], "the diagonal offset given to np.triu_indices") if len(it.slice.args) == 2 else 0
    return fmt, args, tn, tk, sep, tail


def _edge_writers(f, out, cname, kind_by_pose0, lname):
    cls = f.cls(cname)
    fn = f.method(cls, "to_g2o", classmethod_=False)
    f.params(fn, ["self"])
    body = f.body(fn)
    if not body or not _is_raise(body[-1], "NotImplementedError"):
        f.bad(fn, "%s.to_g2o no longer ends with `raise NotImplementedError`" % cname)
    order = []
    for st in body[:-1]:
        if not (isinstance(st, ast.If) and not st.orelse and st.body and isinstance(st.body[-1], ast.Return) and st.body[-1].value is not None):
            f.bad(st, "%s.to_g2o: a statement that is not `if isinstance(...): ... return ...`" % cname)
        tests = st.test.values if isinstance(st.test, ast.BoolOp) and isinstance(st.test.op, ast.And) else [st.test]
        guard = []
        for t in tests:
            m, c = _isinstance(f, t, r"self\.vertices\[(\d+)\]\.pose")
            guard.append((int(m.group(1)), c))
        pre = st.body[:-1]
        ident = False
        if pre:
            ok = len(pre) == 1 and isinstance(pre[0], ast.If) and not pre[0].orelse and len(pre[0].body) == 1 and _is_raise(pre[0].body[0], "NotImplementedError") \
                and _u(pre[0].test) == "notnp.array_equal(self.offset,PoseSE2.identity())"
            if not ok:
                f.bad(pre[0], "%s.to_g2o: unexpected statement before the return: %s" % (cname, ast.unparse(pre[0])[:100]))
            ident = True
        fmt, args, tn, tk, sep, tail = _edge_return(f, st.body[-1].value)
        if not guard or guard[0][0] != 0 or guard[0][1] not in kind_by_pose0:
            f.bad(st, "%s.to_g2o: the first isinstance test of a branch is no longer on self.vertices[0].pose with an SE(2)/SE(3) class" % cname)
        kind = kind_by_pose0[guard[0][1]]
        if kind in out["writer"]:
            f.bad(st, "%s.to_g2o has two branches for %s" % (cname, guard[0][1]))
        lean = "{ guard := %s, identityOffsetOnly := %s, fmt := %s, args := %s, triuN := %d, triuK := %s, sep := %s, tail := %s }" % (
            _llist(["(%d, .%s)" % g for g in guard]), "true" if ident else "false", _lstr(fmt), _llist([_edge_field(f, a) for a in args]), tn, _lint(tk), _lstr(sep), _lstr(tail))
        out["writer"][kind] = dict(typ="EdgeWriter", fmt=fmt, node=st, file=f.rel, lean=lean)
        order.append(kind)
    out["lists"][lname] = ("EdgeWriter", [k + ".writer" for k in order], fn, f.rel)


# ---------------------------------------------------------------------------------------------------------------- readers

def _int_numbers(f, n):
    """`int(numbers[p])` -> p; anything else (int(float(...)), float(...), ...) stops the translation"""
    if isinstance(n, ast.Call) and _u(n.func) == "int" and len(n.args) == 1 and not n.keywords:
        a = n.args[0]
        if isinstance(a, ast.Subscript) and _u(a.value) == "numbers":
            return _nat(f, a.slice, "the token position of an id")
    f.bad(n, "an id is no longer converted by `int(numbers[k])`: " + ast.unparse(n))


def _float_list(f, n):
    """`[float(number) for number in numbers[k:]]`, optionally inside `np.array(..., dtype=np.float64)` -> k"""
    if isinstance(n, ast.Call) and _u(n.func) in ("np.array", "np.asarray"):
        kws = {k.arg: _u(k.value) for k in n.keywords}
        if len(n.args) != 1 or kws not in ({}, {"dtype": "np.float64"}, {"dtype": "float"}):
            f.bad(n, "unexpected np.array call: " + ast.unparse(n))
        n = n.args[0]
    if isinstance(n, ast.ListComp) and len(n.generators) == 1 and not n.generators[0].ifs and isinstance(n.generators[0].target, ast.Name):
        x = n.generators[0].target.id
        it = n.generators[0].iter
        if _u(n.elt) == "float(%s)" % x and isinstance(it, ast.Subscript) and _u(it.value) == "numbers" and isinstance(it.slice, ast.Slice) \
                and it.slice.upper is None and it.slice.step is None:
            return _nat(f, it.slice.lower, "the first value token") if it.slice.lower is not None else 0
    f.bad(n, "the values are no longer converted by `[float(number) for number in numbers[k:]]`: " + ast.unparse(n))


def _arr_arg(f, n):
    """an argument of a pose constructor: arr / arr[a:b] / arr[i] / [arr[i], ...]"""
    if _u(n) == "arr":
        return ".whole"
    if isinstance(n, ast.Subscript) and _u(n.value) == "arr":
        s = n.slice
        if isinstance(s, ast.Slice):
            if s.step is not None:
                f.bad(n, "slice with a step: " + ast.unparse(n))
            lo = _nat(f, s.lower, "a slice bound") if s.lower is not None else 0
            hi = "some %d" % _nat(f, s.upper, "a slice bound") if s.upper is not None else "none"
            return ".slice %d (%s)" % (lo, hi)
        return ".index %d" % _nat(f, s, "an index into arr")
    if isinstance(n, ast.List):
        idx = []
        for e in n.elts:
            if not (isinstance(e, ast.Subscript) and _u(e.value) == "arr" and not isinstance(e.slice, ast.Slice)):
                f.bad(n, "unexpected pose constructor argument: " + ast.unparse(n))
            idx.append(str(_nat(f, e.slice, "an index into arr")))
        return ".list " + _llist(idx)
    f.bad(n, "unexpected pose constructor argument: " + ast.unparse(n))


def _pose_call(f, n):
    """`PoseX(args)` -> (cls, [Arg])"""
    if isinstance(n, ast.Call) and isinstance(n.func, ast.Name) and n.func.id in POSES and not n.keywords:
        return n.func.id, [_arr_arg(f, a) for a in n.args]
    f.bad(n, "not a pose constructor call: " + ast.unparse(n))


def _is_pose_call(n):
    return isinstance(n, ast.Call) and isinstance(n.func, ast.Name) and n.func.id in POSES


def _reader_branch(f, stmts, where, owner, pfx):
    """statements of one from_g2o branch -> Reader fields.  `owner` in {"Vertex", "EdgeOdometry", "EdgeLandmark", <param class>}"""
    steps = []
    defined = {}

    def define(name, st):
        if name in defined:
            f.bad(st, "%s.from_g2o assigns `%s` twice in one branch" % (owner, name))
        defined[name] = True

    def need(name, st):
        if name not in defined:
            f.bad(st, "%s.from_g2o uses `%s` before it is assigned" % (owner, name))

    def pose_step(n, st):
        need("arr", st)
        c, args = _pose_call(f, n)
        steps.append(".pose .%s %s" % (c, _llist(args)))
        return c

    sts = list(stmts)
    # an `assert g2o_params_or_none is not None` is allowed in front (Graph.from_g2o always passes a dictionary)
    while sts and isinstance(sts[0], ast.Assert):
        if _u(sts[0].test) != "g2o_params_or_noneisnotNone":
            f.bad(sts[0], "unexpected assertion: " + ast.unparse(sts[0]))
        sts.pop(0)
    if not sts or not (isinstance(sts[0], ast.Assign) and _u(sts[0].targets[0]) == "numbers" and len(sts[0].targets) == 1):
        f.bad(where, "%s.from_g2o: a branch no longer starts with `numbers = line[len(<tag>):].split()`" % owner)
    m = sts[0].value
    ok = isinstance(m, ast.Call) and isinstance(m.func, ast.Attribute) and m.func.attr == "split" and not m.args and not m.keywords
    sl = m.func.value if ok else None
    ok = ok and isinstance(sl, ast.Subscript) and _u(sl.value) == "line" and isinstance(sl.slice, ast.Slice) and sl.slice.upper is None and sl.slice.step is None \
        and isinstance(sl.slice.lower, ast.Call) and _u(sl.slice.lower.func) == "len" and len(sl.slice.lower.args) == 1
    if not ok:
        f.bad(sts[0], "the tokens are no longer `line[len(<tag>):].split()`: " + ast.unparse(sts[0]))
    skip = _strlit(f, sl.slice.lower.args[0], "the argument of len() in the token slice")
    posevar, posecls, ctor = None, None, None
    for st in sts[1:]:
        if ctor is not None:
            f.bad(st, "%s.from_g2o: statement after the return" % owner)
        if isinstance(st, ast.Assign) and len(st.targets) == 1 and isinstance(st.targets[0], ast.Name):
            name, v = st.targets[0].id, st.value
            if name == "arr":
                steps.append(".floats %d" % _float_list(f, v))
            elif name == "vertex_ids":
                if not isinstance(v, ast.List) or not v.elts:
                    f.bad(st, "vertex_ids is no longer a list of `int(numbers[k])`")
                steps.append(".vertexIds " + _llist([str(_int_numbers(f, e)) for e in v.elts]))
            elif name == "offset_id":
                steps.append(".offsetId %d" % _int_numbers(f, v))
            elif name == "offset":
                need("offset_id", st)
                ok = isinstance(v, ast.Attribute) and v.attr == "value" and isinstance(v.value, ast.Subscript) and _u(v.value.value) == "g2o_params_or_none" \
                    and isinstance(v.value.slice, ast.Tuple) and len(v.value.slice.elts) == 2 and _u(v.value.slice.elts[1]) == "offset_id"
                if not ok:
                    f.bad(st, "the offset is no longer `g2o_params_or_none[(<tag>, offset_id)].value`: " + ast.unparse(st))
                steps.append(".offsetFromParams " + _lstr(_strlit(f, v.value.slice.elts[0], "the tag of the offset key")))
            elif name in ("p", "estimate") and _is_pose_call(v):
                if posevar is not None:
                    f.bad(st, "%s.from_g2o builds two poses in one branch" % owner)
                posevar, posecls = name, pose_step(v, st)
            elif name == "information":
                need("arr", st)
                ok = isinstance(v, ast.Call) and _u(v.func) == "upper_triangular_matrix_to_full_matrix" and len(v.args) == 2 and not v.keywords \
                    and isinstance(v.args[0], ast.Subscript) and _u(v.args[0].value) == "arr" and isinstance(v.args[0].slice, ast.Slice) \
                    and v.args[0].slice.upper is None and v.args[0].slice.step is None
                if not ok:
                    f.bad(st, "the information is no longer `upper_triangular_matrix_to_full_matrix(arr[k:], n)`: " + ast.unparse(st))
                lo = _nat(f, v.args[0].slice.lower, "the first information token") if v.args[0].slice.lower is not None else 0
                steps.append(".information %d %d" % (lo, _nat(f, v.args[1], "the size of the information matrix")))
            else:
                f.bad(st, "%s.from_g2o: an assignment the model does not account for: %s" % (owner, ast.unparse(st)))
            define(name, st)
        elif isinstance(st, ast.Expr) and isinstance(st.value, ast.Call):
            if posevar is not None and _u(st.value) == posevar + ".normalize()":
                steps.append(".normalize")
            else:
                f.bad(st, "%s.from_g2o: a call the model does not account for: %s" % (owner, ast.unparse(st)))
        elif isinstance(st, ast.Return) and isinstance(st.value, ast.Call) and isinstance(st.value.func, ast.Name):
            c = st.value
            kws = {k.arg: k.value for k in c.keywords}
            if owner == "Vertex":
                if c.func.id != "cls" or len(c.args) != 2 or kws:
                    f.bad(st, "Vertex.from_g2o no longer returns `cls(int(numbers[k]), <pose>)`")
                steps.append(".id %d" % _int_numbers(f, c.args[0]))
                if _is_pose_call(c.args[1]) and posevar is None:
                    posevar, posecls = "<inline>", pose_step(c.args[1], st)
                elif posevar is None or _u(c.args[1]) != posevar:
                    f.bad(st, "Vertex.from_g2o no longer returns the pose it built")
                ctor = ".vertex"
            elif owner in PARAM_KIND:
                ok = c.func.id == "cls" and len(c.args) == 2 and not kws and isinstance(c.args[0], ast.Tuple) and len(c.args[0].elts) == 2
                if not ok:
                    f.bad(st, "%s.from_g2o no longer returns `cls((<tag>, int(numbers[k])), <pose>)`" % owner)
                tag = _strlit(f, c.args[0].elts[0], "the tag of the parameter key")
                steps.append(".id %d" % _int_numbers(f, c.args[0].elts[1]))
                if _is_pose_call(c.args[1]) and posevar is None:
                    posevar, posecls = "<inline>", pose_step(c.args[1], st)
                elif posevar is None or _u(c.args[1]) != posevar:
                    f.bad(st, "%s.from_g2o no longer returns the pose it built" % owner)
                ctor = ".param " + _lstr(tag)
            elif owner == "EdgeOdometry":
                if c.func.id not in ("EdgeOdometry", "cls") or [_u(a) for a in c.args] != ["vertex_ids", "information", "estimate"] or kws:
                    f.bad(st, "EdgeOdometry.from_g2o no longer returns `EdgeOdometry(vertex_ids, information, estimate)`")
                for nm in ("vertex_ids", "information", "estimate"):
                    need(nm, st)
                ctor = ".edgeOdometry"
            elif owner == "EdgeLandmark":
                if c.func.id not in ("EdgeLandmark", "cls") or [_u(a) for a in c.args] != ["vertex_ids", "information", "estimate"] or sorted(kws) != ["offset", "offset_id"]:
                    f.bad(st, "EdgeLandmark.from_g2o no longer returns `EdgeLandmark(vertex_ids, information, estimate, offset=..., offset_id=...)`")
                for nm in ("vertex_ids", "information", "estimate"):
                    need(nm, st)
                if _u(kws["offset"]) == "offset" and _u(kws["offset_id"]) == "offset_id":
                    need("offset", st)
                    need("offset_id", st)
                else:
                    mm = re.fullmatch(r"(Pose\w+)\.identity\(\)", _u(kws["offset"]))
                    if not mm or mm.group(1) not in POSES or "offset" in defined or "offset_id" in defined:
                        f.bad(st, "EdgeLandmark.from_g2o: unexpected offset arguments: " + ast.unparse(st))
                    steps.append(".offsetIdentity .%s %s" % (mm.group(1), _lint(_int(f, kws["offset_id"], "the literal offset id"))))
                ctor = ".edgeLandmark"
            else:
                f.bad(st, "unknown owner")
        else:
            f.bad(st, "%s.from_g2o: a statement the model does not account for: %s" % (owner, ast.unparse(st)[:100]))
    if ctor is None:
        f.bad(where, "%s.from_g2o: a branch does not end with a return of the constructed object" % owner)
    if posecls is None:
        f.bad(where, "%s.from_g2o: a branch builds no pose" % owner)
    lean = "{ pfx := %s, skip := %s,\n    steps := %s,\n    ctor := %s }" % (_lstr(pfx), _lstr(skip), _llist(steps), ctor)
    return lean, posecls


def _startswith(f, n):
    """`line.startswith("<lit>")` -> lit"""
    if isinstance(n, ast.Call) and _u(n.func) == "line.startswith" and len(n.args) == 1 and not n.keywords:
        return _strlit(f, n.args[0], "the argument of startswith")
    f.bad(n, "not a `line.startswith(<literal>)` test: " + ast.unparse(n))


def _branch_readers(f, out, cname, kind_of, lname, params):
    """from_g2o of Vertex / EdgeOdometry / EdgeLandmark: `if line.startswith(T): ...` branches, then `return None`"""
    cls = f.cls(cname)
    fn = f.method(cls, "from_g2o", classmethod_=True)
    f.params(fn, params)
    body = f.body(fn)
    if not body or _u(body[-1]) != "returnNone":
        f.bad(fn, "%s.from_g2o no longer ends with `return None`" % cname)
    order = []
    for st in body[:-1]:
        if not (isinstance(st, ast.If) and not st.orelse):
            f.bad(st, "%s.from_g2o: a statement that is not `if line.startswith(<tag>): ...`" % cname)
        pfx = _startswith(f, st.test)
        lean, posecls = _reader_branch(f, st.body, st, cname, pfx)
        if posecls not in kind_of:
            f.bad(st, "%s.from_g2o builds a %s, which the model does not account for" % (cname, posecls))
        kind = kind_of[posecls]
        if kind in out["reader"]:
            f.bad(st, "%s.from_g2o has two branches that build a %s" % (cname, posecls))
        out["reader"][kind] = dict(lean=lean, node=st, file=f.rel)
        order.append(kind)
    out["lists"][lname] = ("Reader", [k + ".reader" for k in order], fn, f.rel)


def _param_reader(f, out, cname):
    """`if not line.startswith(T): return None` followed by the statements of the only branch"""
    cls = f.cls(cname)
    fn = f.method(cls, "from_g2o", classmethod_=True)
    f.params(fn, ["cls", "line"])
    body = f.body(fn)
    ok = body and isinstance(body[0], ast.If) and not body[0].orelse and isinstance(body[0].test, ast.UnaryOp) and isinstance(body[0].test.op, ast.Not) \
        and [_u(s) for s in body[0].body] == ["returnNone"]
    if not ok:
        f.bad(fn, "%s.from_g2o no longer starts with `if not line.startswith(<tag>): return None`" % cname)
    pfx = _startswith(f, body[0].test.operand)
    lean, posecls = _reader_branch(f, body[1:], fn, cname, pfx)
    out["reader"][PARAM_KIND[cname]] = dict(lean=lean, node=fn, file=f.rel)


# ---------------------------------------------------------------------------------------------------------------- constructors

def _check_init(f, cname, params, binds, supercall=None):
    cls = f.cls(cname)
    fn = f.method(cls, "__init__", classmethod_=False)
    a = fn.args
    names = [x.arg for x in a.args]
    if names[:len(params)] != params:
        f.bad(fn, "%s.__init__ no longer takes (%s) in this order" % (cname, ", ".join(params)))
    got = [_u(s) for s in f.body(fn)]
    for b in binds:
        if b not in got:
            f.bad(fn, "%s.__init__ no longer contains `%s`" % (cname, b))
    if supercall and supercall not in got:
        f.bad(fn, "%s.__init__ no longer contains `%s`" % (cname, supercall))


def _pose_ctor(f, cname, out):
    cls = f.cls(cname)
    fn = f.method(cls, "__new__", classmethod_=False)
    names = [x.arg for x in fn.args.args]
    body = [s for s in f.body(fn)]
    if len(body) != 2 or _u(body[1]) != "returnobj" or not (isinstance(body[0], ast.Assign) and _u(body[0].targets[0]) == "obj"):
        f.bad(fn, "%s.__new__ is no longer `obj = <array>.view(cls); return obj`" % cname)
    v = body[0].value
    ok = isinstance(v, ast.Call) and isinstance(v.func, ast.Attribute) and v.func.attr == "view" and [_u(a) for a in v.args] == ["cls"] and isinstance(v.func.value, ast.Call)
    if not ok:
        f.bad(fn, "%s.__new__: unexpected construction: %s" % (cname, ast.unparse(body[0])))
    arr = v.func.value
    kws = {k.arg: _u(k.value) for k in arr.keywords}
    if kws != {"dtype": "np.float64"} or len(arr.args) != 1:
        f.bad(fn, "%s.__new__: the array is no longer built with dtype=np.float64 from one argument" % cname)

    def pidx(nm, node):
        if nm not in names[1:]:
            f.bad(node, "%s.__new__ refers to `%s`, which is not a parameter" % (cname, nm))
        return names.index(nm) - 1

    if _u(arr.func) == "np.asarray" and isinstance(arr.args[0], ast.Name):
        lean = ".asarray %d" % pidx(arr.args[0].id, arr)
    elif _u(arr.func) == "np.array" and isinstance(arr.args[0], ast.List):
        es = []
        for e in arr.args[0].elts:
            if isinstance(e, ast.Subscript) and isinstance(e.value, ast.Name) and not isinstance(e.slice, ast.Slice):
                es.append(".item %d %d" % (pidx(e.value.id, e), _nat(f, e.slice, "an index")))
            elif isinstance(e, ast.Call) and _u(e.func) == "neg_pi_to_pi" and len(e.args) == 1 and isinstance(e.args[0], ast.Name):
                es.append(".wrapped %d" % pidx(e.args[0].id, e))
            else:
                f.bad(e, "%s.__new__: an array entry the model does not account for: %s" % (cname, ast.unparse(e)))
        lean = ".entries " + _llist(es)
    else:
        f.bad(fn, "%s.__new__: unexpected construction: %s" % (cname, ast.unparse(body[0])))
    out["defs"].append(dict(name=cname + "_new", typ="PoseCtor", lean=lean, node=fn, file=f.rel))
    return names[1:]


# ---------------------------------------------------------------------------------------------------------------- graph.py, load.py, util.py

def _graph_to_g2o(f, out):
    cls = f.cls("Graph")
    fn = f.method(cls, "to_g2o", classmethod_=False)
    f.params(fn, ["self", "outfile"])
    body = f.body(fn)
    if len(body) != 2 or not isinstance(body[0], ast.For) or not isinstance(body[1], ast.With):
        f.bad(fn, "Graph.to_g2o is no longer `for e in self._edges: <pre-check>` followed by `with open(outfile, \"w\") as f: ...`")
    pre, w = body
    # the pre-check: raised BEFORE the file is opened
    ok = _u(pre.target) == "e" and _u(pre.iter) == "self._edges" and not pre.orelse and len(pre.body) == 1 and isinstance(pre.body[0], ast.If) and not pre.body[0].orelse
    if ok:
        g = pre.body[0]
        ok = _u(g.test) == "isinstance(e,EdgeLandmark)andisinstance(e.offset,PoseSE3)" and len(g.body) == 2 and isinstance(g.body[0], ast.Assign) and isinstance(g.body[1], ast.If)
    if ok:
        look = g.body[0]
        ok = _u(look.targets[0]) == "param" and isinstance(look.value, ast.Call) and _u(look.value.func) == "(self._g2o_paramsor{}).get" and len(look.value.args) == 1 \
            and isinstance(look.value.args[0], ast.Tuple) and len(look.value.args[0].elts) == 2 and _u(look.value.args[0].elts[1]) == "e.offset_id"
    if ok:
        chk = g.body[1]
        ok = _u(chk.test) == "paramisNoneornotnp.array_equal(param.value,e.offset)" and not chk.orelse and len(chk.body) == 1 and isinstance(chk.body[0], ast.Raise) \
            and isinstance(chk.body[0].exc, ast.Call) and _u(chk.body[0].exc.func) == "ValueError"
    if not ok:
        f.bad(pre, "the pre-check loop of Graph.to_g2o (SE(3) landmark offsets must be registered parameters, else ValueError) changed")
    tag = _strlit(f, look.value.args[0].elts[0], "the tag of the pre-check key")
    out["defs"].append(dict(name="Graph_to_g2o_precheck_tag", typ="String", lean=_lstr(tag), node=look, file=f.rel))
    # the file
    ok = len(w.items) == 1 and _u(w.items[0].context_expr) in ("open(outfile,'w')",) and w.items[0].optional_vars is not None and _u(w.items[0].optional_vars) == "f"
    if not ok:
        f.bad(w, "Graph.to_g2o no longer writes through `with open(outfile, \"w\") as f`")
    pat = {
        "ifself._g2o_params:\nforg2o_paraminself._g2o_params.values():\nf.write(g2o_param.to_g2o())": ".params",
        "forvinself._vertices:\nf.write(v.to_g2o())": ".vertices",
        "foreinself._edges:\nedge_str_or_none=e.to_g2o()\nifedge_str_or_none:\nf.write(edge_str_or_none)": ".edges",
    }
    secs = []
    for st in w.body:
        key = "\n".join(l.strip().replace(" ", "") for l in ast.unparse(st).splitlines())
        if key not in pat:
            f.bad(st, "Graph.to_g2o: a write loop the model does not account for: " + ast.unparse(st).splitlines()[0])
        secs.append(pat[key])
    if sorted(secs) != sorted(pat.values()):
        f.bad(w, "Graph.to_g2o no longer has exactly one write loop for each of parameters, vertices, edges")
    out["defs"].append(dict(name="Graph_to_g2o_sections", typ="List Section", lean=_llist(secs), node=w, file=f.rel))


def _graph_from_g2o(f, out):
    cls = f.cls("Graph")
    fn = f.method(cls, "from_g2o", classmethod_=True)
    f.params(fn, ["cls", "infile", "custom_edge_types"])
    body = f.body(fn)
    flat = [_u(s) for s in body]
    for want in ("edges=[]", "vertices=[]", "g2o_params={}", "custom_edge_types=custom_edge_typesor[]", "ret=cls(edges,vertices)", "ret._g2o_params=g2o_params", "returnret"):
        if flat.count(want) != 1:
            f.bad(fn, "Graph.from_g2o no longer contains exactly one `%s`" % want)
    if flat[-3:] != ["ret=cls(edges,vertices)", "ret._g2o_params=g2o_params", "returnret"]:
        f.bad(fn, "Graph.from_g2o no longer ends with `ret = cls(edges, vertices); ret._g2o_params = g2o_params; return ret`")
    allowed_top = 0
    pt = None
    helpers = {}
    w = None
    for st in body:
        if isinstance(st, ast.Assign) and _u(st.targets[0]) == "param_types":
            pt = st
        elif isinstance(st, ast.FunctionDef):
            helpers[st.name] = st
        elif isinstance(st, ast.With):
            if w is not None:
                f.bad(st, "Graph.from_g2o opens two files")
            w = st
        elif isinstance(st, ast.For):
            if _u(st) .replace("\n", "") not in ("foredge_typeincustom_edge_types:assertissubclass(edge_type,BaseEdge)",):
                f.bad(st, "Graph.from_g2o: a loop the model does not account for")
        elif isinstance(st, (ast.Assign, ast.Return)) and _u(st) in ("edges=[]", "vertices=[]", "g2o_params={}", "custom_edge_types=custom_edge_typesor[]", "ret=cls(edges,vertices)", "ret._g2o_params=g2o_params", "returnret"):
            allowed_top += 1
        else:
            f.bad(st, "Graph.from_g2o: a statement the model does not account for: " + ast.unparse(st).splitlines()[0])
    if pt is None or not isinstance(pt.value, ast.List) or any(_u(e) not in PARAM_KIND for e in pt.value.elts):
        f.bad(fn, "cannot locate `param_types = [G2OParameterSE2Offset, G2OParameterSE3Offset]`")
    out["defs"].append(dict(name="Graph_from_g2o_param_types", typ="List ParamType", lean=_llist(["." + _u(e) for e in pt.value.elts]), node=pt, file=f.rel))

    def helper_body(name, params, want):
        h = helpers.get(name)
        if h is None:
            f.bad(fn, "cannot locate the helper %s of Graph.from_g2o" % name)
        f.params(h, params)
        got = "\n".join(l.strip().replace(" ", "") for s in f.body(h) for l in ast.unparse(s).splitlines())
        if got != want:
            f.bad(h, "the helper %s of Graph.from_g2o changed (it must return the first truthy from_g2o result, else None)" % name)

    helper_body("param_from_g2o", ["line", "param_types"],
                "forparam_typeinparam_types:\nparam_or_none=param_type.from_g2o(line)\nifparam_or_none:\nreturnparam_or_none\nreturnNone")
    helper_body("custom_edge_from_g2o", ["line", "custom_edge_types", "g2o_params"],
                "forcustom_edge_typeincustom_edge_types:\nedge_or_none=custom_edge_type.from_g2o(line,g2o_params)\nifedge_or_none:\nreturnedge_or_none\nreturnNone")
    if len(helpers) != 2:
        f.bad(fn, "Graph.from_g2o has acquired another nested function")
    if w is None or len(w.items) != 1 or _u(w.items[0].context_expr) != "open(infile)" or w.items[0].optional_vars is None or _u(w.items[0].optional_vars) != "f":
        f.bad(fn, "Graph.from_g2o no longer reads through `with open(infile) as f`")
    ok = len(w.body) == 1 and isinstance(w.body[0], ast.For) and _u(w.body[0].target) == "line" and _u(w.body[0].iter) == "f.readlines()" and not w.body[0].orelse
    if ok:
        lp = w.body[0]
        ok = len(lp.body) == 1 and isinstance(lp.body[0], ast.If) and _u(lp.body[0].test) == "line.strip()" and not lp.body[0].orelse
    if not ok:
        f.bad(w, "the line loop of Graph.from_g2o is no longer `for line in f.readlines(): if line.strip(): ...`")
    sts = lp.body[0].body
    calls = {
        "Vertex.from_g2o(line)": (".vertex", "vertices.append(%s)"),
        "custom_edge_from_g2o(line,custom_edge_types,g2o_params)": (".customEdges", "edges.append(%s)"),
        "EdgeOdometry.from_g2o(line,g2o_params)": (".edgeOdometry", "edges.append(%s)"),
        "EdgeLandmark.from_g2o(line,g2o_params)": (".edgeLandmark", "edges.append(%s)"),
        "param_from_g2o(line,param_types)": (".params", "g2o_params[%s.key]=%s"),
    }
    attempts = []
    i = 0
    while i + 1 < len(sts):
        a, t = sts[i], sts[i + 1]
        if not (isinstance(a, ast.Assign) and len(a.targets) == 1 and isinstance(a.targets[0], ast.Name) and _u(a.value) in calls):
            f.bad(a, "Graph.from_g2o: an attempt the model does not account for: " + ast.unparse(a))
        var = a.targets[0].id
        kind, store = calls[_u(a.value)]
        want = [store.replace("%s", var), "continue"]
        if not (isinstance(t, ast.If) and _u(t.test) == var and not t.orelse and [_u(s) for s in t.body] == want):
            f.bad(t, "Graph.from_g2o: the result of `%s` is no longer stored by `if %s: %s; continue`" % (ast.unparse(a.value), var, want[0]))
        if kind in attempts:
            f.bad(a, "Graph.from_g2o tries %s twice" % kind)
        attempts.append(kind)
        i += 2
    if i != len(sts) - 1 or sorted(attempts) != sorted(k for k, _ in calls.values()):
        f.bad(lp, "Graph.from_g2o no longer tries each of vertex / custom edges / odometry / landmark / parameters once and then warns")
    out["defs"].append(dict(name="Graph_from_g2o_attempts", typ="List Attempt", lean=_llist(attempts), node=lp, file=f.rel))
    wn = sts[-1]
    ok = isinstance(wn, ast.Expr) and isinstance(wn.value, ast.Call) and _u(wn.value.func) == "_LOGGER.warning" and len(wn.value.args) == 2 and not wn.value.keywords \
        and _u(wn.value.args[1]) == "line.rstrip()"
    if not ok:
        f.bad(wn, "an unsupported line is no longer reported by `_LOGGER.warning(<format>, line.rstrip())`")
    out["defs"].append(dict(name="Graph_from_g2o_warning", typ="String", lean=_lstr(_strlit(f, wn.value.args[0], "the warning format")), node=wn, file=f.rel))


def _load_py(f, out):
    for name in ("load_g2o", "load_g2o_r2", "load_g2o_r3", "load_g2o_se2", "load_g2o_se3"):
        fn = f.func(name)
        f.params(fn, ["infile"])
        body = f.body(fn)
        ok = len(body) == 2 and isinstance(body[0], ast.Expr) and isinstance(body[0].value, ast.Call) and _u(body[0].value.func) == "_LOGGER.warning" \
            and len(body[0].value.args) == 1 and not body[0].value.keywords and _u(body[1]) == "returnGraph.from_g2o(infile)"
        if not ok:
            f.bad(fn, "%s is no longer `_LOGGER.warning(<message>); return Graph.from_g2o(infile)`" % name)
        out["defs"].append(dict(name=name + "_message", typ="String", lean=_lstr(_strlit(f, body[0].value.args[0], "the deprecation message")), node=body[0], file=f.rel))


def _util_py(f, out):
    fn = f.func("upper_triangular_matrix_to_full_matrix")
    f.params(fn, ["arr", "n"])
    body = f.body(fn)
    got = [_u(s) for s in body]
    if len(body) != 6 or got[2:] != ["mat=np.zeros((n,n),dtype=np.float64)", "mat[triu0]=arr", "mat[tril1]=mat.T[tril1]", "returnmat"]:
        f.bad(fn, "upper_triangular_matrix_to_full_matrix is no longer zeros / mat[triu0] = arr / mat[tril1] = mat.T[tril1] / return mat")
    ks = []
    for st, var, fun in ((body[0], "triu0", "np.triu_indices"), (body[1], "tril1", "np.tril_indices")):
        ok = isinstance(st, ast.Assign) and _u(st.targets[0]) == var and isinstance(st.value, ast.Call) and _u(st.value.func) == fun and len(st.value.args) in (1, 2) \
            and not st.value.keywords and _u(st.value.args[0]) == "n"
        if not ok:
            f.bad(st, "upper_triangular_matrix_to_full_matrix: `%s = %s(n, k)` changed" % (var, fun))
        ks.append((_int(f, st.value.args[1], "a diagonal offset") if len(st.value.args) == 2 else 0, st))
    out["defs"].append(dict(name="util_triu_k", typ="Int", lean=_lint(ks[0][0]), node=ks[0][1], file=f.rel))
    out["defs"].append(dict(name="util_tril_k", typ="Int", lean=_lint(ks[1][0]), node=ks[1][1], file=f.rel))
    # not used by the modelled reader (only by user-defined edge types); checked for its shape only
    s = f.func("solve_for_edge_dimensionality")
    if [_u(x) for x in f.body(s)] != ["returnint(round(np.sqrt(2*n+2.25)-1.5))"]:
        f.bad(s, "solve_for_edge_dimensionality is no longer int(round(np.sqrt(2 * n + 2.25) - 1.5))")
    out["guards"].append(dict(name="util.solve_for_edge_dimensionality", node=s, file=f.rel))


# ---------------------------------------------------------------------------------------------------------------- driver

def translate(repo_path):
    """-> (lean text, [manifest entries]); raises Untranslatable(file, line, reason) when a statement cannot be located"""
    try:
        return _translate(repo_path)
    except Untranslatable:
        raise
    except (KeyError, IndexError, AttributeError, TypeError, ValueError, RecursionError) as e:  # an AST shape nobody anticipated
        raise Untranslatable("graphslam", 0, "%s while reading the source: %s" % (type(e).__name__, e))


def _translate(repo_path):
    out = dict(writer={}, reader={}, lists={}, defs=[], guards=[])
    g = "graphslam/"
    fv = _File(repo_path, g + "vertex.py")
    _vertex_writers(fv, out)
    _branch_readers(fv, out, "Vertex", VERTEX_KIND, "Vertex_from_g2o", ["cls", "line"])
    _check_init(fv, "Vertex", ["self", "vertex_id", "pose"], ["self.id=vertex_id", "self.pose=pose"])

    fo = _File(repo_path, g + "edge/edge_odometry.py")
    _edge_writers(fo, out, "EdgeOdometry", ODOM_KIND, "EdgeOdometry_to_g2o")
    _branch_readers(fo, out, "EdgeOdometry", ODOM_KIND, "EdgeOdometry_from_g2o", ["cls", "line", "g2o_params_or_none"])
    if any(isinstance(n, ast.FunctionDef) and n.name == "__init__" for n in fo.cls("EdgeOdometry").body):
        fo.bad(fo.cls("EdgeOdometry"), "EdgeOdometry has acquired its own __init__")

    fl = _File(repo_path, g + "edge/edge_landmark.py")
    _edge_writers(fl, out, "EdgeLandmark", LANDMARK_KIND_BY_POSE0, "EdgeLandmark_to_g2o")
    _branch_readers(fl, out, "EdgeLandmark", LANDMARK_KIND_BY_ESTIMATE, "EdgeLandmark_from_g2o", ["cls", "line", "g2o_params_or_none"])
    _check_init(fl, "EdgeLandmark", ["self", "vertex_ids", "information", "estimate", "offset", "offset_id"], ["self.offset=offset", "self.offset_id=offset_id"],
                supercall="super().__init__(vertex_ids,information,estimate,vertices)")

    fb = _File(repo_path, g + "edge/base_edge.py")
    _check_init(fb, "BaseEdge", ["self", "vertex_ids", "information", "estimate"], ["self.vertex_ids=vertex_ids", "self.information=information", "self.estimate=estimate"])
    # what a custom edge type inherits when it does not define the methods: both return None (the model's `CustomSpec.hasFrom = false`
    # and `EdgeBody.custom ... none`)
    be = fb.cls("BaseEdge")
    for mname, cm, pars in (("to_g2o", False, ["self"]), ("from_g2o", True, ["cls", "line", "g2o_params_or_none"])):
        m = fb.method(be, mname, classmethod_=cm)
        fb.params(m, pars)
        if [_u(x) for x in fb.body(m)] != ["returnNone"]:
            fb.bad(m, "BaseEdge.%s no longer just returns None" % mname)
        out["guards"].append(dict(name="BaseEdge." + mname, node=m, file=fb.rel))

    fp = _File(repo_path, g + "g2o_parameters.py")
    _check_init(fp, "BaseG2OParameter", ["self", "key", "value"], ["self.key=key", "self.value=value"])
    for cname in ("G2OParameterSE2Offset", "G2OParameterSE3Offset"):
        _param_writer(fp, out, cname)
        _param_reader(fp, out, cname)
        if any(isinstance(n, ast.FunctionDef) and n.name == "__init__" for n in fp.cls(cname).body):
            fp.bad(fp.cls(cname), "%s has acquired its own __init__" % cname)

    for rel, cname in (("pose/r2.py", "PoseR2"), ("pose/r3.py", "PoseR3"), ("pose/se2.py", "PoseSE2"), ("pose/se3.py", "PoseSE3")):
        _pose_ctor(_File(repo_path, g + rel), cname, out)
    fse2 = _File(repo_path, g + "pose/se2.py")
    idf = fse2.method(fse2.cls("PoseSE2"), "identity", classmethod_=True)
    if [_u(s) for s in fse2.body(idf)] not in (["returnPoseSE2([0.0,0.0],0.0)"], ["returncls([0.0,0.0],0.0)"]):
        fse2.bad(idf, "PoseSE2.identity is no longer PoseSE2([0.0, 0.0], 0.0)")
    out["guards"].append(dict(name="PoseSE2.identity", node=idf, file=fse2.rel))

    fg = _File(repo_path, g + "graph.py")
    _graph_to_g2o(fg, out)
    _graph_from_g2o(fg, out)
    _load_py(_File(repo_path, g + "load.py"), out)
    _util_py(_File(repo_path, g + "util.py"), out)

    for k in KINDS:
        if k not in out["writer"]:
            raise Untranslatable("graphslam", 0, "no to_g2o branch found for the line kind %s" % k)
        if k not in out["reader"]:
            raise Untranslatable("graphslam", 0, "no from_g2o branch found for the line kind %s" % k)

    # ------------------------------------------------------------------ render
    txt = "import GraphSlam.Core.G2OSpec\n\n/-! GENERATED by tools/translate/py2lean_g2o.py from /repo/graphslam — do not edit.\n\n"
    txt += "The statements of the `.g2o` writer and reader (`to_g2o` / `from_g2o` of `Vertex`, `EdgeOdometry`, `EdgeLandmark`, the two\n"
    txt += "`G2OParameter*Offset` classes, `Graph`; `load.py`; `util.upper_triangular_matrix_to_full_matrix`; the pose constructors) as found in\n"
    txt += "the current source, as data.  `GraphSlam/Props/Tie/G2OPy.lean` proves that the hand-written model `Model/G2O/*.lean` is the\n"
    txt += "interpretation (`Props/Tie/G2OInterp.lean`) of exactly these data. -/\n\n"
    txt += "namespace GraphSlam.Gen.G2OPy\nopen GraphSlam.G2OSpec\n\n"
    man = []

    def emit(name, typ, lean, node, file):
        nonlocal txt
        py = ast.unparse(node)
        sha = hashlib.sha256(py.encode()).hexdigest()
        first = [l for l in py.splitlines() if not l.startswith("@")][0][:140].replace("-/", "- /")
        txt += "/-- `%s:%d`  `%s`  sha256 %s -/\n" % (file, node.lineno, first.replace("`", "'"), sha[:16])
        txt += "def %s : %s :=\n  %s\n\n" % (name, typ, lean)
        man.append(dict(group="G2OPy", lean="G2OPy." + name, file=file, line=node.lineno, end_line=getattr(node, "end_lineno", node.lineno), sha256=sha,
                        py=dict(kind="g2o-snippet", name="G2OPy." + name), params=[], ret=["snippet"], needsF=False, doc_shape=None, note=None))

    for k in KINDS:
        w, r = out["writer"][k], out["reader"][k]
        emit(k + ".tag", "String", _lstr(w["fmt"].split(" ")[0]), w["node"], w["file"])
        emit(k + ".writer", w["typ"], w["lean"], w["node"], w["file"])
        emit(k + ".reader", "Reader", r["lean"], r["node"], r["file"])
    for name, (typ, members, node, file) in out["lists"].items():
        emit(name, "List " + typ, _llist(members), node, file)
    for d in out["defs"]:
        emit(d["name"], d["typ"], d["lean"], d["node"], d["file"])
    for gd in out["guards"]:
        py = ast.unparse(gd["node"])
        man.append(dict(group="G2OPy", lean="G2OPy.guard." + gd["name"], file=gd["file"], line=gd["node"].lineno, end_line=getattr(gd["node"], "end_lineno", gd["node"].lineno),
                        sha256=hashlib.sha256(py.encode()).hexdigest(), py=dict(kind="g2o-guard", name=gd["name"]), params=[], ret=["guard"], needsF=False, doc_shape=None, note="shape checked, no Lean definition"))
    txt += "end GraphSlam.Gen.G2OPy\n"
    return txt, man


def stub(error):
    """what to write to Generated/G2OPy.lean when the translation stopped: no definitions, so the tie theorems stop building"""
    return "import GraphSlam.Core.G2OSpec\n\n/-! GENERATED: the .g2o reader / writer statements could NOT be located in the current source:\n%s -/\n" % str(error).replace("-/", "- /")


if __name__ == "__main__":
    import sys

    repo = sys.argv[1] if len(sys.argv) > 1 else "/repo"
    try:
        text, manifest = translate(repo)
    except Untranslatable as e:
        print(json.dumps(dict(status="untranslatable", file=e.file, line=e.line, reason=e.reason)))
        if len(sys.argv) > 2:
            open(sys.argv[2], "w").write(stub(e))
        sys.exit(3)
    if len(sys.argv) > 2:
        open(sys.argv[2], "w").write(text)
    else:
        sys.stdout.write(text)
    sys.stderr.write(json.dumps(dict(status="ok", defs=len([m for m in manifest if m["ret"] == ["snippet"]]), guards=len([m for m in manifest if m["ret"] == ["guard"]]))) + "\n")
