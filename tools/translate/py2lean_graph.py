"""Layer-B snippets of graphslam/graph.py regenerated from the source on every run.

graph.py is imperative (dict accumulation, scipy slicing, a loop with an early return); its hand-written Lean models
(`Model/Ctl.lean`, `Model/Assembly.lean`, `Model/GraphIter.lean`) are tied to the code by correspondence.  This module adds
a second, kernel-checked tie for the *decision expressions* of that code: it locates them in the AST of the current source,
translates each into a Lean definition (`GraphSlam/Generated/GraphPy.lean`, namespace `GraphSlam.Gen.GraphPy`), and
`GraphSlam/Props/Tie/GraphPy.lean` proves that the hand model uses exactly these expressions.  If the source changes one of
them (a swapped operand in `rel_diff`, `<=` -> `<`, `or` -> `and` in the fixed-block test, a dropped transpose branch, ...)
the regenerated definition changes and the tie theorem stops checking; if a statement can no longer be located the
translation stops (`untranslatable`), which ./check treats as a broken tie as well.

Located statements (all in graphslam/graph.py):
  Graph.optimize                      chi2_prev initial value; both `rel_diff = ...`; the in-loop `if <stop test>`; the final
                                      `ret.converged = <stop test>`; the guard `if i > 0`; `self._vertices[0].fixed = True`;
                                      the comprehension of `_fixed_gradient_indices`; the `continue` test of the update loop
  _Chi2GradientHessian.update         the `if idx1 <= idx2` / else branch (key order, transpose), plain `+=` of chi2 and gradient
  Graph._calc_chi2_gradient_hessian   the four tests of the fill loops and the fixed-vertex identity loop
  Graph._initialize                   gradient-index accumulation, the id -> index dictionary
  Graph.calc_chi2                     the sum over edges
"""
import ast
import hashlib


class Untranslatable(Exception):
    def __init__(self, file, line, reason):
        super().__init__("%s:%s: %s" % (file, line, reason))
        self.file, self.line, self.reason = file, line, reason


REL = "graphslam/graph.py"


def _find(body, pred, what, line=0):
    for n in body:
        if pred(n):
            return n
    raise Untranslatable(REL, line, "cannot locate " + what)


def _walk_find(node, pred, what):
    for n in ast.walk(node):
        if pred(n):
            return n
    raise Untranslatable(REL, getattr(node, "lineno", 0), "cannot locate " + what)


class Sc:
    """scalar (float) expression -> Lean over ScalarF; names are mapped through `env`"""

    def __init__(self, env):
        self.env = env

    def bad(self, n, why):
        raise Untranslatable(REL, getattr(n, "lineno", 0), why + ": " + ast.unparse(n))

    def name_of(self, n):
        s = ast.unparse(n)
        if s in self.env:
            return self.env[s]
        self.bad(n, "unknown scalar operand")

    def ev(self, n):
        if isinstance(n, ast.Constant) and isinstance(n.value, (int, float)) and float(n.value) == int(n.value):
            return "Scalar.ofInt %d" % int(n.value) if n.value >= 0 else "Scalar.ofInt (%d)" % int(n.value)
        if isinstance(n, ast.UnaryOp) and isinstance(n.op, ast.USub):
            if isinstance(n.operand, ast.Constant) and isinstance(n.operand.value, (int, float)) and float(n.operand.value) == int(n.operand.value):
                return "Scalar.ofInt (-%d)" % int(n.operand.value)
            return "(- %s)" % self.ev(n.operand)
        if isinstance(n, ast.BinOp):
            a, b = self.ev(n.left), self.ev(n.right)
            if isinstance(n.op, ast.Add):
                return "(%s + %s)" % (a, b)
            if isinstance(n.op, ast.Sub):
                return "(%s - %s)" % (a, b)
            if isinstance(n.op, ast.Mult):
                return "(%s * %s)" % (a, b)
            if isinstance(n.op, ast.Div):
                return "(ScalarF.div %s %s)" % (a, b)
            self.bad(n, "unsupported operator")
        if isinstance(n, (ast.Name, ast.Attribute, ast.Call)):
            return self.name_of(n)
        self.bad(n, "unsupported scalar expression")

    def cond(self, n):
        """float comparison / and / or / not -> Bool"""
        if isinstance(n, ast.BoolOp):
            parts = [self.cond(v) for v in n.values]
            op = " && " if isinstance(n.op, ast.And) else " || "
            return "(" + op.join(parts) + ")"
        if isinstance(n, ast.UnaryOp) and isinstance(n.op, ast.Not):
            return "(!%s)" % self.cond(n.operand)
        if isinstance(n, ast.Compare) and len(n.ops) == 1:
            a, b = self.ev(n.left), self.ev(n.comparators[0])
            op = n.ops[0]
            # Python `a <= b` is the interface's `ge b a`, `a < b` is `gt b a`
            if isinstance(op, ast.LtE):
                return "ScalarF.ge %s %s" % (b, a)
            if isinstance(op, ast.Lt):
                return "ScalarF.gt %s %s" % (b, a)
            if isinstance(op, ast.GtE):
                return "ScalarF.ge %s %s" % (a, b)
            if isinstance(op, ast.Gt):
                return "ScalarF.gt %s %s" % (a, b)
        self.bad(n, "unsupported condition")


class Ix:
    """index (Nat) conditions: ==, !=, <=, <, >, in / not in a list, and / or / not -> Bool"""

    def __init__(self, env, sets):
        self.env, self.sets = env, sets

    def bad(self, n, why):
        raise Untranslatable(REL, getattr(n, "lineno", 0), why + ": " + ast.unparse(n))

    def tm(self, n):
        s = ast.unparse(n)
        if s in self.env:
            return self.env[s]
        if isinstance(n, ast.Constant) and isinstance(n.value, int) and n.value >= 0:
            return str(n.value)
        self.bad(n, "unknown index operand")

    def cond(self, n):
        if isinstance(n, ast.BoolOp):
            parts = [self.cond(v) for v in n.values]
            return "(" + (" && " if isinstance(n.op, ast.And) else " || ").join(parts) + ")"
        if isinstance(n, ast.UnaryOp) and isinstance(n.op, ast.Not):
            return "(!%s)" % self.cond(n.operand)
        if isinstance(n, ast.Compare) and len(n.ops) == 1:
            op, l, r = n.ops[0], n.left, n.comparators[0]
            if isinstance(op, (ast.In, ast.NotIn)):
                s = ast.unparse(r)
                if s not in self.sets:
                    self.bad(n, "membership in an unknown container")
                t = "(%s).contains %s" % (self.sets[s], self.tm(l))
                return t if isinstance(op, ast.In) else "(!%s)" % t
            a, b = self.tm(l), self.tm(r)
            table = {ast.Eq: "%s == %s", ast.NotEq: "%s != %s", ast.LtE: "decide (%s ≤ %s)", ast.Lt: "decide (%s < %s)", ast.GtE: "decide (%s ≥ %s)", ast.Gt: "decide (%s > %s)"}
            for k, fmt in table.items():
                if isinstance(op, k):
                    return "(" + fmt % (a, b) + ")"
        self.bad(n, "unsupported index condition")



def _effects(fn):
    """every assignment target and every bare call statement of a function body (nested blocks included)"""
    targets, calls = [], []
    for n in ast.walk(fn):
        if isinstance(n, ast.Assign):
            targets += [ast.unparse(t) for t in n.targets]
        elif isinstance(n, (ast.AugAssign, ast.AnnAssign)):
            targets.append(ast.unparse(n.target))
        elif isinstance(n, ast.Expr) and isinstance(n.value, ast.Call):
            calls.append(ast.unparse(n.value.func))
        elif isinstance(n, (ast.Global, ast.Nonlocal, ast.Delete, ast.With, ast.Try, ast.While)):
            calls.append("<%s>" % type(n).__name__)
    return targets, calls


def _check_effects(fn, allowed_targets, allowed_calls, once=()):
    """the function writes only what the model accounts for: a new assignment target (a cache, an in-place edit of a pose,
    a second write to dx, ...) or a new side-effecting call stops the translation"""
    import re

    targets, calls = _effects(fn)
    for t in targets:
        if not any(re.fullmatch(a, t.replace(" ", "")) for a in allowed_targets):
            raise Untranslatable(REL, fn.lineno, "%s writes `%s`, which the model does not account for" % (fn.name, t))
    for c in calls:
        if not any(re.fullmatch(a, c) for a in allowed_calls):
            raise Untranslatable(REL, fn.lineno, "%s has a side-effecting statement `%s(...)` the model does not account for" % (fn.name, c))
    for t in once:
        if sum(1 for x in targets if x == t) != 1:
            raise Untranslatable(REL, fn.lineno, "%s must assign `%s` exactly once" % (fn.name, t))


def _is_assign_to(st, name):
    return isinstance(st, ast.Assign) and len(st.targets) == 1 and ast.unparse(st.targets[0]) == name


def translate(repo_graph_py_source, base_edge_source=None, edge_sources=None):
    """-> (lean text, [manifest entries]); raises Untranslatable"""
    global REL
    tree = ast.parse(repo_graph_py_source)
    defs = []  # (lean name, binders, type, body, python text, line)

    def emit(name, binders, typ, body, node):
        defs.append(dict(lean="GraphPy." + name, binders=binders, typ=typ, body=body, py=ast.unparse(node), line=node.lineno, end_line=getattr(node, "end_lineno", node.lineno)))

    cls_graph = _find(tree.body, lambda n: isinstance(n, ast.ClassDef) and n.name == "Graph", "class Graph")
    cls_acc = _find(tree.body, lambda n: isinstance(n, ast.ClassDef) and n.name == "_Chi2GradientHessian", "class _Chi2GradientHessian")

    def method(cls, name):
        return _find(cls.body, lambda n: isinstance(n, ast.FunctionDef) and n.name == name, "%s.%s" % (cls.name, name), cls.lineno)

    # ------------------------------------------------------------------ Graph.optimize
    opt = method(cls_graph, "optimize")
    _check_effects(opt,
                   [r"start_time", r"ret", r"self\._vertices\[0\]\.fixed", r"self\._fixed_gradient_indices", r"chi2_prev", r"iteration_start_time",
                    r"calc_chi2_gradient_hessian_start_time", r"solve_start_time", r"update_start_time", r"rel_diff", r"dx", r"v\.pose",
                    r"ret\.(converged|num_iterations|initial_chi2|final_chi2|duration_s)", r"ret\.iteration_results\[-[12]\]\.\w+"],
                   [r"print", r"ret\.iteration_results\.append", r"self\._calc_chi2_gradient_hessian", r"self\.calc_chi2"],
                   once=("dx", "v.pose", "self._fixed_gradient_indices"))
    env = {"chi2_prev": "chi2_prev", "self._chi2": "chi2", "np.finfo(float).eps": "eps", "tol": "tol", "rel_diff": "rel_diff"}
    sc = Sc(env)
    # `verbose` only guards printing: every `if` that mentions it contains nothing but print(...) calls, and it is used nowhere else
    for n in ast.walk(opt):
        if isinstance(n, ast.If) and any(isinstance(x, ast.Name) and x.id == "verbose" for x in ast.walk(n.test)):
            if ast.unparse(n.test) != "verbose" or n.orelse or not all(isinstance(b, ast.Expr) and isinstance(b.value, ast.Call) and ast.unparse(b.value.func) == "print" for b in n.body):
                raise Untranslatable(REL, n.lineno, "an `if verbose` block of optimize does more than print")
    uses = [x for x in ast.walk(opt) if isinstance(x, ast.Name) and x.id == "verbose"]
    guards = [x for x in ast.walk(opt) if isinstance(x, ast.If) and ast.unparse(x.test) == "verbose"]
    if len(uses) != len(guards):
        raise Untranslatable(REL, opt.lineno, "`verbose` is used outside plain `if verbose:` guards")
    init = _find(opt.body, lambda s: _is_assign_to(s, "chi2_prev"), "chi2_prev initialisation", opt.lineno)
    emit("optimize_chi2_prev_init", "{E : Type} [ScalarF E]", "E", sc.ev(init.value), init)
    loop = _find(opt.body, lambda s: isinstance(s, ast.For) and ast.unparse(s.target) == "i", "the iteration loop of optimize", opt.lineno)
    if ast.unparse(loop.iter) != "range(max_iter)":
        raise Untranslatable(REL, loop.lineno, "the iteration loop is no longer `for i in range(max_iter)`")
    guard = _find(loop.body, lambda s: isinstance(s, ast.If) and any(_is_assign_to(x, "rel_diff") for x in s.body), "the convergence-check branch", loop.lineno)
    ix = Ix({"i": "i"}, {})
    emit("optimize_check_guard", "(i : Nat)", "Bool", ix.cond(guard.test), guard)
    rd1 = _find(guard.body, lambda s: _is_assign_to(s, "rel_diff"), "in-loop rel_diff", guard.lineno)
    emit("optimize_rel_diff_loop", "{E : Type} [ScalarF E] (eps chi2_prev chi2 : E)", "E", sc.ev(rd1.value), rd1)
    stop1 = _find(guard.body, lambda s: isinstance(s, ast.If) and any(isinstance(x, ast.Return) for x in s.body), "the early-return test", guard.lineno)
    emit("optimize_stop_loop", "{E : Type} [ScalarF E] (tol chi2_prev chi2 rel_diff : E)", "Bool", sc.cond(stop1.test), stop1)
    # what the early return records
    rec = {ast.unparse(s.targets[0]): ast.unparse(s.value) for s in stop1.body if isinstance(s, ast.Assign)}
    want = {"ret.converged": "True", "ret.num_iterations": "i", "ret.final_chi2": "self._chi2"}
    for k, v in want.items():
        if rec.get(k) != v:
            raise Untranslatable(REL, stop1.lineno, "early return no longer records %s = %s" % (k, v))
    # the statements that record chi2 / rel_diff of the previous iteration
    rec2 = {ast.unparse(s.targets[0]): ast.unparse(s.value) for s in guard.body if isinstance(s, ast.Assign)}
    for k, v in {"ret.iteration_results[-2].chi2": "self._chi2", "ret.iteration_results[-2].rel_diff": "-rel_diff"}.items():
        if rec2.get(k) != v:
            raise Untranslatable(REL, guard.lineno, "in-loop bookkeeping no longer records %s = %s" % (k, v))
    if not guard.orelse or not any(_is_assign_to(s, "ret.initial_chi2") and ast.unparse(s.value) == "self._chi2" for s in guard.orelse):
        raise Untranslatable(REL, guard.lineno, "initial_chi2 is no longer recorded in the first iteration")
    # order inside the loop: convergence check, then chi2_prev update, then solve, then the update loop
    upd_prev = _find(loop.body, lambda s: _is_assign_to(s, "chi2_prev") and ast.unparse(s.value) == "self._chi2", "chi2_prev = self._chi2", loop.lineno)
    solve = _find(loop.body, lambda s: _is_assign_to(s, "dx"), "dx = spsolve(...)", loop.lineno)
    if ast.unparse(solve.value) != "spsolve(self._hessian, -self._gradient)":
        raise Untranslatable(REL, solve.lineno, "the linear solve is no longer spsolve(self._hessian, -self._gradient)")
    vloop = _find(loop.body, lambda s: isinstance(s, ast.For) and ast.unparse(s.iter) == "self._vertices", "the update loop", loop.lineno)
    order = [loop.body.index(x) for x in (guard, upd_prev, solve, vloop)]
    if order != sorted(order):
        raise Untranslatable(REL, loop.lineno, "statement order inside the iteration loop changed")
    skip = _find(vloop.body, lambda s: isinstance(s, ast.If) and any(isinstance(x, ast.Continue) for x in s.body), "the fixed-vertex skip of the update loop", vloop.lineno)
    ixf = Ix({"v.gradient_index": "g", "gradient_idx": "g", "hessian_row_idx": "r", "hessian_col_idx": "c"}, {"self._fixed_gradient_indices": "fixed"})
    emit("optimize_update_skip", "(fixed : List Nat) (g : Nat)", "Bool", ixf.cond(skip.test), skip)
    upd = _find(vloop.body, lambda s: isinstance(s, ast.AugAssign), "v.pose += dx[...]", vloop.lineno)
    if not (isinstance(upd.op, ast.Add) and ast.unparse(upd.target) == "v.pose" and ast.unparse(upd.value).replace(" ", "") == "dx[v.gradient_index:v.gradient_index+v.pose.COMPACT_DIMENSIONALITY]"):
        raise Untranslatable(REL, upd.lineno, "the pose update is no longer v.pose += dx[g : g + COMPACT_DIMENSIONALITY]")
    # after the loop
    after = opt.body[opt.body.index(loop) + 1:]
    fin_chi2 = _find(after, lambda s: isinstance(s, ast.Expr) and ast.unparse(s.value) == "self.calc_chi2()", "the final calc_chi2()", loop.lineno)
    rd2 = _find(after, lambda s: _is_assign_to(s, "rel_diff"), "final rel_diff", loop.lineno)
    emit("optimize_rel_diff_final", "{E : Type} [ScalarF E] (eps chi2_prev chi2 : E)", "E", sc.ev(rd2.value), rd2)
    conv = _find(after, lambda s: _is_assign_to(s, "ret.converged"), "final ret.converged", loop.lineno)
    emit("optimize_stop_final", "{E : Type} [ScalarF E] (tol chi2_prev chi2 rel_diff : E)", "Bool", sc.cond(conv.value), conv)
    if not (after.index(fin_chi2) < after.index(rd2) < after.index(conv)):
        raise Untranslatable(REL, conv.lineno, "statement order after the iteration loop changed")
    rec3 = {ast.unparse(s.targets[0]): ast.unparse(s.value) for s in after if isinstance(s, ast.Assign)}
    for k, v in {"ret.iteration_results[-1].chi2": "self._chi2", "ret.iteration_results[-1].rel_diff": "-rel_diff", "ret.num_iterations": "max_iter", "ret.final_chi2": "self._chi2"}.items():
        if rec3.get(k) != v:
            raise Untranslatable(REL, conv.lineno, "final bookkeeping no longer records %s = %s" % (k, v))
    # fix_first_pose and the fixed set
    ffp = _find(opt.body, lambda s: isinstance(s, ast.If) and ast.unparse(s.test) == "fix_first_pose", "if fix_first_pose", opt.lineno)
    if [ast.unparse(s) for s in ffp.body] != ["self._vertices[0].fixed = True"] or ffp.orelse:
        raise Untranslatable(REL, ffp.lineno, "fix_first_pose no longer sets exactly self._vertices[0].fixed = True")
    emit("optimize_fix_first_index", "", "Nat", "0", ffp)
    fx = _find(opt.body, lambda s: _is_assign_to(s, "self._fixed_gradient_indices"), "the fixed index set", opt.lineno)
    if ast.unparse(fx.value) != "{v.gradient_index for v in self._vertices if v.fixed}":
        raise Untranslatable(REL, fx.lineno, "the fixed index set is no longer {v.gradient_index for v in self._vertices if v.fixed}")
    if not (opt.body.index(ffp) < opt.body.index(fx) < opt.body.index(loop)):
        raise Untranslatable(REL, fx.lineno, "fix_first_pose / fixed set / loop order changed")
    emit("optimize_fixed_set", "(flags : List Bool) (gidx : List Nat)", "List Nat", "((flags.zip gidx).filter (fun v => v.1)).map (fun v => v.2)", fx)

    # ------------------------------------------------------------------ _Chi2GradientHessian.update
    up = method(cls_acc, "update")
    _check_effects(up, [r"chi2_grad_hess\.chi2", r"chi2_grad_hess\.gradient\[idx\]", r"chi2_grad_hess\.hessian\[idx[12],idx[12]\]"], [])
    chi = _find(up.body, lambda s: isinstance(s, ast.AugAssign) and ast.unparse(s.target) == "chi2_grad_hess.chi2", "chi2 accumulation", up.lineno)
    if not (isinstance(chi.op, ast.Add) and ast.unparse(chi.value) == "incoming[0]"):
        raise Untranslatable(REL, chi.lineno, "chi2 is no longer accumulated with += incoming[0]")
    gl = _find(up.body, lambda s: isinstance(s, ast.For) and ast.unparse(s.iter) == "incoming[1]", "gradient accumulation loop", up.lineno)
    if [ast.unparse(s) for s in gl.body] != ["chi2_grad_hess.gradient[idx] += contrib"] or ast.unparse(gl.target) != "(idx, contrib)":
        raise Untranslatable(REL, gl.lineno, "gradient contributions are no longer accumulated with gradient[idx] += contrib")
    hl = _find(up.body, lambda s: isinstance(s, ast.For) and ast.unparse(s.iter) == "incoming[2]", "Hessian accumulation loop", up.lineno)
    if ast.unparse(hl.target) != "((idx1, idx2), contrib)":
        raise Untranslatable(REL, hl.lineno, "Hessian loop target changed")
    if len(hl.body) == 1 and isinstance(hl.body[0], ast.If):
        br = hl.body[0]
        test = Ix({"idx1": "idx1", "idx2": "idx2"}, {}).cond(br.test)
        branches = [(test, br.body), ("true", br.orelse)]
    else:
        branches = [("true", hl.body)]

    def aug(stmts, where):
        if len(stmts) != 1 or not isinstance(stmts[0], ast.AugAssign) or not isinstance(stmts[0].op, ast.Add):
            raise Untranslatable(REL, where, "a Hessian accumulation branch is not a single `+=`")
        s = stmts[0]
        t = ast.unparse(s.target).replace(" ", "")
        keys = {"chi2_grad_hess.hessian[idx1,idx2]": "(idx1, idx2)", "chi2_grad_hess.hessian[idx2,idx1]": "(idx2, idx1)"}
        vals = {"contrib": "false", "np.transpose(contrib)": "true", "contrib.T": "true", "contrib.transpose()": "true"}
        v = ast.unparse(s.value)
        if t not in keys or v not in vals:
            raise Untranslatable(REL, s.lineno, "unrecognised Hessian accumulation statement: " + ast.unparse(s))
        return keys[t], vals[v]

    if len(branches) == 2:
        k1, t1 = aug(branches[0][1], hl.lineno)
        k2, t2 = aug(branches[1][1], hl.lineno)
        emit("update_hessian_key", "(idx1 idx2 : Nat)", "Nat × Nat", "if %s then %s else %s" % (branches[0][0], k1, k2), hl)
        emit("update_hessian_transposed", "(idx1 idx2 : Nat)", "Bool", "if %s then %s else %s" % (branches[0][0], t1, t2), hl)
    else:
        k1, t1 = aug(branches[0][1], hl.lineno)
        emit("update_hessian_key", "(idx1 idx2 : Nat)", "Nat × Nat", k1, hl)
        emit("update_hessian_transposed", "(idx1 idx2 : Nat)", "Bool", t1, hl)

    # ------------------------------------------------------------------ Graph._calc_chi2_gradient_hessian
    cg = method(cls_graph, "_calc_chi2_gradient_hessian")
    _check_effects(cg, [r"chi2_gradient_hessian", r"self\._chi2", r"self\._gradient", r"self\._gradient\[.*\]", r"self\._hessian", r"self\._hessian\[.*\]", r"\(?rows,cols\)?", r"n"], [],
                   once=("self._gradient", "self._hessian", "self._chi2"))
    red = _find(cg.body, lambda s: _is_assign_to(s, "chi2_gradient_hessian"), "the reduce over edges", cg.lineno)
    if ast.unparse(red.value).replace(" ", "") != "reduce(_Chi2GradientHessian.update,(e.calc_chi2_gradient_hessian()foreinself._edges),_Chi2GradientHessian())":
        raise Untranslatable(REL, red.lineno, "the accumulation is no longer reduce(update, (e.calc_chi2_gradient_hessian() for e in self._edges), _Chi2GradientHessian())")
    gfill = _find(cg.body, lambda s: isinstance(s, ast.For) and ast.unparse(s.iter) == "chi2_gradient_hessian.gradient.items()", "gradient fill loop", cg.lineno)
    gtest = _find(gfill.body, lambda s: isinstance(s, ast.If), "gradient fill test", gfill.lineno)
    emit("fill_gradient_test", "(fixed : List Nat) (g : Nat)", "Bool", ixf.cond(gtest.test), gtest)
    gst = [ast.unparse(s).replace(" ", "") for s in gtest.body]
    if gst != ["self._gradient[gradient_idx:gradient_idx+len(contrib)]+=contrib"] or gtest.orelse:
        raise Untranslatable(REL, gtest.lineno, "gradient fill statement changed")
    hfill = _find(cg.body, lambda s: isinstance(s, ast.For) and ast.unparse(s.iter) == "chi2_gradient_hessian.hessian.items()", "Hessian fill loop", cg.lineno)
    hf = _find(hfill.body, lambda s: isinstance(s, ast.If) and any(isinstance(x, ast.Continue) for x in s.body), "fixed-block test of the Hessian fill", hfill.lineno)
    emit("fill_hessian_fixed_test", "(fixed : List Nat) (r c : Nat)", "Bool", ixf.cond(hf.test), hf)
    inner = _find(hf.body, lambda s: isinstance(s, ast.If), "diagonal test inside the fixed branch", hf.lineno)
    emit("fill_hessian_fixed_diag_test", "(r c : Nat)", "Bool", ixf.cond(inner.test), inner)
    ist = [ast.unparse(s).replace(" ", "") for s in inner.body]
    if ist != ["self._hessian[hessian_row_idx:hessian_row_idx+rows,hessian_col_idx:hessian_col_idx+cols]=np.eye(rows,cols)"] or inner.orelse:
        raise Untranslatable(REL, inner.lineno, "identity block assignment of the fixed branch changed")
    asg = _find(hfill.body, lambda s: isinstance(s, ast.Assign) and ast.unparse(s.targets[0]).startswith("self._hessian["), "block assignment", hfill.lineno)
    if ast.unparse(asg).replace(" ", "") != "self._hessian[hessian_row_idx:hessian_row_idx+rows,hessian_col_idx:hessian_col_idx+cols]=contrib":
        raise Untranslatable(REL, asg.lineno, "block assignment of the Hessian fill changed")
    tr = _find(hfill.body, lambda s: isinstance(s, ast.If) and s is not hf, "off-diagonal test of the Hessian fill", hfill.lineno)
    emit("fill_hessian_mirror_test", "(r c : Nat)", "Bool", ixf.cond(tr.test), tr)
    tst = [ast.unparse(s).replace(" ", "") for s in tr.body]
    if tst != ["self._hessian[hessian_col_idx:hessian_col_idx+cols,hessian_row_idx:hessian_row_idx+rows]=np.transpose(contrib)"] or tr.orelse:
        raise Untranslatable(REL, tr.lineno, "mirrored block assignment changed")
    if not (hfill.body.index(hf) < hfill.body.index(asg) < hfill.body.index(tr)):
        raise Untranslatable(REL, hfill.lineno, "statement order of the Hessian fill changed")
    # fresh arrays on every call
    g0 = _find(cg.body, lambda s: _is_assign_to(s, "self._gradient"), "gradient allocation", cg.lineno)
    h0 = _find(cg.body, lambda s: _is_assign_to(s, "self._hessian"), "Hessian allocation", cg.lineno)
    if ast.unparse(g0.value).replace(" ", "") != "np.zeros(self._len_gradient,dtype=np.float64)" or ast.unparse(h0.value).replace(" ", "") != "lil_matrix((self._len_gradient,self._len_gradient),dtype=np.float64)":
        raise Untranslatable(REL, g0.lineno, "gradient / Hessian are no longer freshly allocated (zero) on every call")
    vfix = _find(cg.body, lambda s: isinstance(s, ast.For) and ast.unparse(s.iter) == "self._vertices", "identity blocks of fixed vertices", cg.lineno)
    vt = _find(vfix.body, lambda s: isinstance(s, ast.If), "fixed-vertex test", vfix.lineno)
    emit("fill_fixed_vertex_test", "(fixed : List Nat) (g : Nat)", "Bool", ixf.cond(vt.test), vt)
    if not (cg.body.index(g0) < cg.body.index(gfill) and cg.body.index(h0) < cg.body.index(hfill) < cg.body.index(vfix)):
        raise Untranslatable(REL, cg.lineno, "statement order of _calc_chi2_gradient_hessian changed")

    # ------------------------------------------------------------------ Graph._initialize / calc_chi2
    ini = method(cls_graph, "_initialize")
    _check_effects(ini, [r"gradient_index", r"v\.gradient_index", r"self\._len_gradient", r"id_index_dict", r"e\.vertices"], [])
    vl = _find(ini.body, lambda s: isinstance(s, ast.For) and ast.unparse(s.iter) == "self._vertices", "gradient-index loop", ini.lineno)
    if [ast.unparse(s) for s in vl.body] != ["v.gradient_index = gradient_index", "gradient_index += v.pose.COMPACT_DIMENSIONALITY"]:
        raise Untranslatable(REL, vl.lineno, "gradient indices are no longer running sums of COMPACT_DIMENSIONALITY")
    g00 = _find(ini.body, lambda s: _is_assign_to(s, "gradient_index"), "gradient_index = 0", ini.lineno)
    emit("initialize_first_index", "", "Nat", Ix({}, {}).tm(g00.value), g00)
    idd = _find(ini.body, lambda s: _is_assign_to(s, "id_index_dict"), "id_index_dict", ini.lineno)
    if ast.unparse(idd.value) != "{v.id: i for i, v in enumerate(self._vertices)}":
        raise Untranslatable(REL, idd.lineno, "id_index_dict is no longer {v.id: i for i, v in enumerate(self._vertices)}")
    el = _find(ini.body, lambda s: isinstance(s, ast.For) and ast.unparse(s.iter) == "self._edges", "edge binding loop", ini.lineno)
    if [ast.unparse(s) for s in el.body] != ["e.vertices = [self._vertices[id_index_dict[v_id]] for v_id in e.vertex_ids]"]:
        raise Untranslatable(REL, el.lineno, "edges are no longer bound through id_index_dict for every vertex id")
    cc = method(cls_graph, "calc_chi2")
    _check_effects(cc, [r"self\._chi2"], [])
    s0 = _find(cc.body, lambda s: _is_assign_to(s, "self._chi2"), "self._chi2 = sum(...)", cc.lineno)
    if ast.unparse(s0.value).replace(" ", "") not in ("sum((e.calc_chi2()foreinself._edges))", "sum(e.calc_chi2()foreinself._edges)"):
        raise Untranslatable(REL, s0.lineno, "Graph.calc_chi2 is no longer the plain sum of the edges' chi2")

    # ------------------------------------------------------------------ base_edge.py: numerical differentiation
    if base_edge_source is not None:
        defs_before = len(defs)
        rel_saved, REL = REL, "graphslam/edge/base_edge.py"
        try:
            bt = ast.parse(base_edge_source)
            be = _find(bt.body, lambda n: isinstance(n, ast.ClassDef) and n.name == "BaseEdge", "class BaseEdge")
            epsdef = _find(be.body, lambda s: _is_assign_to(s, "_NUMERICAL_DIFFERENTIATION_EPSILON"), "_NUMERICAL_DIFFERENTIATION_EPSILON", be.lineno)
            if not (isinstance(epsdef.value, ast.Constant) and epsdef.value.value == 1e-6):
                raise Untranslatable(REL, epsdef.lineno, "the forward-difference step is no longer 1e-6")
            cj = method(be, "calc_jacobians")
            body = [ast.unparse(s).replace(" ", "") for s in cj.body if not (isinstance(s, ast.Expr) and isinstance(s.value, ast.Constant))]
            if body != ["err=self.calc_error()", "return[self._calc_jacobian(err,v.pose.COMPACT_DIMENSIONALITY,i)fori,vinenumerate(self.vertices)]"]:
                raise Untranslatable(REL, cj.lineno, "BaseEdge.calc_jacobians no longer has the shape the NumJac model mirrors")
            nj = method(be, "_calc_jacobian")
            nb = [s for s in nj.body if not (isinstance(s, ast.Expr) and isinstance(s.value, ast.Constant))]
            shape_ok = len(nb) == 4 and isinstance(nb[2], ast.For) and isinstance(nb[3], ast.Return)
            if shape_ok:
                head = [ast.unparse(s).replace(" ", "") for s in nb[:2]]
                shape_ok = head == ["jacobian=np.zeros(err.shape+(dim,))", "p0=self.vertices[vertex_index].pose.copy()"] and ast.unparse(nb[3]) == "return jacobian"
                lp = nb[2]
                shape_ok = shape_ok and ast.unparse(lp.target) == "d" and ast.unparse(lp.iter) == "range(dim)" and len(lp.body) == 5 and not lp.orelse
            if shape_ok:
                lb = [ast.unparse(s).replace(" ", "") for s in lp.body]
                shape_ok = lb[0] == "delta_pose=np.zeros(dim)" and lb[1] == "delta_pose[d]=self._NUMERICAL_DIFFERENTIATION_EPSILON" and lb[2] == "self.vertices[vertex_index].pose+=delta_pose" \
                    and lb[4] == "self.vertices[vertex_index].pose=p0.copy()" and isinstance(lp.body[3], ast.Assign) and ast.unparse(lp.body[3].targets[0]).replace(" ", "") == "jacobian[:,d]"
            if not shape_ok:
                raise Untranslatable(REL, nj.lineno, "BaseEdge._calc_jacobian no longer has the perturb / difference / restore shape the NumJac model mirrors")
            fd = Sc({"self.calc_error()": "errd", "err": "err0", "self._NUMERICAL_DIFFERENTIATION_EPSILON": "eps"})
            emit("numjac_fd_entry", "{E : Type} [ScalarF E] (eps err0 errd : E)", "E", fd.ev(lp.body[3].value), lp.body[3])
        finally:
            REL = rel_saved
        for d in defs[defs_before:]:
            d["file"] = "graphslam/edge/base_edge.py"

    # ------------------------------------------------------------------ built-in edge classes use the base-class linearisation
    for rel_e, src_e in (edge_sources or {}).items():
        te = ast.parse(src_e)
        for cdef in [n for n in te.body if isinstance(n, ast.ClassDef)]:
            if not any(ast.unparse(b) == "BaseEdge" for b in cdef.bases):
                continue
            for fn in [n for n in cdef.body if isinstance(n, ast.FunctionDef)]:
                if fn.name in ("calc_chi2", "calc_chi2_gradient_hessian", "_calc_jacobian", "_is_valid"):
                    raise Untranslatable(rel_e, fn.lineno, "%s overrides BaseEdge.%s: the assembly model mirrors the base-class method only" % (cdef.name, fn.name))

    # ------------------------------------------------------------------ render
    txt = "import GraphSlam.Core.Scalar\n\n/-! GENERATED by tools/translate/py2lean_graph.py from /repo/graphslam/graph.py — do not edit.\n\n"
    txt += "Decision expressions of `Graph.optimize`, `_Chi2GradientHessian.update`, `Graph._calc_chi2_gradient_hessian` and\n`Graph._initialize` as found in the current source.  `GraphSlam/Props/Tie/GraphPy.lean` proves that the hand-written models\nuse exactly these expressions. -/\n\n"
    txt += "set_option linter.unusedVariables false\n\nnamespace GraphSlam.Gen\nopen GraphSlam\n\n"
    man = []
    for d in defs:
        sha = hashlib.sha256(d["py"].encode()).hexdigest()
        pyline = d["py"].splitlines()[0][:140].replace("-/", "- /")
        txt += "/-- `%s:%d`  `%s`  sha256 %s -/\n" % (d.get("file", REL), d["line"], pyline, sha[:16])
        txt += "def %s %s : %s :=\n  %s\n\n" % (d["lean"], d["binders"], d["typ"], d["body"])
        man.append(dict(group="GraphPy", lean=d["lean"], file=d.get("file", REL), line=d["line"], end_line=d["end_line"], sha256=sha, py=dict(kind="graph-snippet", name=d["lean"]), params=[], ret=["snippet"], needsF=False, doc_shape=None, note=None))
    txt += "end GraphSlam.Gen\n"
    return txt, man
