"""Per-property configuration of ./check: which Lean modules hold the registered theorems, which harness ties them to
the code, which implementation-level oracle searches for a failing input when the tie breaks."""

GEN_POSE = ["GraphSlam/Generated/Pose*.lean"]

PROPS = {
    "C01": dict(
        modules=["GraphSlam.Props.C01"],
        theorem_files=["GraphSlam/Props/C01/*.lean"],
        scan_files=["GraphSlam/Real/*.lean", "GraphSlam/Core/*.lean", "GraphSlam/Props/C10/*Core.lean", "GraphSlam/Props/C10/SE3Boxplus.lean"],
        corr=[("harness.entry", "layer_a", dict(only=["Edge", "Pose", "Util"], quick=25, thorough=400))],
        search=("search.entry", "c01"),
        replay=("search.entry", "replay_jacobian"),
        rule="translator validation: generated calc_error_* / calc_jacobians_* (and every pose definition they call) evaluated at Float vs "
        "edge.calc_error() / edge.calc_jacobians() of real EdgeOdometry / EdgeLandmark objects on stratified inputs (all four pose types, "
        "rotated and identity offsets, quaternions with w<0, w=0, near 180deg, angles near +-pi); non-trivial = definition has arguments",
        assumptions=["real arithmetic (no rounding)", "SE(2) odometry: the final angular error is not on the wrap (the property's own exclusion)"],
        technique="Lean 4 proof: chain rule (HasFDerivAt.comp) over pose-level derivative theorems; SE(2) by reflection with inner wraps eliminated",
        level_text="16 theorems (odometry x {R2,R3,SE2,SE3}, landmark x {R2->R2,R3->R3,SE2->R2,SE3->R3}, each vertex): the matrix calc_jacobians() "
        "returns, as regenerated from the current source, is the Frechet derivative at 0 of delta -> calc_error with the vertex replaced by pose [+] delta, "
        "for all real poses/measurements/offsets. Translator validated against the real edge objects every run.",
        level_note="Trusted: Lean kernel, Mathlib analysis, py2lean translator (validated at Float every run). Real arithmetic; float rounding of Jacobian entries not covered.",
    ),
    "C02": dict(
        modules=["GraphSlam.Props.C02"],
        theorem_files=["GraphSlam/Props/C02/*.lean"],
        scan_files=["GraphSlam/Real/*.lean", "GraphSlam/Core/*.lean", "GraphSlam/Model/Chi2.lean", "GraphSlam/Props/C09/*.lean"],
        corr=[
            ("harness.entry", "layer_a", dict(only=["Edge", "BaseEdge", "Pose", "Util"], quick=25, thorough=400)),
            ("harness.entry", "graph_chi2", dict(quick=60, thorough=2000)),
        ],
        search=("search.entry", "c02"),
        replay=("search.entry", "replay_generic"),
        rule="(1) translator validation of calc_error_* and BaseEdge.calc_chi2 at Float vs real edges; (2) per random graph (2d/3d/r2/r3/mixed worlds, multi-edges, both vertex orders, "
        "custom edges, cond(Omega) up to 1e8): every edge chi2 vs generated calc_chi2 on the implementation's own error vector, and Graph.calc_chi2() bit-equal to Model.graphChi2 "
        "(Python sum from 0) of the implementation's edge values; non-trivial = one edge",
        assumptions=["real arithmetic", "SE(3) statements: unit quaternions for vertices and measurements", "positive (semi-)definiteness stated as the quadratic-form inequality"],
        technique="Lean 4 proof: group-law rewriting (C09) of the generated error definitions, quadratic-form algebra, list induction for the graph sum",
        level_text="Theorems: calc_error of odometry edges is the compact form of (p0^-1 (+) p1)^-1 (+) z (matrix form proved for SE(3)); landmark error is ((p0 (+) off)^-1 . l) - z; "
        "calc_chi2 = e^T Omega e; graph chi2 (model of graph.py:364) = sum of edge chi2; chi2>=0 for PSD Omega, =0 iff e=0 for PD Omega, linear in Omega; "
        "error = 0 iff measurement agrees (SE(3): equal translation and q_z = +-q_delta; SE(2): equal position, angle congruent mod 2pi).",
        level_note="Trusted: Lean kernel, Mathlib, translator (validated every run), chi2 harness (bit-exact comparison of the sum). Graph.calc_chi2 is a hand model (one line) tied by correspondence.",
    ),
    "C09": dict(
        modules=["GraphSlam.Props.C09"],
        theorem_files=["GraphSlam/Props/C09/*.lean", "GraphSlam/Props/C10/SE3Boxplus.lean"],
        scan_files=["GraphSlam/Real/*.lean", "GraphSlam/Core/*.lean"],
        corr=[("harness.entry", "layer_a", dict(only=["Pose", "Util"], quick=25, thorough=400))],
        search=("search.entry", "c09"),
        replay=("search.entry", "replay_generic"),
        rule="translator validation of every generated pose definition (constructors, copy, to_matrix, inverse, (+) in its three dispatch branches, (-), "
        "normalize) at Float vs the real methods on stratified inputs; non-trivial = definition has arguments",
        assumptions=["real arithmetic (no rounding)", "SE(3): unit-quaternion operands where displayed (the code's 1-2(y^2+z^2) rotation form is a rotation only on the unit sphere)",
                     "SE(2): InRange only where a bare operand appears as one side of an equation"],
        technique="Lean 4 proof: ring / linear_combination (sympy-found, kernel-checked cofactors) on definitions regenerated from the source; wrap algebra for SE(2)",
        level_text="Group laws for all four pose types as theorems about the regenerated definitions: (+) = product of homogeneous matrices (code's to_matrix; rotation block proved orthogonal), "
        "a(-)b = b^-1(+)a, two-sided inverse and identity, associativity, pose(+)point = matrix action (and compatible with composition), "
        "p[+]delta = p(+)expmap(delta) incl. the documented |dv|>1 fallback; SE(2) equalities exact including the wrapped angle.",
        level_note="Trusted: Lean kernel, Mathlib, py2lean translator (validated at Float every run). __iadd__ (base_pose.py:155-169, `return self + other`) is not translated; its delegation is exercised by the search oracle only.",
    ),
    "C11": dict(
        modules=["GraphSlam.Props.C11"],
        theorem_files=["GraphSlam/Props/C11/*.lean", "GraphSlam/Props/C09/SE2.lean", "GraphSlam/Real/Wrap.lean"],
        scan_files=["GraphSlam/Real/*.lean", "GraphSlam/Core/*.lean", "GraphSlam/Props/C09/SE3.lean"],
        corr=[("harness.entry", "layer_a", dict(only=["Pose", "Util"], quick=25, thorough=400))],
        search=("search.entry", "c11"),
        always_search=True,
        replay=("search.entry", "replay_generic"),
        rule="translator validation as C09; plus (exploration, every run) linear operation histories on the real objects: |q|-1 within 2e-15*(steps+10), angle in [-pi,pi], "
        "wrap congruent to the 50-digit reference within 4 ulp, normalize() unit / w>=0 / same rotation",
        assumptions=["real arithmetic for the theorems; 'up to accumulated rounding' is measured on the real code every run, not proved"],
        proved_level="partial",
        unproved=["float rounding: accumulated norm drift and the closed upper end (+pi) of the float wrap are measured by the chain exploration, not proved"],
        technique="Lean 4 proof: invariant by induction over an inductive type of operation histories (Reach), wrap range/congruence lemmas; float drift measured",
        level_text="Proved for histories of any length: every PoseSE2 constructor/(+)/(-)/inverse/[+]/copy result has its angle in [-pi,pi) and congruent mod 2pi to the exact angle; "
        "the quaternion norm is multiplicative under (+),(-), preserved by inverse/copy, box-plus returns a unit quaternion for every increment (both branches), hence any Reach-able pose and any vertex after n updates is unit; "
        "normalize() gives unit norm, w>=0 and the same rotation. PARTIAL: exact arithmetic only.",
        level_note="Partial: rounding is outside the theorems; measured by operation chains on the real code each run (quick 2 types x 4 chains x 2500 ops).",
    ),
    "C10": dict(
        modules=["GraphSlam.Props.C10"],
        theorem_files=["GraphSlam/Props/C10/*.lean"] + GEN_POSE,
        scan_files=["GraphSlam/Real/*.lean", "GraphSlam/Core/*.lean"],
        corr=[("harness.entry", "layer_a", dict(only=["Pose", "Util"], quick=25, thorough=400))],
        search=("search.entry", "c10"),
        replay=("search.entry", "replay_jacobian"),
        rule="translator validation: every generated pose definition evaluated at Float vs the real method on stratified inputs "
        "(quaternion sign patterns, w=0, near-identity, near-180deg, angles near +-pi and beyond, |t| up to 1e4, box-plus increments on both sides of |dv|=1); "
        "a case is non-trivial when the definition has at least one argument",
        assumptions=["real arithmetic (no rounding)", "SE(2): result angle not on the wrap (the real-valued angle coordinate is discontinuous there)"],
        technique="Lean 4 proof: verified symbolic differentiation (HasFDerivAt) of definitions regenerated from the Python source",
        level_text="48 theorems: each public jacobian_* method of PoseR2/R3/SE2/SE3, as regenerated from the current source, is the Frechet derivative (Mathlib HasFDerivAt) of the named operation w.r.t. the named operand at every real operand; compact variants are the leading rows; documented shapes equal actual shapes. The translator is validated every run against the real methods.",
        level_note="Trusted: Lean kernel, Mathlib's analysis library, the py2lean translator (validated at Float every run). Real arithmetic, not IEEE-754. SE(2) theorems exclude the wrap discontinuity of the result angle.",
    ),
}

NOT_APPLICABLE = {}
