"""Per-property configuration of ./check: which Lean modules hold the registered theorems, which harness ties them to
the code, which implementation-level oracle searches for a failing input when the tie breaks."""

GEN_POSE = ["GraphSlam/Generated/Pose*.lean"]
G2O_SCAN = ["GraphSlam/Props/C13/*.lean", "GraphSlam/Props/C14/*.lean", "GraphSlam/Model/G2O.lean", "GraphSlam/Model/G2O/*.lean", "Driver/G2OMain.lean"]

PROPS = {
    "C01": dict(
        modules=["GraphSlam.Props.C01"],
        theorem_files=["GraphSlam/Props/C01/*.lean"],
        scan_files=["GraphSlam/Real/*.lean", "GraphSlam/Core/*.lean", "GraphSlam/Props/C10/*Core.lean", "GraphSlam/Props/C10/SE3Boxplus.lean"],
        corr=[("harness.entry", "layer_a", dict(only=["Edge", "Pose", "Util"], quick=25, thorough=400))],
        search=("search.entry", "c01"),
        always_search=True,
        replay=("search.entry", "replay_jacobian"),
        rule="translator validation: generated calc_error_* / calc_jacobians_* (and every pose definition they call) evaluated at Float vs "
        "edge.calc_error() / edge.calc_jacobians() of real EdgeOdometry / EdgeLandmark objects on stratified inputs (all four pose types, "
        "rotated and identity offsets, quaternions with w<0, w=0, near 180deg, angles near +-pi); non-trivial = definition has arguments",
        assumptions=["real arithmetic (no rounding)", "SE(2) odometry: the final angular error is not on the wrap (the property's own exclusion)"],
        technique="Lean 4 proof: chain rule (HasFDerivAt.comp) over pose-level derivative theorems; SE(2) by reflection with inner wraps eliminated",
        level_text="16 theorems (odometry x {R2,R3,SE2,SE3}, landmark x {R2->R2,R3->R3,SE2->R2,SE3->R3}, each vertex): the matrix calc_jacobians() "
        "returns, as regenerated from the current source, is the Frechet derivative at 0 of delta -> calc_error with the vertex replaced by pose [+] delta, "
        "for all real poses/measurements/offsets. Translator validated against the real edge objects every run.",
        level_note="Trusted: Lean kernel, Mathlib analysis, py2lean translator (validated at Float every run). Real arithmetic; float rounding of Jacobian entries not covered.",
    ),
    "C02": dict(
        modules=["GraphSlam.Props.C02"],
        theorem_files=["GraphSlam/Props/Tie/GraphPy.lean", "GraphSlam/Props/C02/*.lean"],
        scan_files=["GraphSlam/Generated/GraphPy.lean", "GraphSlam/Real/*.lean", "GraphSlam/Core/*.lean", "GraphSlam/Model/Chi2.lean", "GraphSlam/Props/C09/*.lean"],
        graph_tie=True,
        corr=[
            ("harness.entry", "layer_a", dict(only=["Edge", "BaseEdge", "Pose", "Util"], quick=25, thorough=400)),
            ("harness.entry", "graph_chi2", dict(quick=60, thorough=2000)),
        ],
        search=("search.entry", "c02"),
        always_search=True,
        replay=("search.entry", "replay_generic"),
        rule="(1) translator validation of calc_error_* and BaseEdge.calc_chi2 at Float vs real edges; (2) per random graph (2d/3d/r2/r3/mixed worlds, multi-edges, both vertex orders, "
        "custom edges, cond(Omega) up to 1e8): every edge chi2 vs generated calc_chi2 on the implementation's own error vector, and Graph.calc_chi2() bit-equal to Model.graphChi2 "
        "(Python sum from 0) of the implementation's edge values; non-trivial = one edge",
        assumptions=["real arithmetic", "SE(3) statements: unit quaternions for vertices and measurements", "positive (semi-)definiteness stated as the quadratic-form inequality"],
        technique="Lean 4 proof: group-law rewriting (C09) of the generated error definitions, quadratic-form algebra, list induction for the graph sum",
        level_text="Theorems: calc_error of odometry edges is the compact form of (p0^-1 (+) p1)^-1 (+) z (matrix form proved for SE(3)); landmark error is ((p0 (+) off)^-1 . l) - z; "
        "calc_chi2 = e^T Omega e; graph chi2 (model of graph.py:364) = sum of edge chi2; chi2>=0 for PSD Omega, =0 iff e=0 for PD Omega, linear in Omega; "
        "error = 0 iff measurement agrees (SE(3): equal translation and q_z = +-q_delta; SE(2): equal position, angle congruent mod 2pi).",
        level_note="Trusted: Lean kernel, Mathlib, translator (validated every run), chi2 harness (bit-exact comparison of the sum). Graph.calc_chi2 is a hand model (one line) tied by correspondence. Regenerated tie: the decision expressions / statement skeleton of graph.py and base_edge.py are re-translated every run (tools/translate/py2lean_graph.py -> Generated/GraphPy.lean) and Props/Tie/GraphPy.lean proves that the hand models use exactly them.",
    ),
    "C03": dict(
        modules=["GraphSlam.Props.C03"],
        theorem_files=["GraphSlam/Props/Tie/GraphPy.lean", "GraphSlam/Props/C03/*.lean", "GraphSlam/Props/E2E/Step.lean"],
        scan_files=["GraphSlam/Generated/GraphPy.lean", "GraphSlam/Real/Instance.lean", "GraphSlam/Core/*.lean", "GraphSlam/Model/Assembly.lean", "GraphSlam/Model/GraphIter.lean", "GraphSlam/Props/C06/*.lean"],
        needs_generated=True,
        graph_tie=True,
        corr=[
            ("harness.entry", "assembly", dict(quick=80, thorough=3000)),
            ("harness.entry", "graphiter", dict(quick=60, thorough=2500)),
            ("harness.entry", "layer_a", dict(only=["BaseEdge"], quick=40, thorough=400)),
        ],
        search=("search.entry", "c03"),
        always_search=True,
        replay=("search.entry", "replay_generic"),
        rule="stage-wise correspondence on random graphs (2d/3d/r2/r3/mixed worlds, shuffled/huge/plain ids, multi-edges, both vertex orders, landmark edges with offsets, "
        "custom unary/binary/ternary edges with numerical and analytic Jacobians, 0..all vertices fixed, isolated fixed vertices, fix_first_pose on/off): contribs, accumulate (keys exact), "
        "fill (zero pattern exact, fixed rows exact), spsolve residual, box-plus update; each stage fed the implementation's own upstream values; non-trivial = one graph",
        assumptions=["real arithmetic", "spsolve returns the solution of the assembled system (its residual is checked on every recorded call; it is a parameter of the model)",
                     "per-edge sum theorem: symmetric information matrix and pairwise distinct vertices within one edge (self-loop counterexample proved)"],
        technique="Lean 4 proof: induction over edge and contribution lists for the block dictionaries of a hand model mirroring graph.py, tied by stage-wise correspondence",
        level_text="Proved for every edge list (any length, parallel edges, either vertex order, mixed dimensions, n-ary edges): the Hessian dictionary holds under (a,b), a<=b, the sum of contributions keyed (a,b) plus transposes of those keyed (b,a); "
        "no key with a>b exists; the gradient dictionary and chi2 are plain sums; for symmetric Omega and distinct vertices one edge contributes exactly the (a,b) block of Jbar^T Omega Jbar and the a block of Jbar^T Omega e (ordered-pair sum), "
        "with a proved counterexample for self-loop edges; the dense fill is proved block by block (assignment is justified by disjoint index ranges; prefix-sum layouts are proved to be layouts), giving assembled_hessian / assembled_gradient: "
        "H[g_u+s,g_w+t] = sum_e sum_{x,y in e}[g_x=g_u, g_y=g_w](J_x^T Omega J_y)[s,t] and b likewise for free vertices, identity/zero for fixed ones.",
        level_note="Hand models (Model/Assembly.lean, Model/GraphIter.lean) tied by tools/harness/assembly.py (stage-wise) and tools/harness/graphiter.py (whole iteration on typed graphs, generated formulas inside the model); spsolve is a parameter.  Regenerated tie: the decision expressions / statement skeleton of graph.py and base_edge.py are re-translated every run (tools/translate/py2lean_graph.py -> Generated/GraphPy.lean) and Props/Tie/GraphPy.lean proves that the hand models use exactly them."
        "Props/E2E/Step.lean instantiates the assembly theorems on the typed model: system_hessian / system_gradient (H and b of Model.system are the block sums over the typed edges' own generated errors and Jacobians; gradient indices of the constructor form a layout).",
    ),
    "C04": dict(
        modules=["GraphSlam.Props.C04"],
        theorem_files=["GraphSlam/Props/Tie/GraphPy.lean", "GraphSlam/Props/C04/*.lean", "GraphSlam/Theory/GaussNewton.lean"],
        scan_files=["GraphSlam/Generated/GraphPy.lean", "GraphSlam/Core/*.lean", "GraphSlam/Real/Instance.lean", "GraphSlam/Props/C12/*.lean", "GraphSlam/Props/C03/*.lean"],
        graph_tie=True,
        corr=[
            ("harness.entry", "layer_a", dict(only=["EdgeOdometry.calc_error_R", "EdgeOdometry.calc_jacobians_R", "EdgeLandmark.calc_error_R", "EdgeLandmark.calc_jacobians_R", "PoseR"], quick=40, thorough=400)),
            ("harness.entry", "assembly", dict(quick=60, thorough=2000)),
            ("harness.entry", "ctl", dict(quick=(30, 200), thorough=(800, 10000))),
            ("harness.entry", "graphiter", dict(quick=40, thorough=1500)),
            ("harness.entry", "fullrun", dict(quick=40, thorough=1500)),
        ],
        search=("search.entry", "c04"),
        always_search=True,
        replay=("search.entry", "replay_generic"),
        rule="ties: translator validation of the R^2/R^3 edge definitions, stage-wise assembly correspondence, exact report correspondence; plus (every run) end-to-end on the real optimiser: random connected R^2/R^3 graphs "
        "(odometry and point-to-point landmark edges with offsets, multi-edges, random fixed subsets, initial guesses perturbed by up to 1e6) vs numpy.linalg.lstsq on the whitened stacked system: poses, final_chi2, converged",
        assumptions=["real arithmetic; conditioning is a runtime matter (tolerances scale with the initial-guess magnitude; rank-deficient instances are counted and skipped)",
                     "spsolve returns a solution of the assembled system", "symmetric positive-definite information; distinct vertices per edge"],
        technique="Lean 4 proof: end-to-end theorem on the model of a whole optimize() call: exact linearisation of the regenerated R^n edge definitions, quadratic expansion over edge lists tied to the dense H/b by C03's assembly theorems, kernel triviality from connectivity, C12's report theorem",
        level_text="Proved END TO END on the typed-graph model of a whole optimize() call (Model.optimizeSolve, tied by tools/harness/fullrun.py; Props/C04/{Quad,Affine,Increment,Minimise,Unique,EndToEnd,Instances}.lean), for R^2 and R^3 graphs with every built-in edge class: "
        "(a) chi2_after_increment: the true chi2 of the state moved by ANY increment equals the linearised chi2 sum (e+Jd)^T Omega (e+Jd) over the edges' own generated errors/Jacobians (the linearisation is exact); "
        "(b) gn_step_minimises: any solution of the dense system the code hands to spsolve minimises the true chi2 over all increments (symmetric PSD information); "
        "(c) gn_step_unique / exists_solution / minimiser_unique: with PD information and every vertex joined through edges to a fixed one the dense system has exactly one solution and the minimising state is unique; "
        "(d) gradient_after_step / second_step_zero / chi2Seq_const: after one exact step b vanishes, every later step is zero, the chi2 sequence is constant from index 1; "
        "(e) optimize_linear_optimum(_R2/_R3): for any exact solver, max_iter>=1, any tol/eps/flags/initial guess the call returns the state after one Gauss-Newton step, final_chi2 is its true chi2, that state is the global and unique minimiser among all states agreeing on the fixed vertices, converged=True for max_iter>=2, tol>0, and num_iterations<=2. "
        "Also kept: the affine-residual lemmas, connected_fixed_pd, the constant-tail report lemmas.",
        level_note="The former gap (stacked J-bar of C03 = the J of the theory, 'by shared definitions') is closed: the theorems are about Model.system / step / optimizeSolve themselves. Solver exactness is a hypothesis (existence of a solution is proved); real arithmetic. End-to-end behaviour is additionally explored against numpy lstsq every run. Regenerated tie: the decision expressions / statement skeleton of graph.py and base_edge.py are re-translated every run (tools/translate/py2lean_graph.py -> Generated/GraphPy.lean) and Props/Tie/GraphPy.lean proves that the hand models use exactly them.",
    ),
    "C05": dict(
        modules=["GraphSlam.Props.C05"],
        theorem_files=["GraphSlam/Props/Tie/GraphPy.lean", "GraphSlam/Props/C05/*.lean", "GraphSlam/Theory/GaussNewton.lean"],
        scan_files=["GraphSlam/Generated/GraphPy.lean", "GraphSlam/Core/*.lean", "GraphSlam/Real/*.lean", "GraphSlam/Props/C12/*.lean"],
        graph_tie=True,
        corr=[
            ("harness.entry", "assembly", dict(quick=60, thorough=2000)),
            ("harness.entry", "ctl", dict(quick=(30, 200), thorough=(800, 10000))),
        ],
        search=("search.entry", "c05"),
        always_search=True,
        replay=("search.entry", "replay_generic"),
        rule="ties as C03/C12; plus (every run, exploration) random-walk SE(2)/SE(3) graphs with loop closures and landmark edges with offsets, initial guess perturbed by sigma<=0.2 (2d) / 0.05 (3d) in box-plus units, measurement noise sigma<=0.025, "
        "tol in [1e-10,1e-4], max_iter=100: final_chi2<=initial_chi2, converged, Newton decrement from an independent dense model <= 20*tol*chi2+1e-10, noise-free runs reproduce every measurement to 1e-6",
        assumptions=["the neighbourhood is calibrated empirically (tools/dev/calibrate_c05.py): no theorem gives its size"],
        proved_level="partial",
        unproved=["local convergence itself (existence and size of the basin, rate) is not proved; 'within calibrated bounds' is explored on every run, not proved", "float effects"],
        technique="Lean 4 proof of the stationarity/fixed-point/descent facts (Mathlib calculus + matrix theory); convergence explored within a calibrated neighbourhood",
        level_text="Proved: chi2 along a differentiable residual has gradient 2b with b=J^T Omega r (the assembled vector); with PD reduced Hessian the step is zero iff the free gradient vanishes; zero residual => chi2=0, b=0, zero step; the step is a descent direction of the quadratic model; "
        "converged=True certifies non-increase and relative decrease < tol at the reported index. PARTIAL: convergence from a neighbourhood is explored (calibrated bounds), not proved.",
        level_note="Partial by design (DESIGN.md C05). Regenerated tie: the decision expressions / statement skeleton of graph.py and base_edge.py are re-translated every run (tools/translate/py2lean_graph.py -> Generated/GraphPy.lean) and Props/Tie/GraphPy.lean proves that the hand models use exactly them.",
    ),
    "C06": dict(
        modules=["GraphSlam.Props.C06"],
        theorem_files=["GraphSlam/Props/Tie/GraphPy.lean", "GraphSlam/Props/C06/*.lean", "GraphSlam/Props/C03/Assembled.lean", "GraphSlam/Props/E2E/Step.lean"],
        scan_files=["GraphSlam/Generated/GraphPy.lean", "GraphSlam/Core/*.lean", "GraphSlam/Model/Assembly.lean", "GraphSlam/Model/GraphIter.lean", "GraphSlam/Props/C03/*.lean"],
        graph_tie=True,
        corr=[("harness.entry", "assembly", dict(quick=80, thorough=3000)), ("harness.entry", "graphiter", dict(quick=60, thorough=2500))],
        search=("search.entry", "c06"),
        always_search=True,
        replay=("search.entry", "replay_generic"),
        rule="stage-wise correspondence as C03 (update stage: fixed poses compared bitwise, fixed rows/cols of H exactly identity/zero, b exactly zero) plus, every run, direct before/after "
        "comparison on the real optimiser in scenarios normal / isolated fixed vertex / unanchored component (singular) / all fixed / diverging / none fixed, both fix_first_pose values",
        assumptions=["the solver is an arbitrary function (no assumption)"],
        technique="Lean 4 proof: invariant by induction over iterations of a hand model mirroring the update loop, solver universally quantified; tied by correspondence",
        level_text="Proved: for any solver behaviour, any number of iterations, any pose type, a fixed vertex has exactly the same pose (Model.applyDx mirrors graph.py's update loop after the C06 repair); "
        "free vertices get pose [+] dx[g:g+c]; fix_first_pose sets exactly the first flag; the fixed index set is exactly the indices of flagged vertices. "
        "The assembled H has identity diagonal blocks and zero off-diagonal blocks for every fixed vertex (touched by an edge or not) and b is zero there (fixed_diagonal_identity, fixed_column_zero, assembled_gradient), "
        "so the equations of the free rows involve no fixed unknown: the free block solves the reduced problem and fixing a vertex never makes H singular by itself.",
        level_note="Hand model tied by tools/harness/assembly.py and the direct search; the code was repaired first (known_findings.json: fixed C06 4d1b12c). Regenerated tie: the decision expressions / statement skeleton of graph.py and base_edge.py are re-translated every run (tools/translate/py2lean_graph.py -> Generated/GraphPy.lean) and Props/Tie/GraphPy.lean proves that the hand models use exactly them.",
    ),
    "C12": dict(
        modules=["GraphSlam.Props.C12"],
        theorem_files=["GraphSlam/Props/Tie/GraphPy.lean", "GraphSlam/Props/C12/*.lean", "GraphSlam/Props/E2E/Run.lean"],
        scan_files=["GraphSlam/Generated/GraphPy.lean", "GraphSlam/Core/*.lean", "GraphSlam/Model/Ctl.lean", "GraphSlam/Model/Run.lean", "GraphSlam/Model/GraphIter.lean", "GraphSlam/Model/Assembly.lean", "GraphSlam/Props/C06/*.lean"],
        graph_tie=True,
        corr=[("harness.entry", "ctl", dict()), ("harness.entry", "fullrun", dict(quick=60, thorough=2500))],
        search=("search.entry", "c12"),
        always_search=True,
        replay=("search.entry", "replay_generic"),
        rule="every field of OptimizationResult (converged, num_iterations, initial/final chi2, per-iteration chi2 and rel_diff bit patterns, None pattern, list length, IndexError for max_iter=0) compared exactly with "
        "Model.optimizeCtl on the chi2 sequence the real run consumed: real graphs x tol x max_iter x verbose, boundary tol values (each observed rel_diff and its float neighbours), synthetic sequences "
        "(plateau, increase, NaN/inf, zero, negative, chi2_prev+eps=0)",
        assumptions=["chi2 values themselves are C02's subject; this property is about the control flow and the report"],
        technique="Lean 4 proof: loop invariant by induction for a line-by-line model of the optimize loop, closed form of the report; tied by exact correspondence",
        level_text="Proved for every chi2 sequence, tol, eps, max_iter>=1 and ANY scalar type (so also Float with NaN): closed form of the whole report; the run ends at the first i in 1..max_iter-1 where chi2 did not increase and the relative decrease is < tol, else at max_iter; "
        "converged <-> the test holds at the end index; num_iterations, initial_chi2=c 0, final_chi2=c(end), len(iteration_results), iteration_results[j].chi2=c(j+1); max_iter=0 raises IndexError; over R: tol=0 and chi2>=0 never stops early; split runs consume the same chi2 sequence.",
        level_note="State-level 'no hidden state / verbose has no effect' is checked on the real code by the search every run (bitwise pose comparison), not proved. Regenerated tie: the decision expressions / statement skeleton of graph.py and base_edge.py are re-translated every run (tools/translate/py2lean_graph.py -> Generated/GraphPy.lean) and Props/Tie/GraphPy.lean proves that the hand models use exactly them.",
    ),
    "C15": dict(
        modules=["GraphSlam.Props.C15"],
        theorem_files=["GraphSlam/Props/Tie/GraphPy.lean", "GraphSlam/Props/C15/*.lean"],
        scan_files=["GraphSlam/Generated/GraphPy.lean", "GraphSlam/Model/Heap.lean", "GraphSlam/Model/HeapObs.lean", "GraphSlam/Model/HeapNumOpt.lean", "Driver/Heap.lean", "GraphSlam/Model/Run.lean", "GraphSlam/Model/GraphIter.lean", "GraphSlam/Core/*.lean", "GraphSlam/Model/NumJac.lean", "GraphSlam/Model/Assembly.lean", "GraphSlam/Props/C16/*.lean", "GraphSlam/Props/C06/*.lean"],
        graph_tie=True,
        corr=[("harness.entry", "purity", dict()), ("harness.entry", "heap", dict()), ("harness.entry", "numjac", dict(quick=25, thorough=800))],
        search=("search.entry", "c15"),
        always_search=True,
        replay=("search.entry", "replay_generic"),
        rule="random interleavings of 21 operation kinds (errors, chi2, analytic and numerical Jacobians, gradient/Hessian contributions, assembly, equals, exports, copies, pose operators, +=, optimize) on real graphs; "
        "after every operation a bitwise snapshot of all arrays/flags/ids/object identities is compared with the prediction (unchanged for queries), calls are repeated (identical results), returned arrays are overwritten "
        "in place to expose aliasing; non-trivial = one operation",
        assumptions=["SE(2) angles in range (every pose the library produces is: C11)"],
        proved_level="partial",
        unproved=["KNOWN FINDING (known_findings.json: se2-plus-pi-rewrap-on-copy): an SE(2) pose stored with angle exactly +pi (closed end of the float wrap) is re-wrapped to -pi by copy(), hence by a numerical-Jacobian query - the value-level purity theorems carry the hypothesis 'SE(2) angles in range [-pi, pi)' for exactly this reason",
                  "the object-identity model (Model/Heap.lean) is itself a hand model of numpy / Python object semantics (which operations allocate, which re-bind, which write in place): its frame theorems hold for all histories, its agreement with the interpreter is checked by running the model (driver command `heap`) and the real objects on the same aliased worlds and histories (tools/harness/heap.py: identity pattern, changed-or-not, flags exact), not proved",
                  "queries other than the built-in calc_error, and custom edges' calc_error, are assumed to read only and to allocate their results (the dictionary / dense-array writes of the assembly go into arrays created by the same call)"],
        technique="Lean 4 proof: frame conditions of hand models (perturb/restore loop of _calc_jacobian, update loop) for all histories; numpy aliasing observed by a bitwise trace check",
        level_text="Proved on an explicit OBJECT-IDENTITY model (Model/Heap.lean: a growing heap of arrays, vertices and edges hold object ids, any aliasing allowed; Props/C15/Heap*.lean) for ALL histories of operations: (1) append-only - every operation except normalize() (the one in-place operation of the library) and the caller's own writes leaves every pre-existing object bit-identical, no call re-binds an edge attribute or changes an id / gradient index, fixed flags change only in optimize, to applyFixFirst; (2) queries leave the world unchanged except heap growth and are deterministic; the numerical-differentiation loop re-binds only the differentiated vertex, to a new object with the same content; (3) optimize: a fixed vertex keeps the same object, every free vertex gets its own NEW object holding old [+] dx-slice, pairwise distinct - two vertices (or a vertex and a measurement) that shared one object are not double-updated and the shared object keeps its entries; (4) copies are independent; (5) refinement: reading the world through its references gives exactly Model.numJacobian / Model.applyDx / Model.Run.iterStates. Also (value level): the numerical-differentiation loop returns the store exactly as it found it for every pose type (copy p = p discharged for the generated copy of R2/R3/SE3, and SE2 in range), for any error function and any number of vertices; "
        "optimize preserves the vertex layout and every fixed pose for any solver behaviour and iteration count; operators are functions of their operands in the model. PARTIAL: aliasing/in-place behaviour of numpy objects is checked by the trace harness only.",
        level_note="Partial by nature: the property is largely about runtime object behaviour; the logic part is proved, the rest explored on every run. Regenerated tie: the decision expressions / statement skeleton of graph.py and base_edge.py are re-translated every run (tools/translate/py2lean_graph.py -> Generated/GraphPy.lean) and Props/Tie/GraphPy.lean proves that the hand models use exactly them.",
    ),
    "C16": dict(
        modules=["GraphSlam.Props.C16"],
        theorem_files=["GraphSlam/Props/Tie/GraphPy.lean", "GraphSlam/Props/C16/*.lean"],
        scan_files=["GraphSlam/Generated/GraphPy.lean", "GraphSlam/Model/GraphIter.lean", "GraphSlam/Model/Run.lean", "GraphSlam/Model/Assembly.lean", "GraphSlam/Props/C04/*.lean", "GraphSlam/Props/C01/*.lean", "GraphSlam/Core/*.lean", "GraphSlam/Model/NumJac.lean", "GraphSlam/Real/Instance.lean", "Driver/NumIter.lean"],
        graph_tie=True,
        corr=[("harness.entry", "numjac", dict(quick=40, thorough=1500)), ("harness.entry", "numiter", dict(quick=30, thorough=800))],
        search=("search.entry", "c16"),
        always_search=True,
        replay=("search.entry", "replay_generic"),
        rule="BaseEdge.calc_jacobians (numerical path) on every edge of random graphs (built-in edges of all type combinations, custom unary/binary/ternary distance edges over all four pose types): shape, "
        "perturbed pose vs generated box-plus, every column bit-equal to Model.fdColumn on the implementation's perturbed error, store restored bitwise; non-trivial = one edge",
        assumptions=["the custom error function is C^2 along box-plus with second derivative bounded by M on [0, 1e-6] (hypothesis of the accuracy theorem)", "real arithmetic: cancellation error of the float difference quotient is not covered"],
        proved_level="partial",
        unproved=["'converge to the same optimum' for NON-affine errors is a convergence statement (see C05): proved are exactness for affine errors (whole call reaches the same unique optimum), the O(eps) perturbation of H and b, and agreement of stationary points up to C*eps; the convergence itself is explored by optimising twin graphs",
                  "the C^2 hypothesis of the accuracy / perturbation theorems is discharged from the generated code for both SE(2) edge classes and (trivially) R^n; for SE(3) edges it stays a hypothesis"],
        technique="Lean 4 proof: loop induction for the model of _calc_jacobian; mean-value inequality (Mathlib) for the forward-difference error bound; tied by bit-exact correspondence",
        level_text="Proved (Props/C16/*.lean): (a) fd_exact_of_affine / numJacobian_of_affine - a forward difference of an affine error is EXACT for any eps != 0; for the generated R^2/R^3 odometry and landmark errors (and the landmark vertex of SE(2)/SE(3) landmark edges) the numerically differentiated Jacobian IS the generated calc_jacobians_*; (b) custom_assembly_exact, numSystem_eq, numStep_eq, numOptimizeSolve_eq, num_optimize_linear_optimum_R2/_R3 - n-ary edges with affine errors give literally the same EdgeLin records, hence the same chi2, b, H, the same iteration and the same WHOLE CALL, which (C04) reaches the unique global minimiser: the second clause of C16 holds exactly for affine errors; (c) gradContrib_perturb, hessContrib_perturb, dense_gradient_perturb, dense_hessian_perturb, numSystem_perturb - Jacobians entrywise within delta give b, H within explicit polynomial bounds; (d) stationary_points_agree_coarse, numSystem_stationary - the numerical and the analytic iteration have the same stationary points up to C*delta; numLin_jacClose_of_C2 gives delta = M*eps; graph_SE2_perturb / graph_SE2_stationary discharge the C^2 hypothesis from the generated SE(2) code (explicit M). Also: for any error function over any number of vertices of any pose types, the model of _calc_jacobian returns shape err.shape+(dim,) with column d = (err(p [+] eps e_d) - err(p))/eps and restores the store; "
        "a forward difference of a C^2 function with |f''|<=M on [0,eps] is within M*eps of the derivative, hence each entry is within M*1e-6 of the true box-plus derivative. PARTIAL: the convergence clause is explored (twin graphs), not proved.",
        level_note="Hand model tied by tools/harness/numjac.py (bitwise, one vertex of one edge) and tools/harness/numiter.py (the typed graph model numSystem / numStep of Props/C16/NumModel.lean run by the driver against optimize(max_iter=1) on graphs whose built-in edges are re-classed onto BaseEdge.calc_jacobians: chi2, b, H, updated estimates). Regenerated tie: the decision expressions / statement skeleton of graph.py and base_edge.py are re-translated every run (tools/translate/py2lean_graph.py -> Generated/GraphPy.lean) and Props/Tie/GraphPy.lean proves that the hand models use exactly them.",
    ),
    "C07": dict(
        modules=["GraphSlam.Props.C07"],
        theorem_files=["GraphSlam/Props/Tie/GraphPy.lean", "GraphSlam/Props/C07/*.lean", "GraphSlam/Props/E2E/Frame.lean", "GraphSlam/Props/E2E/FrameMixed/*.lean", "GraphSlam/Theory/GaussNewton.lean"],
        scan_files=["GraphSlam/Generated/GraphPy.lean", "GraphSlam/Core/*.lean", "GraphSlam/Real/*.lean", "GraphSlam/Props/C09/*.lean", "GraphSlam/Props/C01/*.lean", "GraphSlam/Props/C10/*.lean", "GraphSlam/Model/Assembly.lean", "GraphSlam/Model/GraphIter.lean", "GraphSlam/Model/Run.lean", "GraphSlam/Model/Ctl.lean", "GraphSlam/Props/C06/*.lean"],
        graph_tie=True,
        corr=[("harness.entry", "layer_a", dict(only=["Edge", "Pose", "Util"], quick=25, thorough=400)), ("harness.entry", "assembly", dict(quick=40, thorough=1500)), ("harness.entry", "graphiter", dict(quick=60, thorough=2500)), ("harness.entry", "fullrun", dict(quick=40, thorough=1500))],
        search=("search.entry", "c07"),
        always_search=True,
        replay=("search.entry", "replay_generic"),
        rule="ties: translator validation of the edge/pose definitions and stage-wise assembly correspondence; plus (every run) metamorphic check on the real optimiser: random T (rotations near 180 degrees, translations up to 1e4) applied to every vertex "
        "(landmark points by the action): every edge error and chi2 unchanged at 1e-9 relative, poses after k in 1..4 iterations (tol=0) equal T (+) the original result",
        assumptions=["real arithmetic", "SE(3): unit quaternions for T, vertices and offsets", "solver returns the solution of the assembled system (trajectory statement)"],
        technique="Lean 4 proof: group-law rewriting with kernel-checked sympy certificates; uniqueness of the Frechet derivative (C01) for the Jacobians; abstract change-of-variables theorem",
        level_text="Proved on the regenerated definitions: (T(+)b)(-)(T(+)a)=b(-)a; every odometry and landmark error (all four pose types) is unchanged by left-composition with T (landmark points moved by the action); box-plus is left-equivariant for every increment (both SE(3) branches); "
        "T.(l+d)=T.l+R_T d; the Jacobian of a pose vertex is the same matrix in both frames (uniqueness of the derivative + C01); an invertible change of variables that does not mix fixed and free unknowns maps solutions of the assembled system to solutions (reparam_solves). "
        "End to end (Props/E2E/Frame.lean, on the typed-graph model of a whole iteration Model.step, which tools/harness/graphiter.py ties to the real optimize(max_iter=1)): the Jacobian of every pose vertex is the same matrix in both frames "
        "(SE(2) unconditionally - also on the wrap - via the wrap-free error; SE(3) and R^n by uniqueness of the derivative), hence linearisation, contributions, accumulation, dense fill, solve and update commute with T: "
        "trajectory_frame_SE2 / _SE3 / _R2 / _R3 - for ANY solver and ANY number of iterations the k-iteration state of the transformed graph is T applied to the k-iteration state of the original (SE(2)/SE(3) graphs whose vertices are all poses; R^2/R^3 graphs with every edge class); "
        "and optimize_frame_SE2 / _SE3 / _R2 / _R3 on the model of a WHOLE optimize() call (Model.optimizeSolve, tied by tools/harness/fullrun.py): same report (every chi2, stopping index, converged), same flags, and the returned state is T applied to the returned state of the original. "
        "Graphs MIXING SE(n) pose vertices with R^n landmark vertices (Props/E2E/FrameMixed/*.lean, for SE(2)+R^2 and SE(3)+R^3 with unit quaternions): the landmark-vertex Jacobian in the transformed frame is J R_T^T (R_T = the code's own jacobian_self_oplus_point_wrt_point T, proved orthogonal), error/chi2/pose-vertex Jacobian unchanged; system_conjugate: H' = P H P^T, b' = P b entrywise on Model.system for any fixed set (P = identity on pose blocks, R_T on landmark blocks, P P^T = 1); solution_transport: dx solves (H,-b) iff P dx solves (H',-b'), uniqueness transported; step_frame_mixed(_exact), trajectory_frame_mixed (any number of iterations) and optimize_frame_mixed (the WHOLE call: same report and flags, transformed returned state) under 'the solver is exact and every visited system of the original run has at most one solution'. World-frame R^n edges between two landmark vertices are excluded with a proved counterexample (they are translation- but not rotation-invariant: the property's own 'a translation for R^n graphs').",
        level_note="For graphs with landmark *vertices* in SE(2)/SE(3) worlds the assembled system is conjugated by an orthogonal block matrix; the end-to-end statement there carries a solver hypothesis (exact + unique solvability of the visited systems); for all-pose graphs and R^n graphs it holds for ANY solver. Regenerated tie: the decision expressions / statement skeleton of graph.py and base_edge.py are re-translated every run (tools/translate/py2lean_graph.py -> Generated/GraphPy.lean) and Props/Tie/GraphPy.lean proves that the hand models use exactly them.",
    ),
    "C08": dict(
        modules=["GraphSlam.Props.C08"],
        theorem_files=["GraphSlam/Props/Tie/GraphPy.lean", "GraphSlam/Props/C08/*.lean", "GraphSlam/Props/E2E/Step.lean", "GraphSlam/Props/E2E/Relabel.lean", "GraphSlam/Props/E2E/VertexPerm*.lean"],
        scan_files=["GraphSlam/Generated/GraphPy.lean", "GraphSlam/Model/Validity.lean", "GraphSlam/Model/Run.lean", "GraphSlam/Model/Ctl.lean", "GraphSlam/Props/E2E/Run.lean", "GraphSlam/Props/C12/*.lean", "GraphSlam/Core/*.lean", "GraphSlam/Real/Instance.lean", "GraphSlam/Props/C03/*.lean", "GraphSlam/Theory/*.lean", "GraphSlam/Model/Assembly.lean", "GraphSlam/Model/GraphIter.lean", "GraphSlam/Props/C06/*.lean"],
        graph_tie=True,
        corr=[("harness.entry", "layer_a", dict(only=["Edge", "PoseSE3", "PoseSE2", "Util"], quick=25, thorough=400)), ("harness.entry", "assembly", dict(quick=40, thorough=1500)), ("harness.entry", "graphiter", dict(quick=40, thorough=1500)), ("harness.entry", "fullrun", dict(quick=30, thorough=1000))],
        search=("search.entry", "c08"),
        always_search=True,
        replay=("search.entry", "replay_generic"),
        rule="ties as C03/C01; plus (every run) metamorphic variants of random well-posed graphs on the real optimiser: vertex-list permutation (same fixed vertices), edge-list permutation, id relabelling (ids up to 2^40), "
        "+2*pi*k on SE(2) angles, negated quaternions of vertices / measurements / offsets, information scaled by c in [1e-3,1e3], edges split into two half-information copies: chi2 (scaled) and poses after 1..3 iterations compared",
        assumptions=["real arithmetic", "odometry quaternion-sign clause only for information matrices without translation-rotation cross terms (counterexample proved otherwise: known finding)"],
        proved_level="partial",
        unproved=["negating a unit quaternion of an SE(3) odometry edge's measurement or vertex changes chi2 when the information matrix has translation-rotation cross terms: FALSE of the code (neg_quat_cross_counterexample; known finding quat-sign:odometry:cross-terms)"],
        technique="Lean 4 proof: permutation-invariance of list sums for the accumulated dictionaries, linearity in Omega, ring identities for quaternion negation on the regenerated error definitions, counterexample by norm_num",
        level_text="Proved on the typed-graph model of a whole optimize() call (Props/E2E/Relabel.lean, VertexPerm*.lean): id relabelling by any injective map leaves the id->position lookup (last duplicate wins), the edge binding, the constructor and hence the whole run literally unchanged (counterexample for non-injective maps); vertex-list permutation (edges re-bound, flags permuted alike): chi2 unchanged, the dense H and b correspond entry by entry under the re-indexing of gradient indices, dx solves one system iff the re-indexed dx solves the other, the updated states correspond, and - for an exact solver and uniquely solvable visited systems - the trajectories and the WHOLE CALL agree (same report, corresponding returned states: optimizeSolve_vertexPerm; optimizeRun_vertexPerm for recorded increments with no solver hypothesis); fix_first_pose=True with the first vertex moved is excluded with a proved counterexample (it fixes a different vertex). Also proved: edge-list permutation leaves the accumulated H-, b-dictionaries and chi2 unchanged; theta+2*pi*k constructs the same SE(2) pose; H/b contributions are linear in Omega (split and scale), scaling leaves the solution set of the assembled system unchanged and scales chi2; "
        "landmark errors are invariant under negating the pose or offset quaternion; odometry errors keep the translational part and negate the rotational part, so chi2 is unchanged for information without cross terms. "
        "PARTIAL: with cross terms the clause is false of the current code (proved counterexample, recorded known finding).",
        level_note="Known finding printed on every run; any other dependence on representation is reported as a violation. Regenerated tie: the decision expressions / statement skeleton of graph.py and base_edge.py are re-translated every run (tools/translate/py2lean_graph.py -> Generated/GraphPy.lean) and Props/Tie/GraphPy.lean proves that the hand models use exactly them.",
    ),
    "C09": dict(
        modules=["GraphSlam.Props.C09"],
        theorem_files=["GraphSlam/Props/C09/*.lean", "GraphSlam/Props/C10/SE3Boxplus.lean", "GraphSlam/Real/Atan2.lean"],
        scan_files=["GraphSlam/Real/*.lean", "GraphSlam/Core/*.lean"],
        corr=[("harness.entry", "layer_a", dict(only=["Pose", "Util"], quick=25, thorough=400))],
        search=("search.entry", "c09"),
        always_search=True,
        replay=("search.entry", "replay_generic"),
        rule="translator validation of every generated pose definition (constructors, copy, to_matrix, from_matrix, inverse, (+) in its three dispatch branches, (-), "
        "normalize) at Float vs the real methods on stratified inputs (from_matrix: to_matrix() of poses with headings in all four quadrants, on and next to "
        "0, +-pi/2, +-pi, products and inverses of such matrices, scaled rotation blocks, arbitrary arrays incl. signed zeros); non-trivial = definition has arguments",
        assumptions=["real arithmetic (no rounding)", "SE(3): unit-quaternion operands where displayed (the code's 1-2(y^2+z^2) rotation form is a rotation only on the unit sphere)",
                     "SE(2): InRange only where a bare operand appears as one side of an equation",
                     "from_matrix: atan2 over the reals has no signed zero (IEEE atan2(-0.0, x<0) = -pi is +pi over the reals; both are wrapped to -pi by the constructor)"],
        technique="Lean 4 proof: ring / linear_combination (sympy-found, kernel-checked cofactors) on definitions regenerated from the source; wrap algebra for SE(2)",
        level_text="Group laws for all four pose types as theorems about the regenerated definitions: (+) = product of homogeneous matrices (code's to_matrix; rotation block proved orthogonal), "
        "a(-)b = b^-1(+)a, two-sided inverse and identity, associativity, pose(+)point = matrix action (and compatible with composition), "
        "p[+]delta = p(+)expmap(delta) incl. the documented |dv|>1 fallback; SE(2) equalities exact including the wrapped angle. "
        "Matrix -> pose direction (Props/C09/FromMatrix.lean, on the regenerated PoseSE2.from_matrix with atan2 = Complex.arg, proved equal to the textbook piecewise arctan definition): "
        "from_matrix(to_matrix(p)) = p exactly for -pi <= theta < pi (closed end included: atan2 returns +pi there and the constructor wrap restores -pi; iff), "
        "from_matrix(M(p) M(q)) = p(+)q, from_matrix(M(q)^-1 M(p)) = p(-)q, from_matrix(M(p)^-1) = p.inverse for ALL real triples (np.dot form and Mathlib matrix product / inverse), "
        "to_matrix(from_matrix(M)) = M for every rigid-motion matrix M.",
        level_note="Trusted: Lean kernel, Mathlib, py2lean translator (validated at Float every run). __iadd__ (base_pose.py) is translated per class and operand kind (iadd, iadd_boxplus).",
    ),
    "C11": dict(
        modules=["GraphSlam.Props.C11"],
        theorem_files=["GraphSlam/Props/C11/*.lean", "GraphSlam/Props/C09/SE2.lean", "GraphSlam/Real/Wrap.lean"],
        scan_files=["GraphSlam/Real/*.lean", "GraphSlam/Core/*.lean", "GraphSlam/Props/C09/SE3.lean", "GraphSlam/Model/GraphIter.lean", "GraphSlam/Model/Run.lean", "GraphSlam/Model/Ctl.lean", "GraphSlam/Model/Assembly.lean"],
        corr=[("harness.entry", "layer_a", dict(only=["Pose", "Util"], quick=25, thorough=400)), ("harness.entry", "graphiter", dict(quick=30, thorough=800))],
        search=("search.entry", "c11"),
        always_search=True,
        replay=("search.entry", "replay_generic"),
        rule="translator validation as C09; plus (exploration, every run) linear operation histories on the real objects: |q|-1 within 2e-15*(steps+10), angle in [-pi,pi], "
        "wrap congruent to the 50-digit reference within 4 ulp, normalize() unit / w>=0 / same rotation",
        assumptions=["exact-arithmetic theorems over the reals", "rounding theorems: the standard model of floating-point arithmetic (every operation returns x(1+d), |d|<=u; no overflow/underflow/subnormals) is a HYPOTHESIS (StdRnd); IEEE-754 itself is not modelled"],
        proved_level="partial",
        unproved=["the closed upper end (+pi) of the float wrap (a % b in floats can return b) is measured by the chain exploration, not proved",
                  "IEEE-754 arithmetic itself: the norm-drift bounds are proved under the standard model of rounding, which is assumed, and also measured on the real code every run"],
        technique="Lean 4 proof: invariant by induction over an inductive type of operation histories (Reach / ReachApprox / ReachFl), wrap range/congruence lemmas; norm drift bounded under the standard model of rounding by running the regenerated definitions in a rounding scalar instance (Fl rnd)",
        level_text="Proved for histories of any length: every PoseSE2 constructor/(+)/(-)/inverse/[+]/copy result has its angle in [-pi,pi) and congruent mod 2pi to the exact angle; "
        "the quaternion norm is multiplicative under (+),(-), preserved by inverse/copy, box-plus returns a unit quaternion for every increment (both branches), hence any Reach-able pose and any vertex after n updates is unit; "
        "normalize() gives unit norm, w>=0 and the same rotation. Rounding (Props/C11/Rounding*.lean): norm identities for ALL real operands; one computed operation within eta of exact keeps the norm within (1+-eta); chain_bounds / chain_linear for histories of any length; "
        "the regenerated PoseSE3.add / sub / boxplus / normalize executed in a rounding instance of the scalar interface (Fl rnd, every operation rounded, standard model |rnd x - x| <= u|x|) satisfy eta = 2((1+u)^4-1); iterate_boxplus_fl: |norm-1| <= 37 n u after n optimizer updates (<= 4.2e-15 n in binary64); "
        "run_fl_se3_drift / optimizeSolve_fl_se3_drift: the same bound for every SE(3) vertex of the state returned by the whole-call model with ANY solver. PARTIAL: the standard model is assumed; the float wrap closed end is measured.",
        level_note="Rounding is inside the theorems under the standard model (an assumption about the hardware arithmetic); still measured by operation chains on the real code each run (quick 2 types x 4 chains x 2500 ops).",
    ),
    "C10": dict(
        modules=["GraphSlam.Props.C10"],
        theorem_files=["GraphSlam/Props/C10/*.lean"] + GEN_POSE,
        scan_files=["GraphSlam/Real/*.lean", "GraphSlam/Core/*.lean"],
        corr=[("harness.entry", "layer_a", dict(only=["Pose", "Util"], quick=25, thorough=400))],
        search=("search.entry", "c10"),
        always_search=True,
        replay=("search.entry", "replay_jacobian"),
        rule="translator validation: every generated pose definition evaluated at Float vs the real method on stratified inputs "
        "(quaternion sign patterns, w=0, near-identity, near-180deg, angles near +-pi and beyond, |t| up to 1e4, box-plus increments on both sides of |dv|=1); "
        "a case is non-trivial when the definition has at least one argument",
        assumptions=["real arithmetic (no rounding)", "SE(2): result angle not on the wrap (the real-valued angle coordinate is discontinuous there)"],
        technique="Lean 4 proof: verified symbolic differentiation (HasFDerivAt) of definitions regenerated from the Python source",
        level_text="48 theorems: each public jacobian_* method of PoseR2/R3/SE2/SE3, as regenerated from the current source, is the Frechet derivative (Mathlib HasFDerivAt) of the named operation w.r.t. the named operand at every real operand; compact variants are the leading rows; documented shapes equal actual shapes. The translator is validated every run against the real methods.",
        level_note="Trusted: Lean kernel, Mathlib's analysis library, the py2lean translator (validated at Float every run). Real arithmetic, not IEEE-754. SE(2) theorems exclude the wrap discontinuity of the result angle.",
    ),
    "C17": dict(
        modules=["GraphSlam.Props.C17", "GraphSlam.Props.Tie.CmpPySpec"],
        theorem_files=["GraphSlam/Props/Tie/CmpPy.lean", "GraphSlam/Props/Tie/CmpPySpec.lean", "GraphSlam/Props/C17.lean"],
        scan_files=["GraphSlam/Generated/CmpPy.lean", "GraphSlam/Model/CmpFacts.lean", "GraphSlam/Props/C17/*.lean", "GraphSlam/Model/Equals.lean", "GraphSlam/Model/CmpCommon.lean"],
        drivers=("gsdriver_cmp",),
        needs_generated=False,
        cmp_tie=True,
        corr=[("harness.equals", "entry", dict())],
        search=("search.equals", "entry"),
        always_search=True,
        replay=("search.equals", "replay"),
        rule="every pair of real objects is abstracted (harness/cmpobj.py reads the objects' own attributes) to the descriptors of Model/Equals.lean, the model is run at Float by gsdriver_cmp, "
        "and the outcome True/False/<exception class> is compared exactly with x.equals(y) in both directions, with the default tolerance (argument omitted) and tol=1e-3: "
        "poses 4x4 kinds x {generic, zero, 1e3-scaled} x every component and all components x magnitudes tol*max(norm,tol)*10^k (k=-12..3, plus 0.3/0.45/2.2/3.5) x both signs; vertices (ids, kinds, magnitudes); "
        "edges: every base edge (4 classes x 14 estimate kinds x 6 offset kinds x 3 offset ids x base magnitudes) x every one-factor deviation (class, ids count/value/order, information shape/value, estimate kind/shape/value, "
        "offset kind/value, offset id), two-factor deviations (2% sample quick, exhaustive thorough), random two-sided deviations; graphs: lengths, order, element perturbation, raising element before/after a False element, edges-before-vertices, "
        "seeded random graphs; malformed stream (None/ndarray offsets, None estimates, pose arrays of wrong length: exception class mirrored); asymmetry stream with tol=3. "
        "Pairs with some block ratio in [0.5,2] of the threshold are skipped (counted as skipped_band). non-trivial = the two objects have the same class",
        assumptions=["real arithmetic (floats: finite numbers; rounding of the norm only matters inside the skipped band)", "tol > 0",
                     "well-formed objects: pose arrays have their class's length; estimate is a pose / ndarray / scalar (not None); a landmark edge's offset is a pose (not None, not a plain ndarray); "
                     "information is an ndarray; ids are ints; custom edge classes derive directly from BaseEdge and do not override equals"],
        technique="Lean 4 proof over R about a hand-written model of the five equals methods (Except PyErr Bool), tied to the code by exhaustive-table correspondence at Float",
        level_text="49 theorems, for every tol>0 and all array/list lengths, at each of pose/vertex/edge/graph: total (no exception on well-formed pairs), equals_iff (True exactly when the discrete skeletons agree and every numeric block "
        "has |a-b| < tol*max(|a|,tol), |.| = Euclidean/Frobenius norm, proved equal to Mathlib's EuclideanSpace norm), refl, small_pert (incl. |a-b|<tol^2), large_pert (incl. one component off by the threshold, |a-b| >= tol(|a|+tol)), "
        "discrete_diff_false (class, ids count/value/order, information shape, estimate class/shape, offset class, offset id, pose class, list lengths, any position of a list), symm_outside_band; "
        "plus two theorems that ill-formed objects do raise (None offset: AttributeError; None estimate: TypeError).",
        level_note="Trusted: Lean kernel, Mathlib reals/sqrt, the hand model (tied every run by 0.34M/2.4M exact outcome comparisons), harness abstraction functions. NaN/inf data are outside the theorems (a NaN information matrix compares equal to anything: noted). Regenerated tie: the guard sequences of equals / is_valid are re-translated every run (tools/translate/py2lean_cmp.py -> Generated/CmpPy.lean) and Props/Tie/CmpPy.lean proves model function = run facts <generated sequence> for every method.",
    ),
    "C18": dict(
        modules=["GraphSlam.Props.C18", "GraphSlam.Props.Tie.CmpPySpec"],
        theorem_files=["GraphSlam/Props/Tie/CmpPy.lean", "GraphSlam/Props/Tie/CmpPySpec.lean", "GraphSlam/Props/C18.lean"],
        scan_files=["GraphSlam/Generated/CmpPy.lean", "GraphSlam/Model/CmpFacts.lean", "GraphSlam/Props/C18/*.lean", "GraphSlam/Model/Validity.lean", "GraphSlam/Model/CmpCommon.lean"],
        drivers=("gsdriver_cmp",),
        needs_generated=False,
        cmp_tie=True,
        corr=[("harness.validity", "entry", dict())],
        search=("search.validity", "entry"),
        always_search=True,
        replay=("search.validity", "replay"),
        rule="Graph(edges, vertices) on real objects vs Model/Validity.lean `construct` (gsdriver_cmp): accepted / KeyError / AssertionError compared exactly; for accepted graphs `edge.vertices[k] is vertices[j]` for the index j the model reports, "
        "every gradient_index and _len_gradient. Table: edge class (odometry, landmark, 4 custom) x vertex count 1..3 x pose class of each endpoint x estimate class (4 poses, ndarray, None, float) x offset class x information shape (r,c) in 1..7^2 "
        "x id present/absent, vertex list = rotating permutation of the endpoints plus a distractor: 592704 rows, all in thorough; quick = every row with at most one violated requirement + seeded 5% of the rest. "
        "Plus non-2-D information shapes, seeded random multi-edge graphs (duplicate ids, unknown ids, several invalid edges), and is_valid() called directly on unbound / hand-bound edges. non-trivial = class has a typing rule",
        assumptions=["vertex ids are ints (hashable, compared by ==)", "vertex poses are instances of the four pose classes", "edge.information is an ndarray", "python is not run with -O (the assert is stripped there: noted, not modelled)",
                     "custom edge classes decide validity themselves (a parameter of the model; four concrete ones in the harness)"],
        technique="Lean 4 proof about a hand-written model of Graph._initialize / _is_valid / is_valid (Except PyErr BoundGraph), tied to the code by exhaustive-table correspondence",
        level_text="20 theorems for all list lengths: bind_by_id / bind_by_id_unique / bind_perm_invariant (unique ids: position k is bound to the vertex with id vertex_ids[k], independent of the order of the vertex list), bind_last_wins (duplicate ids), "
        "unknown_id_raises, bind_raises_iff, valid_iff_welltyped_odometry/_landmark (is_valid() <-> the docstring rule), constructor_keyError_iff, constructor_assertionError_iff, constructor_accepts_iff, constructor_raises_iff, constructor_error_classes, "
        "constructor_binds_by_id, gradient_index_layout (prefix sums of compact dimensionalities).",
        level_note="Trusted: Lean kernel, the hand model (tied every run by 0.11M/0.63M exact comparisons incl. object identity), harness abstraction. Under `python -O` the assert is stripped and ill-typed edges are accepted (not modelled). Regenerated tie: the guard sequences of equals / is_valid are re-translated every run (tools/translate/py2lean_cmp.py -> Generated/CmpPy.lean) and Props/Tie/CmpPy.lean proves model function = run facts <generated sequence> for every method.",
    ),
    "C13": dict(
        modules=["GraphSlam.Props.C13", "GraphSlam.Props.Tie.G2OPy", "GraphSlam.Props.Tie.G2OPyExamples"],
        theorem_files=["GraphSlam/Props/Tie/G2OPy.lean", "GraphSlam/Props/C13.lean"],
        scan_files=G2O_SCAN + ["GraphSlam/Generated/G2OPy.lean", "GraphSlam/Core/G2OSpec.lean", "GraphSlam/Props/Tie/G2OInterp.lean", "GraphSlam/Props/Tie/G2OPyExamples.lean"],
        drivers=("gsdriver_g2o",),
        needs_generated=False,          # Layer B only: nothing of GraphSlam/Generated is imported
        g2o_tie=True,
        corr=[("harness.entry", "g2o", dict(quick=(1500, 800), thorough=(10000, 5000)))],
        search=("search.entry", "c13"),
        always_search=True,             # re-confirms the known finding quat-sign:odometry:cross-terms on every run (0.3 s)
        replay=("search.entry", "replay_g2o"),
        rule="Layer-B tie on real temporary files: (i) for random constructed graphs (all element kinds, values 1e-300..1e300, denormals, +-0.0, inf/nan, ids up to 2^200, "
        "w<0 and non-unit quaternions, rotated registered offsets, non-diagonal information, duplicate vertex ids, custom edge types with/without to_g2o/from_g2o, 30% with one "
        "inexpressible element) the text written by Graph.to_g2o is string-equal to Model.G2O.Graph.toG2O, or both refuse with the same exception class and leave the same partial file; "
        "(ii) 1-5 export/import cycles and generated files of the whole vocabulary (tabs / repeated / Unicode blanks, CRLF / CR / missing final newline, spellings 1E-3 +.5 007 1_0 "
        "Arabic-Indic digits nan inf, junk / comment / blank lines, duplicate and late parameters, 35% with one malformed line): objects of Graph.from_g2o and the five load.py wrappers "
        "bit-equal to the model's parse (ids, classes, order, every float by bit pattern, offset ids, parameter dictionary, log records as a multiset) or same exception class; "
        "(iii) readlines / strip / rstrip / split of every line and str.isspace of all 1,112,064 code points. float()/int()/str()/neg_pi_to_pi/normalize() enter the model as per-request "
        "tables computed with the real functions; float(str(x)) == x bitwise is re-checked on every generated value. non-trivial = distinct (outcome, size, text) triple",
        assumptions=["numbers are atoms: parse(fmt x) = x and fmt x is a non-empty whitespace-free token, for the atoms of the graph at hand (CPython shortest-repr round trip; re-checked by the harness on every value; "
                     "NaNs with a sign/payload are outside: they print as 'nan')",
                     "well-formed objects: vertex ids / offset ids are Python ints; poses, estimates and information are float64 arrays of the documented shapes; _g2o_params keys equal the parameters' own keys",
                     "Expressible (decidable): SE2/SE3/R2/R3 vertices; SE2/SE3 odometry; landmark SE2->R2 with identity offset, SE3->R3 with a registered equal offset; symmetric information; no custom edges",
                     "canon_idempotent / second_cycle: neg_pi_to_pi idempotent (checked on every value each run: 0 failures) and normalize() idempotent (exact arithmetic only; in IEEE ~27% of "
                     "renormalisations move the last bit — measured each run, allowed by the property text)",
                     "chi2 is not a model quantity: equality of chi2 follows from equality of the objects (C02) and is checked numerically by the search at 1e-12"],
        technique="Lean 4 proof about a hand-written executable model tied to the code by exact correspondence (string / bit equality) on every run",
        level_text="17 theorems: splitWS_join / splitWS_glue (split() inverts \" \".join and any whitespace gluing, every list length); triu_full_roundtrip (for EVERY n: expanding the row-major "
        "upper triangle of M returns M iff M symmetric); roundtrip (every Expressible graph: the writer succeeds and parseFile(printFile g) = ok(canon g) with an empty log; ids, classes, "
        "order, information preserved); canon_physical (canon changes only SE2 angles -> wrapped, SE3 odometry quaternions -> normalize(), landmark offsets -> array_equal copies); "
        "canon_idempotent, expressible_canon, second_cycle; refuses_* (each inexpressible kind gives the modelled exception class: NotImplementedError for unknown poses, R-type odometry, "
        "landmark edges other than SE2->R2 / SE3->R3, SE2 landmark with non-identity offset; ValueError before the file is opened for unregistered SE3 offsets) and refuses_inexpressible "
        "(if text is written at all, every element has a writable shape). Known finding (stays): chi2 changes for SE3 odometry with w<0 and cross terms (quat-sign:odometry:cross-terms).",
        level_note="Full at token/object level under the fmt/parse assumption. Trusted: Lean kernel, harness + driver (exact comparison), CPython's float/str. Not covered: float32/int information arrays,  Regenerated tie: tags, format strings, written field order, reader token positions, constructor slices, normalize(), triu / tril handling, branch and loop order of the .g2o reader and writer are re-translated every run (tools/translate/py2lean_g2o.py -> Generated/G2OPy.lean); Props/Tie/G2OPy.lean (49 theorems) proves that Model/G2O/* is the regenerated statement list run in order."
        "non-int ids, poses of wrong length (all outside the stated well-formedness hypothesis); asymmetric information (outside Expressible: only the upper triangle is written, silently); "
        "a partially written file is left behind when an element is refused mid-way (mirrored by toG2OTrace and compared by the harness, not judged).",
    ),
    "C14": dict(
        modules=["GraphSlam.Props.C14", "GraphSlam.Props.Tie.G2OPy", "GraphSlam.Props.Tie.G2OPyExamples"],
        theorem_files=["GraphSlam/Props/Tie/G2OPy.lean", "GraphSlam/Props/C14.lean", "GraphSlam/Props/C14/Lines.lean"],
        scan_files=G2O_SCAN + ["GraphSlam/Generated/G2OPy.lean", "GraphSlam/Core/G2OSpec.lean", "GraphSlam/Props/Tie/G2OInterp.lean", "GraphSlam/Props/Tie/G2OPyExamples.lean"],
        drivers=("gsdriver_g2o",),
        needs_generated=False,
        g2o_tie=True,
        corr=[("harness.entry", "g2o", dict(quick=(300, 5000), thorough=(2000, 30000)))],
        search=("search.entry", "c14"),
        always_search=True,
        replay=("search.entry", "replay_g2o"),
        rule="same Layer-B tie as C13, weighted towards generated files: per file the model's readlines/strip/rstrip/split equal Python's, and Graph.from_g2o / load_g2o / load_g2o_r2 / _r3 / _se2 / _se3 "
        "(chosen at random) equal Model.G2O.Graph.fromG2O / Loader.run bitwise, including the log records and the exception class on the malformed stream "
        "(wrong field counts, numpy's length-1 broadcast of the information tokens, non-numeric tokens, float ids, dangling ids -> KeyError, type-mismatched edges -> AssertionError, "
        "parameter used before its line -> KeyError, custom edge types shadowing EDGE_SE2 / PARAMS_SE2OFFSET); non-trivial = distinct (outcome, size, text) triple",
        assumptions=["numbers are atoms: float()/int() of every token are supplied per run by the harness from CPython, so whatever CPython accepts or rejects is what the model sees",
                     "custom edge types are parameters of the theorems (any from_g2o); the harness registers the family of tests/edge_types.py (tag, n ids, estimate, triangular information)",
                     "file decodes as UTF-8 (open() default here); a BOM is an ordinary character"],
        technique="Lean 4 proof about a hand-written executable model tied to the code by exact correspondence (bit equality) on every run",
        level_text="20 theorems: dispatch_total_order (whole 10x10 table by decide: no TAG+' ' is a prefix of another; a line starts with at most one) and dispatch_constructor (a tagged line yields exactly one object "
        "of the tag's kind or raises — never a warning); line_faithful_<TAG> x10 (through the whole dispatch: fields = float()/int() of the corresponding tokens, extra tokens ignored where numpy "
        "slicing ignores them, SE2 angles wrapped, odometry quaternion normalize()d, information = expandTriu of the triangular tokens, landmark offset = value of the looked-up parameter); "
        "information_expansion (n x n, symmetric, tokens above the diagonal in row-major order, length-1 broadcast, ValueError otherwise); param_lookup_after_line + param_dictionary_of_trace "
        "(most recent preceding parameter wins); skip_independent (files of every length: inserting/removing blank or unrecognised lines anywhere changes no object, order or exception, "
        "and exactly one 'Line not supported' record per non-blank one, as a multiset) + skip_one; order_preserved (the loop succeeds iff a trace pairs every non-blank line with its single "
        "product, containers = those products in file order); loaders_agree (five wrappers = from_g2o + exactly one deprecation record).",
        level_note="Full under the parse abstraction. Mirrors, does not judge: a tab directly after the tag makes the line unrecognised; VERTEX_XY/TRACKXYZ accept any number of coordinates; a single  Regenerated tie: tags, format strings, written field order, reader token positions, constructor slices, normalize(), triu / tril handling, branch and loop order of the .g2o reader and writer are re-translated every run (tools/translate/py2lean_g2o.py -> Generated/G2OPy.lean); Props/Tie/G2OPy.lean (49 theorems) proves that Model/G2O/* is the regenerated statement list run in order."
        "information token is broadcast to the whole matrix; exceptions leave the earlier warnings logged. Trusted: Lean kernel, harness + driver, CPython float()/int()/str.split.",
    ),
}

NOT_APPLICABLE = {}
