import GraphSlam.Core.Scalar
import GraphSlam.Generated.Dispatch
