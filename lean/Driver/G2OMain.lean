import Driver.Proto
/-! placeholder driver for the .g2o model (C13/C14); replaced by the model's line protocol -/
def main : IO Unit := IO.println "err not-built"
