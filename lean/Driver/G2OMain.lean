import Std.Data.HashMap
import Driver.Proto
import GraphSlam.Model.G2O

/-!
# Line-protocol driver of the `.g2o` model (C13 / C14)

One request per input line, one reply per output line.  Strings travel as dot-separated lower-case hex code points
(`-` = empty string); float atoms as 16-hex-digit bit patterns; ids as decimal integers.

```
ws                                   -> ok <hex code point>*            every c with isPySpace c
lines <text>                         -> ok <line>/<blank 0|1>/<rstrip>/<tok,tok,..> ...   (readlines, strip test, rstrip, split)
import <from|g2o|r2|r3|se2|se3> @C <tag>,<nIds>,<estDim>,<infoDim>,<hasFrom> ... @T <text>
       @F <tok>:<bits|!> ... @I <tok>:<int|!> ... @W <bits>:<bits> ... @Q <b,b,b,b>:<b,b,b,b> ...
                                     -> ok <item>*      items: w:<logger>:<msg>  err:<Class|->  p:.. v:.. e:..
export @G <item>* @F <bits>:<str> ... @I <int>:<str> ... @W <bits>:<bits> ...
                                     -> ok <text>  |  err <Class> <text written so far | none>
```
Graph items: `p:<se2|se3>:<id>:<kind>:<atoms>`, `v:<id>:<kind>:<atoms>`, `e:odo:<ids>:<info>:<kind>:<atoms>`,
`e:lm:<ids>:<info>:<kind>:<atoms>:<kind>:<atoms>:<int|None>`, `e:cu:<ids>:<info>:<cls>:<atoms>:<str|None>`;
`<atoms>`/`<ids>` comma separated, `<info>` rows separated by `;`.
A table entry the model asks for and the request does not contain is reported as `need ...` (never guessed).
-/

open GraphSlam.Model.G2O

namespace G2ODriver

abbrev Atom := String

def hexOfNat (n : Nat) : String := String.ofList (Nat.toDigits 16 n)

def encStr (s : Str) : String :=
  if s.isEmpty then "-" else ".".intercalate (s.map fun c => hexOfNat c.toNat)

def decStr (s : String) : Option Str :=
  if s == "-" then some [] else
  (s.splitOn ".").foldr (fun w acc =>
    match acc, Driver.parseHex w with
    | some cs, some n => if n.isValidChar then some (Char.ofNat n :: cs) else none
    | _, _ => none) (some [])

def splitC (s : String) (sep : String) : List String := if s.isEmpty then [] else s.splitOn sep

def kindName : PoseKind → String
  | .r2 => "r2" | .r3 => "r3" | .se2 => "se2" | .se3 => "se3" | .other => "other"

def kindOf : String → Option PoseKind
  | "r2" => some .r2 | "r3" => some .r3 | "se2" => some .se2 | "se3" => some .se3 | "other" => some .other
  | _ => none

def errName : PyErr → String
  | .valueError => "ValueError" | .indexError => "IndexError" | .keyError => "KeyError"
  | .assertionError => "AssertionError" | .notImplementedError => "NotImplementedError" | .unbound => "Unbound"

def atomsStr (xs : List Atom) : String := ",".intercalate xs
def idsStr (xs : List Int) : String := ",".intercalate (xs.map toString)
def infoStr (m : Mat Atom) : String := ";".intercalate (m.map atomsStr)
def oidStr : Option Int → String | some z => toString z | none => "None"

def paramItem (p : Param Atom) : String :=
  s!"p:{match p.kind with | .se2offset => "se2" | .se3offset => "se3"}:{p.id}:{kindName p.value.kind}:{atomsStr p.value.xs}"

def vertexItem (v : Vertex Atom) : String := s!"v:{v.id}:{kindName v.pose.kind}:{atomsStr v.pose.xs}"

def edgeItem (e : Edge Atom) : String :=
  match e.body with
  | .odometry est => s!"e:odo:{idsStr e.ids}:{infoStr e.info}:{kindName est.kind}:{atomsStr est.xs}"
  | .landmark est off oid =>
    s!"e:lm:{idsStr e.ids}:{infoStr e.info}:{kindName est.kind}:{atomsStr est.xs}:{kindName off.kind}:{atomsStr off.xs}:{oidStr oid}"
  | .custom cls est out =>
    s!"e:cu:{idsStr e.ids}:{infoStr e.info}:{cls}:{atomsStr est}:{match out with | some s => encStr s | none => "None"}"

def parseIds (s : String) : Option (List Int) := (splitC s ",").mapM String.toInt?
def parseInfo (s : String) : Mat Atom := (splitC s ";").map (fun r => splitC r ",")

def parseItem (g : Graph Atom) (it : String) : Option (Graph Atom) :=
  match it.splitOn ":" with
  | ["p", k, id, pk, xs] =>
    match (if k == "se2" then some ParamKind.se2offset else if k == "se3" then some ParamKind.se3offset else none), id.toInt?, kindOf pk with
    | some k, some id, some pk => some { g with params := g.params ++ [⟨k, id, ⟨pk, splitC xs ","⟩⟩] }
    | _, _, _ => none
  | ["v", id, pk, xs] =>
    match id.toInt?, kindOf pk with
    | some id, some pk => some { g with vertices := g.vertices ++ [⟨id, ⟨pk, splitC xs ","⟩⟩] }
    | _, _ => none
  | ["e", "odo", ids, info, ek, est] =>
    match parseIds ids, kindOf ek with
    | some ids, some ek => some { g with edges := g.edges ++ [⟨ids, parseInfo info, .odometry ⟨ek, splitC est ","⟩⟩] }
    | _, _ => none
  | ["e", "lm", ids, info, ek, est, ok, off, oid] =>
    match parseIds ids, kindOf ek, kindOf ok, (if oid == "None" then some none else oid.toInt?.map some) with
    | some ids, some ek, some ok, some oid =>
      some { g with edges := g.edges ++ [⟨ids, parseInfo info, .landmark ⟨ek, splitC est ","⟩ ⟨ok, splitC off ","⟩ oid⟩] }
    | _, _, _, _ => none
  | ["e", "cu", ids, info, cls, est, out] =>
    match parseIds ids, cls.toNat?, (if out == "None" then some none else (decStr out).map some) with
    | some ids, some cls, some out => some { g with edges := g.edges ++ [⟨ids, parseInfo info, .custom cls (splitC est ",") out⟩] }
    | _, _, _ => none
  | _ => none

/-- split the request into sections `@X item item ...` -/
def sections (ws : List String) : List (String × List String) :=
  let rec go (ws : List String) (cur : Option (String × List String)) (acc : List (String × List String)) :=
    match ws with
    | [] => (match cur with | some (k, xs) => (k, xs.reverse) :: acc | none => acc).reverse
    | w :: rest =>
      if w.startsWith "@" then
        go rest (some (w, [])) (match cur with | some (k, xs) => (k, xs.reverse) :: acc | none => acc)
      else
        match cur with
        | some (k, xs) => go rest (some (k, w :: xs)) acc
        | none => go rest none acc
  go ws none []

def sect (ss : List (String × List String)) (k : String) : List String :=
  match ss.find? (·.1 == k) with | some (_, xs) => xs | none => []

abbrev Tbl := Std.HashMap String String

def mkTbl (entries : List String) : Tbl :=
  entries.foldl (fun m e => match e.splitOn ":" with | [k, v] => m.insert k v | _ => m) {}

def bitsEq (a b : Atom) : Bool :=
  match Driver.parseHex a, Driver.parseHex b with
  | some x, some y => Float.ofBits x.toUInt64 == Float.ofBits y.toUInt64
  | _, _ => false

def zeroAtom : Atom := "0000000000000000"

def mkEnv (tF tI tW tQ tfF tfI : Tbl) : Env Atom where
  parseF t := match tF.get? (encStr t) with | some "!" => none | some b => some b | none => some ("?parsef:" ++ encStr t)
  parseI t := match tI.get? (encStr t) with | some "!" => none | some z => z.toInt? | none => none
  fmtF a := match tfF.get? a with | some s => (decStr s).getD ['?'] | none => "?fmtf".toList
  fmtI z := match tfI.get? (toString z) with | some s => (decStr s).getD ['?'] | none => "?fmti".toList
  wrap a := match tW.get? a with | some b => b | none => "?wrap:" ++ a
  normQ a b c d := match tQ.get? (",".intercalate [a, b, c, d]) with
    | some r => r.splitOn ","
    | none => ["?normq:" ++ ",".intercalate [a, b, c, d]]
  zero := zeroAtom
  numEq := bitsEq

def parseSpec (i : Nat) (s : String) : Option CustomSpec :=
  match s.splitOn "," with
  | [tag, a, b, c, d] =>
    match decStr tag, a.toNat?, b.toNat?, c.toNat? with
    | some tag, some a, some b, some c => some ⟨tag, a, b, c, d == "1", i⟩
    | _, _, _, _ => none
  | _ => none

def loaderOf : String → Option (Option Loader)
  | "from" => some none | "g2o" => some (some .g2o) | "r2" => some (some .r2) | "r3" => some (some .r3)
  | "se2" => some (some .se2) | "se3" => some (some .se3) | _ => none

def loggerName : Logger → String | .graph => "graph" | .load => "load"

def handleImport (ld : String) (rest : List String) : String :=
  let ss := sections rest
  match loaderOf ld, (sect ss "@T").head?.bind decStr with
  | some loader, some text =>
    let tF := mkTbl (sect ss "@F"); let tI := mkTbl (sect ss "@I"); let tW := mkTbl (sect ss "@W"); let tQ := mkTbl (sect ss "@Q")
    -- completeness of the conversion tables for every token of every line, and of the wrap table for every float
    let toks := (readlines text).flatMap splitWS
    match toks.find? (fun t => !(tF.contains (encStr t)) || !(tI.contains (encStr t))) with
    | some t => "need token " ++ encStr t
    | none =>
      match (tF.toList.map (·.2)).find? (fun b => b != "!" && !(tW.contains b)) with
      | some b => "need wrap " ++ b
      | none =>
        if !(tW.contains zeroAtom) then "need wrap " ++ zeroAtom else
        let env := mkEnv tF tI tW tQ {} {}
        let specs := ((sect ss "@C").zipIdx.filterMap fun (s, i) => parseSpec i s)
        if specs.length != (sect ss "@C").length then "err bad-spec" else
        let customs := specs.map (CustomSpec.toType env)
        let out : ParseOut Atom := match loader with
          | none => Graph.fromG2O env customs text
          | some l => Loader.run env text l
        let ws := out.warnings.map fun r => s!"w:{loggerName r.logger}:{encStr r.msg}"
        let body := match out.result with
          | .error e => ["err:" ++ errName e]
          | .ok g => "err:-" :: (g.params.map paramItem ++ g.vertices.map vertexItem ++ g.edges.map edgeItem)
        let reply := " ".intercalate (ws ++ body)
        if reply.contains '?' then "need table " ++ reply else "ok " ++ reply
  | _, _ => "err bad-args"

def handleExport (rest : List String) : String :=
  let ss := sections rest
  let items := sect ss "@G"
  match items.foldl (fun g it => g.bind (parseItem · it)) (some (⟨[], [], []⟩ : Graph Atom)) with
  | none => "err bad-graph"
  | some g =>
    let tfF := mkTbl (sect ss "@F"); let tfI := mkTbl (sect ss "@I"); let tW := mkTbl (sect ss "@W")
    let env := mkEnv {} {} tW {} tfF tfI
    if !(tW.contains zeroAtom) then "need wrap " ++ zeroAtom else
    match Graph.toG2OTrace env g with
    | none => "err ValueError none"
    | some (s, none) => if s.contains '?' then "need table " ++ encStr s else "ok " ++ encStr s
    | some (s, some e) => if s.contains '?' then "need table " ++ encStr s else s!"err {errName e} {encStr s}"

def handleLines (t : String) : String :=
  match decStr t with
  | none => "err bad-args"
  | some text =>
    "ok " ++ " ".intercalate ((readlines text).map fun l =>
      s!"{encStr l}/{if isBlank l then 1 else 0}/{encStr (rstrip l)}/{",".intercalate ((splitWS l).map encStr)}")

def handleWs : String :=
  "ok " ++ " ".intercalate (((List.range 0x110000).filter fun n => n.isValidChar && isPySpace (Char.ofNat n)).map hexOfNat)

def handle (line : String) : String :=
  match (line.trimAscii.toString.splitOn " ").filter (· ≠ "") with
  | ["ws"] => handleWs
  | ["lines", t] => handleLines t
  | "import" :: ld :: rest => handleImport ld rest
  | "export" :: rest => handleExport rest
  | _ => "err bad-op"

end G2ODriver

partial def loop (h : IO.FS.Stream) (out : IO.FS.Stream) : IO Unit := do
  let line ← h.getLine
  if line.isEmpty then return ()
  out.putStrLn (G2ODriver.handle line)
  out.flush
  loop h out

def main : IO Unit := do
  let out ← IO.getStdout
  loop (← IO.getStdin) out
  out.flush
