import GraphSlam.Model.Run
import Driver.Asm

/-!
Driver command `iter`: one whole iteration of the typed-graph model (`GraphSlam.Model.step`) at `Float`.

    iter <ffp> <nv> { <id> <kind> <flag> <vals>* }*nv
         <ne> { odo <id_i> <id_j> <zkind> <zvals>* <m> <info>*m*m | lm <id_i> <id_j> <zkind> <zvals>* <okind> <ovals>* <m> <info>*m*m }*ne
         <N> <dx>*N

`kind` ∈ r2 r3 se2 se3; ids are integers; `dx` is what the real sparse solver returned (the solver is a parameter of the
model).  Reply:

    ok <flags'>*nv | <fixed gidx>* | <gidx>*nv | <chi2> <N> <b>*N <H>*N*N | <pose vals after the update>*  (per vertex)
-/

namespace Driver
open GraphSlam GraphSlam.Model

def kindDim (k : String) : Option Nat :=
  match k with
  | "r2" => some 2 | "r3" => some 3 | "se2" => some 3 | "se3" => some 7 | _ => none

def mkPose (k : String) (a : Array Float) : Option (Pose Float) :=
  match k with
  | "r2" => some (.r2 fun i => a[i.val]!)
  | "r3" => some (.r3 fun i => a[i.val]!)
  | "se2" => some (.se2 fun i => a[i.val]!)
  | "se3" => some (.se3 fun i => a[i.val]!)
  | _ => none

def Rd.str (r : Rd) : Option (String × Rd) := do
  let t ← r.toks[r.pos]?
  pure (t, { r with pos := r.pos + 1 })

def Rd.int (r : Rd) : Option (Int × Rd) := do
  let t ← r.toks[r.pos]?
  let n ← t.toInt?
  pure (n, { r with pos := r.pos + 1 })

def Rd.pose (r : Rd) : Option (Pose Float × Rd) := do
  let (k, r) ← r.str
  let d ← kindDim k
  let (a, r) ← r.flts d
  let p ← mkPose k a
  pure (p, r)

def poseVals : Pose Float → List Float
  | .r2 p => List.ofFn p
  | .r3 p => List.ofFn p
  | .se2 p => List.ofFn p
  | .se3 p => List.ofFn p

def Rd.info (r : Rd) : Option ((Nat → Nat → Float) × Rd) := do
  let (m, r) ← r.nat
  let (a, r) ← r.flts (m * m)
  pure (fun i j => a.getD (i * m + j) nan, r)

def fmtOpt (x : Option Float) : String := match x with | some v => fmtFloat v | none => "none"

def fmtReport (r : GraphSlam.Model.Report Float) : String :=
  let its := r.iters.map fun it => s!"{fmtOpt it.chi2}:{fmtOpt it.relDiff}:{if it.complete then 1 else 0}"
  s!"conv={if r.converged then 1 else 0} n={match r.numIterations with | some k => toString k | none => "none"} init={fmtOpt r.initialChi2} final={fmtOpt r.finalChi2} iters={",".intercalate its}"

structure TypedGraph where
  ids : List Int
  flags : List Bool
  ps : List (Pose Float)
  es : List (Option (Edge Float))

/-- `<nv> {<id> <kind> <flag> <vals>*}*nv <ne> {odo|lm …}*ne` -/
def Rd.graph (r : Rd) : Option (TypedGraph × Rd) := do
  let (nv, r) ← r.nat
  let mut ids : List Int := []
  let mut flags : List Bool := []
  let mut ps : List (Pose Float) := []
  let mut r := r
  for _ in [0:nv] do
    let (vid, r1) ← r.int
    let (k, r2) ← r1.str
    let (fl, r3) ← r2.nat
    let d ← kindDim k
    let (a, r4) ← r3.flts d
    let p ← mkPose k a
    ids := ids ++ [vid]
    flags := flags ++ [fl != 0]
    ps := ps ++ [p]
    r := r4
  let (ne, r') ← r.nat
  r := r'
  let mut es : List (Option (Edge Float)) := []
  for _ in [0:ne] do
    let (ty, r1) ← r.str
    let (a, r2) ← r1.int
    let (b, r3) ← r2.int
    let (z, r4) ← r3.pose
    let ia := indexOfId ids a
    let ib := indexOfId ids b
    if ty == "odo" then
      let (info, r5) ← r4.info
      es := es ++ [match ia, ib with | some i, some j => some (Edge.odo i j z info) | _, _ => none]
      r := r5
    else
      let (off, r5) ← r4.pose
      let (info, r6) ← r5.info
      es := es ++ [match ia, ib with | some i, some j => some (Edge.lm i j z off info) | _, _ => none]
      r := r6
  pure ({ ids := ids, flags := flags, ps := ps, es := es }, r)

def dumpState (s : GState Float) : String :=
  " ".intercalate (s.map fun v => " ".intercalate ((poseVals v.2.2).map fmtFloat))

def handleIter (ws : List String) : String :=
  let r : Rd := { toks := ws.toArray }
  let res : Option String := do
    let (ffp, r) ← r.nat
    let (g, r) ← r.graph
    let (n, r'') ← r.nat
    let (dx, _) ← r''.flts n
    let s0 := initState 0 g.ps
    let flags' := applyFixFirst (ffp != 0) g.flags
    let fixed := fixedIndices flags' (s0.map (·.1))
    let head := " ".intercalate (flags'.map fun b => if b then "1" else "0") ++ " | " ++
      " ".intercalate (fixed.map toString) ++ " | " ++ " ".intercalate (s0.map fun v => toString v.1)
    match allSome g.es with
    | none => pure ("unbound " ++ head)
    | some es2 =>
      match system fixed es2 s0, step (fun _ _ => fun i => dx.getD i nan) fixed es2 s0 with
      | some (chi2, b, H), some s1 =>
        let nN := s0.foldl (fun acc v => acc + v.2.1) 0
        pure ("ok " ++ head ++ s!" | {fmtFloat chi2} {nN} " ++
          " ".intercalate ((List.range nN).map fun i => fmtFloat (b i)) ++ " " ++
          " ".intercalate ((List.range nN).flatMap fun i => (List.range nN).map fun j => fmtFloat (H i j)) ++ " | " ++
          dumpState s1)
      | _, _ => pure ("illtyped " ++ head)
  match res with
  | some s => s
  | none => "err bad-args"

/-- `run <tol> <maxIter> <ffp> <graph> <K> {<N> <dx>*N}*K`: a whole `optimize` call; iteration `i < K` applies the `i`-th
    recorded increment (later ones, never reached by a faithful run, apply NaN).
    Reply: `ok <report> | <flags'> | <returned poses>` or `err IndexError`. -/
def handleRun (ws : List String) : String :=
  let r : Rd := { toks := ws.toArray }
  let res : Option String := do
    let (tol, r) ← r.flt
    let (maxIter, r) ← r.nat
    let (ffp, r) ← r.nat
    let (g, r) ← r.graph
    let (k, r') ← r.nat
    let mut r := r'
    let mut dxs : Array (Array Float) := #[]
    for _ in [0:k] do
      let (n, r1) ← r.nat
      let (dx, r2) ← r1.flts n
      dxs := dxs.push dx
      r := r2
    match allSome g.es with
    | none => pure "unbound"
    | some es2 =>
      let eps : Float := Float.ofBits 0x3CB0000000000000  -- np.finfo(float).eps = 2^-52
      let dxf : Nat → Nat → Float := fun i t => match dxs[i]? with | some a => a.getD t nan | none => nan
      match optimizeRun tol eps maxIter (ffp != 0) g.flags dxf es2 g.ps with
      | .error _ => pure "err IndexError"
      | .ok (rep, st, flags') =>
        pure ("ok " ++ fmtReport rep ++ " | " ++ " ".intercalate (flags'.map fun b => if b then "1" else "0") ++ " | " ++
          (match st with | some s => dumpState s | none => "illtyped"))
  match res with
  | some s => s
  | none => "err bad-args"

end Driver
