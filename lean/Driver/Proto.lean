/-! Line-protocol helpers for the model driver: floats travel as 16-hex-digit IEEE-754 bit patterns. -/

namespace Driver

def hexVal (c : Char) : Option Nat :=
  if '0' ≤ c ∧ c ≤ '9' then some (c.toNat - '0'.toNat)
  else if 'a' ≤ c ∧ c ≤ 'f' then some (c.toNat - 'a'.toNat + 10)
  else if 'A' ≤ c ∧ c ≤ 'F' then some (c.toNat - 'A'.toNat + 10)
  else none

def parseHex (s : String) : Option Nat :=
  if s.isEmpty then none else
  s.foldl (fun acc c => match acc, hexVal c with
    | some a, some v => some (a * 16 + v)
    | _, _ => none) (some 0)

def parseFloat (s : String) : Option Float :=
  (parseHex s).map fun n => Float.ofBits n.toUInt64

def hexDigit (n : Nat) : Char :=
  if n < 10 then Char.ofNat (n + '0'.toNat) else Char.ofNat (n - 10 + 'a'.toNat)

def toHex16 (n : UInt64) : String := Id.run do
  let mut s := ""
  for i in [0:16] do
    let sh := (15 - i) * 4
    s := s.push (hexDigit ((n.toNat >>> sh) % 16))
  return s

def fmtFloat (x : Float) : String := toHex16 x.toBits

def fmtFloats (a : Array Float) : String := " ".intercalate (a.toList.map fmtFloat)

def parseFloats (ws : List String) : Option (Array Float) :=
  ws.foldl (fun acc w => match acc, parseFloat w with
    | some a, some x => some (a.push x)
    | _, _ => none) (some #[])

def parseNats (s : String) : Option (Array Nat) :=
  if s == "-" then some #[] else
  (s.splitOn ",").foldl (fun acc w => match acc, w.toNat? with
    | some a, some x => some (a.push x)
    | _, _ => none) (some #[])

def parseInts (s : String) : Option (Array Int) :=
  if s == "-" then some #[] else
  (s.splitOn ",").foldl (fun acc w => match acc, w.toInt? with
    | some a, some x => some (a.push x)
    | _, _ => none) (some #[])

end Driver
