import GraphSlam.Model.HeapObs
import Driver.Iter

/-!
Driver command `heap`: run the object-identity model (`GraphSlam.Model.Objects`, Model/Heap.lean + Model/HeapObs.lean) at
`Float` on a world with aliasing and a history of calls; after every call print a canonical, identity-aware observation.

    heap <nobj> obj*nobj
         <nv> { <id> <obj#> <fixed> <gidx> }*nv
         <ne> { odo|lm|dist|dista <k> <vpos>*k <est obj#> <info obj#> <off obj#|-> }*ne
         <nops> op*nops

    obj := p <kind> <hex>*dim(kind)  |  s <n> <hex>*n  |  b <r> <c> <hex>*(r*c)          kind ∈ r2 r3 se2 se3
    op  := copy t | add t t | sub t t | inv t | compact t | norm t | iadd k t
         | cerr ei | chi2 ei | jac ei | gchi2 | numjac ei vi dim <eps hex> | numjacs ei <eps hex>
         | opt <ffp> <extra> <eps hex> <iters> { <n> <hex>*n }*iters
         | scrib t obj | bind k t | setfixed k <0|1>

The initial objects are allocated in the order given: `obj#` = position = ObjId; several vertices / edge attributes may name
the same `obj#` (aliasing).  `vpos` are positions in the vertex list, `gidx` the `gradient_index` of the real vertex.

**Tracked objects.**  The driver (and the harness, on the real objects) keeps a list of every object it has *observed*: the
`nobj` initial objects, then after every call, in this order, (1) the objects a spy inside the call saw (`numjac`: the
perturbed pose of every inner `calc_error()`; `opt`: the pose object of every vertex at every `spsolve` call), (2) the
objects the call returned, (3) the objects bound to the vertices' `pose`, (4) to the edges' `estimate`, `information`,
`offset` — each appended if not yet in the list.  The position in that list is the object's canonical name, `t` in the
operations.  It is first-occurrence numbering that persists over the whole history.

Reply: `ok step0 | step1 | …` (step0 = the initial world; the history stops after the first `raise`, or `badref`: an operand name that does not exist), each step

    <ok|raise>;<#tracked>;<v slots>;<e slots: est info off|->*;<results>;<inner>;<changed>;<fixed flags>;<pose of every vertex>;<result contents>;<content of the in-place target of norm / scrib>

`changed` = the tracked objects that existed before the call and whose content is not bit-identical after it.
-/

namespace Driver
open GraphSlam GraphSlam.Model GraphSlam.Model.Objects

abbrev HObj := Obj (Pose Float) Float
abbrev HWorld := World (Pose Float) Float

def Rd.obj (r : Rd) : Option (HObj × Rd) := do
  let (t, r) ← r.str
  match t with
  | "p" =>
    let (p, r) ← r.pose
    pure (.pose p, r)
  | "s" =>
    let (n, r) ← r.nat
    let (a, r) ← r.flts n
    pure (.seg ⟨n, fun i => a.getD i 0.0⟩, r)
  | "b" =>
    let (m, r) ← r.nat
    let (c, r) ← r.nat
    let (a, r) ← r.flts (m * c)
    pure (.block ⟨m, c, fun i j => if i < m ∧ j < c then a.getD (i * c + j) 0.0 else 0.0⟩, r)
  | _ => none

def poseKind : Pose Float → String
  | .r2 _ => "r2" | .r3 _ => "r3" | .se2 _ => "se2" | .se3 _ => "se3"

def segVals (s : Seg Float) : List Float := (List.range s.len).map s.get
def blockVals (b : Block Float) : List Float := (List.range b.r).flatMap fun i => (List.range b.c).map fun j => b.get i j

/-- class / shape tag and the bit patterns of the entries: equality of these lists is bitwise equality of the contents -/
def objBits : HObj → List UInt64
  | .pose p => (match p with | .r2 _ => 1 | .r3 _ => 2 | .se2 _ => 3 | .se3 _ => 4) :: (poseVals p).map Float.toBits
  | .seg s => 5 :: s.len.toUInt64 :: (segVals s).map Float.toBits
  | .block b => 6 :: b.r.toUInt64 :: b.c.toUInt64 :: (blockVals b).map Float.toBits

def fmtFs (xs : List Float) : String := " ".intercalate (xs.map fmtFloat)

def objDump : Option HObj → String
  | none => "none"
  | some (.pose p) => s!"p {poseKind p} " ++ fmtFs (poseVals p)
  | some (.seg s) => s!"s {s.len} " ++ fmtFs (segVals s)
  | some (.block b) => s!"b {b.r} {b.c} " ++ fmtFs (blockVals b)

/-- one call of the history; `t`, `q` are canonical names (positions in the tracked list) -/
inductive HCmd where
  | copy (t : Nat) | add (t q : Nat) | sub (t q : Nat) | inv (t : Nat) | compact (t : Nat) | norm (t : Nat)
  | iadd (k t : Nat)
  | cerr (ei : Nat) | chi2 (ei : Nat) | jac (ei : Nat) | gchi2
  | numjac (ei vi dim : Nat) (eps : Float)
  | numjacs (ei : Nat) (eps : Float)
  | opt (ffp extra : Bool) (eps : Float) (dxs : Array (Array Float))
  | scrib (t : Nat) (o : HObj) | bind (k t : Nat) | setfixed (k : Nat) (b : Bool)

def Rd.cmd (r : Rd) : Option (HCmd × Rd) := do
  let (t, r) ← r.str
  match t with
  | "copy" => let (a, r) ← r.nat; pure (.copy a, r)
  | "inv" => let (a, r) ← r.nat; pure (.inv a, r)
  | "compact" => let (a, r) ← r.nat; pure (.compact a, r)
  | "norm" => let (a, r) ← r.nat; pure (.norm a, r)
  | "add" => let (a, r) ← r.nat; let (b, r) ← r.nat; pure (.add a b, r)
  | "sub" => let (a, r) ← r.nat; let (b, r) ← r.nat; pure (.sub a b, r)
  | "iadd" => let (a, r) ← r.nat; let (b, r) ← r.nat; pure (.iadd a b, r)
  | "bind" => let (a, r) ← r.nat; let (b, r) ← r.nat; pure (.bind a b, r)
  | "setfixed" => let (a, r) ← r.nat; let (b, r) ← r.nat; pure (.setfixed a (b != 0), r)
  | "cerr" => let (a, r) ← r.nat; pure (.cerr a, r)
  | "chi2" => let (a, r) ← r.nat; pure (.chi2 a, r)
  | "jac" => let (a, r) ← r.nat; pure (.jac a, r)
  | "gchi2" => pure (.gchi2, r)
  | "numjac" =>
    let (ei, r) ← r.nat
    let (vi, r) ← r.nat
    let (dim, r) ← r.nat
    let (eps, r) ← r.flt
    pure (.numjac ei vi dim eps, r)
  | "numjacs" =>
    let (ei, r) ← r.nat
    let (eps, r) ← r.flt
    pure (.numjacs ei eps, r)
  | "opt" =>
    let (ffp, r) ← r.nat
    let (extra, r) ← r.nat
    let (eps, r) ← r.flt
    let (k, r') ← r.nat
    let mut r := r'
    let mut dxs : Array (Array Float) := #[]
    for _ in [0:k] do
      let (n, r1) ← r.nat
      let (dx, r2) ← r1.flts n
      dxs := dxs.push dx
      r := r2
    pure (.opt (ffp != 0) (extra != 0) eps dxs, r)
  | "scrib" =>
    let (a, r) ← r.nat
    let (o, r) ← r.obj
    pure (.scrib a o, r)
  | _ => none

structure HInput where
  w : HWorld
  nobj : Nat
  kinds : List EKind
  cmds : List HCmd

def Rd.heapInput (r : Rd) : Option HInput := do
  let (nobj, r') ← r.nat
  let mut r := r'
  let mut heap : Heap HObj := Heap.empty
  for _ in [0:nobj] do
    let (o, r1) ← r.obj
    heap := (heap.alloc o).1
    r := r1
  let (nv, r') ← r.nat
  r := r'
  let mut vs : List VertexO := []
  for _ in [0:nv] do
    let (vid, r1) ← r.int
    let (o, r2) ← r1.nat
    let (fl, r3) ← r2.nat
    let (g, r4) ← r3.nat
    vs := vs ++ [{ id := vid, pose := o, fixed := fl != 0, gidx := g }]
    r := r4
  let (ne, r') ← r.nat
  r := r'
  let mut es : List EdgeO := []
  let mut kinds : List EKind := []
  for _ in [0:ne] do
    let (ty, r1) ← r.str
    let kind ← (match ty with
      | "odo" => some EKind.odo | "lm" => some EKind.lm | "dist" => some EKind.dist | "dista" => some EKind.dista | _ => none)
    let (k, r2) ← r1.nat
    let (vp, r3) ← r2.nats k
    let (est, r4) ← r3.nat
    let (info, r5) ← r4.nat
    let (offs, r6) ← r5.str
    let off ← (if offs == "-" then some none else offs.toNat?.map some)
    es := es ++ [{ verts := vp.toList, estimate := est, information := info, offset := off }]
    kinds := kinds ++ [kind]
    r := r6
  let (nops, r') ← r.nat
  r := r'
  let mut cmds : List HCmd := []
  for _ in [0:nops] do
    let (c, r1) ← r.cmd
    cmds := cmds ++ [c]
    r := r1
  if r.pos != r.toks.size then none
  pure { w := { heap := heap, vertices := vs, edges := es }, nobj := nobj, kinds := kinds, cmds := cmds }

/-- the library call (an `Op` of the model) a command stands for; `none` for the caller's own attribute assignments -/
def HCmd.toOp (kinds : List EKind) (tr : Array Nat) : HCmd → Option (Option (Op (Pose Float) Float))
  | .copy t => do let a ← tr[t]?; pure (some (.copy a))
  | .inv t => do let a ← tr[t]?; pure (some (.inverse a))
  | .compact t => do let a ← tr[t]?; pure (some (.toCompact a))
  | .norm t => do let a ← tr[t]?; pure (some (.normalize a))
  | .add t q => do let a ← tr[t]?; let b ← tr[q]?; pure (some (.add a b))
  | .sub t q => do let a ← tr[t]?; let b ← tr[q]?; pure (some (.sub a b))
  | .iadd k t => do let a ← tr[t]?; pure (some (.iadd k a))
  | .cerr ei => do
    let k ← kinds[ei]?
    pure (some (match k with | .odo => .calcErrorOdo ei | .lm => .calcErrorLm ei | _ => .query (errF kinds ei)))
  | .chi2 ei => pure (some (.query (chi2F kinds ei)))
  | .jac ei => pure (some (.query (jacF kinds ei)))
  | .gchi2 => pure (some (.query (gchi2F kinds)))
  | .numjac ei vi dim eps => do
    let k ← kinds[ei]?
    pure (some (.numJacobian (uerrTyped k) ei vi dim eps))
  | .opt _ _ _ _ => pure none
  | .numjacs _ _ => pure none
  | .scrib t o => do let a ← tr[t]?; pure (some (.scribble a o))
  | .bind _ _ => pure none
  | .setfixed _ _ => pure none

/-- what a spy inside the call sees (objects, in order) -/
def seenInside (L : PoseLib (Pose Float) Float) (w : HWorld) : Op (Pose Float) Float → List Nat
  | .numJacobian uerr ei vi dim eps => numJacSeen L uerr w ei vi dim eps
  | _ => []

/-- the recorded increments as the `solve` parameter of the model: iteration `i` applies the `i`-th one -/
def solveOf (dxs : Array (Array Float)) : Nat → GraphView (Pose Float) Float → Seg Float :=
  fun i _ => match dxs[i]? with
    | some a => ⟨a.size, fun t => a.getD t nan⟩
    | none => ⟨0, fun _ => nan⟩

/-- the edges of the graph that use `BaseEdge.calc_jacobians` (numerical differentiation), in graph order -/
def numEdges (kinds : List EKind) : List (NumEdge (Pose Float) Float) :=
  (kinds.zipIdx.filter fun p => p.1 == EKind.dist).map fun p => ⟨p.2, uerrTyped p.1⟩

/-- run one command: `none` = bad reference; `some none` = the call raises; else the world, results, inner observations -/
def runCmd (kinds : List EKind) (tr : Array Nat) (c : HCmd) (w : HWorld) : Option (Option (HWorld × List Nat × List Nat)) := do
  match ← c.toOp kinds tr with
  | some op =>
    match execR storedLib op w with
    | none => pure none
    | some (w', res) => pure (some (w', res, seenInside storedLib w op))
  | none =>
    match c with
    | .bind k t => do
      let a ← tr[t]?
      pure (some (w.rebind k a, [], []))
    | .setfixed k b => pure (some (w.setFixed k b, [], []))
    | .numjacs ei eps => do
      let k ← kinds[ei]?
      pure ((calcJacobiansNumObj storedLib (uerrTyped k) eps w ei).map fun r => (r.1, r.2, []))
    | .opt ffp extra eps dxs =>
      -- `Model/HeapNumOpt.lean`; with no numerically differentiated edge this is `exec (.optimize …)` (`optimizeNumObj_nil`)
      let nes := numEdges kinds
      let seen := (optimizeNumSeen storedLib nes eps (solveOf dxs) ffp dxs.size w).flatMap fun
        | some wi => wi.vertices.map (·.pose)
        | none => []
      pure ((optimizeNumObj storedLib nes eps (solveOf dxs) ffp dxs.size extra w).map fun w' => (w', [], seen))
    | _ => none

structure HState where
  w : HWorld
  tracked : Array Nat
  snaps : Array (List UInt64)

def HState.bitsOf (s : HState) (id : Nat) : List UInt64 :=
  match s.w.heap.get? id with
  | some o => objBits o
  | none => []

/-- canonical name of an object (appended to the tracked list at first sight) -/
def HState.name (s : HState) (id : Nat) : HState × Nat :=
  match s.tracked.findIdx? (· == id) with
  | some i => (s, i)
  | none => ({ s with tracked := s.tracked.push id, snaps := s.snaps.push (s.bitsOf id) }, s.tracked.size)

def HState.names (s : HState) (ids : List Nat) : HState × List Nat :=
  ids.foldl (fun (acc : HState × List Nat) id => let r := acc.1.name id; (r.1, acc.2 ++ [r.2])) (s, [])

def natsStr (xs : List Nat) : String := " ".intercalate (xs.map toString)

/-- observe the world after a call: names, changed contents, flags, values -/
def HState.observe (s : HState) (status : String) (res inner : List Nat) (target : Option Nat := none) : HState × String :=
  let oldN := s.tracked.size
  let (s, innerN) := s.names inner
  let (s, resN) := s.names res
  let (s, vN) := s.names (s.w.vertices.map (·.pose))
  let (s, eN) := s.w.edges.foldl (fun (acc : HState × List String) e =>
    let (s1, a) := acc.1.name e.estimate
    let (s2, b) := s1.name e.information
    match e.offset with
    | some o => let (s3, c) := s2.name o; (s3, acc.2 ++ [s!"{a} {b} {c}"])
    | none => (s2, acc.2 ++ [s!"{a} {b} -"])) (s, [])
  let changed := (List.range oldN).filter fun i =>
    match s.tracked[i]?, s.snaps[i]? with
    | some id, some old => s.bitsOf id != old
    | _, _ => false
  let snaps := changed.foldl (fun (sn : Array (List UInt64)) i =>
    match s.tracked[i]? with
    | some id => sn.setIfInBounds i (s.bitsOf id)
    | none => sn) s.snaps
  let s := { s with snaps := snaps }
  let out := ";".intercalate [status, toString s.tracked.size, natsStr vN, " ".intercalate eN, natsStr resN, natsStr innerN,
    natsStr changed, " ".intercalate (s.w.vertices.map fun v => if v.fixed then "1" else "0"),
    ",".intercalate (s.w.vertices.map fun v => objDump (s.w.heap.get? v.pose)),
    ",".intercalate (res.map fun id => objDump (s.w.heap.get? id)),
    (match target with | some id => objDump (s.w.heap.get? id) | none => "")]
  (s, out)

def heapCmd (ws : List String) : String :=
  let r : Rd := { toks := ws.toArray }
  match r.heapInput with
  | none => "err bad-args"
  | some inp =>
    let s0 : HState := { w := inp.w, tracked := Array.range inp.nobj, snaps := #[] }
    let s0 := { s0 with snaps := s0.tracked.map s0.bitsOf }
    let (s0, out0) := s0.observe "ok" [] []
    let rec go (s : HState) (cmds : List HCmd) (outs : Array String) : Array String :=
      match cmds with
      | [] => outs
      | c :: rest =>
        match runCmd inp.kinds s.tracked c s.w with
        | none => outs.push "badref"
        | some none => outs.push "raise"
        | some (some (w', res, inner)) =>
          let target := match c with
            | .norm t => s.tracked[t]?
            | .scrib t _ => s.tracked[t]?
            | _ => none
          let (s', o) := ({ s with w := w' } : HState).observe "ok" res inner target
          go s' rest (outs.push o)
    "ok " ++ " | ".intercalate (go s0 inp.cmds #[out0]).toList

end Driver
