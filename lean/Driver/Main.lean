import GraphSlam.Generated.Dispatch
import Driver.Proto
import GraphSlam.Model.Chi2

/-! Model driver: one request per input line, one reply per output line.

  eval <name> <dims|-> <hexfloat>*      evaluate a generated definition at Float
  names                                  list generated definitions
  sum <hexfloat>*                        Model.graphChi2 (Python `sum`) at Float
-/

open Driver

def handle (line : String) : String :=
  match (line.trimAscii.toString.splitOn " ").filter (· ≠ "") with
  | "eval" :: name :: dims :: rest =>
    match parseNats dims, parseFloats rest with
    | some d, some a =>
      match GraphSlam.Gen.Dispatch.eval name d a with
      | some out => "ok " ++ fmtFloats out
      | none => "err unknown-def"
    | _, _ => "err bad-args"
  | "sum" :: rest =>
    match parseFloats rest with
    | some a => "ok " ++ fmtFloat (GraphSlam.Model.graphChi2 a.toList)
    | none => "err bad-args"
  | ["names"] => "ok " ++ " ".intercalate GraphSlam.Gen.Dispatch.names
  | _ => "err bad-op"

partial def loop (h : IO.FS.Stream) (out : IO.FS.Stream) : IO Unit := do
  let line ← h.getLine
  if line.isEmpty then return ()
  out.putStrLn (handle line)
  out.flush
  loop h out

def main : IO Unit := do
  let out ← IO.getStdout
  loop (← IO.getStdin) out
  out.flush
