import GraphSlam.Generated.Dispatch
import Driver.Proto
import GraphSlam.Model.Chi2
import GraphSlam.Model.Ctl
import Driver.Asm
import Driver.Iter
import Driver.NumIter
import Driver.Heap
import GraphSlam.Model.NumJac

/-! Model driver: one request per input line, one reply per output line.

  eval <name> <dims|-> <hexfloat>*      evaluate a generated definition at Float
  names                                  list generated definitions
  sum <hexfloat>*                        Model.graphChi2 (Python `sum`) at Float
  asm <graph snapshot>                   Model.contribs / accumulate / fillGradient / fillHessian (see Driver/Asm.lean)
  iter <typed graph> <dx>                Model.step: one whole iteration on a typed graph (see Driver/Iter.lean)
  run <tol> <maxIter> <typed graph> <dx>* Model.optimizeRun: a whole optimize() call (see Driver/Iter.lean)
  numiter <typed graph> <dx>             Props.C16.numSystem / numStep (eps = 1e-6): one iteration with every edge differentiated
                                         numerically by BaseEdge.calc_jacobians (see Driver/NumIter.lean)
  numiterm <typed graph> <dx>            the same through numSystemMemo (= numSystem, proved; Jacobians tabulated once)
  fixedidx <ffp> <n> <flag>*n <gidx>*n   flags after fix_first_pose and the fixed gradient-index set (graph.py:429-433)
  fd <eps> <m> <err0>*m <errd>*m         Model.fdColumn: one column of the numerical Jacobian
  ctl <tol> <eps> <maxIter> <chi2>*      Model.optimizeCtl: the report of Graph.optimize from the chi2 sequence
  heap <world with aliasing> <history>   Model.Objects (object identities): see Driver/Heap.lean
-/

open Driver

def handle (line : String) : String :=
  match (line.trimAscii.toString.splitOn " ").filter (· ≠ "") with
  | "eval" :: name :: dims :: rest =>
    match parseNats dims, parseFloats rest with
    | some d, some a =>
      match GraphSlam.Gen.Dispatch.eval name d a with
      | some out => "ok " ++ fmtFloats out
      | none => "err unknown-def"
    | _, _ => "err bad-args"
  | "sum" :: rest =>
    match parseFloats rest with
    | some a => "ok " ++ fmtFloat (GraphSlam.Model.graphChi2 a.toList)
    | none => "err bad-args"
  | "ctl" :: tol :: eps :: maxIter :: rest =>
    match parseFloat tol, parseFloat eps, maxIter.toNat?, parseFloats rest with
    | some t, some e, some m, some cs =>
      match GraphSlam.Model.optimizeCtl t e m (fun i => cs.getD i (0.0 / 0.0)) with
      | .ok r => "ok " ++ fmtReport r
      | .error _ => "err IndexError"
    | _, _, _, _ => "err bad-args"
  | "asm" :: rest => handleAsm rest
  | "iter" :: rest => handleIter rest
  | "numiter" :: rest => handleNumIter rest
  | "numiterm" :: rest => handleNumIterM rest
  | "run" :: rest => handleRun rest
  | "heap" :: rest => heapCmd rest
  | "fixedidx" :: ffp :: n :: rest =>
    -- head of optimize(): flags' = applyFixFirst ffp flags ; fixed index set = indices of flagged vertices
    match n.toNat?, (rest.mapM String.toNat?) with
    | some n, some xs =>
      let flags := (xs.take n).map (· != 0)
      let gidx := xs.drop n
      let flags' := GraphSlam.Model.applyFixFirst (ffp == "1") flags
      let fixed := GraphSlam.Model.fixedIndices flags' gidx
      "ok " ++ " ".intercalate (flags'.map fun b => if b then "1" else "0") ++ " | " ++ " ".intercalate (fixed.map toString)
    | _, _ => "err bad-args"
  | "fd" :: eps :: m :: rest =>
    match parseFloat eps, m.toNat?, parseFloats rest with
    | some e, some m, some a =>
      let col := GraphSlam.Model.fdColumn e (fun i => a.getD i (0.0 / 0.0)) (fun i => a.getD (m + i) (0.0 / 0.0))
      "ok " ++ fmtFloats ((Array.range m).map col)
    | _, _, _ => "err bad-args"
  | ["names"] => "ok " ++ " ".intercalate GraphSlam.Gen.Dispatch.names
  | _ => "err bad-op"

partial def loop (h : IO.FS.Stream) (out : IO.FS.Stream) : IO Unit := do
  let line ← h.getLine
  if line.isEmpty then return ()
  out.putStrLn (handle line)
  out.flush
  loop h out

def main : IO Unit := do
  let out ← IO.getStdout
  loop (← IO.getStdin) out
  out.flush
