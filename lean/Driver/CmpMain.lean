import Driver.Proto
import GraphSlam.Model.Equals
import GraphSlam.Model.Validity

/-! Driver for the `equals` (C17) and construction/validity (C18) models: one request per line, one reply per line.

Grammar (blank-separated tokens, floats as 16 hex digits):

    pose     := <kind> <n> <float>^n                          kind ∈ r2 r3 se2 se3
    vertex   := <id> pose
    estimate := P pose | A <rank> <dim>^rank <n> <float>^n | S <float> | N
    offset   := N | O | P pose
    optint   := - | <int>
    edge     := <cls> <nids> <int>^nids <rank> <dim>^rank <n> <float>^n estimate offset optint     cls ∈ odo lm c<k>
    graph    := <ne> edge^ne <nv> vertex^nv

    eq pose|vertex|edge|graph <tol> X X      ->  ok True | ok False | exc <ExceptionClass>

    objkind  := r2 | r3 | se2 | se3 | A | N | S
    vdesc    := <id> <kind>
    edesc    := <cls> <nids> <int>^nids objkind(estimate) objkind(offset) <rank> <dim>^rank
    construct <nv> vdesc^nv <ne> edesc^ne    ->  ok g=<i,..> len=<n> b=<i,..;i,..>   (b: indices into the vertex list)
                                                 | exc <ExceptionClass>
    valid <bound:0|1> <nv> vdesc^nv edesc    ->  ok True | ok False     (is_valid() with e.vertices = the given list / None)
-/

open Driver
open GraphSlam.Model.Cmp GraphSlam.Model.Equals GraphSlam.Model.Validity

abbrev P := StateT (List String) Option

def tok : P String := fun s => match s with | [] => none | t :: ts => some (t, ts)
def pNat : P Nat := do let t ← tok; match t.toNat? with | some n => pure n | none => failure
def pInt : P Int := do let t ← tok; match t.toInt? with | some n => pure n | none => failure
def pFloat : P Float := do let t ← tok; match parseFloat t with | some x => pure x | none => failure

def rep {α : Type} (p : P α) : Nat → P (List α)
  | 0 => pure []
  | n + 1 => do let x ← p; let xs ← rep p n; pure (x :: xs)

def counted {α : Type} (p : P α) : P (List α) := do let n ← pNat; rep p n

def pKind : P PoseKind := do let t ← tok; match PoseKind.ofName? t with | some k => pure k | none => failure

def pCls : P EdgeClass := do
  let t ← tok
  if t == "odo" then pure .odometry
  else if t == "lm" then pure .landmark
  else if t.startsWith "c" then
    match (t.drop 1).toString.toNat? with
    | some k => pure (.custom k)
    | none => failure
  else failure

def pPose : P (Pose Float) := do let k ← pKind; let c ← counted pFloat; pure { kind := k, comps := c }
def pVertex : P (Vertex Float) := do let i ← pInt; let p ← pPose; pure { id := i, pose := p }

def pEstimate : P (Estimate Float) := do
  let t ← tok
  match t with
  | "P" => do let p ← pPose; pure (.pose p)
  | "A" => do let s ← counted pNat; let d ← counted pFloat; pure (.array s d)
  | "S" => do let x ← pFloat; pure (.scalar x)
  | "N" => pure .none
  | _ => failure

def pOffset : P (Offset Float) := do
  let t ← tok
  match t with
  | "N" => pure .none
  | "O" => pure .other
  | "P" => do let p ← pPose; pure (.pose p)
  | _ => failure

def pOptInt : P (Option Int) := do
  let t ← tok
  if t == "-" then pure none else match t.toInt? with | some n => pure (some n) | none => failure

def pEdge : P (Edge Float) := do
  let c ← pCls
  let ids ← counted pInt
  let sh ← counted pNat
  let info ← counted pFloat
  let est ← pEstimate
  let off ← pOffset
  let oid ← pOptInt
  pure { cls := c, vertexIds := ids, infoShape := sh, info := info, estimate := est, offset := off, offsetId := oid }

def pGraph : P (Graph Float) := do
  let es ← counted pEdge
  let vs ← counted pVertex
  pure { edges := es, vertices := vs }

def fmtRes : Except PyErr Bool → String
  | .ok true => "ok True"
  | .ok false => "ok False"
  | .error e => "exc " ++ e.name

def pEq : P String := do
  let what ← tok
  let tol ← pFloat
  match what with
  | "pose" => do let a ← pPose; let b ← pPose; pure (fmtRes (poseEquals tol a b))
  | "vertex" => do let a ← pVertex; let b ← pVertex; pure (fmtRes (vertexEquals tol a b))
  | "edge" => do let a ← pEdge; let b ← pEdge; pure (fmtRes (edgeEquals tol a b))
  | "graph" => do let a ← pGraph; let b ← pGraph; pure (fmtRes (graphEquals tol a b))
  | _ => failure

def pObjKind : P ObjKind := do
  let t ← tok
  match t with
  | "A" => pure .ndarray
  | "N" => pure .none
  | "S" => pure .scalar
  | _ => match PoseKind.ofName? t with | some k => pure (.pose k) | none => failure

def pVDesc : P VertexDesc := do let i ← pInt; let k ← pKind; pure { id := i, kind := k }

def pEDesc : P EdgeDesc := do
  let c ← pCls
  let ids ← counted pInt
  let est ← pObjKind
  let off ← pObjKind
  let sh ← counted pNat
  pure { cls := c, vertexIds := ids, estimate := est, offset := off, infoShape := sh }

def commaNats (l : List Nat) : String := ",".intercalate (l.map toString)

/-- index of each bound vertex in the vertex list (descriptors may repeat, so the model's own indices are reported) -/
def boundIdx (vs : List VertexDesc) (e : EdgeDesc) : String :=
  match bind (vs.map (·.id)) e.vertexIds with
  | .ok js => commaNats js
  | .error _ => "?"

def pConstruct : P String := do
  let vs ← counted pVDesc
  let es ← counted pEDesc
  match construct harnessCustom vs es with
  | .error e => pure ("exc " ++ e.name)
  | .ok g =>
    pure ("ok g=" ++ commaNats g.gradientIndex ++ " len=" ++ toString g.lenGradient ++ " b=" ++ ";".intercalate (es.map (boundIdx vs)))

def pValid : P String := do
  let b ← pNat
  let vs ← counted pVDesc
  let e ← pEDesc
  pure (if isValid harnessCustom e (if b == 0 then none else some vs) then "ok True" else "ok False")

def handle (line : String) : String :=
  let ws := (line.trimAscii.toString.splitOn " ").filter (· ≠ "")
  let run (p : P String) (rest : List String) : String :=
    match p rest with
    | some (r, []) => r
    | some (_, _) => "err trailing-tokens"
    | none => "err bad-args"
  match ws with
  | "eq" :: rest => run pEq rest
  | "construct" :: rest => run pConstruct rest
  | "valid" :: rest => run pValid rest
  | _ => "err bad-op"

partial def loop (h : IO.FS.Stream) (out : IO.FS.Stream) : IO Unit := do
  let line ← h.getLine
  if line.isEmpty then return ()
  out.putStrLn (handle line)
  out.flush
  loop h out

def main : IO Unit := do
  let out ← IO.getStdout
  loop (← IO.getStdin) out
  out.flush
