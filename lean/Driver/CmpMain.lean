import Driver.Proto
/-! placeholder driver for the equals / validity models (C17/C18) -/
def main : IO Unit := IO.println "err not-built"
