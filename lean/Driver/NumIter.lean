import GraphSlam.Props.C16.NumModel
import Driver.Iter

/-!
Driver command `numiter`: one whole iteration of the typed-graph model **with every edge differentiated numerically**
(`GraphSlam.Props.C16.numSystem` / `numStep`, i.e. the built-in edge classes with their `calc_jacobians` override removed so
that `BaseEdge.calc_jacobians` — base_edge.py:142-193 — is what `calc_chi2_gradient_hessian` calls) at `Float`.

    numiter <ffp> <nv> { <id> <kind> <flag> <vals>* }*nv
            <ne> { odo <id_i> <id_j> <zkind> <zvals>* <m> <info>*m*m | lm <id_i> <id_j> <zkind> <zvals>* <okind> <ovals>* <m> <info>*m*m }*ne
            <N> <dx>*N

Exactly the input of `iter` (Driver/Iter.lean).  The differentiation step is the library's
`BaseEdge._NUMERICAL_DIFFERENTIATION_EPSILON = 1e-6` (the double nearest to it, given by its bit pattern so that no decimal
parsing is involved; it is echoed as the last field of the reply and the harness compares it bitwise with the library's
constant).  Reply:

    ok <flags'>*nv | <fixed gidx>* | <gidx>*nv | <chi2> <N> <b>*N <H>*N*N | <pose vals after the update>* | <eps>

Two commands with the same input and reply:

* `numiter`  evaluates `numSystem` literally.  Arrays are functions in the model, so every entry of `H` re-evaluates the
  forward differences it reads (each one two evaluations of the generated `calc_error` through closures): seconds per SE(3)
  graph.
* `numiterm` evaluates `numSystemMemo`: the same expression with every Jacobian of every `EdgeLin` tabulated once
  (`memoLin`: an `Array` filled from the function, read back inside `m × dim`, the function itself outside).
  `numSystemMemo_eq : numSystemMemo h fixed es s = numSystem h fixed es s` is proved below (for every scalar type, hence at
  `Float`; core Lean only; depends on propext / Classical.choice / Quot.sound only), so the two commands compute the same values; the harness uses
  `numiterm` and cross-checks a part of its graphs bit for bit against `numiter`.
-/

namespace Driver
open GraphSlam GraphSlam.Model GraphSlam.Props.C16

/-! ### tabulating the Jacobians (evaluation speed only) -/

section memo
variable {E : Type}

def lookupJ (m dim : Nat) (J : Nat → Nat → E) (tbl : Array E) : Nat → Nat → E := fun a t =>
  if a < m ∧ t < dim then (match tbl[a * dim + t]? with | some v => v | none => J a t) else J a t

def memoVert (m : Nat) : Nat × Nat × (Nat → Nat → E) → Nat × Nat × (Nat → Nat → E)
  | (g, dim, J) =>
    let tbl : Array E := Array.ofFn (n := m * dim) fun i => J (i.val / dim) (i.val % dim)
    (g, dim, lookupJ m dim J tbl)

def memoLin (l : EdgeLin E) : EdgeLin E := { l with verts := l.verts.map (memoVert l.m) }

theorem idx_lt {a t m dim : Nat} (ha : a < m) (ht : t < dim) : a * dim + t < m * dim :=
  calc a * dim + t < a * dim + dim := by omega
    _ = (a + 1) * dim := by rw [Nat.add_mul, Nat.one_mul]
    _ ≤ m * dim := Nat.mul_le_mul_right dim ha

theorem lookupJ_ofFn (m dim : Nat) (J : Nat → Nat → E) :
    lookupJ m dim J (Array.ofFn (n := m * dim) fun i => J (i.val / dim) (i.val % dim)) = J := by
  funext a t
  unfold lookupJ
  split
  · rename_i h
    have hlt := idx_lt h.1 h.2
    have hd : 0 < dim := by omega
    have h1 : (a * dim + t) / dim = a := by
      rw [Nat.mul_comm, Nat.mul_add_div hd, Nat.div_eq_of_lt h.2, Nat.add_zero]
    have h2 : (a * dim + t) % dim = t := by
      rw [Nat.mul_comm, Nat.mul_add_mod, Nat.mod_eq_of_lt h.2]
    simp [hlt, h1, h2]
  · rfl

theorem memoVert_eq (m : Nat) (v : Nat × Nat × (Nat → Nat → E)) : memoVert m v = v := by
  obtain ⟨g, dim, J⟩ := v
  simp only [memoVert, lookupJ_ofFn]

theorem memoLin_eq (l : EdgeLin E) : memoLin l = l := by
  have : (memoVert l.m : Nat × Nat × (Nat → Nat → E) → _) = id := funext (memoVert_eq l.m)
  simp [memoLin, this]

variable [ScalarF E]

def numSystemMemo (h : E) (fixed : List Nat) (es : List (Edge E)) (s : GState E) : Option (E × (Nat → E) × (Nat → Nat → E)) :=
  (allSome (es.map (numLinearise h s))).map fun lins =>
    let acc := accumulate (lins.map memoLin)
    (acc.chi2, fillGradient fixed acc.g, fillHessian fixed (layoutOf s) acc.h)

theorem numSystemMemo_eq (h : E) (fixed : List Nat) (es : List (Edge E)) (s : GState E) :
    numSystemMemo h fixed es s = numSystem h fixed es s := by
  have : (memoLin : EdgeLin E → _) = id := funext memoLin_eq
  simp [numSystemMemo, numSystem, this]

end memo

/-- `1e-6` as Python reads it (`struct.pack('<d', 1e-6)` = 0x3EB0C6F7A0B5ED8D) -/
def numEps : Float := Float.ofBits 0x3EB0C6F7A0B5ED8D

def handleNumIterWith (sys : Float → List Nat → List (Edge Float) → GState Float → Option (Float × (Nat → Float) × (Nat → Nat → Float)))
    (ws : List String) : String :=
  let r : Rd := { toks := ws.toArray }
  let res : Option String := do
    let (ffp, r) ← r.nat
    let (g, r) ← r.graph
    let (n, r'') ← r.nat
    let (dx, _) ← r''.flts n
    let s0 := initState 0 g.ps
    let flags' := applyFixFirst (ffp != 0) g.flags
    let fixed := fixedIndices flags' (s0.map (·.1))
    let head := " ".intercalate (flags'.map fun b => if b then "1" else "0") ++ " | " ++
      " ".intercalate (fixed.map toString) ++ " | " ++ " ".intercalate (s0.map fun v => toString v.1)
    match allSome g.es with
    | none => pure ("unbound " ++ head)
    | some es2 =>
      match sys numEps fixed es2 s0, numStep numEps (fun _ _ => fun i => dx.getD i nan) fixed es2 s0 with
      | some (chi2, b, H), some s1 =>
        let nN := s0.foldl (fun acc v => acc + v.2.1) 0
        pure ("ok " ++ head ++ s!" | {fmtFloat chi2} {nN} " ++
          " ".intercalate ((List.range nN).map fun i => fmtFloat (b i)) ++ " " ++
          " ".intercalate ((List.range nN).flatMap fun i => (List.range nN).map fun j => fmtFloat (H i j)) ++ " | " ++
          dumpState s1 ++ " | " ++ fmtFloat numEps)
      | _, _ => pure ("illtyped " ++ head)
  match res with
  | some s => s
  | none => "err bad-args"

def handleNumIter (ws : List String) : String := handleNumIterWith numSystem ws
def handleNumIterM (ws : List String) : String := handleNumIterWith numSystemMemo ws

end Driver
