import GraphSlam.Model.Assembly
import Driver.Proto

/-! Driver command `asm`: run the assembly model (contribs → accumulate → fill) at `Float` on one graph snapshot. -/

namespace Driver
open GraphSlam.Model

/-- cursor-based token reader -/
structure Rd where
  toks : Array String
  pos : Nat := 0

def Rd.nat (r : Rd) : Option (Nat × Rd) := do
  let t ← r.toks[r.pos]?
  let n ← t.toNat?
  pure (n, { r with pos := r.pos + 1 })

def Rd.flt (r : Rd) : Option (Float × Rd) := do
  let t ← r.toks[r.pos]?
  let x ← parseFloat t
  pure (x, { r with pos := r.pos + 1 })

def Rd.flts (r : Rd) (n : Nat) : Option (Array Float × Rd) := do
  let mut a : Array Float := Array.mkEmpty n
  let mut r := r
  for _ in [0:n] do
    let (x, r') ← r.flt
    a := a.push x
    r := r'
  pure (a, r)

def Rd.nats (r : Rd) (n : Nat) : Option (Array Nat × Rd) := do
  let mut a : Array Nat := Array.mkEmpty n
  let mut r := r
  for _ in [0:n] do
    let (x, r') ← r.nat
    a := a.push x
    r := r'
  pure (a, r)

def nan : Float := 0.0 / 0.0

def readEdge (r : Rd) : Option (EdgeLin Float × Rd) := do
  let (m, r) ← r.nat
  let (chi2, r) ← r.flt
  let (k, r) ← r.nat
  let (gd, r) ← r.nats (2 * k)
  let (err, r) ← r.flts m
  let (info, r) ← r.flts (m * m)
  let mut verts : List (Nat × Nat × (Nat → Nat → Float)) := []
  let mut r := r
  for i in [0:k] do
    let g := gd[2 * i]!
    let d := gd[2 * i + 1]!
    let (jac, r') ← r.flts (m * d)
    r := r'
    verts := verts ++ [(g, d, fun a t => jac.getD (a * d + t) nan)]
  pure ({ m := m, chi2 := chi2, err := fun a => err.getD a nan, info := fun a b => info.getD (a * m + b) nan, verts := verts }, r)

def dumpSeg (idx : Nat) (s : Seg Float) : String :=
  s!"{idx} {s.len} " ++ " ".intercalate ((List.range s.len).map fun i => fmtFloat (s.get i))

def dumpBlock (k : Nat × Nat) (b : Block Float) : String :=
  s!"{k.1} {k.2} {b.r} {b.c} " ++ " ".intercalate ((List.range b.r).flatMap fun i => (List.range b.c).map fun j => fmtFloat (b.get i j))

def dumpDicts (chi2 : Float) (g : List (Nat × Seg Float)) (h : List ((Nat × Nat) × Block Float)) : String :=
  s!"{fmtFloat chi2} {g.length} " ++ " ".intercalate (g.map fun p => dumpSeg p.1 p.2) ++ s!" {h.length} " ++
    " ".intercalate (h.map fun p => dumpBlock p.1 p.2)

def handleAsm (ws : List String) : String :=
  let r : Rd := { toks := ws.toArray }
  let res : Option String := do
    let (n, r) ← r.nat
    let (nf, r) ← r.nat
    let (fixed, r) ← r.nats nf
    let (nv, r) ← r.nat
    let (vs, r) ← r.nats (2 * nv)
    let (ne, r) ← r.nat
    let mut edges : List (EdgeLin Float) := []
    let mut r := r
    for _ in [0:ne] do
      let (e, r') ← readEdge r
      edges := edges ++ [e]
      r := r'
    let cs := edges.map contribs
    let acc := accumulate edges
    let fixedL := fixed.toList
    let verts := (List.range nv).map fun i => (vs[2 * i]!, vs[2 * i + 1]!)
    let g := fillGradient fixedL acc.g
    let H := fillHessian fixedL verts acc.h
    let out := " ".intercalate (cs.map fun c => "C " ++ dumpDicts c.chi2 c.grads c.hess) ++
      " A " ++ dumpDicts acc.chi2 acc.g acc.h ++
      s!" F {n} " ++ " ".intercalate ((List.range n).map fun i => fmtFloat (g i)) ++ " " ++
      " ".intercalate ((List.range n).flatMap fun i => (List.range n).map fun j => fmtFloat (H i j))
    pure out
  match res with
  | some s => "ok " ++ s
  | none => "err bad-args"

end Driver
