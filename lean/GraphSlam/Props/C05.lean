import GraphSlam.Props.C05.Stationary
import GraphSlam.Props.Tie.GraphPy
/-! C05 — umbrella. -/
