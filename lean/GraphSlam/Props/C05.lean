import GraphSlam.Props.C05.Stationary
/-! C05 — umbrella. -/
