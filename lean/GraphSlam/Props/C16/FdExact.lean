import GraphSlam.Props.C16.NumJac
import GraphSlam.Props.C09.Rn
import GraphSlam.Model.GraphIter
import Mathlib.Tactic.FieldSimp
import Mathlib.Tactic.FinCases

/-!
# C16 (a) — the forward difference of an error that is affine along box-plus is EXACT

`Props/C16/NumJac` proves that `Model.numJacobian` (the model of `BaseEdge._calc_jacobian`, base_edge.py:166-193) returns
the forward-difference columns `(err(p ⊞ ε e_d) − err(p)) / ε`, and that these are within `M ε` of the true derivative for
`C²` errors.  Here: if the error moves affinely along box-plus,

  `err(p ⊞ ε e_d) = err(p) + ε · c`    (only this one point of the line is needed),

the column is `c` **exactly**, for every step `ε ≠ 0` — not merely `1e-6`-close:

* `fd_exact_of_affine` (+ `_range`, `_line` variants) — one column of `fdCol`;
* `numJacobian_of_affine` — the whole result of `Model.numJacobian` is the matrix `J` (and the store is restored);
* `numJacobian_odometry_R2_0/_1`, `…_R3_…`, `numJacobian_landmark_R2_0/_1`, `…_R3_…` — for the **generated** R²/R³ edge errors
  (`Gen.EdgeOdometry.calc_error_R2/_R3`, `Gen.EdgeLandmark.calc_error_R2/_R3`) perturbed through the generated
  `PoseR2/PoseR3.iadd_boxplus` (what `pose += delta_pose` executes) and restored with the generated `copy`, the numerical
  Jacobians ARE the generated analytic `calc_jacobians_*` — entry for entry, for any `ε ≠ 0`.
-/

namespace GraphSlam.Props.C16
open GraphSlam GraphSlam.Model GraphSlam.Gen
set_option linter.unusedSimpArgs false
noncomputable section

/-! ### one column -/

/-- **(a) exactness of the forward difference for an affine error.**  If perturbing vertex `k` of the edge by `ε` along
    compact coordinate `d` (through the vertex type's box-plus) moves the error by exactly `ε · c`, the column `d` that
    `_calc_jacobian` stores (`(self.calc_error() - err) / EPSILON`, base_edge.py:188) is `c`, for any `ε ≠ 0`. -/
theorem fd_exact_of_affine {P : Type} (err : List P → Nat → ℝ) (boxplus : P → (Nat → ℝ) → P) (k : Nat) (ε : ℝ)
    (hε : ε ≠ 0) (ps : List P) (p : P) (d : Nat) (c : Nat → ℝ)
    (haff : ∀ a, err (ps.set k (boxplus p (unitDelta d ε))) a = err ps a + ε * c a) :
    fdCol err boxplus k ε ps p d = c := by
  funext a
  simp only [fdCol, real_div, haff a]
  field_simp
  ring

/-- … entrywise, when the affine law is known only for the rows `a < m` of the error -/
theorem fd_exact_of_affine_range {P : Type} (err : List P → Nat → ℝ) (boxplus : P → (Nat → ℝ) → P) (k : Nat) (ε : ℝ)
    (hε : ε ≠ 0) (ps : List P) (p : P) (d m : Nat) (c : Nat → ℝ)
    (haff : ∀ a, a < m → err (ps.set k (boxplus p (unitDelta d ε))) a = err ps a + ε * c a) (a : Nat) (ha : a < m) :
    fdCol err boxplus k ε ps p d a = c a := by
  simp only [fdCol, real_div, haff a ha]
  field_simp
  ring

/-- … in particular when the error is affine along the whole line `t ↦ p ⊞ t e_d` (`err (p ⊞ t e_d) = err p + t • c`) -/
theorem fd_exact_of_affine_line {P : Type} (err : List P → Nat → ℝ) (boxplus : P → (Nat → ℝ) → P) (k : Nat) (ε : ℝ)
    (hε : ε ≠ 0) (ps : List P) (p : P) (d : Nat) (c : Nat → ℝ)
    (haff : ∀ t : ℝ, err (ps.set k (boxplus p (unitDelta d t))) = err ps + t • c) :
    fdCol err boxplus k ε ps p d = c :=
  fd_exact_of_affine err boxplus k ε hε ps p d c (fun a => by rw [haff ε]; rfl)

/-! ### the whole numerical Jacobian -/

/-- **`_calc_jacobian` of an error that is affine in the box-plus increment of vertex `k` returns its matrix exactly**
    (columns `d < dim` of `J`), and restores the store.  `copy p = p` is C09/C15's `Pose*_copy_eq`. -/
theorem numJacobian_of_affine {P : Type} (err : List P → Nat → ℝ) (boxplus : P → (Nat → ℝ) → P) (copy : P → P)
    (k dim : Nat) (ε : ℝ) (hε : ε ≠ 0) (ps : List P) (p : P) (hk : ps[k]? = some p) (hcopy : copy p = p)
    (J : Nat → Nat → ℝ)
    (haff : ∀ d, d < dim → ∀ a, err (ps.set k (boxplus p (unitDelta d ε))) a = err ps a + ε * J a d) :
    numJacobian err boxplus copy k dim ε ps = ((List.range dim).map fun d a => J a d, ps) := by
  rw [numJacobian_spec err boxplus copy k dim ε ps p hk hcopy]
  congr 1
  apply List.map_congr_left
  intro d hd
  exact fd_exact_of_affine err boxplus k ε hε ps p d (fun a => J a d) (haff d (List.mem_range.mp hd))

/-! ### the generated R² / R³ edge errors -/

/-- the error of a binary edge as a function of the edge's own vertex list (the store `_calc_jacobian` perturbs):
    `calc_error()` reads `self.vertices[0].pose`, `self.vertices[1].pose` -/
def errOn2 {n m : Nat} (f : (Fin n → ℝ) → (Fin n → ℝ) → Fin m → ℝ) : List (Fin n → ℝ) → Nat → ℝ
  | [p0, p1] => arrV (f p0 p1)
  | _ => fun _ => 0

/-- `pose += delta_pose` with `delta_pose` a length-`n` array: the generated `iadd_boxplus` on the slice `δ[0:n]` -/
def boxOf {n : Nat} (box : (Fin n → ℝ) → (Fin n → ℝ) → Fin n → ℝ) : (Fin n → ℝ) → (Nat → ℝ) → Fin n → ℝ :=
  fun p δ => box p (vecN δ)

theorem arrV_lt {n : Nat} (v : Fin n → ℝ) (a : Nat) (h : a < n) : arrV v a = v ⟨a, h⟩ := by simp [arrV, h]
theorem arrV_ge {n : Nat} (v : Fin n → ℝ) (a : Nat) (h : ¬ a < n) : arrV v a = 0 := by simp [arrV, h]
theorem arrM_lt {m n : Nat} (M : Fin m → Fin n → ℝ) (a t : Nat) (ha : a < m) (ht : t < n) :
    arrM M a t = M ⟨a, ha⟩ ⟨t, ht⟩ := by simp [arrM, ha, ht]
theorem arrM_row_ge {m n : Nat} (M : Fin m → Fin n → ℝ) (a t : Nat) (h : ¬ a < m) : arrM M a t = 0 := by
  have : ¬ (a < m ∧ t < n) := fun hh => h hh.1
  simp [arrM, this]

/-- a binary edge over two vertices of one `R^n`-like type, differentiated with respect to vertex 0 -/
theorem numJacobian_binary_0 {n m : Nat} (f : (Fin n → ℝ) → (Fin n → ℝ) → Fin m → ℝ)
    (box : (Fin n → ℝ) → (Fin n → ℝ) → Fin n → ℝ) (copy : (Fin n → ℝ) → Fin n → ℝ) (hcopy : ∀ p, copy p = p)
    (J0 : Fin m → Fin n → ℝ) (p0 p1 : Fin n → ℝ) (ε : ℝ) (hε : ε ≠ 0)
    (h : ∀ (d : Fin n) (i : Fin m), f (box p0 (vecN (unitDelta d.val ε))) p1 i = f p0 p1 i + ε * J0 i d) :
    numJacobian (errOn2 f) (boxOf box) copy 0 n ε [p0, p1] = ((List.range n).map fun d a => arrM J0 a d, [p0, p1]) := by
  apply numJacobian_of_affine (errOn2 f) (boxOf box) copy 0 n ε hε [p0, p1] p0 rfl (hcopy p0) (arrM J0)
  intro d hd a
  show arrV (f (box p0 (vecN (unitDelta d ε))) p1) a = arrV (f p0 p1) a + ε * arrM J0 a d
  by_cases ha : a < m
  · rw [arrV_lt _ a ha, arrV_lt _ a ha, arrM_lt J0 a d ha hd]
    exact h ⟨d, hd⟩ ⟨a, ha⟩
  · rw [arrV_ge _ a ha, arrV_ge _ a ha, arrM_row_ge J0 a d ha]; ring

/-- … with respect to vertex 1 -/
theorem numJacobian_binary_1 {n m : Nat} (f : (Fin n → ℝ) → (Fin n → ℝ) → Fin m → ℝ)
    (box : (Fin n → ℝ) → (Fin n → ℝ) → Fin n → ℝ) (copy : (Fin n → ℝ) → Fin n → ℝ) (hcopy : ∀ p, copy p = p)
    (J1 : Fin m → Fin n → ℝ) (p0 p1 : Fin n → ℝ) (ε : ℝ) (hε : ε ≠ 0)
    (h : ∀ (d : Fin n) (i : Fin m), f p0 (box p1 (vecN (unitDelta d.val ε))) i = f p0 p1 i + ε * J1 i d) :
    numJacobian (errOn2 f) (boxOf box) copy 1 n ε [p0, p1] = ((List.range n).map fun d a => arrM J1 a d, [p0, p1]) := by
  apply numJacobian_of_affine (errOn2 f) (boxOf box) copy 1 n ε hε [p0, p1] p1 rfl (hcopy p1) (arrM J1)
  intro d hd a
  show arrV (f p0 (box p1 (vecN (unitDelta d ε)))) a = arrV (f p0 p1) a + ε * arrM J1 a d
  by_cases ha : a < m
  · rw [arrV_lt _ a ha, arrV_lt _ a ha, arrM_lt J1 a d ha hd]
    exact h ⟨d, hd⟩ ⟨a, ha⟩
  · rw [arrV_ge _ a ha, arrV_ge _ a ha, arrM_row_ge J1 a d ha]; ring

macro "rn_fd" : tactic =>
  `(tactic| (
      intro d i
      fin_cases d <;> fin_cases i <;>
      simp [EdgeOdometry.calc_error_R2, EdgeOdometry.calc_error_R3, EdgeLandmark.calc_error_R2, EdgeLandmark.calc_error_R3,
        EdgeOdometry.calc_jacobians_R2_0, EdgeOdometry.calc_jacobians_R2_1, EdgeOdometry.calc_jacobians_R3_0,
        EdgeOdometry.calc_jacobians_R3_1, EdgeLandmark.calc_jacobians_R2_0, EdgeLandmark.calc_jacobians_R2_1,
        EdgeLandmark.calc_jacobians_R3_0, EdgeLandmark.calc_jacobians_R3_1,
        PoseR2.iadd_boxplus, PoseR3.iadd_boxplus,
        PoseR2.to_compact, PoseR2.sub, PoseR2.add, PoseR2.inverse, PoseR2.boxplus,
        PoseR3.to_compact, PoseR3.sub, PoseR3.add, PoseR3.inverse, PoseR3.boxplus,
        PoseR2.jacobian_self_ominus_other_wrt_other_compact, PoseR2.jacobian_self_ominus_other_wrt_other,
        PoseR2.jacobian_self_ominus_other_wrt_self, PoseR2.jacobian_boxplus, PoseR2.jacobian_self_oplus_point_wrt_self,
        PoseR2.jacobian_self_oplus_point_wrt_point, PoseR2.jacobian_inverse, PoseR2.jacobian_self_oplus_other_wrt_self,
        PoseR3.jacobian_self_ominus_other_wrt_other_compact, PoseR3.jacobian_self_ominus_other_wrt_other,
        PoseR3.jacobian_self_ominus_other_wrt_self, PoseR3.jacobian_boxplus, PoseR3.jacobian_self_oplus_point_wrt_self,
        PoseR3.jacobian_self_oplus_point_wrt_point, PoseR3.jacobian_inverse, PoseR3.jacobian_self_oplus_other_wrt_self,
        dotMV, dotMM, finSum_two, finSum_three, eye, negM, vecN, unitDelta] <;> ring))

/-- the generated `EdgeOdometry.calc_error_R2` moves by exactly `ε ·` column `d` of the generated `calc_jacobians_R2_0` when
    vertex 0 is perturbed by `ε e_d` through the generated `PoseR2.iadd_boxplus` -/
theorem odometry_R2_fd_0 (z p0 p1 : Fin 2 → ℝ) (ε : ℝ) (d i : Fin 2) :
    EdgeOdometry.calc_error_R2 z (PoseR2.iadd_boxplus p0 (vecN (unitDelta d.val ε))) p1 i
      = EdgeOdometry.calc_error_R2 z p0 p1 i + ε * EdgeOdometry.calc_jacobians_R2_0 z p0 p1 i d := by
  revert d i; rn_fd

/-- the generated `EdgeOdometry.calc_error_R2` moves by exactly `ε ·` column `d` of the generated `calc_jacobians_R2_1` when
    vertex 1 is perturbed by `ε e_d` through the generated `PoseR2.iadd_boxplus` -/
theorem odometry_R2_fd_1 (z p0 p1 : Fin 2 → ℝ) (ε : ℝ) (d i : Fin 2) :
    EdgeOdometry.calc_error_R2 z p0 (PoseR2.iadd_boxplus p1 (vecN (unitDelta d.val ε))) i
      = EdgeOdometry.calc_error_R2 z p0 p1 i + ε * EdgeOdometry.calc_jacobians_R2_1 z p0 p1 i d := by
  revert d i; rn_fd

/-- the generated `EdgeOdometry.calc_error_R3` moves by exactly `ε ·` column `d` of the generated `calc_jacobians_R3_0` when
    vertex 0 is perturbed by `ε e_d` through the generated `PoseR3.iadd_boxplus` -/
theorem odometry_R3_fd_0 (z p0 p1 : Fin 3 → ℝ) (ε : ℝ) (d i : Fin 3) :
    EdgeOdometry.calc_error_R3 z (PoseR3.iadd_boxplus p0 (vecN (unitDelta d.val ε))) p1 i
      = EdgeOdometry.calc_error_R3 z p0 p1 i + ε * EdgeOdometry.calc_jacobians_R3_0 z p0 p1 i d := by
  revert d i; rn_fd

/-- the generated `EdgeOdometry.calc_error_R3` moves by exactly `ε ·` column `d` of the generated `calc_jacobians_R3_1` when
    vertex 1 is perturbed by `ε e_d` through the generated `PoseR3.iadd_boxplus` -/
theorem odometry_R3_fd_1 (z p0 p1 : Fin 3 → ℝ) (ε : ℝ) (d i : Fin 3) :
    EdgeOdometry.calc_error_R3 z p0 (PoseR3.iadd_boxplus p1 (vecN (unitDelta d.val ε))) i
      = EdgeOdometry.calc_error_R3 z p0 p1 i + ε * EdgeOdometry.calc_jacobians_R3_1 z p0 p1 i d := by
  revert d i; rn_fd

/-- the generated `EdgeLandmark.calc_error_R2` moves by exactly `ε ·` column `d` of the generated `calc_jacobians_R2_0` when
    vertex 0 is perturbed by `ε e_d` through the generated `PoseR2.iadd_boxplus` -/
theorem landmark_R2_fd_0 (z off p0 p1 : Fin 2 → ℝ) (ε : ℝ) (d i : Fin 2) :
    EdgeLandmark.calc_error_R2 z off (PoseR2.iadd_boxplus p0 (vecN (unitDelta d.val ε))) p1 i
      = EdgeLandmark.calc_error_R2 z off p0 p1 i + ε * EdgeLandmark.calc_jacobians_R2_0 z off p0 p1 i d := by
  revert d i; rn_fd

/-- the generated `EdgeLandmark.calc_error_R2` moves by exactly `ε ·` column `d` of the generated `calc_jacobians_R2_1` when
    vertex 1 is perturbed by `ε e_d` through the generated `PoseR2.iadd_boxplus` -/
theorem landmark_R2_fd_1 (z off p0 p1 : Fin 2 → ℝ) (ε : ℝ) (d i : Fin 2) :
    EdgeLandmark.calc_error_R2 z off p0 (PoseR2.iadd_boxplus p1 (vecN (unitDelta d.val ε))) i
      = EdgeLandmark.calc_error_R2 z off p0 p1 i + ε * EdgeLandmark.calc_jacobians_R2_1 z off p0 p1 i d := by
  revert d i; rn_fd

/-- the generated `EdgeLandmark.calc_error_R3` moves by exactly `ε ·` column `d` of the generated `calc_jacobians_R3_0` when
    vertex 0 is perturbed by `ε e_d` through the generated `PoseR3.iadd_boxplus` -/
theorem landmark_R3_fd_0 (z off p0 p1 : Fin 3 → ℝ) (ε : ℝ) (d i : Fin 3) :
    EdgeLandmark.calc_error_R3 z off (PoseR3.iadd_boxplus p0 (vecN (unitDelta d.val ε))) p1 i
      = EdgeLandmark.calc_error_R3 z off p0 p1 i + ε * EdgeLandmark.calc_jacobians_R3_0 z off p0 p1 i d := by
  revert d i; rn_fd

/-- the generated `EdgeLandmark.calc_error_R3` moves by exactly `ε ·` column `d` of the generated `calc_jacobians_R3_1` when
    vertex 1 is perturbed by `ε e_d` through the generated `PoseR3.iadd_boxplus` -/
theorem landmark_R3_fd_1 (z off p0 p1 : Fin 3 → ℝ) (ε : ℝ) (d i : Fin 3) :
    EdgeLandmark.calc_error_R3 z off p0 (PoseR3.iadd_boxplus p1 (vecN (unitDelta d.val ε))) i
      = EdgeLandmark.calc_error_R3 z off p0 p1 i + ε * EdgeLandmark.calc_jacobians_R3_1 z off p0 p1 i d := by
  revert d i; rn_fd

open GraphSlam.Props.C09 in
/-- **`EdgeOdometry` over R² with `calc_jacobians` not overridden**: the numerically differentiated Jacobian with respect
    to the first vertex is the generated analytic `calc_jacobians_R2_0`, exactly, for any `ε ≠ 0`. -/
theorem numJacobian_odometry_R2_0 (z p0 p1 : Fin 2 → ℝ) (ε : ℝ) (hε : ε ≠ 0) :
    numJacobian (errOn2 (EdgeOdometry.calc_error_R2 z)) (boxOf PoseR2.iadd_boxplus) PoseR2.copy 0 2 ε [p0, p1]
      = ((List.range 2).map fun d a => arrM (EdgeOdometry.calc_jacobians_R2_0 z p0 p1) a d, [p0, p1]) :=
  numJacobian_binary_0 _ _ _ PoseR2_copy_eq _ p0 p1 ε hε (odometry_R2_fd_0 z p0 p1 ε)

open GraphSlam.Props.C09 in
theorem numJacobian_odometry_R2_1 (z p0 p1 : Fin 2 → ℝ) (ε : ℝ) (hε : ε ≠ 0) :
    numJacobian (errOn2 (EdgeOdometry.calc_error_R2 z)) (boxOf PoseR2.iadd_boxplus) PoseR2.copy 1 2 ε [p0, p1]
      = ((List.range 2).map fun d a => arrM (EdgeOdometry.calc_jacobians_R2_1 z p0 p1) a d, [p0, p1]) :=
  numJacobian_binary_1 _ _ _ PoseR2_copy_eq _ p0 p1 ε hε (odometry_R2_fd_1 z p0 p1 ε)

open GraphSlam.Props.C09 in
theorem numJacobian_odometry_R3_0 (z p0 p1 : Fin 3 → ℝ) (ε : ℝ) (hε : ε ≠ 0) :
    numJacobian (errOn2 (EdgeOdometry.calc_error_R3 z)) (boxOf PoseR3.iadd_boxplus) PoseR3.copy 0 3 ε [p0, p1]
      = ((List.range 3).map fun d a => arrM (EdgeOdometry.calc_jacobians_R3_0 z p0 p1) a d, [p0, p1]) :=
  numJacobian_binary_0 _ _ _ PoseR3_copy_eq _ p0 p1 ε hε (odometry_R3_fd_0 z p0 p1 ε)

open GraphSlam.Props.C09 in
theorem numJacobian_odometry_R3_1 (z p0 p1 : Fin 3 → ℝ) (ε : ℝ) (hε : ε ≠ 0) :
    numJacobian (errOn2 (EdgeOdometry.calc_error_R3 z)) (boxOf PoseR3.iadd_boxplus) PoseR3.copy 1 3 ε [p0, p1]
      = ((List.range 3).map fun d a => arrM (EdgeOdometry.calc_jacobians_R3_1 z p0 p1) a d, [p0, p1]) :=
  numJacobian_binary_1 _ _ _ PoseR3_copy_eq _ p0 p1 ε hε (odometry_R3_fd_1 z p0 p1 ε)

open GraphSlam.Props.C09 in
/-- **`EdgeLandmark` over R²** (pose vertex and landmark vertex both `PoseR2`, any offset) -/
theorem numJacobian_landmark_R2_0 (z off p0 p1 : Fin 2 → ℝ) (ε : ℝ) (hε : ε ≠ 0) :
    numJacobian (errOn2 (EdgeLandmark.calc_error_R2 z off)) (boxOf PoseR2.iadd_boxplus) PoseR2.copy 0 2 ε [p0, p1]
      = ((List.range 2).map fun d a => arrM (EdgeLandmark.calc_jacobians_R2_0 z off p0 p1) a d, [p0, p1]) :=
  numJacobian_binary_0 _ _ _ PoseR2_copy_eq _ p0 p1 ε hε (landmark_R2_fd_0 z off p0 p1 ε)

open GraphSlam.Props.C09 in
theorem numJacobian_landmark_R2_1 (z off p0 p1 : Fin 2 → ℝ) (ε : ℝ) (hε : ε ≠ 0) :
    numJacobian (errOn2 (EdgeLandmark.calc_error_R2 z off)) (boxOf PoseR2.iadd_boxplus) PoseR2.copy 1 2 ε [p0, p1]
      = ((List.range 2).map fun d a => arrM (EdgeLandmark.calc_jacobians_R2_1 z off p0 p1) a d, [p0, p1]) :=
  numJacobian_binary_1 _ _ _ PoseR2_copy_eq _ p0 p1 ε hε (landmark_R2_fd_1 z off p0 p1 ε)

open GraphSlam.Props.C09 in
theorem numJacobian_landmark_R3_0 (z off p0 p1 : Fin 3 → ℝ) (ε : ℝ) (hε : ε ≠ 0) :
    numJacobian (errOn2 (EdgeLandmark.calc_error_R3 z off)) (boxOf PoseR3.iadd_boxplus) PoseR3.copy 0 3 ε [p0, p1]
      = ((List.range 3).map fun d a => arrM (EdgeLandmark.calc_jacobians_R3_0 z off p0 p1) a d, [p0, p1]) :=
  numJacobian_binary_0 _ _ _ PoseR3_copy_eq _ p0 p1 ε hε (landmark_R3_fd_0 z off p0 p1 ε)

open GraphSlam.Props.C09 in
theorem numJacobian_landmark_R3_1 (z off p0 p1 : Fin 3 → ℝ) (ε : ℝ) (hε : ε ≠ 0) :
    numJacobian (errOn2 (EdgeLandmark.calc_error_R3 z off)) (boxOf PoseR3.iadd_boxplus) PoseR3.copy 1 3 ε [p0, p1]
      = ((List.range 3).map fun d a => arrM (EdgeLandmark.calc_jacobians_R3_1 z off p0 p1) a d, [p0, p1]) :=
  numJacobian_binary_1 _ _ _ PoseR3_copy_eq _ p0 p1 ε hε (landmark_R3_fd_1 z off p0 p1 ε)

/-- non-vacuity / concreteness: with the library's `ε = 1e-6` the numerical Jacobian of an R² odometry edge with respect
    to its first vertex is `I` (columns `(1, 0)`, `(0, 1)`: the error is `z − (p₁ − p₀)`), whatever the measurement and the estimates -/
example (z p0 p1 : Fin 2 → ℝ) :
    (numJacobian (errOn2 (EdgeOdometry.calc_error_R2 z)) (boxOf PoseR2.iadd_boxplus) PoseR2.copy 0 2 1e-6 [p0, p1]).1
      = [fun a => arrM (fun i j : Fin 2 => if i = j then 1 else 0) a 0,
         fun a => arrM (fun i j : Fin 2 => if i = j then 1 else 0) a 1] := by
  rw [numJacobian_odometry_R2_0 z p0 p1 1e-6 (by norm_num)]
  have hJ : EdgeOdometry.calc_jacobians_R2_0 z p0 p1 = fun i j : Fin 2 => if i = j then 1 else 0 := by
    funext i j
    fin_cases i <;> fin_cases j <;>
      simp [EdgeOdometry.calc_jacobians_R2_0, PoseR2.jacobian_self_ominus_other_wrt_other_compact,
        PoseR2.jacobian_self_ominus_other_wrt_other, PoseR2.jacobian_boxplus, dotMM, finSum_two, eye, negM]
  rw [hJ]
  rfl

end
end GraphSlam.Props.C16
