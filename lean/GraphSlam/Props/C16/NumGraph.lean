import GraphSlam.Props.C16.FdExact
import GraphSlam.Props.C16.NumModel
import GraphSlam.Props.C04.EndToEnd

/-!
# C16 (b) — graphs of numerically differentiated edges with affine errors assemble the SAME normal equations

`Props/C16/NumModel` models `BaseEdge.calc_jacobians` / `calc_chi2_gradient_hessian` for edges that define only their error
(`numJacobians`, `numLin`) and a whole iteration / call of `optimize` on a typed graph whose built-in edges have lost their
analytic `calc_jacobians` (`numLineariseAt`, `numSystem`, `numStep`, `numOptimizeSolve`).  Here:

* `numJacobians_of_affine`, `numLin_of_affine` — an edge over **any number of vertices of any pose types** whose error is
  affine in the box-plus increment of each of its vertices (matrices `J k`) gets exactly the record built from `J`:
  `numLin … = exactLin …` (equality of `Model.EdgeLin`s, for every step `ε ≠ 0`);
* `custom_assembly_exact` — hence for a list of such edges `Model.accumulate`, `Model.fillGradient`, `Model.fillHessian`
  produce the same χ², `b`, `H` as with the exact Jacobians (literally the same functions);
* `numLineariseAt_eq_R2/_R3` — the built-in R²/R³ odometry and landmark edges differentiated numerically (generated
  `calc_error_*`, `iadd_boxplus`, `copy`) linearise to exactly what `Model.lineariseAt` builds from the generated analytic
  `calc_jacobians_*`;
* `numSystem_eq`, `numStep_eq`, `numIterStates_eq`, `numOptimizeSolve_eq` — so a whole iteration and a whole call of
  `optimize` coincide with the analytic ones (`Model.system`, `Model.step`, `Model.optimizeSolve`), for any solver;
* `num_optimize_linear_optimum_R2/_R3` — therefore (citing `C04.optimize_linear_optimum_R2/_R3`) the call on the numerically
  differentiated graph returns the global χ² minimiser: **the second clause of C16 holds exactly for R^n graphs.**
-/

namespace GraphSlam.Props.C16
open GraphSlam GraphSlam.Gen GraphSlam.Model GraphSlam.Props.C03 GraphSlam.Props.C04 GraphSlam.Props.E2E
set_option linter.unusedSimpArgs false
set_option linter.unusedVariables false
noncomputable section

/-! ### edges over any number of vertices -/

/-- `J` restricted to the `dim` columns `_calc_jacobian` fills (the array is `np.zeros(err.shape + (dim,))`) -/
def truncJ (dim : Nat) (J : Nat → Nat → ℝ) : Nat → Nat → ℝ := fun a t => if t < dim then J a t else 0

theorem colsToJac_range (dim : Nat) (J : Nat → Nat → ℝ) :
    colsToJac ((List.range dim).map fun d a => J a d) = truncJ dim J := by
  funext a t
  unfold colsToJac truncJ
  by_cases h : t < dim
  · simp [List.getD_eq_getElem?_getD, h]
  · simp [List.getD_eq_getElem?_getD, h]

theorem truncJ_arrM {m n : Nat} (M : Fin m → Fin n → ℝ) : truncJ n (arrM M) = arrM M := by
  funext a t
  unfold truncJ
  by_cases h : t < n
  · simp [h]
  · have : ¬ (a < m ∧ t < n) := fun hh => h hh.2
    simp [h, arrM, this]

/-- the vertex entries of the record built from the exact matrices `J k` (vertex `k` of the edge) -/
def exactVerts (J : Nat → Nat → Nat → ℝ) : Nat → List (Nat × Nat) → List (Nat × Nat × (Nat → Nat → ℝ))
  | _, [] => []
  | k, (g, dim) :: rest => (g, dim, truncJ dim (J k)) :: exactVerts J (k + 1) rest

/-- **`BaseEdge.calc_jacobians` of an edge whose error is affine in the box-plus increment of every one of its vertices
    returns the exact matrices, and leaves the store untouched** — any number of vertices, any pose types (`P` may be a
    sum of pose classes, `boxplus` / `copy` dispatching on the class), any step `ε ≠ 0`. -/
theorem numJacobians_of_affine {P : Type} (err : List P → Nat → ℝ) (boxplus : P → (Nat → ℝ) → P) (copy : P → P)
    (ε : ℝ) (hε : ε ≠ 0) (J : Nat → Nat → Nat → ℝ) (ps : List P) :
    ∀ (vs : List (Nat × Nat)) (k0 : Nat),
      (∀ i g dim, vs[i]? = some (g, dim) → ∃ p, ps[k0 + i]? = some p ∧ copy p = p ∧
          ∀ d, d < dim → ∀ a, err (ps.set (k0 + i) (boxplus p (unitDelta d ε))) a = err ps a + ε * J (k0 + i) a d) →
      numJacobians err boxplus copy ε k0 vs ps = (exactVerts J k0 vs, ps) := by
  intro vs
  induction vs with
  | nil => intro k0 _; rfl
  | cons v rest ih =>
    intro k0 h
    obtain ⟨g, dim⟩ := v
    obtain ⟨p, hk, hcopy, haff⟩ := h 0 g dim rfl
    simp only [Nat.add_zero] at hk haff
    have h1 := numJacobian_of_affine err boxplus copy k0 dim ε hε ps p hk hcopy (J k0) haff
    have h2 := ih (k0 + 1) (fun i g' dim' hi => by
      have := h (i + 1) g' dim' (by simpa using hi)
      have e : k0 + (i + 1) = k0 + 1 + i := by omega
      rw [e] at this
      exact this)
    simp only [numJacobians, h1, h2, exactVerts, colsToJac_range]

/-- the record `calc_chi2_gradient_hessian` would work from with the exact matrices `J` -/
def exactLin (m : Nat) (err : Nat → ℝ) (info : Nat → Nat → ℝ) (vs : List (Nat × Nat)) (J : Nat → Nat → Nat → ℝ) :
    EdgeLin ℝ :=
  { m := m, chi2 := chi2Of m err info, err := err, info := info, verts := exactVerts J 0 vs }

/-- the hypothesis of (b): at the current poses `ps` of its vertices, the error of the edge is affine in the box-plus
    increment of each vertex `k`, along every compact coordinate `d`, with slope column `d` of `J k` (one point `t = ε` of
    the line suffices), and `copy` returns the pose it is given -/
def AffineAt {P : Type} (boxplus : P → (Nat → ℝ) → P) (copy : P → P) (ε : ℝ) (err : List P → Nat → ℝ)
    (vs : List (Nat × Nat)) (ps : List P) (J : Nat → Nat → Nat → ℝ) : Prop :=
  ∀ k g dim, vs[k]? = some (g, dim) → ∃ p, ps[k]? = some p ∧ copy p = p ∧
    ∀ d, d < dim → ∀ a, err (ps.set k (boxplus p (unitDelta d ε))) a = err ps a + ε * J k a d

/-- **(b), one edge**: the record of a numerically differentiated edge with affine error IS the exact record -/
theorem numLin_of_affine {P : Type} (boxplus : P → (Nat → ℝ) → P) (copy : P → P) (ε : ℝ) (hε : ε ≠ 0) (m : Nat)
    (err : List P → Nat → ℝ) (info : Nat → Nat → ℝ) (vs : List (Nat × Nat)) (ps : List P) (J : Nat → Nat → Nat → ℝ)
    (h : AffineAt boxplus copy ε err vs ps J) :
    numLin boxplus copy ε m err info vs ps = exactLin m (err ps) info vs J := by
  unfold numLin exactLin
  rw [numJacobians_of_affine err boxplus copy ε hε J ps vs 0 (fun i g dim hi => by
    obtain ⟨p, h1, h2, h3⟩ := h i g dim hi
    exact ⟨p, by simpa using h1, h2, by simpa using h3⟩)]

/-- an edge that defines only its error, at the current state: error dimension, error function, information matrix,
    `(gradient_index, compact dimension)` and current poses of its vertices -/
structure CustomEdge (P : Type) where
  m : Nat
  err : List P → Nat → ℝ
  info : Nat → Nat → ℝ
  vs : List (Nat × Nat)
  ps : List P

/-- **(b), edge lists**: for a list of numerically differentiated edges, each affine at the current state with matrices
    `Js e`, the accumulated χ², gradient and Hessian dictionaries, and the dense `b` and `H` filled from them (any fixed
    set, any layout) are those of the exact Jacobians — the same `EdgeLin` list goes into `Model.accumulate`. -/
theorem custom_assembly_exact {P : Type} (boxplus : P → (Nat → ℝ) → P) (copy : P → P) (ε : ℝ) (hε : ε ≠ 0)
    (es : List (CustomEdge P)) (Js : CustomEdge P → Nat → Nat → Nat → ℝ)
    (h : ∀ e ∈ es, AffineAt boxplus copy ε e.err e.vs e.ps (Js e)) (fixed : List Nat) (lay : List (Nat × Nat)) :
    let num := es.map fun e => numLin boxplus copy ε e.m e.err e.info e.vs e.ps
    let exact := es.map fun e => exactLin e.m (e.err e.ps) e.info e.vs (Js e)
    num = exact ∧
    (accumulate num).chi2 = (accumulate exact).chi2 ∧
    fillGradient fixed (accumulate num).g = fillGradient fixed (accumulate exact).g ∧
    fillHessian fixed lay (accumulate num).h = fillHessian fixed lay (accumulate exact).h := by
  intro num exact
  have : num = exact :=
    List.map_congr_left fun e he => numLin_of_affine boxplus copy ε hε e.m e.err e.info e.vs e.ps (Js e) (h e he)
  rw [this]
  exact ⟨rfl, rfl, rfl, rfl⟩

/-! ### the built-in R² / R³ edges without their analytic `calc_jacobians` -/

theorem arrV_affine {n m : Nat} (v v' : Fin m → ℝ) (J : Fin m → Fin n → ℝ) (ε : ℝ) (d : Nat) (hd : d < n)
    (h : ∀ i, v' i = v i + ε * J i ⟨d, hd⟩) (a : Nat) : arrV v' a = arrV v a + ε * arrM J a d := by
  by_cases ha : a < m
  · rw [arrV_lt _ a ha, arrV_lt _ a ha, arrM_lt J a d ha hd]; exact h ⟨a, ha⟩
  · rw [arrV_ge _ a ha, arrV_ge _ a ha, arrM_row_ge J a d ha]; ring

/-- a binary edge over two vertices of one `R^n` class (`wrap` is `Pose.r2` / `Pose.r3`), in the typed store -/
theorem numJacobians_binary {n m : Nat} (wrap : (Fin n → ℝ) → Pose ℝ) (errE : List (Pose ℝ) → Nat → ℝ)
    (f : (Fin n → ℝ) → (Fin n → ℝ) → Fin m → ℝ) (box : (Fin n → ℝ) → (Fin n → ℝ) → Fin n → ℝ)
    (hbox : ∀ p δ, Pose.boxplus (wrap p) δ = wrap (box p (vecN δ)))
    (hcopy : ∀ p, poseCopy (wrap p) = wrap p)
    (herr : ∀ a b, errE [wrap a, wrap b] = arrV (f a b))
    (J0 J1 : Fin m → Fin n → ℝ) (a b : Fin n → ℝ) (ε : ℝ) (hε : ε ≠ 0)
    (h0 : ∀ (d : Fin n) (i : Fin m), f (box a (vecN (unitDelta d.val ε))) b i = f a b i + ε * J0 i d)
    (h1 : ∀ (d : Fin n) (i : Fin m), f a (box b (vecN (unitDelta d.val ε))) i = f a b i + ε * J1 i d) (g0 g1 : Nat) :
    numJacobians errE Pose.boxplus poseCopy ε 0 [(g0, n), (g1, n)] [wrap a, wrap b]
      = ([(g0, n, arrM J0), (g1, n, arrM J1)], [wrap a, wrap b]) := by
  rw [numJacobians_of_affine errE Pose.boxplus poseCopy ε hε (fun k => if k = 0 then arrM J0 else arrM J1)
    [wrap a, wrap b] [(g0, n), (g1, n)] 0]
  · simp [exactVerts, truncJ_arrM]
  · intro i g dim hi
    match i, hi with
    | 0, hi =>
      simp only [List.getElem?_cons_zero, Option.some.injEq, Prod.mk.injEq] at hi
      obtain ⟨_, rfl⟩ := hi
      refine ⟨wrap a, rfl, hcopy a, ?_⟩
      intro d hd x
      show errE [Pose.boxplus (wrap a) (unitDelta d ε), wrap b] x = errE [wrap a, wrap b] x + ε * arrM J0 x d
      rw [hbox, herr, herr]
      exact arrV_affine _ _ J0 ε d hd (fun i => h0 ⟨d, hd⟩ i) x
    | 1, hi =>
      simp only [List.getElem?_cons_succ, List.getElem?_cons_zero, Option.some.injEq, Prod.mk.injEq] at hi
      obtain ⟨_, rfl⟩ := hi
      refine ⟨wrap b, rfl, hcopy b, ?_⟩
      intro d hd x
      show errE [wrap a, Pose.boxplus (wrap b) (unitDelta d ε)] x = errE [wrap a, wrap b] x + ε * arrM J1 x d
      rw [hbox, herr, herr]
      exact arrV_affine _ _ J1 ε d hd (fun i => h1 ⟨d, hd⟩ i) x
    | i + 2, hi => simp at hi

theorem boxplus_r2 (p : Fin 2 → ℝ) (δ : Nat → ℝ) : Pose.boxplus (.r2 p) δ = .r2 (PoseR2.iadd_boxplus p (vecN δ)) := by
  simp only [Pose.boxplus, stored_eq]

theorem boxplus_r3 (p : Fin 3 → ℝ) (δ : Nat → ℝ) : Pose.boxplus (.r3 p) δ = .r3 (PoseR3.iadd_boxplus p (vecN δ)) := by
  simp only [Pose.boxplus, stored_eq]

theorem poseCopy_r2 (p : Fin 2 → ℝ) : poseCopy (.r2 p) = .r2 p := by
  simp only [poseCopy, C09.PoseR2_copy_eq]

theorem poseCopy_r3 (p : Fin 3 → ℝ) : poseCopy (.r3 p) = .r3 p := by
  simp only [poseCopy, C09.PoseR3_copy_eq]

/-- **R² edges** (`EdgeOdometry`, `EdgeLandmark` between `PoseR2` vertices): the record with numerically differentiated
    Jacobians is the record `Model.lineariseAt` builds with the generated analytic `calc_jacobians_R2_*` — for every step
    `ε ≠ 0`, every measurement, offset and estimates.  (For an ill-typed edge both are `none`.) -/
theorem numLineariseAt_eq_R2 (ε : ℝ) (hε : ε ≠ 0) (g0 g1 : Nat) (p0 p1 : Pose ℝ) (e : Edge ℝ)
    (h0 : IsR2 p0) (h1 : IsR2 p1) : numLineariseAt ε g0 g1 p0 p1 e = lineariseAt g0 g1 p0 p1 e := by
  cases p0 <;> simp only [IsR2] at h0
  cases p1 <;> simp only [IsR2] at h1
  rename_i a b
  cases e with
  | odo i j z info =>
    cases z <;> simp only [numLineariseAt, lineariseAt, Option.map_none, Option.map_some]
    rename_i z
    have := numJacobians_binary Pose.r2 (edgeErr (.odo i j (.r2 z) info)) (EdgeOdometry.calc_error_R2 z)
      PoseR2.iadd_boxplus boxplus_r2 poseCopy_r2 (fun _ _ => rfl) _ _ a b ε hε
      (odometry_R2_fd_0 z a b ε) (odometry_R2_fd_1 z a b ε) g0 g1
    simp only [Pose.cdim, this]
    rfl
  | lm i j z off info =>
    cases z <;> cases off <;> simp only [numLineariseAt, lineariseAt, Option.map_none, Option.map_some]
    rename_i z off
    have := numJacobians_binary Pose.r2 (edgeErr (.lm i j (.r2 z) (.r2 off) info)) (EdgeLandmark.calc_error_R2 z off)
      PoseR2.iadd_boxplus boxplus_r2 poseCopy_r2 (fun _ _ => rfl) _ _ a b ε hε
      (landmark_R2_fd_0 z off a b ε) (landmark_R2_fd_1 z off a b ε) g0 g1
    simp only [Pose.cdim, this]
    rfl

/-- **R³ edges** -/
theorem numLineariseAt_eq_R3 (ε : ℝ) (hε : ε ≠ 0) (g0 g1 : Nat) (p0 p1 : Pose ℝ) (e : Edge ℝ)
    (h0 : IsR3 p0) (h1 : IsR3 p1) : numLineariseAt ε g0 g1 p0 p1 e = lineariseAt g0 g1 p0 p1 e := by
  cases p0 <;> simp only [IsR3] at h0
  cases p1 <;> simp only [IsR3] at h1
  rename_i a b
  cases e with
  | odo i j z info =>
    cases z <;> simp only [numLineariseAt, lineariseAt, Option.map_none, Option.map_some]
    rename_i z
    have := numJacobians_binary Pose.r3 (edgeErr (.odo i j (.r3 z) info)) (EdgeOdometry.calc_error_R3 z)
      PoseR3.iadd_boxplus boxplus_r3 poseCopy_r3 (fun _ _ => rfl) _ _ a b ε hε
      (odometry_R3_fd_0 z a b ε) (odometry_R3_fd_1 z a b ε) g0 g1
    simp only [Pose.cdim, this]
    rfl
  | lm i j z off info =>
    cases z <;> cases off <;> simp only [numLineariseAt, lineariseAt, Option.map_none, Option.map_some]
    rename_i z off
    have := numJacobians_binary Pose.r3 (edgeErr (.lm i j (.r3 z) (.r3 off) info)) (EdgeLandmark.calc_error_R3 z off)
      PoseR3.iadd_boxplus boxplus_r3 poseCopy_r3 (fun _ _ => rfl) _ _ a b ε hε
      (landmark_R3_fd_0 z off a b ε) (landmark_R3_fd_1 z off a b ε) g0 g1
    simp only [Pose.cdim, this]
    rfl

/-! ### a whole iteration and a whole call -/

section lift
variable (Good : Pose ℝ → Prop) (h : ℝ)

/-- edge by edge at a state all of whose estimates are in the class -/
theorem numLinearise_eq
    (hlin : ∀ g0 g1 p0 p1 e, Good p0 → Good p1 → numLineariseAt h g0 g1 p0 p1 e = lineariseAt g0 g1 p0 p1 e)
    (s : GState ℝ) (hs : ∀ v ∈ s, Good v.2.2) (e : Edge ℝ) : numLinearise h s e = linearise s e := by
  unfold numLinearise linearise
  cases h0 : s[e.ends.1]? with
  | none => rfl
  | some v0 =>
    cases h1 : s[e.ends.2]? with
    | none => rfl
    | some v1 =>
      obtain ⟨g0, d0, p0⟩ := v0
      obtain ⟨g1, d1, p1⟩ := v1
      exact hlin g0 g1 p0 p1 e (hs _ (List.mem_of_getElem? h0)) (hs _ (List.mem_of_getElem? h1))

/-- **the dense system of an iteration is the same**: χ², `b`, `H` (as functions), hence the same Gauss–Newton step -/
theorem numSystem_eq
    (hlin : ∀ g0 g1 p0 p1 e, Good p0 → Good p1 → numLineariseAt h g0 g1 p0 p1 e = lineariseAt g0 g1 p0 p1 e)
    (fixed : List Nat) (es : List (Edge ℝ)) (s : GState ℝ) (hs : ∀ v ∈ s, Good v.2.2) :
    numSystem h fixed es s = system fixed es s := by
  unfold numSystem system
  have : es.map (numLinearise h s) = es.map (linearise s) :=
    List.map_congr_left fun e _ => numLinearise_eq Good h hlin s hs e
  rw [this]

theorem numStep_eq
    (hlin : ∀ g0 g1 p0 p1 e, Good p0 → Good p1 → numLineariseAt h g0 g1 p0 p1 e = lineariseAt g0 g1 p0 p1 e)
    (solve : (Nat → Nat → ℝ) → (Nat → ℝ) → (Nat → ℝ)) (fixed : List Nat) (es : List (Edge ℝ)) (s : GState ℝ)
    (hs : ∀ v ∈ s, Good v.2.2) : numStep h solve fixed es s = step solve fixed es s := by
  unfold numStep step
  rw [numSystem_eq Good h hlin fixed es s hs]

/-- every visited state is the same (the class is preserved by box-plus) -/
theorem numIterStates_eq
    (hlin : ∀ g0 g1 p0 p1 e, Good p0 → Good p1 → numLineariseAt h g0 g1 p0 p1 e = lineariseAt g0 g1 p0 p1 e)
    (hgood : ∀ p δ, Good p → Good (Pose.boxplus p δ))
    (solve : (Nat → Nat → ℝ) → (Nat → ℝ) → (Nat → ℝ)) (fixed : List Nat) (es : List (Edge ℝ)) (s : GState ℝ)
    (hs : ∀ v ∈ s, Good v.2.2) (i : Nat) :
    iterStates (fun _ => numStep h solve fixed es) s i = iterStates (fun _ => step solve fixed es) s i ∧
      ∀ s', iterStates (fun _ => step solve fixed es) s i = some s' → ∀ v ∈ s', Good v.2.2 := by
  induction i with
  | zero =>
    refine ⟨rfl, ?_⟩
    intro s' hs'
    simp only [iterStates, Option.some.injEq] at hs'
    subst hs'; exact hs
  | succ i ih =>
    obtain ⟨ih1, ih2⟩ := ih
    simp only [iterStates]
    rw [ih1]
    cases hi : iterStates (fun _ => step solve fixed es) s i with
    | none => exact ⟨rfl, by intro s' hs'; simp at hs'⟩
    | some si =>
      have hg := ih2 si hi
      simp only [Option.bind_some]
      refine ⟨numStep_eq Good h hlin solve fixed es si hg, ?_⟩
      intro s' hs'
      exact step_good Good hgood solve fixed es si s' hg hs'

/-- **a whole call of `optimize` on the numerically differentiated graph is the call on the analytic one**: same report
    (χ² values, iteration count, convergence flag), same returned estimates, same flags -/
theorem numOptimizeSolve_eq
    (hlin : ∀ g0 g1 p0 p1 e, Good p0 → Good p1 → numLineariseAt h g0 g1 p0 p1 e = lineariseAt g0 g1 p0 p1 e)
    (hgood : ∀ p δ, Good p → Good (Pose.boxplus p δ))
    (tol eps : ℝ) (maxIter : Nat) (ffp : Bool) (flags : List Bool)
    (solve : (Nat → Nat → ℝ) → (Nat → ℝ) → (Nat → ℝ)) (es : List (Edge ℝ)) (ps : List (Pose ℝ))
    (hps : ∀ p ∈ ps, Good p) :
    numOptimizeSolve h tol eps maxIter ffp flags solve es ps = optimizeSolve tol eps maxIter ffp flags solve es ps := by
  have hs0 : ∀ v ∈ initState 0 ps, Good v.2.2 := initState_good Good 0 ps hps
  have hiter : ∀ fixed i, iterStates (fun _ => numStep h solve fixed es) (initState 0 ps) i
      = iterStates (fun _ => step solve fixed es) (initState 0 ps) i :=
    fun fixed i => (numIterStates_eq Good h hlin hgood solve fixed es (initState 0 ps) hs0 i).1
  unfold numOptimizeSolve optimizeSolve optimizeRunOf chi2SeqOf
  simp only [hiter]

end lift

/-! ### the second clause of C16, exactly, for R² / R³ graphs -/

/-- **R² graphs of numerically differentiated edges converge to the same optimum as with exact Jacobians — exactly.**
    Under the hypotheses of `C04.optimize_linear_optimum_R2` (all vertices `PoseR2`, well-typed edges joining different
    vertices with symmetric positive-definite information, every vertex connected to a fixed one, exact solver,
    `max_iter ≥ 1`) and for every differentiation step `h ≠ 0` (the library's `1e-6` included):
    the call on the graph whose edges inherit `BaseEdge.calc_jacobians` equals the call with the analytic Jacobians, and
    returns the state after one Gauss–Newton step, which is the unique global minimiser of χ² among all states agreeing
    on the fixed vertices; `final_chi2` is its χ²; `converged = true` for `max_iter ≥ 2`, `tol > 0`. -/
theorem num_optimize_linear_optimum_R2 (h : ℝ) (hh : h ≠ 0) (tol eps : ℝ) (maxIter : Nat) (hm : 1 ≤ maxIter) (ffp : Bool)
    (flags : List Bool) (solve : (Nat → Nat → ℝ) → (Nat → ℝ) → (Nat → ℝ)) (es : List (Edge ℝ)) (ps : List (Pose ℝ))
    (hps : ∀ p ∈ ps, IsR2 p)
    (htyped : ∃ lins, allSome (es.map (linearise (initState 0 ps))) = some lins)
    (hok : GraphOK ps es) (hpd : ∀ e ∈ es, InfoPD 2 e)
    (hanch : Anchored (fixedOf ffp flags ps) es (initState 0 ps))
    (hsolve : ExactSolver (ps.map Pose.cdim).sum solve) :
    ∃ (report : Report ℝ) (sStar : GState ℝ) (cStar : ℝ),
      numOptimizeSolve h tol eps maxIter ffp flags solve es ps = .ok (report, some sStar, applyFixFirst ffp flags) ∧
      optimizeSolve tol eps maxIter ffp flags solve es ps = .ok (report, some sStar, applyFixFirst ffp flags) ∧
      (∃ r dx, numSystem h (fixedOf ffp flags ps) es (initState 0 ps) = some r ∧
          system (fixedOf ffp flags ps) es (initState 0 ps) = some r ∧
          Solves (ps.map Pose.cdim).sum r.2.2 (fun i => - r.2.1 i) dx ∧
          sStar = applyDx Pose.boxplus (fixedOf ffp flags ps) (initState 0 ps) dx) ∧
      chi2At (fixedOf ffp flags ps) es sStar = some cStar ∧
      report.finalChi2 = some cStar ∧
      (∀ ps' : List (Pose ℝ), (∀ p ∈ ps', IsR2 p) → ps'.length = ps.length →
          (∀ k, FixedPos (fixedOf ffp flags ps) (initState 0 ps) k → ps'[k]? = ps[k]?) →
          ∃ c', chi2At (fixedOf ffp flags ps) es (initState 0 ps') = some c' ∧ cStar ≤ c' ∧
            (c' ≤ cStar → initState 0 ps' = sStar)) ∧
      (2 ≤ maxIter → 0 < tol → 0 < eps → report.converged = true) ∧
      (∃ k, report.numIterations = some k ∧ 1 ≤ k ∧ k ≤ maxIter ∧ (2 ≤ maxIter → 0 < tol → k ≤ 2)) := by
  obtain ⟨report, sStar, cStar, h1, ⟨r, dx, hr, hdx, hst⟩, h3, h4, h5, h6, h7⟩ :=
    optimize_linear_optimum_R2 tol eps maxIter hm ffp flags solve es ps hps htyped hok hpd hanch hsolve
  refine ⟨report, sStar, cStar, ?_, h1, ⟨r, dx, ?_, hr, hdx, hst⟩, h3, h4, h5, h6, h7⟩
  · rw [numOptimizeSolve_eq IsR2 h (fun g0 g1 p0 p1 e => numLineariseAt_eq_R2 h hh g0 g1 p0 p1 e) good_R2]
    · exact h1
    · exact hps
  · rw [numSystem_eq IsR2 h (fun g0 g1 p0 p1 e => numLineariseAt_eq_R2 h hh g0 g1 p0 p1 e)]
    · exact hr
    · exact initState_good IsR2 0 ps hps

/-- **… and R³ graphs** -/
theorem num_optimize_linear_optimum_R3 (h : ℝ) (hh : h ≠ 0) (tol eps : ℝ) (maxIter : Nat) (hm : 1 ≤ maxIter) (ffp : Bool)
    (flags : List Bool) (solve : (Nat → Nat → ℝ) → (Nat → ℝ) → (Nat → ℝ)) (es : List (Edge ℝ)) (ps : List (Pose ℝ))
    (hps : ∀ p ∈ ps, IsR3 p)
    (htyped : ∃ lins, allSome (es.map (linearise (initState 0 ps))) = some lins)
    (hok : GraphOK ps es) (hpd : ∀ e ∈ es, InfoPD 3 e)
    (hanch : Anchored (fixedOf ffp flags ps) es (initState 0 ps))
    (hsolve : ExactSolver (ps.map Pose.cdim).sum solve) :
    ∃ (report : Report ℝ) (sStar : GState ℝ) (cStar : ℝ),
      numOptimizeSolve h tol eps maxIter ffp flags solve es ps = .ok (report, some sStar, applyFixFirst ffp flags) ∧
      optimizeSolve tol eps maxIter ffp flags solve es ps = .ok (report, some sStar, applyFixFirst ffp flags) ∧
      (∃ r dx, numSystem h (fixedOf ffp flags ps) es (initState 0 ps) = some r ∧
          system (fixedOf ffp flags ps) es (initState 0 ps) = some r ∧
          Solves (ps.map Pose.cdim).sum r.2.2 (fun i => - r.2.1 i) dx ∧
          sStar = applyDx Pose.boxplus (fixedOf ffp flags ps) (initState 0 ps) dx) ∧
      chi2At (fixedOf ffp flags ps) es sStar = some cStar ∧
      report.finalChi2 = some cStar ∧
      (∀ ps' : List (Pose ℝ), (∀ p ∈ ps', IsR3 p) → ps'.length = ps.length →
          (∀ k, FixedPos (fixedOf ffp flags ps) (initState 0 ps) k → ps'[k]? = ps[k]?) →
          ∃ c', chi2At (fixedOf ffp flags ps) es (initState 0 ps') = some c' ∧ cStar ≤ c' ∧
            (c' ≤ cStar → initState 0 ps' = sStar)) ∧
      (2 ≤ maxIter → 0 < tol → 0 < eps → report.converged = true) ∧
      (∃ k, report.numIterations = some k ∧ 1 ≤ k ∧ k ≤ maxIter ∧ (2 ≤ maxIter → 0 < tol → k ≤ 2)) := by
  obtain ⟨report, sStar, cStar, h1, ⟨r, dx, hr, hdx, hst⟩, h3, h4, h5, h6, h7⟩ :=
    optimize_linear_optimum_R3 tol eps maxIter hm ffp flags solve es ps hps htyped hok hpd hanch hsolve
  refine ⟨report, sStar, cStar, ?_, h1, ⟨r, dx, ?_, hr, hdx, hst⟩, h3, h4, h5, h6, h7⟩
  · rw [numOptimizeSolve_eq IsR3 h (fun g0 g1 p0 p1 e => numLineariseAt_eq_R3 h hh g0 g1 p0 p1 e) good_R3]
    · exact h1
    · exact hps
  · rw [numSystem_eq IsR3 h (fun g0 g1 p0 p1 e => numLineariseAt_eq_R3 h hh g0 g1 p0 p1 e)]
    · exact hr
    · exact initState_good IsR3 0 ps hps

end
end GraphSlam.Props.C16
