import GraphSlam.Model.NumJac
import GraphSlam.Model.Run

/-!
# C16 — model of graphs whose edges are differentiated numerically (base_edge.py:115-164 on top of `Model.NumJac`)

`Model.NumJac` models `BaseEdge._calc_jacobian` (one vertex of one edge).  `Model.GraphIter` / `Model.Run` model an iteration /
a whole call of `Graph.optimize`, but only for the built-in edge classes, whose `calc_jacobians` is overridden by analytic
formulas.  This file is the glue for edges that define **only their error function** and inherit
`BaseEdge.calc_jacobians`:

```
def calc_jacobians(self):
    err = self.calc_error()
    return [self._calc_jacobian(err, v.pose.COMPACT_DIMENSIONALITY, i) for i, v in enumerate(self.vertices)]
```

* `colsToJac`      — the array `jacobian = np.zeros(err.shape + (dim,)); jacobian[:, d] = col_d` as a function of `(row, column)`;
* `numJacobians`   — the list comprehension: one `Model.numJacobian` per vertex of the edge (any number of vertices, any pose
                     types: the store is a list of abstract poses), the store being threaded from one vertex to the next
                     (`numJacobian` returns it; it is the initial store whenever `copy p = p`, `numJacobian_pure`, so the `err`
                     Python computes once equals the `err ps` each `numJacobian` call recomputes);
* `numLin`         — the record `calc_chi2_gradient_hessian` works from (`Model.EdgeLin`) for such an edge: error and χ² from
                     the error function, Jacobians from `numJacobians`;
* `poseCopy`, `edgeErr`, `numLineariseAt`, `numLinearise` — the typed-graph instance: a built-in `EdgeOdometry` / `EdgeLandmark`
                     **with its `calc_jacobians` override removed** (its generated `calc_error` differentiated numerically
                     through the generated `iadd_boxplus`, restored with the generated `copy`);
* `numSystem`, `numStep`, `numOptimizeSolve` — `Model.system`, `Model.step`, `Model.optimizeSolve` with `linearise` replaced by
                     `numLinearise`: an iteration / a whole call of `Graph.optimize` on a graph of such edges.

Generic in the scalar type, Mathlib-free (executable at `Float`).  The theorems are in `Props/C16/NumGraph*.lean`.
-/

namespace GraphSlam.Props.C16
open GraphSlam GraphSlam.Gen GraphSlam.Model

variable {E : Type} [ScalarF E]

/-- `jacobian[a, t]` of the array whose column `t` is `cols[t]` (`np.zeros` outside the `dim` columns) -/
def colsToJac (cols : List (Nat → E)) : Nat → Nat → E := fun a t => (cols.getD t (fun _ => Scalar.ofInt 0)) a

/-- `BaseEdge.calc_jacobians`: `(gradient_index, dim, numerical Jacobian)` for the vertices `k, k+1, …` of the edge whose
    `(gradient_index, COMPACT_DIMENSIONALITY)` are listed in `vs`; returns the final store as well -/
def numJacobians {P : Type} (err : List P → Nat → E) (boxplus : P → (Nat → E) → P) (copy : P → P) (eps : E) :
    Nat → List (Nat × Nat) → List P → List (Nat × Nat × (Nat → Nat → E)) × List P
  | _, [], ps => ([], ps)
  | k, (g, dim) :: rest, ps =>
    let r := numJacobian err boxplus copy k dim eps ps
    let r' := numJacobians err boxplus copy eps (k + 1) rest r.2
    ((g, dim, colsToJac r.1) :: r'.1, r'.2)

/-- `BaseEdge.calc_chi2` (base_edge.py:97-113): `np.dot(np.dot(np.transpose(err), information), err)` -/
def chi2Of (m : Nat) (err : Nat → E) (info : Nat → Nat → E) : E :=
  sumTo m fun b => (sumTo m fun a => err a * info a b) * err b

/-- what `calc_chi2_gradient_hessian` reads from an edge that defines only `calc_error`: `m` the error dimension, `err` the
    error as a function of the edge's vertex poses, `vs` the `(gradient_index, compact dimension)` of its vertices, `ps`
    their current poses -/
def numLin {P : Type} (boxplus : P → (Nat → E) → P) (copy : P → P) (eps : E) (m : Nat) (err : List P → Nat → E)
    (info : Nat → Nat → E) (vs : List (Nat × Nat)) (ps : List P) : EdgeLin E :=
  { m := m, chi2 := chi2Of m (err ps) info, err := err ps, info := info,
    verts := (numJacobians err boxplus copy eps 0 vs ps).1 }

/-! ### typed graphs: the built-in edge classes without their analytic `calc_jacobians` -/

/-- `pose.copy()` of the vertex's class (generated) -/
def poseCopy : Pose E → Pose E
  | .r2 p => .r2 (PoseR2.copy p)
  | .r3 p => .r3 (PoseR3.copy p)
  | .se2 p => .se2 (PoseSE2.copy p)
  | .se3 p => .se3 (PoseSE3.copy p)

/-- `calc_error()` of a built-in edge as a function of the edge's own vertex list: the `err` field of what
    `Model.lineariseAt` builds from the generated `calc_error_*` (gradient indices play no role in it) -/
def edgeErr (e : Edge E) : List (Pose E) → Nat → E
  | [p0, p1] =>
    match lineariseAt 0 p0.cdim p0 p1 e with
    | some l => l.err
    | none => fun _ => Scalar.ofInt 0
  | _ => fun _ => Scalar.ofInt 0

/-- `Model.lineariseAt` with the analytic Jacobians replaced by `BaseEdge.calc_jacobians` of the same error function
    (step `eps`; the library's `_NUMERICAL_DIFFERENTIATION_EPSILON` is `1e-6`) -/
def numLineariseAt (eps : E) (g0 g1 : Nat) (p0 p1 : Pose E) (e : Edge E) : Option (EdgeLin E) :=
  (lineariseAt g0 g1 p0 p1 e).map fun l =>
    { l with verts := (numJacobians (edgeErr e) Pose.boxplus poseCopy eps 0 [(g0, p0.cdim), (g1, p1.cdim)] [p0, p1]).1 }

def numLinearise (eps : E) (s : GState E) (e : Edge E) : Option (EdgeLin E) :=
  match s[e.ends.1]?, s[e.ends.2]? with
  | some (g0, _, p0), some (g1, _, p1) => numLineariseAt eps g0 g1 p0 p1 e
  | _, _ => none

/-- `_calc_chi2_gradient_hessian` on a graph of numerically differentiated edges -/
def numSystem (h : E) (fixed : List Nat) (es : List (Edge E)) (s : GState E) : Option (E × (Nat → E) × (Nat → Nat → E)) :=
  (allSome (es.map (numLinearise h s))).map fun lins =>
    let acc := accumulate lins
    (acc.chi2, fillGradient fixed acc.g, fillHessian fixed (layoutOf s) acc.h)

/-- one iteration of `optimize` on such a graph -/
def numStep (h : E) (solve : (Nat → Nat → E) → (Nat → E) → (Nat → E)) (fixed : List Nat) (es : List (Edge E))
    (s : GState E) : Option (GState E) :=
  (numSystem h fixed es s).map fun r => applyDx Pose.boxplus fixed s (solve r.2.2 (fun i => - r.2.1 i))

/-- a whole call of `optimize` on such a graph (`h` the differentiation step, `eps` the χ² regulariser of the stopping rule) -/
def numOptimizeSolve (h tol eps : E) (maxIter : Nat) (ffp : Bool) (flags : List Bool)
    (solve : (Nat → Nat → E) → (Nat → E) → (Nat → E))
    (es : List (Edge E)) (ps : List (Pose E)) : Except CtlErr (Report E × Option (GState E) × List Bool) :=
  optimizeRunOf tol eps maxIter ffp flags (fun fixed _ => numStep h solve fixed es) es ps

end GraphSlam.Props.C16
