import GraphSlam.Props.C16.NumGraph

/-!
# C16 (a), beyond R^n — landmark edges seen from SE(2) / SE(3) poses: the Jacobian with respect to the LANDMARK is exact

`EdgeLandmark.calc_error` is `(p₀ ⊕ offset)⁻¹ ⊕ p₁ − z`: for a pose vertex `p₀ ∈ SE(2)` (`SE(3)`) and a landmark vertex
`p₁ ∈ R²` (`R³`) it is a rigid motion applied to the point `p₁`, hence **affine in the landmark** although not in the pose.
So for these mixed-type edges (store `[.se2 a, .r2 b]`, resp. `[.se3 a, .r3 b]` — two different pose classes in one edge)
the numerically differentiated Jacobian with respect to vertex 1 equals the generated analytic `calc_jacobians_SE2_1`
(`calc_jacobians_SE3_1`) exactly, for every `ε ≠ 0`; only the Jacobian with respect to the pose carries the `O(ε)` error of
`num_jacobian_accuracy`.

* `landmark_SE2_fd_1`, `landmark_SE3_fd_1` — the affine law, from the generated definitions;
* `numJacobian_landmark_SE2_1`, `numJacobian_landmark_SE3_1` — `Model.numJacobian` on the typed store.
-/

namespace GraphSlam.Props.C16
open GraphSlam GraphSlam.Gen GraphSlam.Model
set_option linter.unusedSimpArgs false
set_option linter.unusedVariables false
noncomputable section

theorem landmark_SE2_fd_1 (z : Fin 2 → ℝ) (off p0 : Fin 3 → ℝ) (p1 : Fin 2 → ℝ) (ε : ℝ) (d i : Fin 2) :
    EdgeLandmark.calc_error_SE2 z off p0 (PoseR2.iadd_boxplus p1 (vecN (unitDelta d.val ε))) i
      = EdgeLandmark.calc_error_SE2 z off p0 p1 i + ε * EdgeLandmark.calc_jacobians_SE2_1 z off p0 p1 i d := by
  fin_cases d <;> fin_cases i <;>
    simp [EdgeLandmark.calc_error_SE2, EdgeLandmark.calc_jacobians_SE2_1, PoseR2.iadd_boxplus, PoseR2.boxplus,
      PoseR2.to_compact, PoseR2.sub, PoseSE2.add_point, PoseSE2.jacobian_self_oplus_point_wrt_point,
      PoseR2.jacobian_boxplus, dotMM, finSum_two, eye, vecN, unitDelta] <;> ring

theorem landmark_SE3_fd_1 (z : Fin 3 → ℝ) (off p0 : Fin 7 → ℝ) (p1 : Fin 3 → ℝ) (ε : ℝ) (d i : Fin 3) :
    EdgeLandmark.calc_error_SE3 z off p0 (PoseR3.iadd_boxplus p1 (vecN (unitDelta d.val ε))) i
      = EdgeLandmark.calc_error_SE3 z off p0 p1 i + ε * EdgeLandmark.calc_jacobians_SE3_1 z off p0 p1 i d := by
  fin_cases d <;> fin_cases i <;>
    simp [EdgeLandmark.calc_error_SE3, EdgeLandmark.calc_jacobians_SE3_1, PoseR3.iadd_boxplus, PoseR3.boxplus,
      PoseR3.to_compact, PoseR3.sub, PoseSE3.add_point, PoseSE3.jacobian_self_oplus_point_wrt_point,
      PoseR3.jacobian_boxplus, dotMM, finSum_three, eye, vecN, unitDelta] <;> ring

/-- **SE(2) pose – R² landmark**: `_calc_jacobian(err, 2, 1)` on the store `[pose, landmark]` returns the generated analytic
    Jacobian with respect to the landmark, exactly, and restores the store -/
theorem numJacobian_landmark_SE2_1 (i j : Nat) (z : Fin 2 → ℝ) (off a : Fin 3 → ℝ) (b : Fin 2 → ℝ)
    (info : Nat → Nat → ℝ) (ε : ℝ) (hε : ε ≠ 0) :
    numJacobian (edgeErr (.lm i j (.r2 z) (.se2 off) info)) Pose.boxplus poseCopy 1 2 ε [.se2 a, .r2 b]
      = ((List.range 2).map fun d x => arrM (EdgeLandmark.calc_jacobians_SE2_1 z off a b) x d, [.se2 a, .r2 b]) := by
  apply numJacobian_of_affine _ Pose.boxplus poseCopy 1 2 ε hε [.se2 a, .r2 b] (.r2 b) rfl (poseCopy_r2 b)
  intro d hd x
  show edgeErr (.lm i j (.r2 z) (.se2 off) info) [.se2 a, Pose.boxplus (.r2 b) (unitDelta d ε)] x = _
  rw [boxplus_r2]
  show arrV (EdgeLandmark.calc_error_SE2 z off a (PoseR2.iadd_boxplus b (vecN (unitDelta d ε)))) x
    = arrV (EdgeLandmark.calc_error_SE2 z off a b) x + ε * arrM (EdgeLandmark.calc_jacobians_SE2_1 z off a b) x d
  exact arrV_affine _ _ _ ε d hd (fun i => landmark_SE2_fd_1 z off a b ε ⟨d, hd⟩ i) x

/-- **SE(3) pose – R³ landmark** -/
theorem numJacobian_landmark_SE3_1 (i j : Nat) (z : Fin 3 → ℝ) (off a : Fin 7 → ℝ) (b : Fin 3 → ℝ)
    (info : Nat → Nat → ℝ) (ε : ℝ) (hε : ε ≠ 0) :
    numJacobian (edgeErr (.lm i j (.r3 z) (.se3 off) info)) Pose.boxplus poseCopy 1 3 ε [.se3 a, .r3 b]
      = ((List.range 3).map fun d x => arrM (EdgeLandmark.calc_jacobians_SE3_1 z off a b) x d, [.se3 a, .r3 b]) := by
  apply numJacobian_of_affine _ Pose.boxplus poseCopy 1 3 ε hε [.se3 a, .r3 b] (.r3 b) rfl (poseCopy_r3 b)
  intro d hd x
  show edgeErr (.lm i j (.r3 z) (.se3 off) info) [.se3 a, Pose.boxplus (.r3 b) (unitDelta d ε)] x = _
  rw [boxplus_r3]
  show arrV (EdgeLandmark.calc_error_SE3 z off a (PoseR3.iadd_boxplus b (vecN (unitDelta d ε)))) x
    = arrV (EdgeLandmark.calc_error_SE3 z off a b) x + ε * arrM (EdgeLandmark.calc_jacobians_SE3_1 z off a b) x d
  exact arrV_affine _ _ _ ε d hd (fun i => landmark_SE3_fd_1 z off a b ε ⟨d, hd⟩ i) x

end
end GraphSlam.Props.C16
