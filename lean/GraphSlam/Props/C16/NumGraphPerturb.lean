import GraphSlam.Props.C16.Stationary
import GraphSlam.Props.C04.Minimise

/-!
# C16 (c)/(d) on the typed whole-iteration model: `numSystem` versus `Model.system` for general (non-affine) edges

`Props/C16/Perturb` and `Props/C16/Stationary` work on lists of `Model.EdgeLin` records.  Here they are attached to the typed
graph model (`Model.system`: analytic Jacobians; `C16.numSystem`: the same edges differentiated numerically), at any visited
state (`C04.StateOK`: gradient indices are the prefix sums of the block sizes — true of `initState 0 ps` and preserved by
every update):

* `numLineariseAt_shape` — the numerically differentiated record is the analytic one with only the Jacobians replaced
  (same error, χ², information, vertices, block sizes) — for every edge class and pose type;
* `numLineariseAt_jacClose_of_C2` — if the edge's generated error is `C²` along every box-plus coordinate of its two vertices
  with second derivative bounded by `M` (hypothesis `C2At` about `edgeErr e`), and the analytic Jacobians are its true
  derivatives (C01 proves this for the generated `calc_jacobians_*`), the two records are `JacClose (M h)`;
* `numSystem_perturb` — **(c)** for one iteration of a typed graph: same χ²; `|b_num[i] − b[i]|`, `|H_num[i,j] − H[i,j]|` bounded
  by the explicit constants of `dense_gradient_perturb`, `dense_hessian_perturb` at every position of the dense system;
* `numSystem_stationary` — **(d)**: where the true gradient entry vanishes the numerical one is `≤ C δ`, and conversely.

The hypothesis `hedge` ("every edge's two records are `JacClose δ`") is what `numLineariseAt_jacClose_of_C2` provides with
`δ = M h`; for R²/R³ edges it holds with `δ = 0` (`numLineariseAt_eq_R2/_R3`).
-/

namespace GraphSlam.Props.C16
open GraphSlam GraphSlam.Gen GraphSlam.Model GraphSlam.Props.C03 GraphSlam.Props.C04 GraphSlam.Props.E2E Finset
set_option linter.unusedVariables false
set_option linter.unusedSimpArgs false
noncomputable section

/-- the numerically differentiated record of a typed edge is the analytic record with its `verts` replaced by the output of
    `BaseEdge.calc_jacobians` — error, χ², information are those of `Model.lineariseAt` -/
theorem numLineariseAt_shape (h : ℝ) (g0 g1 : Nat) (p0 p1 : Pose ℝ) (e : Edge ℝ) (l : EdgeLin ℝ)
    (hl : lineariseAt g0 g1 p0 p1 e = some l) :
    numLineariseAt h g0 g1 p0 p1 e = some
      { l with verts := (numLin Pose.boxplus poseCopy h l.m (edgeErr e) l.info [(g0, p0.cdim), (g1, p1.cdim)] [p0, p1]).verts } := by
  unfold numLineariseAt
  rw [hl]
  rfl

/-- **`JacClose (M h)` for a typed edge with `C²` error** (`J` the true derivatives, which the analytic record carries) -/
theorem numLineariseAt_jacClose_of_C2 (h M : ℝ) (hh : 0 < h) (g0 g1 : Nat) (p0 p1 : Pose ℝ) (e : Edge ℝ) (l : EdgeLin ℝ)
    (hl : lineariseAt g0 g1 p0 p1 e = some l) (J : Nat → Nat → Nat → ℝ)
    (hJ : l.verts = exactVerts J 0 [(g0, p0.cdim), (g1, p1.cdim)])
    (hC2 : C2At Pose.boxplus poseCopy h M l.m (edgeErr e) [(g0, p0.cdim), (g1, p1.cdim)] [p0, p1] J) :
    ∃ l', numLineariseAt h g0 g1 p0 p1 e = some l' ∧ JacClose (M * h) l l' := by
  refine ⟨_, numLineariseAt_shape h g0 g1 p0 p1 e l hl, rfl, rfl, rfl, rfl, ?_⟩
  have := (numLin_jacClose_of_C2 Pose.boxplus poseCopy h M hh l.m (edgeErr e) l.info
    [(g0, p0.cdim), (g1, p1.cdim)] [p0, p1] J hC2).verts
  simp only [exactLin] at this
  rw [hJ]
  exact this

theorem allSome_forall2 {α β : Type} (f f' : α → Option β) (R : β → β → Prop) :
    ∀ (L : List α) (r r' : List β), (∀ x ∈ L, ∀ y y', f x = some y → f' x = some y' → R y y') →
      allSome (L.map f) = some r → allSome (L.map f') = some r' → List.Forall₂ R r r' := by
  intro L
  induction L with
  | nil =>
    intro r r' _ h h'
    simp only [List.map_nil, allSome, Option.some.injEq] at h h'
    subst h; subst h'; exact .nil
  | cons a L ih =>
    intro r r' hR h h'
    simp only [List.map_cons] at h h'
    cases ha : f a with
    | none => rw [ha] at h; simp [allSome] at h
    | some y =>
      cases ha' : f' a with
      | none => rw [ha'] at h'; simp [allSome] at h'
      | some y' =>
        rw [ha] at h; rw [ha'] at h'
        simp only [allSome, Option.map_eq_some_iff] at h h'
        obtain ⟨t, ht, rfl⟩ := h
        obtain ⟨t', ht', rfl⟩ := h'
        exact .cons (hR a (by simp) y y' ha ha') (ih t t' (fun x hx => hR x (by simp [hx])) ht ht')

/-- **(c) one iteration of a typed graph**: `numSystem` (numerical Jacobians, step `h`) against `Model.system` (analytic),
    when each edge's two records are `JacClose δ` and all analytic Jacobian entries are bounded by `G`. -/
theorem numSystem_perturb (h δ G : ℝ) (hδ : 0 ≤ δ) (hG0 : 0 ≤ G) (fixed : List Nat) (es : List (Edge ℝ)) (s : GState ℝ)
    (hs : StateOK s) (hdist : ∀ e ∈ es, e.ends.1 ≠ e.ends.2) (hsym : ∀ e ∈ es, ∀ a b, e.info a b = e.info b a)
    (lins lins' : List (EdgeLin ℝ)) (hl : allSome (es.map (linearise s)) = some lins)
    (hl' : allSome (es.map (numLinearise h s)) = some lins')
    (hedge : ∀ e ∈ es, ∀ l l', linearise s e = some l → numLinearise h s e = some l' → JacClose δ l l')
    (hG : ∀ l ∈ lins, ∀ x ∈ l.verts, ∀ a, a < l.m → ∀ t, t < x.2.1 → |x.2.2 a t| ≤ G) :
    ∃ r r', system fixed es s = some r ∧ numSystem h fixed es s = some r' ∧
      r'.1 = r.1 ∧
      (∀ u ∈ layoutOf s, ∀ k, k < u.2 →
        |r'.2.1 (u.1 + k) - r.2.1 (u.1 + k)| ≤ δ * (lins.map fun l => incid l u.1 * gradWeight l).sum) ∧
      (∀ u ∈ layoutOf s, ∀ w ∈ layoutOf s, ∀ k, k < u.2 → ∀ t, t < w.2 →
        |r'.2.2 (u.1 + k) (w.1 + t) - r.2.2 (u.1 + k) (w.1 + t)|
          ≤ (2 * δ * G + δ * δ) * (lins.map fun l => incid l u.1 * incid l w.1 * infoWeight l).sum) := by
  have hc : List.Forall₂ (JacClose δ) lins lins' := allSome_forall2 _ _ _ es lins lins' hedge hl hl'
  obtain ⟨hwf, hsy, hnd⟩ := lins_ok' s hs es hdist hsym lins hl
  refine ⟨_, _, by unfold system; rw [hl]; rfl, by unfold numSystem; rw [hl']; rfl, ?_, ?_, ?_⟩
  · exact dense_chi2_same hc
  · intro u hu k hk
    exact dense_gradient_perturb hs.layout fixed lins lins' δ hδ hc hwf u hu k hk
  · intro u hu w hw k hk t ht
    exact dense_hessian_perturb hs.layout fixed lins lins' δ G hδ hG0 hc hwf hsy hnd hG ⟨u, w, k, t, hu, hw, hk, ht⟩

/-- **(d) on a typed graph**: at any state, an entry of the true gradient that vanishes has numerical counterpart `≤ C δ`,
    and an entry of the numerical gradient that vanishes has true counterpart `≤ C δ`, `C = Σ_edges inc_e(u) · Σ_b |(eᵀΩ)_b|`
    computed from the analytic records.  In particular a fixed point of either Gauss–Newton iteration (all free gradient
    entries zero, `zero_step_iff_gradient_zero`) is a `C δ`-stationary point of the other. -/
theorem numSystem_stationary (h δ : ℝ) (hδ : 0 ≤ δ) (fixed : List Nat) (es : List (Edge ℝ)) (s : GState ℝ)
    (hs : StateOK s) (hdist : ∀ e ∈ es, e.ends.1 ≠ e.ends.2) (hsym : ∀ e ∈ es, ∀ a b, e.info a b = e.info b a)
    (lins lins' : List (EdgeLin ℝ)) (hl : allSome (es.map (linearise s)) = some lins)
    (hl' : allSome (es.map (numLinearise h s)) = some lins')
    (hedge : ∀ e ∈ es, ∀ l l', linearise s e = some l → numLinearise h s e = some l' → JacClose δ l l') :
    ∃ r r', system fixed es s = some r ∧ numSystem h fixed es s = some r' ∧
      ∀ u ∈ layoutOf s, ∀ k, k < u.2 →
        (r.2.1 (u.1 + k) = 0 → |r'.2.1 (u.1 + k)| ≤ δ * (lins.map fun l => incid l u.1 * gradWeight l).sum) ∧
        (r'.2.1 (u.1 + k) = 0 → |r.2.1 (u.1 + k)| ≤ δ * (lins.map fun l => incid l u.1 * gradWeight l).sum) := by
  have hc : List.Forall₂ (JacClose δ) lins lins' := allSome_forall2 _ _ _ es lins lins' hedge hl hl'
  obtain ⟨hwf, _, _⟩ := lins_ok' s hs es hdist hsym lins hl
  refine ⟨_, _, by unfold system; rw [hl]; rfl, by unfold numSystem; rw [hl']; rfl, ?_⟩
  intro u hu k hk
  exact ⟨gradient_num_of_stationary hs.layout fixed lins lins' δ hδ hc hwf u hu k hk,
    gradient_true_of_num_stationary hs.layout fixed lins lins' δ hδ hc hwf u hu k hk⟩

end
end GraphSlam.Props.C16
