import GraphSlam.Props.C16.C2Landmark

/-!
# C16 (c)/(d), unconditionally, for SE(2) graphs: odometry edges between SE(2) poses (and pose–landmark edges)

`Props/C16/C2Landmark` discharges the analytic hypothesis `C2At` for SE(2)-pose / R²-landmark edges.  Here the same is done
for the library's `EdgeOdometry` between two `PoseSE2` vertices (`Gen.EdgeOdometry.calc_error_SE2`, a genuinely non-affine
error whose third component is a wrapped angle), so that (c)/(d) hold for whole SE(2) graphs — odometry and landmark edges
mixed — with no analytic hypothesis left:

* `odoSE2_err0/1/2` — closed form of the generated error: `e_xy = R(θ₁−θ₀)ᵀ z_xy − R(θ₁)ᵀ (p₁ − p₀)_xy`, `e_θ = wrap(z_θ − (θ₁ − θ₀))`;
* `C2On` (the inner statement of `C2At`) with constructors `of_affine`, `of_trig2`, `of_wrap` (the wrapped angle moves affinely
  as long as it stays at distance `> ε` from the jump at `±π`);
* `odometry_SE2_C2_0/_1` — along each of the three box-plus coordinates of either vertex every error component is `C²` on
  `[0, ε]` with `|φ''| ≤ M = |z₀| + |z₁| + |Δx| + |Δy|`, and `φ'(0)` is the generated analytic Jacobian entry (identified
  through `C01.odometry_SE2_v0/_v1` and uniqueness of derivatives);
* `odometry_SE2_C2At`, `odometry_SE2_jacClose` — `C2At` on the typed store and `JacClose (M h)` between `Model.lineariseAt` and
  `C16.numLineariseAt`.  Hypotheses: both stored angles in range (C11: true of every pose the library produces) and the
  angular error at distance `> h` from the wrap (`-π + h < wrap(z_θ − (θ₁ − θ₀)) < π − h`; with `h = 1e-6` this excludes a
  `2e-6`-wide window — inside it the forward difference jumps by `2π / h`, which is the property's own caveat);
* `graph_SE2_perturb`, `graph_SE2_stationary` — (c) and (d) for SE(2) graphs whose edges are of these two kinds.
-/

namespace GraphSlam.Props.C16
open GraphSlam GraphSlam.Gen GraphSlam.Model GraphSlam.Props.C03 GraphSlam.Props.C04 GraphSlam.Props.E2E Real
set_option linter.unusedSimpArgs false
set_option linter.unusedVariables false
noncomputable section


/-- `f` is `C²` on `[0, ε]` with `|f''| ≤ M` and `j = f'(0)` — the inner statement of `C2At` -/
def C2On (ε M : ℝ) (f : ℝ → ℝ) (j : ℝ) : Prop :=
  ∃ φ' φ'' : ℝ → ℝ, (∀ t ∈ Set.Icc 0 ε, HasDerivAt f (φ' t) t) ∧ (∀ t ∈ Set.Icc 0 ε, HasDerivAt φ' (φ'' t) t) ∧
    (∀ t ∈ Set.Icc 0 ε, |φ'' t| ≤ M) ∧ j = φ' 0

theorem C2On.of_affine (ε M : ℝ) (hM : 0 ≤ M) (f : ℝ → ℝ) (j f0 c : ℝ) (hf : ∀ t, f t = f0 + t * c)
    (hJ : ∀ φ0, HasDerivAt f φ0 0 → j = φ0) : C2On ε M f j :=
  ⟨fun _ => c, fun _ => 0, fun t _ => C2_of_affine f f0 c hf t, fun t _ => hasDerivAt_const t c,
    fun t _ => by simpa using hM, hJ c (C2_of_affine f f0 c hf 0)⟩

theorem hasDerivAt_trig2 (A1 B1 α1 A2 B2 α2 K t : ℝ) :
    HasDerivAt (fun t => A1 * cos (α1 + t) + B1 * sin (α1 + t) + (A2 * cos (α2 + t) + B2 * sin (α2 + t) + K))
      (B1 * cos (α1 + t) + (-A1) * sin (α1 + t) + (B2 * cos (α2 + t) + (-A2) * sin (α2 + t) + 0)) t := by
  have h1 := hasDerivAt_trig A1 B1 0 α1 t
  have h2 := hasDerivAt_trig A2 B2 K α2 t
  have := h1.add h2
  simp only [add_zero] at this ⊢
  exact this

theorem C2On.of_trig2 (ε M : ℝ) (f : ℝ → ℝ) (j : ℝ) (A1 B1 α1 A2 B2 α2 K : ℝ)
    (hM : |A1| + |B1| + (|A2| + |B2|) ≤ M)
    (hf : f = fun t => A1 * cos (α1 + t) + B1 * sin (α1 + t) + (A2 * cos (α2 + t) + B2 * sin (α2 + t) + K))
    (hJ : ∀ φ0, HasDerivAt f φ0 0 → j = φ0) : C2On ε M f j := by
  refine ⟨fun t => B1 * cos (α1 + t) + (-A1) * sin (α1 + t) + (B2 * cos (α2 + t) + (-A2) * sin (α2 + t) + 0),
    fun t => (-A1) * cos (α1 + t) + (-B1) * sin (α1 + t) + ((-A2) * cos (α2 + t) + (-B2) * sin (α2 + t) + 0),
    fun t _ => by rw [hf]; exact hasDerivAt_trig2 A1 B1 α1 A2 B2 α2 K t,
    fun t _ => by
      have := hasDerivAt_trig2 B1 (-A1) α1 B2 (-A2) α2 0 t
      simpa using this, ?_, hJ _ (by rw [hf]; exact hasDerivAt_trig2 A1 B1 α1 A2 B2 α2 K 0)⟩
  intro t _
  refine le_trans ?_ hM
  have b : ∀ (A x : ℝ), |(-A) * cos x| ≤ |A| := fun A x => by
    rw [abs_mul, abs_neg]; exact mul_le_of_le_one_right (abs_nonneg _) (abs_cos_le_one _)
  have b' : ∀ (A x : ℝ), |(-A) * sin x| ≤ |A| := fun A x => by
    rw [abs_mul, abs_neg]; exact mul_le_of_le_one_right (abs_nonneg _) (abs_sin_le_one _)
  show |(-A1) * cos (α1 + t) + (-B1) * sin (α1 + t) + ((-A2) * cos (α2 + t) + (-B2) * sin (α2 + t) + 0)| ≤ _
  rw [add_zero]
  refine le_trans (abs_add_le _ _) (add_le_add ?_ ?_)
  · exact le_trans (abs_add_le _ _) (add_le_add (b A1 _) (b' B1 _))
  · exact le_trans (abs_add_le _ _) (add_le_add (b A2 _) (b' B2 _))

/-- the wrapped angle moves affinely while it stays strictly inside `(-π, π)` -/
theorem wrapPi_add_of_mem (c t : ℝ) (h1 : -π < wrapPi c + t) (h2 : wrapPi c + t < π) : wrapPi (c + t) = wrapPi c + t := by
  rw [← wrapPi_add_wrapPi_left, wrapPi_of_mem h1.le h2]

theorem C2On.of_wrap (ε M : ℝ) (hε : 0 ≤ ε) (hM : 0 ≤ M) (f : ℝ → ℝ) (j c σ : ℝ) (hσ : σ = 1 ∨ σ = -1)
    (hlo : -π + ε < wrapPi c) (hhi : wrapPi c + ε < π)
    (hf : f = fun t => wrapPi (c + σ * t)) (hJ : ∀ φ0, HasDerivAt f φ0 0 → j = φ0) : C2On ε M f j := by
  have key : ∀ t ∈ Set.Icc 0 ε, HasDerivAt f σ t := by
    intro t ht
    have hlin : HasDerivAt (fun t : ℝ => wrapPi c + σ * t) σ t := by
      simpa using ((hasDerivAt_id' t).const_mul σ).const_add (wrapPi c)
    apply hlin.congr_of_eventuallyEq
    rw [hf]
    rcases hσ with rfl | rfl
    · filter_upwards [Ioo_mem_nhds (a := -π - wrapPi c) (b := π - wrapPi c) (by linarith [ht.1]) (by linarith [ht.2])]
        with s hs
      simp only [one_mul]
      exact wrapPi_add_of_mem c s (by linarith [hs.1]) (by linarith [hs.2])
    · filter_upwards [Ioo_mem_nhds (a := wrapPi c - π) (b := wrapPi c + π) (by linarith [ht.1, (wrapPi_mem c).2])
        (by linarith [ht.2])] with s hs
      have e : (-1 : ℝ) * s = -s := by ring
      simp only [e]
      exact wrapPi_add_of_mem c (-s) (by linarith [hs.2]) (by linarith [hs.1])
  exact ⟨fun _ => σ, fun _ => 0, key, fun t _ => hasDerivAt_const t σ, fun t _ => by simpa using hM,
    hJ σ (key 0 ⟨le_refl _, hε⟩)⟩

theorem cos_wrapPi_sub (a b : ℝ) : cos (wrapPi a - b) = cos (a - b) := by
  rw [← cos_wrapPi (wrapPi a - b), wrapPi_sub_wrapPi_left, cos_wrapPi]
theorem sin_wrapPi_sub (a b : ℝ) : sin (wrapPi a - b) = sin (a - b) := by
  rw [← sin_wrapPi (wrapPi a - b), wrapPi_sub_wrapPi_left, sin_wrapPi]
theorem wrapPi_sub_sub_wrapPi (a b c : ℝ) : wrapPi (a - (b - wrapPi c)) = wrapPi (a - (b - c)) := by
  have e1 : a - (b - wrapPi c) = (a - b) + wrapPi c := by ring
  have e2 : a - (b - c) = (a - b) + c := by ring
  rw [e1, e2, wrapPi_add_wrapPi_right]
theorem wrapPi_sub_wrapPi_sub (a b c : ℝ) : wrapPi (a - (wrapPi b - c)) = wrapPi (a - (b - c)) := by
  have e1 : a - (wrapPi b - c) = (a + c) - wrapPi b := by ring
  have e2 : a - (b - c) = (a + c) - b := by ring
  rw [e1, e2, wrapPi_sub_wrapPi_right]

theorem odoSE2_err0 (z p0 p1 : Fin 3 → ℝ) :
    EdgeOdometry.calc_error_SE2 z p0 p1 0 = z 0 * cos (p1 2 - p0 2) + z 1 * sin (p1 2 - p0 2)
      - ((p1 0 - p0 0) * cos (p1 2) + (p1 1 - p0 1) * sin (p1 2)) := by
  simp [EdgeOdometry.calc_error_SE2, PoseSE2.to_compact, PoseSE2.sub, neg_pi_to_pi_eq, cos_wrapPi, sin_wrapPi]
  have e : p1 2 = (p1 2 - p0 2) + p0 2 := by ring
  rw [e, Real.cos_add, Real.sin_add, ← e]
  ring

theorem odoSE2_err1 (z p0 p1 : Fin 3 → ℝ) :
    EdgeOdometry.calc_error_SE2 z p0 p1 1 = -z 0 * sin (p1 2 - p0 2) + z 1 * cos (p1 2 - p0 2)
      - (-(p1 0 - p0 0) * sin (p1 2) + (p1 1 - p0 1) * cos (p1 2)) := by
  simp [EdgeOdometry.calc_error_SE2, PoseSE2.to_compact, PoseSE2.sub, neg_pi_to_pi_eq, cos_wrapPi, sin_wrapPi]
  have e : p1 2 = (p1 2 - p0 2) + p0 2 := by ring
  rw [e, Real.cos_add, Real.sin_add, ← e]
  ring

theorem odoSE2_err2 (z p0 p1 : Fin 3 → ℝ) :
    EdgeOdometry.calc_error_SE2 z p0 p1 2 = wrapPi (z 2 - (p1 2 - p0 2)) := by
  simp [EdgeOdometry.calc_error_SE2, PoseSE2.to_compact, PoseSE2.sub, neg_pi_to_pi_eq, wrapPi_sub_wrapPi_right]

/-- the bound on the second derivatives along every coordinate of either vertex of an SE(2) odometry edge -/
def odoM (z p0 p1 : Fin 3 → ℝ) : ℝ := |z 0| + |z 1| + (|p1 0 - p0 0| + |p1 1 - p0 1|)

theorem odoM_nonneg (z p0 p1 : Fin 3 → ℝ) : 0 ≤ odoM z p0 p1 := by unfold odoM; positivity

theorem odometry_SE2_C2_0 (z p0 p1 : Fin 3 → ℝ) (ε : ℝ) (hε : 0 ≤ ε)
    (hlo : -π + ε < wrapPi (z 2 - (p1 2 - p0 2))) (hhi : wrapPi (z 2 - (p1 2 - p0 2)) + ε < π) (d i : Fin 3) :
    C2On ε (odoM z p0 p1)
      (fun t => EdgeOdometry.calc_error_SE2 z (PoseSE2.iadd_boxplus p0 (vecN (unitDelta d.val t))) p1 i)
      (EdgeOdometry.calc_jacobians_SE2_0 z p0 p1 i d) := by
  have hM := odoM_nonneg z p0 p1
  have hb0 := fun t => (boxplus_coord p0 t).1
  have hb1 := fun t => (boxplus_coord p0 t).2.1
  have hb2 := fun t => (boxplus_coord p0 t).2.2
  have hoff : OffWrap (z 2 - (p1 2 - p0 2)) := (offWrap_iff _).mpr (by linarith)
  have hJ : ∀ φ0 : ℝ,
      HasDerivAt (fun t => EdgeOdometry.calc_error_SE2 z (PoseSE2.iadd_boxplus p0 (vecN (unitDelta d.val t))) p1 i) φ0 0 →
      EdgeOdometry.calc_jacobians_SE2_0 z p0 p1 i d = φ0 := by
    intro φ0 h
    have := hasDerivAt_coord (fun δ => EdgeOdometry.calc_error_SE2 z (PoseSE2.boxplus p0 δ) p1) _
      (C01.odometry_SE2_v0 z p0 p1 hoff) d i
    exact this.unique h
  fin_cases d <;> fin_cases i
  · -- d = 0, i = 0
    refine C2On.of_affine ε _ hM _ _ (EdgeOdometry.calc_error_SE2 z p0 p1 0)
      (cos (p0 2) * cos (p1 2) + sin (p0 2) * sin (p1 2)) ?_ hJ
    intro t
    simp only [Fin.zero_eta, Fin.val_zero]
    rw [odoSE2_err0, odoSE2_err0, hb0]
    simp only [add_zero, cos_sub_wrapPi, sin_sub_wrapPi]
    ring
  · -- d = 0, i = 1
    refine C2On.of_affine ε _ hM _ _ (EdgeOdometry.calc_error_SE2 z p0 p1 1)
      (-(cos (p0 2) * sin (p1 2)) + sin (p0 2) * cos (p1 2)) ?_ hJ
    intro t
    simp only [Fin.zero_eta, Fin.val_zero, Fin.mk_one]
    rw [odoSE2_err1, odoSE2_err1, hb0]
    simp only [add_zero, cos_sub_wrapPi, sin_sub_wrapPi]
    ring
  · -- d = 0, i = 2
    refine C2On.of_affine ε _ hM _ _ (EdgeOdometry.calc_error_SE2 z p0 p1 2) 0 ?_ hJ
    intro t
    simp only [Fin.zero_eta, Fin.val_zero, Fin.reduceFinMk]
    rw [odoSE2_err2, odoSE2_err2, hb0]
    simp only [add_zero, mul_zero, wrapPi_sub_sub_wrapPi]
  · -- d = 1, i = 0
    refine C2On.of_affine ε _ hM _ _ (EdgeOdometry.calc_error_SE2 z p0 p1 0)
      (-(sin (p0 2) * cos (p1 2)) + cos (p0 2) * sin (p1 2)) ?_ hJ
    intro t
    simp only [Fin.zero_eta, Fin.mk_one, Fin.val_one]
    rw [odoSE2_err0, odoSE2_err0, hb1]
    simp only [add_zero, cos_sub_wrapPi, sin_sub_wrapPi]
    ring
  · -- d = 1, i = 1
    refine C2On.of_affine ε _ hM _ _ (EdgeOdometry.calc_error_SE2 z p0 p1 1)
      (sin (p0 2) * sin (p1 2) + cos (p0 2) * cos (p1 2)) ?_ hJ
    intro t
    simp only [Fin.mk_one, Fin.val_one]
    rw [odoSE2_err1, odoSE2_err1, hb1]
    simp only [add_zero, cos_sub_wrapPi, sin_sub_wrapPi]
    ring
  · -- d = 1, i = 2
    refine C2On.of_affine ε _ hM _ _ (EdgeOdometry.calc_error_SE2 z p0 p1 2) 0 ?_ hJ
    intro t
    simp only [Fin.mk_one, Fin.val_one, Fin.reduceFinMk]
    rw [odoSE2_err2, odoSE2_err2, hb1]
    simp only [add_zero, mul_zero, wrapPi_sub_sub_wrapPi]
  · -- d = 2, i = 0
    refine C2On.of_trig2 ε _ _ _ (z 0) (-z 1) (p0 2 - p1 2) 0 0 0
      (-((p1 0 - p0 0) * cos (p1 2) + (p1 1 - p0 1) * sin (p1 2))) ?_ ?_ hJ
    · unfold odoM; simp only [abs_neg, abs_zero, add_zero]
      linarith [abs_nonneg (p1 0 - p0 0), abs_nonneg (p1 1 - p0 1)]
    · funext t
      show EdgeOdometry.calc_error_SE2 z (PoseSE2.iadd_boxplus p0 (vecN (unitDelta 2 t))) p1 0 = _
      rw [odoSE2_err0, hb2]
      simp only [cos_sub_wrapPi, sin_sub_wrapPi]
      have e : p1 2 - (p0 2 + t) = -(p0 2 - p1 2 + t) := by ring
      rw [e, Real.cos_neg, Real.sin_neg]
      ring
  · -- d = 2, i = 1
    refine C2On.of_trig2 ε _ _ _ (z 1) (z 0) (p0 2 - p1 2) 0 0 0
      (-(-(p1 0 - p0 0) * sin (p1 2) + (p1 1 - p0 1) * cos (p1 2))) ?_ ?_ hJ
    · unfold odoM; simp only [abs_zero, add_zero]
      linarith [abs_nonneg (p1 0 - p0 0), abs_nonneg (p1 1 - p0 1)]
    · funext t
      show EdgeOdometry.calc_error_SE2 z (PoseSE2.iadd_boxplus p0 (vecN (unitDelta 2 t))) p1 1 = _
      rw [odoSE2_err1, hb2]
      simp only [cos_sub_wrapPi, sin_sub_wrapPi]
      have e : p1 2 - (p0 2 + t) = -(p0 2 - p1 2 + t) := by ring
      rw [e, Real.cos_neg, Real.sin_neg]
      ring
  · -- d = 2, i = 2
    refine C2On.of_wrap ε _ hε hM _ _ (z 2 - (p1 2 - p0 2)) 1 (Or.inl rfl) hlo hhi ?_ hJ
    funext t
    show EdgeOdometry.calc_error_SE2 z (PoseSE2.iadd_boxplus p0 (vecN (unitDelta 2 t))) p1 2 = _
    rw [odoSE2_err2, hb2]
    simp only [wrapPi_sub_sub_wrapPi]
    congr 1; ring

theorem odometry_SE2_C2_1 (z p0 p1 : Fin 3 → ℝ) (ε : ℝ) (hε : 0 ≤ ε)
    (hlo : -π + ε < wrapPi (z 2 - (p1 2 - p0 2))) (hhi : wrapPi (z 2 - (p1 2 - p0 2)) + ε < π) (d i : Fin 3) :
    C2On ε (odoM z p0 p1)
      (fun t => EdgeOdometry.calc_error_SE2 z p0 (PoseSE2.iadd_boxplus p1 (vecN (unitDelta d.val t))) i)
      (EdgeOdometry.calc_jacobians_SE2_1 z p0 p1 i d) := by
  have hM := odoM_nonneg z p0 p1
  have hb0 := fun t => (boxplus_coord p1 t).1
  have hb1 := fun t => (boxplus_coord p1 t).2.1
  have hb2 := fun t => (boxplus_coord p1 t).2.2
  have hoff : OffWrap (z 2 - (p1 2 - p0 2)) := (offWrap_iff _).mpr (by linarith)
  have hJ : ∀ φ0 : ℝ,
      HasDerivAt (fun t => EdgeOdometry.calc_error_SE2 z p0 (PoseSE2.iadd_boxplus p1 (vecN (unitDelta d.val t))) i) φ0 0 →
      EdgeOdometry.calc_jacobians_SE2_1 z p0 p1 i d = φ0 := by
    intro φ0 h
    have := hasDerivAt_coord (fun δ => EdgeOdometry.calc_error_SE2 z p0 (PoseSE2.boxplus p1 δ)) _
      (C01.odometry_SE2_v1 z p0 p1 hoff) d i
    exact this.unique h
  fin_cases d <;> fin_cases i
  · -- d = 0, i = 0
    refine C2On.of_affine ε _ hM _ _ (EdgeOdometry.calc_error_SE2 z p0 p1 0)
      (-(cos (p1 2) * cos (p1 2) + sin (p1 2) * sin (p1 2))) ?_ hJ
    intro t
    simp only [Fin.zero_eta, Fin.val_zero]
    rw [odoSE2_err0, odoSE2_err0, hb0]
    simp only [add_zero, cos_wrapPi_sub, sin_wrapPi_sub, cos_wrapPi, sin_wrapPi]
    ring
  · -- d = 0, i = 1
    refine C2On.of_affine ε _ hM _ _ (EdgeOdometry.calc_error_SE2 z p0 p1 1)
      (cos (p1 2) * sin (p1 2) - sin (p1 2) * cos (p1 2)) ?_ hJ
    intro t
    simp only [Fin.zero_eta, Fin.val_zero, Fin.mk_one]
    rw [odoSE2_err1, odoSE2_err1, hb0]
    simp only [add_zero, cos_wrapPi_sub, sin_wrapPi_sub, cos_wrapPi, sin_wrapPi]
    ring
  · -- d = 0, i = 2
    refine C2On.of_affine ε _ hM _ _ (EdgeOdometry.calc_error_SE2 z p0 p1 2) 0 ?_ hJ
    intro t
    simp only [Fin.zero_eta, Fin.val_zero, Fin.reduceFinMk]
    rw [odoSE2_err2, odoSE2_err2, hb0]
    simp only [add_zero, mul_zero, wrapPi_sub_wrapPi_sub]
  · -- d = 1, i = 0
    refine C2On.of_affine ε _ hM _ _ (EdgeOdometry.calc_error_SE2 z p0 p1 0)
      (sin (p1 2) * cos (p1 2) - cos (p1 2) * sin (p1 2)) ?_ hJ
    intro t
    simp only [Fin.zero_eta, Fin.mk_one, Fin.val_one]
    rw [odoSE2_err0, odoSE2_err0, hb1]
    simp only [add_zero, cos_wrapPi_sub, sin_wrapPi_sub, cos_wrapPi, sin_wrapPi]
    ring
  · -- d = 1, i = 1
    refine C2On.of_affine ε _ hM _ _ (EdgeOdometry.calc_error_SE2 z p0 p1 1)
      (-(sin (p1 2) * sin (p1 2) + cos (p1 2) * cos (p1 2))) ?_ hJ
    intro t
    simp only [Fin.mk_one, Fin.val_one]
    rw [odoSE2_err1, odoSE2_err1, hb1]
    simp only [add_zero, cos_wrapPi_sub, sin_wrapPi_sub, cos_wrapPi, sin_wrapPi]
    ring
  · -- d = 1, i = 2
    refine C2On.of_affine ε _ hM _ _ (EdgeOdometry.calc_error_SE2 z p0 p1 2) 0 ?_ hJ
    intro t
    simp only [Fin.mk_one, Fin.val_one, Fin.reduceFinMk]
    rw [odoSE2_err2, odoSE2_err2, hb1]
    simp only [add_zero, mul_zero, wrapPi_sub_wrapPi_sub]
  · -- d = 2, i = 0
    refine C2On.of_trig2 ε _ _ _ (z 0) (z 1) (p1 2 - p0 2) (-(p1 0 - p0 0)) (-(p1 1 - p0 1)) (p1 2) 0 ?_ ?_ hJ
    · unfold odoM; simp only [abs_neg]; exact le_refl _
    · funext t
      show EdgeOdometry.calc_error_SE2 z p0 (PoseSE2.iadd_boxplus p1 (vecN (unitDelta 2 t))) 0 = _
      rw [odoSE2_err0, hb2]
      simp only [cos_wrapPi_sub, sin_wrapPi_sub, cos_wrapPi, sin_wrapPi]
      have e : p1 2 + t - p0 2 = p1 2 - p0 2 + t := by ring
      rw [e]
      ring
  · -- d = 2, i = 1
    refine C2On.of_trig2 ε _ _ _ (z 1) (-z 0) (p1 2 - p0 2) (-(p1 1 - p0 1)) (p1 0 - p0 0) (p1 2) 0 ?_ ?_ hJ
    · unfold odoM; simp only [abs_neg]
      linarith [abs_nonneg (z 0), abs_nonneg (z 1), abs_nonneg (p1 0 - p0 0), abs_nonneg (p1 1 - p0 1)]
    · funext t
      show EdgeOdometry.calc_error_SE2 z p0 (PoseSE2.iadd_boxplus p1 (vecN (unitDelta 2 t))) 1 = _
      rw [odoSE2_err1, hb2]
      simp only [cos_wrapPi_sub, sin_wrapPi_sub, cos_wrapPi, sin_wrapPi]
      have e : p1 2 + t - p0 2 = p1 2 - p0 2 + t := by ring
      rw [e]
      ring
  · -- d = 2, i = 2
    refine C2On.of_wrap ε _ hε hM _ _ (z 2 - (p1 2 - p0 2)) (-1) (Or.inr rfl) hlo hhi ?_ hJ
    funext t
    show EdgeOdometry.calc_error_SE2 z p0 (PoseSE2.iadd_boxplus p1 (vecN (unitDelta 2 t))) 2 = _
    rw [odoSE2_err2, hb2]
    simp only [wrapPi_sub_wrapPi_sub]
    congr 1; ring

/-! ### the typed store -/

/-- the Jacobians `Model.lineariseAt` stores for an SE(2) odometry edge -/
def odoSE2J (z a b : Fin 3 → ℝ) : Nat → Nat → Nat → ℝ :=
  fun k => if k = 0 then arrM (EdgeOdometry.calc_jacobians_SE2_0 z a b) else arrM (EdgeOdometry.calc_jacobians_SE2_1 z a b)

/-- **`C2At` from the generated code**: SE(2) odometry edge, `M = |z₀| + |z₁| + |Δx| + |Δy|` -/
theorem odometry_SE2_C2At (i j : Nat) (z a b : Fin 3 → ℝ) (info : Nat → Nat → ℝ) (g0 g1 : Nat) (h : ℝ) (hh : 0 ≤ h)
    (hra : C09.InRange a) (hrb : C09.InRange b)
    (hlo : -π + h < wrapPi (z 2 - (b 2 - a 2))) (hhi : wrapPi (z 2 - (b 2 - a 2)) + h < π) :
    C2At Pose.boxplus poseCopy h (odoM z a b) 3 (edgeErr (.odo i j (.se2 z) info))
      [(g0, 3), (g1, 3)] [.se2 a, .se2 b] (odoSE2J z a b) := by
  intro k g dim hk
  match k, hk with
  | 0, hk =>
    simp only [List.getElem?_cons_zero, Option.some.injEq, Prod.mk.injEq] at hk
    obtain ⟨_, rfl⟩ := hk
    refine ⟨.se2 a, rfl, by simp only [poseCopy, C09.PoseSE2_copy_eq a hra], ?_⟩
    intro d hd
    refine ⟨?_, ?_⟩
    · show [Pose.boxplus (.se2 a) (unitDelta d (0 : ℝ)), Pose.se2 b] = _
      rw [boxplus_se2, se2_boxplus_zero a hra d]
    · intro x hx
      have e : (fun t : ℝ => edgeErr (.odo i j (.se2 z) info)
            ([Pose.se2 a, Pose.se2 b].set 0 (Pose.boxplus (.se2 a) (unitDelta d t))) x)
          = fun t => EdgeOdometry.calc_error_SE2 z (PoseSE2.iadd_boxplus a (vecN (unitDelta d t))) b ⟨x, hx⟩ := by
        funext t
        show edgeErr (.odo i j (.se2 z) info) [Pose.boxplus (.se2 a) (unitDelta d t), Pose.se2 b] x = _
        rw [boxplus_se2]
        show arrV (EdgeOdometry.calc_error_SE2 z (PoseSE2.iadd_boxplus a (vecN (unitDelta d t))) b) x = _
        exact arrV_lt _ x hx
      have ej : odoSE2J z a b 0 x d = EdgeOdometry.calc_jacobians_SE2_0 z a b ⟨x, hx⟩ ⟨d, hd⟩ := by
        simp only [odoSE2J, if_true]; exact arrM_lt _ x d hx hd
      rw [e, ej]
      exact odometry_SE2_C2_0 z a b h hh hlo hhi ⟨d, hd⟩ ⟨x, hx⟩
  | 1, hk =>
    simp only [List.getElem?_cons_succ, List.getElem?_cons_zero, Option.some.injEq, Prod.mk.injEq] at hk
    obtain ⟨_, rfl⟩ := hk
    refine ⟨.se2 b, rfl, by simp only [poseCopy, C09.PoseSE2_copy_eq b hrb], ?_⟩
    intro d hd
    refine ⟨?_, ?_⟩
    · show [Pose.se2 a, Pose.boxplus (.se2 b) (unitDelta d (0 : ℝ))] = _
      rw [boxplus_se2, se2_boxplus_zero b hrb d]
    · intro x hx
      have e : (fun t : ℝ => edgeErr (.odo i j (.se2 z) info)
            ([Pose.se2 a, Pose.se2 b].set 1 (Pose.boxplus (.se2 b) (unitDelta d t))) x)
          = fun t => EdgeOdometry.calc_error_SE2 z a (PoseSE2.iadd_boxplus b (vecN (unitDelta d t))) ⟨x, hx⟩ := by
        funext t
        show edgeErr (.odo i j (.se2 z) info) [Pose.se2 a, Pose.boxplus (.se2 b) (unitDelta d t)] x = _
        rw [boxplus_se2]
        show arrV (EdgeOdometry.calc_error_SE2 z a (PoseSE2.iadd_boxplus b (vecN (unitDelta d t)))) x = _
        exact arrV_lt _ x hx
      have ej : odoSE2J z a b 1 x d = EdgeOdometry.calc_jacobians_SE2_1 z a b ⟨x, hx⟩ ⟨d, hd⟩ := by
        simp only [odoSE2J, one_ne_zero, if_false]; exact arrM_lt _ x d hx hd
      rw [e, ej]
      exact odometry_SE2_C2_1 z a b h hh hlo hhi ⟨d, hd⟩ ⟨x, hx⟩
  | k + 2, hk => simp at hk

/-- **one edge**: the numerically differentiated record of an SE(2) odometry edge is `JacClose (M h)` to the analytic one,
    `M = |z₀| + |z₁| + |Δx| + |Δy|` — from the generated code, no analytic hypothesis -/
theorem odometry_SE2_jacClose (h : ℝ) (hh : 0 < h) (i j : Nat) (z a b : Fin 3 → ℝ) (info : Nat → Nat → ℝ) (g0 g1 : Nat)
    (hra : C09.InRange a) (hrb : C09.InRange b)
    (hlo : -π + h < wrapPi (z 2 - (b 2 - a 2))) (hhi : wrapPi (z 2 - (b 2 - a 2)) + h < π) :
    ∃ l l', lineariseAt g0 g1 (.se2 a) (.se2 b) (.odo i j (.se2 z) info) = some l ∧
      numLineariseAt h g0 g1 (.se2 a) (.se2 b) (.odo i j (.se2 z) info) = some l' ∧
      JacClose (odoM z a b * h) l l' := by
  have hl : lineariseAt g0 g1 (.se2 a) (.se2 b) (.odo i j (.se2 z) info)
      = some (mkLin g0 g1 (EdgeOdometry.calc_error_SE2 z a b) info
          (EdgeOdometry.calc_jacobians_SE2_0 z a b) (EdgeOdometry.calc_jacobians_SE2_1 z a b)) := rfl
  obtain ⟨l', hl', hc⟩ := numLineariseAt_jacClose_of_C2 h (odoM z a b) hh g0 g1 (.se2 a) (.se2 b) _ _ hl
    (odoSE2J z a b) (by simp [mkLin, exactVerts, odoSE2J, truncJ_arrM, Pose.cdim])
    (odometry_SE2_C2At i j z a b info g0 g1 h hh.le hra hrb hlo hhi)
  exact ⟨_, l', hl, hl', hc⟩

/-! ### whole SE(2) graphs -/

/-- an `EdgeOdometry` between two SE(2) pose vertices of the state `s` (in-range angles), angular error at distance `> h`
    from the wrap, `|z₀| + |z₁| + |Δx| + |Δy| ≤ D` -/
def OdoSE2Edge (s : GState ℝ) (D h : ℝ) (e : Edge ℝ) : Prop :=
  ∃ (i j : Nat) (z : Fin 3 → ℝ) (info : Nat → Nat → ℝ) (g0 d0 : Nat) (a : Fin 3 → ℝ) (g1 d1 : Nat) (b : Fin 3 → ℝ),
    e = .odo i j (.se2 z) info ∧ s[i]? = some (g0, d0, .se2 a) ∧ s[j]? = some (g1, d1, .se2 b) ∧
      C09.InRange a ∧ C09.InRange b ∧ -π + h < wrapPi (z 2 - (b 2 - a 2)) ∧ wrapPi (z 2 - (b 2 - a 2)) + h < π ∧
      odoM z a b ≤ D

theorem se2_hedge (h D : ℝ) (hh : 0 < h) (s : GState ℝ) (es : List (Edge ℝ))
    (hedges : ∀ e ∈ es, OdoSE2Edge s D h e ∨ LmSE2Edge s D e) :
    ∀ e ∈ es, ∀ l l', linearise s e = some l → numLinearise h s e = some l' → JacClose (D * h) l l' := by
  intro e he l l' hl hl'
  rcases hedges e he with hodo | hlm
  · obtain ⟨i, j, z, info, g0, d0, a, g1, d1, b, rfl, hi, hj, hra, hrb, hlo, hhi, hD⟩ := hodo
    simp only [linearise, numLinearise, Edge.ends, hi, hj] at hl hl'
    obtain ⟨l0, l0', e1, e2, hc⟩ := odometry_SE2_jacClose h hh i j z a b info g0 g1 hra hrb hlo hhi
    rw [e1] at hl; rw [e2] at hl'
    simp only [Option.some.injEq] at hl hl'
    subst hl; subst hl'
    exact hc.mono (mul_le_mul_of_nonneg_right hD hh.le)
  · exact lmSE2_hedge h D hh s [e] (by intro e' he'; simp only [List.mem_singleton] at he'; subst he'; exact hlm) e
      (by simp) l l' hl hl'

/-- **(c) for SE(2) graphs, no analytic hypothesis**: at a visited state whose edges are SE(2) odometry edges (angular error
    `> h` away from the wrap) and SE(2)-pose / R²-landmark edges, with the size constants bounded by `D`: one iteration on the
    numerically differentiated graph (step `h > 0`) has the same χ², and `b`, `H` within the bounds of (c) with `δ = D h`. -/
theorem graph_SE2_perturb (h D G : ℝ) (hh : 0 < h) (hD : 0 ≤ D) (hG0 : 0 ≤ G) (fixed : List Nat)
    (es : List (Edge ℝ)) (s : GState ℝ) (hs : StateOK s) (hdist : ∀ e ∈ es, e.ends.1 ≠ e.ends.2)
    (hsym : ∀ e ∈ es, ∀ a b, e.info a b = e.info b a)
    (hedges : ∀ e ∈ es, OdoSE2Edge s D h e ∨ LmSE2Edge s D e)
    (lins : List (EdgeLin ℝ)) (hl : allSome (es.map (linearise s)) = some lins)
    (hG : ∀ l ∈ lins, ∀ x ∈ l.verts, ∀ a, a < l.m → ∀ t, t < x.2.1 → |x.2.2 a t| ≤ G) :
    ∃ r r', system fixed es s = some r ∧ numSystem h fixed es s = some r' ∧
      r'.1 = r.1 ∧
      (∀ u ∈ layoutOf s, ∀ k, k < u.2 →
        |r'.2.1 (u.1 + k) - r.2.1 (u.1 + k)| ≤ D * h * (lins.map fun l => incid l u.1 * gradWeight l).sum) ∧
      (∀ u ∈ layoutOf s, ∀ w ∈ layoutOf s, ∀ k, k < u.2 → ∀ t, t < w.2 →
        |r'.2.2 (u.1 + k) (w.1 + t) - r.2.2 (u.1 + k) (w.1 + t)|
          ≤ (2 * (D * h) * G + D * h * (D * h)) * (lins.map fun l => incid l u.1 * incid l w.1 * infoWeight l).sum) := by
  obtain ⟨lins', hl'⟩ := numLins_exist h s es lins hl
  exact numSystem_perturb h (D * h) G (mul_nonneg hD hh.le) hG0 fixed es s hs hdist hsym lins lins' hl hl'
    (se2_hedge h D hh s es hedges) hG

/-- **(d) for SE(2) graphs**: the analytic and the numerically differentiated Gauss–Newton iterations have the same
    stationary points up to `C · D · h` (`C = Σ_edges inc_e(u) · Σ_b |(eᵀΩ)_b|`, `h` the differentiation step) -/
theorem graph_SE2_stationary (h D : ℝ) (hh : 0 < h) (hD : 0 ≤ D) (fixed : List Nat)
    (es : List (Edge ℝ)) (s : GState ℝ) (hs : StateOK s) (hdist : ∀ e ∈ es, e.ends.1 ≠ e.ends.2)
    (hsym : ∀ e ∈ es, ∀ a b, e.info a b = e.info b a)
    (hedges : ∀ e ∈ es, OdoSE2Edge s D h e ∨ LmSE2Edge s D e)
    (lins : List (EdgeLin ℝ)) (hl : allSome (es.map (linearise s)) = some lins) :
    ∃ r r', system fixed es s = some r ∧ numSystem h fixed es s = some r' ∧
      ∀ u ∈ layoutOf s, ∀ k, k < u.2 →
        (r.2.1 (u.1 + k) = 0 → |r'.2.1 (u.1 + k)| ≤ D * h * (lins.map fun l => incid l u.1 * gradWeight l).sum) ∧
        (r'.2.1 (u.1 + k) = 0 → |r.2.1 (u.1 + k)| ≤ D * h * (lins.map fun l => incid l u.1 * gradWeight l).sum) := by
  obtain ⟨lins', hl'⟩ := numLins_exist h s es lins hl
  exact numSystem_stationary h (D * h) (mul_nonneg hD hh.le) fixed es s hs hdist hsym lins lins' hl hl'
    (se2_hedge h D hh s es hedges)

/-! ### non-vacuity -/

/-- two SE(2) poses `(0,0,0)`, `(1,0,0.1)`, one odometry edge with measurement `(1, 0, 0)` and identity information -/
def exOdoPs : List (Pose ℝ) := [.se2 (fun _ => 0), .se2 (fun i => match i with | 0 => 1 | 1 => 0 | 2 => 0.1)]
def exOdoEs : List (Edge ℝ) := [.odo 0 1 (.se2 (fun i => match i with | 0 => 1 | 1 => 0 | 2 => 0)) (fun a b => if a = b then 1 else 0)]

/-- every hypothesis of `graph_SE2_stationary` holds for this graph at its initial state (`h = 1e-6`, `D = 2`) -/
example : ∃ r r', system [] exOdoEs (initState 0 exOdoPs) = some r ∧ numSystem 1e-6 [] exOdoEs (initState 0 exOdoPs) = some r' ∧
    ∀ u ∈ layoutOf (initState 0 exOdoPs), ∀ k, k < u.2 →
      (r'.2.1 (u.1 + k) = 0 → |r.2.1 (u.1 + k)| ≤ 2 * 1e-6 *
        ((exOdoEs.filterMap (linearise (initState 0 exOdoPs))).map fun l => incid l u.1 * gradWeight l).sum) := by
  have hpi := Real.two_le_pi
  have hw : wrapPi ((0 : ℝ) - (0.1 - 0)) = -0.1 := by
    rw [wrapPi_of_mem] <;> norm_num <;> linarith
  have hedges : ∀ e ∈ exOdoEs, OdoSE2Edge (initState 0 exOdoPs) 2 1e-6 e ∨ LmSE2Edge (initState 0 exOdoPs) 2 e := by
    intro e he
    simp only [exOdoEs, List.mem_singleton] at he
    subst he
    refine Or.inl ⟨0, 1, _, _, 0, 3, fun _ => 0, 3, 3, fun i => match i with | 0 => 1 | 1 => 0 | 2 => 0.1,
      rfl, rfl, rfl, ?_, ?_, ?_, ?_, ?_⟩
    · constructor <;> simp <;> linarith
    · constructor <;> simp <;> linarith
    · simp only; rw [hw]; linarith
    · simp only; rw [hw]; linarith
    · simp [odoM]; norm_num
  obtain ⟨r, r', h1, h2, h3⟩ := graph_SE2_stationary 1e-6 2 (by norm_num) (by norm_num) [] exOdoEs
    (initState 0 exOdoPs) (stateOK_initState exOdoPs)
    (by intro e he; simp only [exOdoEs, List.mem_singleton] at he; subst he; simp [Edge.ends])
    (by intro e he a b; simp only [exOdoEs, List.mem_singleton] at he; subst he; simp [Edge.info, eq_comm])
    hedges _ rfl
  exact ⟨r, r', h1, h2, fun u hu k hk => (h3 u hu k hk).2⟩
