import GraphSlam.Model.NumJac
import GraphSlam.Real.Instance
import Mathlib.Analysis.Calculus.MeanValue
import Mathlib.Analysis.Calculus.Deriv.Mul
import Mathlib.Analysis.Calculus.Deriv.Add
import Mathlib.Tactic.Linarith
import Mathlib.Tactic.Ring

/-!
# C16 / C15 — numerically differentiated custom edges

* `numJacobian_spec`: `Model.numJacobian` (the line-by-line model of `BaseEdge._calc_jacobian`) returns, as column `d`,
  the forward difference `(err(p ⊞ ε e_d) − err(p)) / ε` through box-plus, for any error function (any number of vertices
  of any pose types: the store is a list of abstract poses) — **and leaves the store exactly as it found it** whenever
  `copy p = p` for the perturbed vertex (true for R², R³, SE(3) always and for SE(2) poses with an in-range angle:
  `PoseR2_copy_eq`, `PoseR3_copy_eq`, `PoseSE2_copy_eq` in C09; every pose the library itself produces is in range, C11).
* `forward_difference_error`: a forward difference with step `ε` of a function whose second derivative is bounded by `M`
  on `[0, ε]` differs from the true derivative by at most `M ε` — with `ε = 1e-6` this is "the accuracy of a 1e-6 forward
  difference".
-/

namespace GraphSlam.Props.C16
open GraphSlam GraphSlam.Model

section model
variable {E : Type} [ScalarF E] {P : Type}

/-- the forward-difference column the property describes -/
def fdCol (err : List P → Nat → E) (boxplus : P → (Nat → E) → P) (k : Nat) (eps : E) (ps : List P) (p : P) (d : Nat) :
    Nat → E :=
  fun a => ScalarF.div (err (ps.set k (boxplus p (unitDelta d eps))) a - err ps a) eps

theorem set_set_self (ps : List P) (k : Nat) (p x : P) (hk : ps[k]? = some p) : (ps.set k x).set k p = ps := by
  rw [List.set_set]
  apply List.ext_getElem?
  intro i
  by_cases hi : i = k
  · subst hi
    have hlt : i < ps.length := by
      by_contra h; rw [List.getElem?_eq_none (by omega)] at hk; exact absurd hk (by simp)
    rw [List.getElem?_set_self hlt, hk]
  · rw [List.getElem?_set_ne (Ne.symm hi)]

theorem numJacLoop_spec (err : List P → Nat → E) (boxplus : P → (Nat → E) → P) (copy : P → P) (k : Nat) (eps : E)
    (ps : List P) (p p0 : P) (hk : ps[k]? = some p) (hcopy : copy p0 = p) :
    ∀ (n d : Nat) (cols : List (Nat → E)),
      numJacLoop err boxplus copy k eps (err ps) p0 n d ps cols
        = (cols ++ (List.range' d n).map (fdCol err boxplus k eps ps p), ps) := by
  intro n
  induction n with
  | zero => intro d cols; simp [numJacLoop]
  | succ n ih =>
    intro d cols
    simp only [numJacLoop, hk, setAt, hcopy]
    rw [set_set_self ps k p _ hk, ih]
    have hcol : (fun a => ScalarF.div (err (ps.set k (boxplus p (unitDelta d eps))) a - err ps a) eps)
        = fdCol err boxplus k eps ps p d := rfl
    simp [List.range'_succ, hcol, List.append_assoc]

/-- **The numerical Jacobian is the forward difference through box-plus, and the store is restored.** -/
theorem numJacobian_spec (err : List P → Nat → E) (boxplus : P → (Nat → E) → P) (copy : P → P) (k dim : Nat) (eps : E)
    (ps : List P) (p : P) (hk : ps[k]? = some p) (hcopy : copy p = p) :
    numJacobian err boxplus copy k dim eps ps = ((List.range dim).map (fdCol err boxplus k eps ps p), ps) := by
  unfold numJacobian
  simp only [hk]
  rw [numJacLoop_spec err boxplus copy k eps ps p (copy p) hk (by rw [hcopy, hcopy]) dim 0 []]
  simp [List.range_eq_range']

/-- shape: `err.shape + (dim,)` — one column per compact coordinate -/
theorem numJacobian_shape (err : List P → Nat → E) (boxplus : P → (Nat → E) → P) (copy : P → P) (k dim : Nat) (eps : E)
    (ps : List P) (p : P) (hk : ps[k]? = some p) (hcopy : copy p = p) :
    (numJacobian err boxplus copy k dim eps ps).1.length = dim := by
  rw [numJacobian_spec err boxplus copy k dim eps ps p hk hcopy]; simp

/-- purity (C15): differentiating numerically leaves every pose exactly as it was -/
theorem numJacobian_pure (err : List P → Nat → E) (boxplus : P → (Nat → E) → P) (copy : P → P) (k dim : Nat) (eps : E)
    (ps : List P) (p : P) (hk : ps[k]? = some p) (hcopy : copy p = p) :
    (numJacobian err boxplus copy k dim eps ps).2 = ps := by
  rw [numJacobian_spec err boxplus copy k dim eps ps p hk hcopy]

end model

/-! ### accuracy of a forward difference -/

open Set in
/-- if `|f''| ≤ M` on `[0, ε]` then `|(f ε − f 0)/ε − f' 0| ≤ M ε` -/
theorem forward_difference_error (f f' f'' : ℝ → ℝ) (ε M : ℝ) (hε : 0 < ε)
    (h1 : ∀ t ∈ Icc 0 ε, HasDerivAt f (f' t) t) (h2 : ∀ t ∈ Icc 0 ε, HasDerivAt f' (f'' t) t)
    (hM : ∀ t ∈ Icc 0 ε, |f'' t| ≤ M) :
    |(f ε - f 0) / ε - f' 0| ≤ M * ε := by
  have hconv : Convex ℝ (Icc (0 : ℝ) ε) := convex_Icc 0 ε
  have h0 : (0 : ℝ) ∈ Icc 0 ε := ⟨le_refl 0, hε.le⟩
  have hεm : ε ∈ Icc 0 ε := ⟨hε.le, le_refl ε⟩
  -- first: |f' t − f' 0| ≤ M t on [0, ε]
  have hf' : ∀ t ∈ Icc 0 ε, |f' t - f' 0| ≤ M * ε := by
    intro t ht
    have := hconv.norm_image_sub_le_of_norm_hasDerivWithin_le (f := f') (f' := f'') (C := M)
      (fun x hx => (h2 x hx).hasDerivWithinAt) (fun x hx => by simpa using hM x hx) h0 ht
    simp only [Real.norm_eq_abs, sub_zero] at this
    have ht' : |t| ≤ ε := by rw [abs_of_nonneg ht.1]; exact ht.2
    have hM0 : 0 ≤ M := le_trans (abs_nonneg _) (hM 0 h0)
    calc |f' t - f' 0| ≤ M * |t| := this
      _ ≤ M * ε := mul_le_mul_of_nonneg_left ht' hM0
  -- g t = f t − t f' 0 has derivative f' t − f' 0
  have hg : ∀ t ∈ Icc 0 ε, HasDerivAt (fun t => f t - t * f' 0) (f' t - f' 0) t := by
    intro t ht
    have h3 : HasDerivAt (fun t : ℝ => t * f' 0) (1 * f' 0) t := (hasDerivAt_id t).mul_const (f' 0)
    have := (h1 t ht).sub h3
    rw [one_mul] at this
    exact this
  have key := hconv.norm_image_sub_le_of_norm_hasDerivWithin_le (f := fun t => f t - t * f' 0)
    (f' := fun t => f' t - f' 0) (C := M * ε)
    (fun x hx => (hg x hx).hasDerivWithinAt) (fun x hx => by simpa using hf' x hx) h0 hεm
  simp only [Real.norm_eq_abs, sub_zero, zero_mul] at key
  rw [abs_of_pos hε] at key
  have hdiv : (f ε - f 0) / ε - f' 0 = (f ε - ε * f' 0 - f 0) / ε := by field_simp; ring
  rw [hdiv, abs_div, abs_of_pos hε, div_le_iff₀ hε]
  linarith [key]

/-- the model's numerical Jacobian entry vs the true derivative along box-plus: if `t ↦ err(p ⊞ t·e_d)_a` is `C²` on
    `[0, ε]` with second derivative bounded by `M`, the entry is within `M ε` of the derivative at `0` -/
theorem num_jacobian_accuracy {P : Type} (err : List P → Nat → ℝ) (boxplus : P → (Nat → ℝ) → P) (k : Nat) (ε M : ℝ)
    (hε : 0 < ε) (ps : List P) (p : P) (d a : Nat) (hbox0 : ps.set k (boxplus p (unitDelta d (0 : ℝ))) = ps)
    (φ' φ'' : ℝ → ℝ)
    (h1 : ∀ t ∈ Set.Icc 0 ε, HasDerivAt (fun t => err (ps.set k (boxplus p (unitDelta d t))) a) (φ' t) t)
    (h2 : ∀ t ∈ Set.Icc 0 ε, HasDerivAt φ' (φ'' t) t) (hM : ∀ t ∈ Set.Icc 0 ε, |φ'' t| ≤ M) :
    |fdCol err boxplus k ε ps p d a - φ' 0| ≤ M * ε := by
  have := forward_difference_error (fun t => err (ps.set k (boxplus p (unitDelta d t))) a) φ' φ'' ε M hε h1 h2 hM
  simp only [hbox0] at this
  simpa [fdCol] using this

/-- non-vacuity: `f t = t²` has `f'' = 2`; the forward difference `ε` differs from `f' 0 = 0` by `ε ≤ 2 ε` -/
example : |(((1e-6 : ℝ)) ^ 2 - 0 ^ 2) / 1e-6 - 2 * 0| ≤ 2 * 1e-6 := by
  have := forward_difference_error (fun t => t ^ 2) (fun t => 2 * t) (fun _ => 2) 1e-6 2 (by norm_num)
    (fun t _ => by simpa using hasDerivAt_pow 2 t) (fun t _ => by simpa using (hasDerivAt_id t).const_mul 2)
    (fun _ _ => by norm_num)
  simpa using this

end GraphSlam.Props.C16
